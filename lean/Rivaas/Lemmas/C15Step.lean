import Rivaas.Lemmas.C15Rel
/-
Helper lemmas for C15, part 3: every handler operation preserves the coupling relation and
returns to the handler what the plain writer returns (`lemma_live_writeHeader`, `lemma_live_write`,
`lemma_live_flush`).
-/
namespace Rivaas.C15
open Rivaas.Http Rivaas.Compress


theorem lemma_und_fields (sn : Sniff) (w : CW) (p : Base) (h : UndRel sn w p) :
    w.decided = false ∧ w.headersSent = false ∧ w.restored = false ∧ w.compress = false ∧
    w.base = { live := p.live } := by
  obtain ⟨nf, _, _, _⟩ := h
  rw [nf]
  exact ⟨rfl, rfl, rfl, rfl, rfl⟩

theorem lemma_cw_write_und (sn : Sniff) (w : CW) (d : Bytes) (hd : w.decided = false) (hs : w.status ≠ 0) :
    w.write sn d =
      if w.buffer.length + d.length < w.holdBack then ({ w with buffer := w.buffer ++ d }, ⟨d.length, .ok⟩)
      else ((w.start sn (w.buffer ++ d) true).1,
            if (w.start sn (w.buffer ++ d) true).2 != .ok then ⟨0, (w.start sn (w.buffer ++ d) true).2⟩ else ⟨d.length, .ok⟩) := by
  unfold CW.write
  rw [lemma_implicitOK, lemma_cw_writeHeader_idem w 200 (Or.inr hs)]
  simp [hd]

theorem lemma_restoreTrailers_enc (w : CW) : w.restoreTrailers.enc = w.enc := by
  unfold CW.restoreTrailers
  cases w.trailers with
  | none => rfl
  | some p => rfl

theorem lemma_restoreHeader_enc (w : CW) : w.restoreHeader.enc = w.enc := by
  unfold CW.restoreHeader
  cases w.committed <;> rfl

theorem lemma_initCompression_enc (w : CW) : w.initCompression.enc = w.enc := by
  unfold CW.initCompression
  simp only
  split <;> rfl

theorem lemma_start_enc (sn : Sniff) (w : CW) (pending : Bytes) (c : Bool) :
    (w.start sn pending c).1.enc = w.enc := by
  unfold CW.start
  simp only [apply_ite Prod.fst, apply_ite CW.enc, lemma_restoreTrailers_enc, lemma_initCompression_enc,
    lemma_restoreHeader_enc, ite_self]

/-- Write in the undecided phase once a status is recorded -/
theorem lemma_und_write1 (sn : Sniff) (w : CW) (p : Base) (d : Bytes) (h : UndRel sn w p)
    (h1 : w.status ≠ 0) (henc : w.enc ≠ []) :
    (UndRel sn (w.write sn d).1 (p.write sn d).1 ∨ PasRel (w.write sn d).1 (p.write sn d).1 ∨
      CmpRel sn (w.write sn d).1 (p.write sn d).1) ∧ (w.write sn d).2 = (p.write sn d).2 ∧
      (w.write sn d).1.enc = w.enc := by
  obtain ⟨hd, _, _, _, _⟩ := lemma_und_fields sn w p h
  obtain ⟨hold, hout, hsnap⟩ := lemma_und_hold sn w p d h h1
  rw [lemma_cw_write_und sn w d hd h1, hout]
  by_cases hh : w.buffer.length + d.length < w.holdBack
  · simp only [hh, if_true]
    exact ⟨Or.inl hold, by trivial, by trivial⟩
  · simp only [hh, if_false]
    have e := lemma_start_buffer_irrel sn w (w.buffer ++ d) (w.buffer ++ d) true
    rw [← e]
    have h1' : ({ w with buffer := w.buffer ++ d } : CW).status ≠ 0 := h1
    by_cases hce : (hfirst (p.write sn d).1.snap kCE).isEmpty = true
    · obtain ⟨core, hok⟩ := lemma_start_und_cmp sn _ _ hold h1' hce henc
      simp only at core hok
      rw [hok]
      refine ⟨Or.inr (Or.inr ⟨core, ?_⟩), by simp, ?_⟩
      · intro hsent
        obtain ⟨_, _, _, st1⟩ := hold
        obtain ⟨_, _, _, _, hcm, _, hs⟩ := st1 h1'
        simp only [hsent, Bool.false_eq_true, if_false] at hs
        rw [hs.1]
        by_cases hct : hhas (p.write sn d).1.snap kCT = true
        · exact Or.inl hct
        · right
          obtain ⟨_, _, _, st1w⟩ := h
          obtain ⟨_, _, _, _, hcmw, _, _⟩ := st1w h1
          have : w.holdBack ≥ 512 := by
            unfold CW.holdBack
            rw [hcmw, ← hsnap]
            have hct' : hhas (p.write sn d).1.snap kCT = false := by simpa using hct
            simp only [hct']
            by_cases ht : w.thr < 512
            · simp [ht]
            · simp [ht]; omega
          simp only [List.length_append]
          omega
      · rw [lemma_start_enc]
    · have hce' : (hfirst (p.write sn d).1.snap kCE).isEmpty = false := by simpa using hce
      obtain ⟨pas, hok⟩ := lemma_start_und_pass sn _ _ true hold h1' (Or.inr hce')
      simp only at pas hok
      rw [hok]
      exact ⟨Or.inr (Or.inl pas), by simp, by rw [lemma_start_enc]⟩


/-- what a Write does to a base writer whose header is logically written and whose status allows a body -/
theorem lemma_base_write_cases (sn : Sniff) (p : Base) (d : Bytes) (hw : p.wrote = true)
    (hnb : noBody p.status = false) :
    (p.write sn d).2 = ⟨d.length, .ok⟩ ∧ (p.write sn d).1.body = p.body ++ d ∧
    (p.write sn d).1.wrote = true ∧ (p.write sn d).1.status = p.status ∧ (p.write sn d).1.snap = p.snap ∧
    (p.write sn d).1.panicked = p.panicked ∧
    (p.sent = true → (p.write sn d).1.sent = true ∧ (p.write sn d).1.ctype = p.ctype) ∧
    (p.sent = false →
      ((p.write sn d).1.sent = true ∧ (p.write sn d).1.ctype = ctypeFor sn p.status p.snap (p.pend ++ d)) ∨
      ((p.write sn d).1.sent = false ∧ (p.write sn d).1.pend = p.pend ++ d)) := by
  cases p with
  | mk live wrote status snap sent ctype pend body panicked =>
    simp only at hw hnb
    subst hw
    by_cases hde : d = []
    · subst hde
      simp [Base.write]
      intro h; exact Or.inr h
    · have hde' : d.isEmpty = false := by
        cases d with
        | nil => exact absurd rfl hde
        | cons x xs => rfl
      by_cases hs : sent = true
      · subst hs
        simp [Base.write, hde', hnb]
      · have hs' : sent = false := by simpa using hs
        subst hs'
        by_cases ho : pend.length + d.length > 2048
        · simp [Base.write, hde', hnb, ho, Base.emit, ctypeFor]
        · simp [Base.write, hde', hnb, ho]

theorem lemma_hfirst_cmpSnap (h : Hdrs) (T : Option Bytes) (enc : Bytes) :
    hfirst (cmpSnap h T enc) kCE = enc := by
  have hne : kCE ≠ kVary := by decide
  unfold hfirst cmpSnap
  rw [lemma_hget_hset, if_neg hne, lemma_hget_hset, if_pos rfl]

theorem lemma_ctypeFor_ce (sn : Sniff) (st : Nat) (snap : Hdrs) (chunk : Bytes)
    (h : hfirst snap kCE ≠ []) : ctypeFor sn st snap chunk = none := by
  unfold ctypeFor
  have : (hfirst snap kCE).isEmpty = false := by
    cases hh : hfirst snap kCE with
    | nil => exact absurd hh h
    | cons x xs => rfl
  simp [this]

/-- a Flush of the base writer under the middleware's compressed header block never sniffs -/
theorem lemma_cmp_base_flush (sn : Sniff) (b : Base) (snap0 : Hdrs) (T : Option Bytes) (enc : Bytes)
    (henc : enc ≠ []) (hw : b.wrote = true) (hsn : b.snap = cmpSnap snap0 T enc) (hct : b.ctype = none) :
    (b.flush sn).wrote = true ∧ (b.flush sn).status = b.status ∧ (b.flush sn).snap = b.snap ∧
    (b.flush sn).body = b.body ∧ (b.flush sn).ctype = none ∧ (b.flush sn).panicked = b.panicked := by
  cases b with
  | mk live wrote status snap sent ctype pend body panicked =>
    simp only at hw hsn hct
    subst hw; subst hct
    have hce : hfirst snap kCE ≠ [] := by rw [hsn, lemma_hfirst_cmpSnap]; exact henc
    by_cases hs : sent = true
    · simp [Base.flush, Base.emit, hs]
    · have := lemma_ctypeFor_ce sn status snap pend hce
      unfold ctypeFor at this
      simp [Base.flush, Base.emit, hs]
      simpa using this

theorem lemma_cw_write_cmp (sn : Sniff) (w : CW) (d : Bytes) (hd : w.decided = true) (hc : w.compress = true)
    (hs : w.headersSent = true) :
    w.write sn d = ({ w with evs := w.evs ++ [some d] }, ⟨d.length, .ok⟩) := by
  unfold CW.write
  rw [lemma_implicitOK, lemma_cw_writeHeader_idem w 200 (Or.inl hs)]
  simp [hd, hc]

/-- Write while compressing -/
theorem lemma_cmp_write (sn : Sniff) (w : CW) (p : Base) (d : Bytes) (h : CmpRel sn w p) :
    CmpRel sn (w.write sn d).1 (p.write sn d).1 ∧ (w.write sn d).2 = (p.write sn d).2 ∧
      (w.write sn d).1.enc = w.enc := by
  obtain ⟨core, stab⟩ := h
  obtain ⟨hd, hc, hw, nr, hs, cl, encne, bw, bst, pw, nb, bb, bct, bpn, pp, pl, T, hsnap, hT⟩ := core
  obtain ⟨o1, o2, o3, o4, o5, o6, o7, o8⟩ := lemma_base_write_cases sn p d pw nb
  rw [lemma_cw_write_cmp sn w d hd hc hs, o1]
  refine ⟨⟨⟨hd, hc, hw, nr, hs, cl, encne, bw, by simp only [bst, o4], o3, by rw [o4]; exact nb, bb, bct, bpn,
    by rw [o6]; exact pp, by simp only [lemma_plainOf_snoc_some, pl, o2], T, by rw [o5]; exact hsnap, ?_⟩, ?_⟩, rfl, rfl⟩
  · by_cases hsent : p.sent = true
    · obtain ⟨s1, s2⟩ := o7 hsent
      simp only [hsent, if_true] at hT
      simp only [s1, if_true, s2, hT]
    · have hsent' : p.sent = false := by simpa using hsent
      simp only [hsent', Bool.false_eq_true, if_false] at hT
      have hst := stab hsent'
      rcases o8 hsent' with ⟨s1, s2⟩ | ⟨s1, s2⟩
      · simp only [s1, if_true, s2]
        rw [lemma_ctypeFor_append sn p.status p.snap p.pend d hst, hT]
      · simp only [s1, Bool.false_eq_true, if_false, s2, o4, o5]
        rw [lemma_ctypeFor_append sn p.status p.snap p.pend d hst, hT]
  · intro hns
    by_cases hsent : p.sent = true
    · obtain ⟨s1, _⟩ := o7 hsent
      rw [s1] at hns; exact absurd hns (by simp)
    · have hsent' : p.sent = false := by simpa using hsent
      rcases o8 hsent' with ⟨s1, _⟩ | ⟨_, s2⟩
      · rw [s1] at hns; exact absurd hns (by simp)
      · rw [o5, s2]
        rcases stab hsent' with h | h
        · exact Or.inl h
        · right; simp only [List.length_append]; omega

theorem lemma_base_flush_cases (sn : Sniff) (p : Base) (hw : p.wrote = true) :
    (p.flush sn).wrote = true ∧ (p.flush sn).status = p.status ∧ (p.flush sn).snap = p.snap ∧
    (p.flush sn).body = p.body ∧ (p.flush sn).panicked = p.panicked ∧ (p.flush sn).sent = true ∧
    (p.flush sn).ctype = (if p.sent then p.ctype else ctypeFor sn p.status p.snap p.pend) := by
  cases p with
  | mk live wrote status snap sent ctype pend body panicked =>
    simp only at hw
    subst hw
    by_cases hs : sent = true
    · simp [Base.flush, Base.emit, hs]
    · simp [Base.flush, Base.emit, hs, ctypeFor]

/-- Flush while compressing (also right after the decision, when stability is not yet known) -/
theorem lemma_cmpcore_flush (sn : Sniff) (w : CW) (p : Base) (core : CmpCore sn w p) :
    CmpRel sn { w with evs := w.evs ++ [none], base := w.base.flush sn } (p.flush sn) := by
  obtain ⟨hd, hc, hw, nr, hs, cl, encne, bw, bst, pw, nb, bb, bct, bpn, pp, pl, T, hsnap, hT⟩ := core
  obtain ⟨f1, f2, f3, f4, f5, f6, f7⟩ := lemma_base_flush_cases sn p pw
  obtain ⟨g1, g2, g3, g4, g5, g6⟩ := lemma_cmp_base_flush sn w.base p.snap T w.enc encne bw hsnap bct
  refine ⟨⟨hd, hc, hw, nr, hs, cl, encne, g1, by simp only [g2, bst, f2], f1, by rw [f2]; exact nb,
    by simp only [g4, bb], g5, by simp only [g6, bpn], by rw [f5]; exact pp,
    by simp only [lemma_plainOf_snoc_none, pl, f4], T, by simp only [g3, hsnap, f3], ?_⟩, ?_⟩
  · simp only [f6, if_true, f7]
    by_cases hsent : p.sent = true
    · simp only [hsent, if_true] at hT ⊢; exact hT
    · have hsent' : p.sent = false := by simpa using hsent
      simp only [hsent', Bool.false_eq_true, if_false] at hT ⊢; exact hT
  · intro hns; rw [f6] at hns; exact absurd hns (by simp)

theorem lemma_cw_flush_cmp (sn : Sniff) (w : CW) (hd : w.decided = true) (hc : w.compress = true)
    (hw : w.hasWriter = true) (hs : w.headersSent = true) :
    w.flush sn = { w with evs := w.evs ++ [none], base := w.base.flush sn } := by
  unfold CW.flush
  rw [lemma_implicitOK, lemma_cw_writeHeader_idem w 200 (Or.inl hs)]
  simp [hd, hc, hw]

theorem lemma_cw_flush_pas (sn : Sniff) (w : CW) (hd : w.decided = true) (hc : w.compress = false)
    (hs : w.headersSent = true) :
    w.flush sn = { w with base := w.base.flush sn } := by
  unfold CW.flush
  rw [lemma_implicitOK, lemma_cw_writeHeader_idem w 200 (Or.inl hs)]
  simp [hd, hc]

theorem lemma_cw_write_pas (sn : Sniff) (w : CW) (d : Bytes) (hd : w.decided = true) (hc : w.compress = false)
    (hs : w.headersSent = true) :
    w.write sn d = ({ w with base := (w.base.write sn d).1 }, (w.base.write sn d).2) := by
  unfold CW.write
  rw [lemma_implicitOK, lemma_cw_writeHeader_idem w 200 (Or.inl hs)]
  simp [hd, hc]

theorem lemma_base_write_wrote (sn : Sniff) (p : Base) (d : Bytes) (hw : p.wrote = true) :
    (p.write sn d).1.wrote = true := by
  cases p with
  | mk live wrote status snap sent ctype pend body panicked =>
    simp only at hw
    subst hw
    unfold Base.write
    simp only [if_true]
    split
    · rfl
    · split
      · rfl
      · simp only
        split
        · simp [Base.emit]; split <;> rfl
        · split <;> rfl

/-- Write while passing through -/
theorem lemma_pas_write (sn : Sniff) (w : CW) (p : Base) (d : Bytes) (h : PasRel w p) :
    PasRel (w.write sn d).1 (p.write sn d).1 ∧ (w.write sn d).2 = (p.write sn d).2 ∧
      (w.write sn d).1.enc = w.enc := by
  obtain ⟨hd, hc, nr, hs, pw, rel⟩ := h
  rw [lemma_cw_write_pas sn w d hd hc hs]
  obtain ⟨r1, r2⟩ := lemma_pass_write sn w.base p d rel
  exact ⟨⟨hd, hc, nr, hs, lemma_base_write_wrote sn p d pw, r1⟩, r2, rfl⟩

/-- Flush while passing through -/
theorem lemma_pas_flush (sn : Sniff) (w : CW) (p : Base) (h : PasRel w p) :
    PasRel (w.flush sn) (p.flush sn) := by
  obtain ⟨hd, hc, nr, hs, pw, rel⟩ := h
  rw [lemma_cw_flush_pas sn w hd hc hs]
  exact ⟨hd, hc, nr, hs, (lemma_base_flush_cases sn p pw).1, lemma_pass_flush sn w.base p rel⟩

theorem lemma_cw_flush_und (sn : Sniff) (w : CW) (hd : w.decided = false) (hs : w.status ≠ 0) :
    w.flush sn =
      { (if (w.start sn w.buffer (decide (w.buffer.length ≥ w.thr))).1.compress && (w.start sn w.buffer (decide (w.buffer.length ≥ w.thr))).1.hasWriter
          then { (w.start sn w.buffer (decide (w.buffer.length ≥ w.thr))).1 with evs := (w.start sn w.buffer (decide (w.buffer.length ≥ w.thr))).1.evs ++ [none] }
          else (w.start sn w.buffer (decide (w.buffer.length ≥ w.thr))).1) with
        base := (w.start sn w.buffer (decide (w.buffer.length ≥ w.thr))).1.base.flush sn } := by
  unfold CW.flush
  rw [lemma_implicitOK, lemma_cw_writeHeader_idem w 200 (Or.inr hs)]
  simp only [hd, Bool.not_false, if_true]
  split <;> rfl

/-- Flush in the undecided phase once a status is recorded -/
theorem lemma_und_flush1 (sn : Sniff) (w : CW) (p : Base) (h : UndRel sn w p)
    (h1 : w.status ≠ 0) (henc : w.enc ≠ []) :
    (UndRel sn (w.flush sn) (p.flush sn) ∨ PasRel (w.flush sn) (p.flush sn) ∨ CmpRel sn (w.flush sn) (p.flush sn)) ∧
      (w.flush sn).enc = w.enc := by
  obtain ⟨hd, _, _, _, _⟩ := lemma_und_fields sn w p h
  rw [lemma_cw_flush_und sn w hd h1]
  by_cases hc : (decide (w.buffer.length ≥ w.thr) = true ∧ (hfirst p.snap kCE).isEmpty = true)
  · obtain ⟨hc1, hce⟩ := hc
    rw [hc1]
    obtain ⟨core, _⟩ := lemma_start_und_cmp sn w p h h1 hce henc
    have henc2 := lemma_start_enc sn w w.buffer true
    generalize (w.start sn w.buffer true).1 = w2 at core henc2 ⊢
    have e : (w2.compress && w2.hasWriter) = true := by rw [core.c, core.hw]; rfl
    rw [if_pos e]
    exact ⟨Or.inr (Or.inr (lemma_cmpcore_flush sn w2 p core)), henc2⟩
  · have hc' : decide (w.buffer.length ≥ w.thr) = false ∨ (hfirst p.snap kCE).isEmpty = false := by
      by_cases h1 : decide (w.buffer.length ≥ w.thr) = true
      · right
        by_cases h2 : (hfirst p.snap kCE).isEmpty = true
        · exact absurd ⟨h1, h2⟩ hc
        · simpa using h2
      · left; simpa using h1
    obtain ⟨pas, _⟩ := lemma_start_und_pass sn w p _ h h1 hc'
    have henc2 := lemma_start_enc sn w w.buffer (decide (w.buffer.length ≥ w.thr))
    generalize (w.start sn w.buffer (decide (w.buffer.length ≥ w.thr))).1 = w2 at pas henc2 ⊢
    obtain ⟨pd, pc, pnr, phs, ppw, prel⟩ := pas
    have e : ¬ ((w2.compress && w2.hasWriter) = true) := by rw [pc]; simp
    rw [if_neg e]
    exact ⟨Or.inr (Or.inl ⟨pd, pc, pnr, phs, (lemma_base_flush_cases sn p ppw).1, lemma_pass_flush sn _ p prel⟩), henc2⟩

/-- the writer is installed (no restore yet) and coupled to the plain run -/
def Live (sn : Sniff) (w : CW) (p : Base) : Prop :=
  (UndRel sn w p ∨ PasRel w p ∨ CmpRel sn w p) ∧ w.enc ≠ []

/-- nothing of a body has been seen yet -/
def NoBodyYet (w : CW) : Prop := w.compress = false ∧ (w.decided = false → w.buffer = [])

theorem lemma_writeHeader_enc (w : CW) (c : Nat) : (w.writeHeader c).enc = w.enc := by
  unfold CW.writeHeader
  split
  · rfl
  · split
    · rfl
    · simp only
      split <;> rfl

theorem lemma_cw_writeHeader_200_status (w : CW) :
    (w.writeHeader 200).headersSent = true ∨ (w.writeHeader 200).status ≠ 0 := by
  unfold CW.writeHeader
  by_cases h : (w.headersSent || w.status != 0) = true
  · simp only [h, if_true]
    simp only [Bool.or_eq_true, bne_iff_ne] at h
    exact h
  · simp only [h]
    have : informational 200 = false := by decide
    simp only [this, Bool.false_eq_true, if_false]
    split
    · exact Or.inl rfl
    · exact Or.inr (by simp)

theorem lemma_cw_write_norm (sn : Sniff) (w : CW) (d : Bytes) :
    w.write sn d = (w.writeHeader 200).write sn d := by
  have h := lemma_cw_writeHeader_200_status w
  conv => rhs; unfold CW.write
  rw [lemma_implicitOK, lemma_cw_writeHeader_idem (w.writeHeader 200) 200 h]
  conv => lhs; unfold CW.write
  rw [lemma_implicitOK]

theorem lemma_cw_flush_norm (sn : Sniff) (w : CW) :
    w.flush sn = (w.writeHeader 200).flush sn := by
  have h := lemma_cw_writeHeader_200_status w
  conv => rhs; unfold CW.flush
  rw [lemma_implicitOK, lemma_cw_writeHeader_idem (w.writeHeader 200) 200 h]
  conv => lhs; unfold CW.flush
  rw [lemma_implicitOK]

theorem lemma_live_writeHeader (sn : Sniff) (w : CW) (p : Base) (c : Nat) (hc : validC c) (h : Live sn w p) :
    Live sn (w.writeHeader c) (p.writeHeader c) ∧
    (informational c = false → UndRel sn (w.writeHeader c) (p.writeHeader c) → (w.writeHeader c).status ≠ 0) ∧
    (NoBodyYet w → NoBodyYet (w.writeHeader c)) := by
  obtain ⟨hrel, henc⟩ := h
  have henc' : (w.writeHeader c).enc ≠ [] := by rw [lemma_writeHeader_enc]; exact henc
  rcases hrel with hu | hp | hcm
  · by_cases h0 : w.status = 0
    · rcases lemma_und_writeHeader0 sn w p c hu h0 hc with ⟨hu', hb, hst⟩ | hp'
      · refine ⟨⟨Or.inl hu', henc'⟩, fun hi _ => hst hi, ?_⟩
        intro ⟨_, nb2⟩
        obtain ⟨d', _, _, c', _⟩ := lemma_und_fields sn _ _ hu'
        exact ⟨c', fun _ => by rw [hb]; exact nb2 (lemma_und_fields sn w p hu).1⟩
      · refine ⟨⟨Or.inr (Or.inl hp'), henc'⟩, ?_, ?_⟩
        · intro _ hu'
          have := (lemma_und_fields sn _ _ hu').1
          rw [hp'.d] at this; exact absurd this (by simp)
        · intro _
          exact ⟨hp'.c, fun hd => by rw [hp'.d] at hd; exact absurd hd (by simp)⟩
    · have e1 : w.writeHeader c = w := lemma_cw_writeHeader_idem w c (Or.inr h0)
      have e2 : p.writeHeader c = p := lemma_writeHeader_wrote p (hu.st1 h0).1 c
      rw [e1, e2]
      exact ⟨⟨Or.inl hu, henc⟩, fun _ _ => h0, fun h => h⟩
  · have e1 : w.writeHeader c = w := lemma_cw_writeHeader_idem w c (Or.inl hp.hs)
    have e2 : p.writeHeader c = p := lemma_writeHeader_wrote p hp.pw c
    rw [e1, e2]
    refine ⟨⟨Or.inr (Or.inl hp), henc⟩, ?_, fun h => h⟩
    intro _ hu'
    have := (lemma_und_fields sn _ _ hu').1
    rw [hp.d] at this; exact absurd this (by simp)
  · have e1 : w.writeHeader c = w := lemma_cw_writeHeader_idem w c (Or.inl hcm.1.hs)
    have e2 : p.writeHeader c = p := lemma_writeHeader_wrote p hcm.1.pw c
    rw [e1, e2]
    refine ⟨⟨Or.inr (Or.inr hcm), henc⟩, ?_, fun h => h⟩
    intro _ hu'
    have := (lemma_und_fields sn _ _ hu').1
    rw [hcm.1.d] at this; exact absurd this (by simp)

theorem lemma_validC_200 : validC 200 := by
  constructor
  · decide
  · decide

/-- Write, in any phase before a restore -/
theorem lemma_live_write (sn : Sniff) (w : CW) (p : Base) (d : Bytes) (h : Live sn w p) :
    Live sn (w.write sn d).1 (p.write sn d).1 ∧ (w.write sn d).2 = (p.write sn d).2 := by
  obtain ⟨⟨hrel, henc⟩, hst, _⟩ := lemma_live_writeHeader sn w p 200 lemma_validC_200 h
  rw [lemma_cw_write_norm, lemma_base_write_norm]
  generalize w.writeHeader 200 = w' at hrel henc hst ⊢
  generalize p.writeHeader 200 = p' at hrel hst ⊢
  rcases hrel with hu | hp | hcm
  · have h1 := hst (by decide) hu
    obtain ⟨r, o, e⟩ := lemma_und_write1 sn w' p' d hu h1 henc
    exact ⟨⟨r, by rw [e]; exact henc⟩, o⟩
  · obtain ⟨r, o, e⟩ := lemma_pas_write sn w' p' d hp
    exact ⟨⟨Or.inr (Or.inl r), by rw [e]; exact henc⟩, o⟩
  · obtain ⟨r, o, e⟩ := lemma_cmp_write sn w' p' d hcm
    exact ⟨⟨Or.inr (Or.inr r), by rw [e]; exact henc⟩, o⟩

/-- Flush, in any phase before a restore -/
theorem lemma_live_flush (sn : Sniff) (w : CW) (p : Base) (h : Live sn w p) :
    Live sn (w.flush sn) (p.flush sn) := by
  obtain ⟨⟨hrel, henc⟩, hst, _⟩ := lemma_live_writeHeader sn w p 200 lemma_validC_200 h
  rw [lemma_cw_flush_norm, lemma_base_flush_norm]
  generalize w.writeHeader 200 = w' at hrel henc hst ⊢
  generalize p.writeHeader 200 = p' at hrel hst ⊢
  rcases hrel with hu | hp | hcm
  · have h1 := hst (by decide) hu
    obtain ⟨r, e⟩ := lemma_und_flush1 sn w' p' hu h1 henc
    exact ⟨r, by rw [e]; exact henc⟩
  · have r := lemma_pas_flush sn w' p' hp
    refine ⟨Or.inr (Or.inl r), ?_⟩
    rw [lemma_cw_flush_pas sn w' hp.d hp.c hp.hs]; exact henc
  · have r := lemma_cmpcore_flush sn w' p' hcm.1
    rw [lemma_cw_flush_cmp sn w' hcm.1.d hcm.1.c hcm.1.hw hcm.1.hs]
    exact ⟨Or.inr (Or.inr r), henc⟩

end Rivaas.C15
