import Rivaas.Lemmas.CompilerStage2
/-
C11, stage 1: the compiler's static table (hash map + bloom filter) answers with the route the tree
engine serves.
-/
namespace Rivaas.CompilerL
open Rivaas.Route Rivaas.Radix Rivaas.Compiler Rivaas.Match Rivaas.MatchL Rivaas.RadixL Rivaas.C01

theorem mapGet_mapDel_some {α} (k k' : Nat) (l : List (Nat × α)) (v : α) (h : mapGet k (mapDel k' l) = some v) :
    (mapGet k l).isSome = true := by
  induction l with
  | nil => simp [mapDel, mapGet] at h
  | cons a rest ih =>
    obtain ⟨ka, va⟩ := a
    simp only [mapDel] at h
    by_cases hk : ka = k'
    · simp only [hk, if_true] at h
      simp only [mapGet]
      by_cases hkk : ka = k
      · simp [hkk]
      · rw [hk] at hkk
        simp only [hk, hkk, if_false]
        rw [h]; rfl
    · simp only [hk, if_false, mapGet] at h ⊢
      by_cases hkk : ka = k
      · simp [hkk]
      · simp only [hkk, if_false] at h ⊢
        exact ih h

/-- `(C r).isStatic` is "the pattern has no parameter and no wildcard" -/
theorem C_static_iff (r : Route) (hn : NormalPat r.text r.pat) :
    (C r).isStatic = isStaticPat r.pat := by
  by_cases hpe : r.pat = []
  · unfold C; rw [compileRoute_root r hn hpe, hpe]; rfl
  · cases hw : endsWild r.pat with
    | true =>
      have := (compileRoute_wild r hn hpe hw).1
      unfold C; rw [this]
      have hsp := pat_split r.pat
      rw [hw] at hsp
      simp only [if_true] at hsp
      rw [hsp]
      simp [isStaticPat, kind]
    | false =>
      unfold C
      rw [compileRoute_dyn r hn hpe hw]
      simp only
      have hpok := normal_patOK _ _ hn
      unfold patOK at hpok
      have hbody : bodyOf r.pat = r.pat := by simp [bodyOf, hw]
      rw [hbody] at hpok
      exact analyse_params_empty r.cons r.pat hpok 0

/-- a standard method text and a `/`-led text are recovered from their concatenation -/
theorem std_noslash : ∀ x ∈ stdMethods, '/' ∉ x := by decide

theorem append_inj_noslash (m m' t t' : Bytes) (hm : '/' ∉ m) (hm' : '/' ∉ m')
    (ht : t.head? = some '/') (ht' : t'.head? = some '/') (h : m ++ t = m' ++ t') : m = m' ∧ t = t' := by
  have htw : ∀ (x s : Bytes), '/' ∉ x → s.head? = some '/' → (x ++ s).takeWhile (· ≠ '/') = x := by
    intro x s hx hs
    induction x with
    | nil =>
      cases s with
      | nil => simp at hs
      | cons c cs => simp only [List.head?_cons, Option.some.injEq] at hs; subst hs; simp
    | cons c cs ih =>
      simp only [List.mem_cons, not_or] at hx
      have hc : c ≠ '/' := fun e => hx.1 e.symm
      have := ih hx.2
      simp only [List.cons_append, List.takeWhile_cons, ne_eq, hc, not_false_eq_true, decide_true, if_true]
      rw [this]
  have h1 := htw m t hm ht
  have h2 := htw m' t' hm' ht'
  rw [h] at h1
  have hmm : m = m' := by rw [← h1, h2]
  subst hmm
  exact ⟨rfl, List.append_cancel_left h⟩


/-! ### the compiler's static table after a registration sequence -/

theorem lastSome_append {α β} (f : α → Option β) (l1 l2 : List α) :
    RadixL.lastSome f (l1 ++ l2) = (RadixL.lastSome f l2 <|> RadixL.lastSome f l1) := by
  induction l1 with
  | nil => simp [RadixL.lastSome]
  | cons a rest ih =>
    simp only [List.cons_append, RadixL.lastSome, ih]
    cases RadixL.lastSome f l2 <;> simp

/-- what the static table answers under the hash `h0` -/
def statAns (hash : Bytes → Nat) (h0 : Nat) (r : Route) : Option CRoute :=
  if (C r).isStatic = true ∧ hash (r.method ++ r.text) = h0 then some (C r) else none

structure StatInv (hash : Bytes → Nat) (h0 : Nat) (Rp : List Route) (rc : RC) : Prop where
  get : mapGet h0 rc.staticRoutes = RadixL.lastSome (statAns hash h0) Rp
  bloom : ∀ h, (mapGet h rc.staticRoutes).isSome = true → Bloom.has rc.staticBloom h

/-- the routes the static stage reasons about: of the vocabulary, standard methods, and `pat` is the
parse of `text` -/
def StatR (R : List Route) : Prop :=
  ∀ r ∈ R, NormalPat r.text r.pat ∧ r.method ∈ stdMethods ∧ parsePattern r.text = some r.pat

theorem stat_step (hash : Bytes → Nat) (h0 : Nat) (R Rp : List Route) (rc : RC) (r : Route)
    (hR : StatR R) (hsub : ∀ x ∈ Rp, x ∈ R) (hr : r ∈ R)
    (hinj : InjOn hash (R.map fun r => r.method ++ r.text))
    (hinv : StatInv hash h0 Rp rc) : StatInv hash h0 (Rp ++ [r]) (rcRegisterR hash rc r) := by
  obtain ⟨hn, hm, hpp⟩ := hR r hr
  obtain ⟨hmeth, hpatt, _⟩ := C_meta r hn
  have hkey : hash ((C r).method ++ (C r).pattern) = hash (r.method ++ r.text) := by rw [hmeth, hpatt]
  have hmap : (rcRegisterR hash rc r).staticRoutes =
      if (C r).isStatic then mapSet (hash (r.method ++ r.text)) (C r) (mapDel (hash (r.method ++ r.text)) rc.staticRoutes)
      else mapDel (hash (r.method ++ r.text)) rc.staticRoutes := by
    unfold rcRegisterR RC.add RC.remove
    split
    · simp [hkey]
    · split <;> simp
  have hbl : (rcRegisterR hash rc r).staticBloom =
      if (C r).isStatic then rc.staticBloom.add (hash (r.method ++ r.text)) else rc.staticBloom := by
    unfold rcRegisterR RC.add RC.remove
    split
    · simp [hkey]
    · split <;> simp
  constructor
  · rw [hmap, lastSome_append]
    simp only [RadixL.lastSome, statAns]
    by_cases hst : (C r).isStatic = true
    · simp only [hst, if_true, mapGet_mapSet, true_and]
      by_cases hk : h0 = hash (r.method ++ r.text)
      · simp [hk]
      · have hk' : ¬ hash (r.method ++ r.text) = h0 := fun e => hk e.symm
        simp only [hk, if_false, hk']
        rw [mapGet_mapDel_ne _ _ _ hk, hinv.get]
        simp [statAns]
    · simp only [hst, Bool.false_eq_true, if_false, false_and]
      by_cases hk : h0 = hash (r.method ++ r.text)
      · -- no static route registered so far answers under this hash
        have hnone : RadixL.lastSome (statAns hash h0) Rp = none := by
          apply RadixL.lastSome_none
          intro r' hr'
          unfold statAns
          by_cases hc : (C r').isStatic = true ∧ hash (r'.method ++ r'.text) = h0
          · exfalso
            obtain ⟨hn', hm', hpp'⟩ := hR r' (hsub r' hr')
            have heq := hinj (r'.method ++ r'.text) (List.mem_map.mpr ⟨r', hsub r' hr', rfl⟩)
              (r.method ++ r.text) (List.mem_map.mpr ⟨r, hr, rfl⟩) (by rw [hc.2, hk])
            have hhead : ∀ (x : Route), NormalPat x.text x.pat → x.text.head? = some '/' := by
              intro x hx; rw [hx.text]; rfl
            obtain ⟨_, htx⟩ := append_inj_noslash _ _ _ _ (std_noslash _ hm') (std_noslash _ hm) (hhead r' hn') (hhead r hn) heq
            have hpat : r'.pat = r.pat := by
              rw [htx] at hpp'
              rw [hpp] at hpp'
              injection hpp' with hpp'
              exact hpp'.symm
            have h1 := C_static_iff r' hn'
            have h2 := C_static_iff r hn
            rw [hpat] at h1
            rw [h1, ← h2] at hc
            exact hst hc.1
          · simp [hc]
        have hnone' : mapGet h0 rc.staticRoutes = none := by rw [hinv.get, hnone]
        have : mapGet h0 (mapDel (hash (r.method ++ r.text)) rc.staticRoutes) = none := by
          cases hg : mapGet h0 (mapDel (hash (r.method ++ r.text)) rc.staticRoutes) with
          | none => rfl
          | some v =>
            have := mapGet_mapDel_some _ _ _ _ hg
            rw [hnone'] at this; simp at this
        rw [this, hnone]
        rfl
      · rw [mapGet_mapDel_ne _ _ _ hk, hinv.get]
        simp [statAns]
  · intro h hh
    rw [hmap] at hh
    rw [hbl]
    by_cases hst : (C r).isStatic = true
    · simp only [hst, if_true] at hh ⊢
      rw [mapGet_mapSet] at hh
      by_cases hk : h = hash (r.method ++ r.text)
      · subst hk; exact Bloom.has_add_self _ _
      · simp only [hk, if_false] at hh
        apply Bloom.has_add_mono
        cases hg : mapGet h (mapDel (hash (r.method ++ r.text)) rc.staticRoutes) with
        | none => rw [hg] at hh; simp at hh
        | some v => exact hinv.bloom h (mapGet_mapDel_some _ _ _ _ hg)
    · simp only [hst, Bool.false_eq_true, if_false] at hh ⊢
      cases hg : mapGet h (mapDel (hash (r.method ++ r.text)) rc.staticRoutes) with
      | none => rw [hg] at hh; simp at hh
      | some v => exact hinv.bloom h (mapGet_mapDel_some _ _ _ _ hg)

theorem stat_fold (hash : Bytes → Nat) (h0 : Nat) (R : List Route) (hR : StatR R)
    (hinj : InjOn hash (R.map fun r => r.method ++ r.text)) :
    ∀ (Rs Rp : List Route) (rc : RC), (∀ x ∈ Rp, x ∈ R) → (∀ x ∈ Rs, x ∈ R) → StatInv hash h0 Rp rc →
      StatInv hash h0 (Rp ++ Rs) (Rs.foldl (rcRegisterR hash) rc) := by
  intro Rs
  induction Rs with
  | nil => intro Rp rc _ _ h; simpa using h
  | cons r rest ih =>
    intro Rp rc hp hs hinv
    simp only [List.foldl_cons]
    have := ih (Rp ++ [r]) (rcRegisterR hash rc r)
      (by intro x hx; simp only [List.mem_append, List.mem_singleton] at hx; rcases hx with hx | rfl
          · exact hp x hx
          · exact hs _ (List.mem_cons_self ..))
      (fun x hx => hs x (List.mem_cons_of_mem _ hx))
      (stat_step hash h0 R Rp rc r hR hp (hs r (List.mem_cons_self ..)) hinj hinv)
    simpa using this

/-- **the static stage of the compiler is a table lookup by (method, text)**: the bloom filter and the
ten-entry threshold are invisible -/
theorem lookupStatic_eq (hash : Bytes → Nat) (script : List Reg) (R : List Route) (hRs : specRoutes script = some R)
    (hR : StatR R) (hinj : InjOn hash (R.map fun r => r.method ++ r.text)) (m path : Bytes) :
    (rcBuild hash script).lookupStatic hash m path =
      RadixL.lastSome (statAns hash (hash (m ++ path))) R := by
  have hinv := stat_fold hash (hash (m ++ path)) R hR hinj R [] RC.empty (by simp) (fun x hx => hx)
    ⟨by simp [RC.empty, mapGet, RadixL.lastSome], by intro h hh; simp [RC.empty, mapGet] at hh⟩
  simp only [List.nil_append] at hinv
  unfold rcBuild
  rw [rcBuildFrom_eq hash script 0 R hRs]
  generalize R.foldl (rcRegisterR hash) RC.empty = rc at hinv
  unfold RC.lookupStatic RC.freeze
  simp only
  rw [← hinv.get]
  by_cases he : rc.staticRoutes.isEmpty = true
  · have : rc.staticRoutes = [] := List.isEmpty_iff.mp he
    simp [he, this, mapGet]
  · simp only [he, Bool.not_false, Bool.not_true, Bool.false_eq_true, if_false]
    split
    · rfl
    · cases hm : mapGet (hash (m ++ path)) rc.staticRoutes with
      | none => split <;> rfl
      | some v =>
        have := Bloom.test_of_has _ _ (hinv.bloom _ (by rw [hm]; rfl))
        simp [this]


/-- a parameter-free route of the vocabulary matches the path exactly when its text is the path -/
theorem static_match_text (r : Route) (hn : NormalPat r.text r.pat) (hs : isStaticPat r.pat = true)
    (path : Bytes) (hp : path.head? = some '/') :
    r.text = path ↔ (matchPat (cutAny path).trail r.pat (cutAny path).segs).isSome = true := by
  by_cases hpe : r.pat = []
  · have ht : r.text = ['/'] := by rw [hn.text, hpe]; rfl
    rw [ht, hpe]
    constructor
    · intro h; rw [← h]; rfl
    · intro h
      by_cases hroot : path = ['/']
      · exact hroot.symm
      · exfalso
        have hne := cutAny_segs_ne path hp hroot
        cases hcs : (cutAny path).segs with
        | nil => exact hne hcs
        | cons x xs => rw [hcs] at h; simp [matchPat] at h
  · exact static_text_iff r hn hs hpe path hp

/-- **Stage 1 of the compiled engine.** When the compiler's static table answers, it answers with the
route the tree engine serves — for every bloom configuration, without any guard on the route set. -/
theorem stage1_eq (hash : Bytes → Nat) (sat : Nat → Bytes → Bool) (noRoute : Bool) (script : List Reg) (R : List Route)
    (hRs : specRoutes script = some R) (hN : normal R = true) (hR : StatR R)
    (hstd : ∀ g ∈ script, g.method ∈ stdMethods) (req : Req) (hp : req.path.head? = some '/')
    (hmeth : '/' ∉ req.method)
    (hinj : InjOn hash ((req.method ++ req.path) :: R.map fun r => r.method ++ r.text))
    (hOw : dReplaced1 sat R req.method (cutAny req.path) = false)
    (cr : CRoute) (h : (rcBuild hash script).lookupStatic hash req.method req.path = some cr) :
    servedStatic cr req = serve sat (build noRoute script) req := by
  have hinjR : InjOn hash (R.map fun r => r.method ++ r.text) := by
    intro a ha b hb hab
    exact hinj a (List.mem_cons_of_mem _ ha) b (List.mem_cons_of_mem _ hb) hab
  rw [lookupStatic_eq hash script R hRs hR hinjR] at h
  have hNR := lemma_normalR R hN
  -- the last static route answering under the hash
  have hne : R.filter (fun r => (statAns hash (hash (req.method ++ req.path)) r).isSome) ≠ [] := by
    intro e0
    have : RadixL.lastSome (statAns hash (hash (req.method ++ req.path))) R = none := by
      apply RadixL.lastSome_none
      intro a ha
      cases hs : statAns hash (hash (req.method ++ req.path)) a with
      | none => rfl
      | some v =>
        have : a ∈ R.filter (fun r => (statAns hash (hash (req.method ++ req.path)) r).isSome) :=
          List.mem_filter.mpr ⟨ha, by rw [hs]; rfl⟩
        rw [e0] at this; simp at this
    rw [this] at h; cases h
  obtain ⟨R1, ρ, R2, hsplit, hρP, hR2⟩ := last_sat _ R hne
  have hρR : ρ ∈ R := by rw [hsplit]; simp
  obtain ⟨hn, hmstd, _⟩ := hR ρ hρR
  have hρans : statAns hash (hash (req.method ++ req.path)) ρ = some (C ρ) := by
    unfold statAns at hρP ⊢
    split
    · rfl
    · rename_i hc; simp [hc] at hρP
  have hcr : cr = C ρ := by
    rw [hsplit, RadixL.lastSome_suff _ R1 R2 ρ (C ρ) hρans] at h
    · injection h with h; exact h.symm
    · intro c hc
      have := hR2 c hc
      cases hs : statAns hash (hash (req.method ++ req.path)) c with
      | none => rfl
      | some v => rw [hs] at this; simp at this
  have hρc : (C ρ).isStatic = true ∧ hash (ρ.method ++ ρ.text) = hash (req.method ++ req.path) := by
    unfold statAns at hρans
    split at hρans
    · rename_i hc; exact hc
    · cases hρans
  have hhead : ρ.text.head? = some '/' := by rw [hn.text]; rfl
  have heq := hinj (ρ.method ++ ρ.text) (List.mem_cons_of_mem _ (List.mem_map.mpr ⟨ρ, hρR, rfl⟩))
    (req.method ++ req.path) (List.mem_cons_self ..) hρc.2
  obtain ⟨hρm, hρt⟩ := append_inj_noslash _ _ _ _ (std_noslash _ hmstd) hmeth hhead hp heq
  have hρs : isStaticPat ρ.pat = true := by rw [← C_static_iff ρ hn]; exact hρc.1
  have hρmatch := (static_match_text ρ hn hρs req.path hp).mp hρt
  have hρrm := routeMatch_static sat ρ (hNR ρ hρR).2 hρs (cutAny req.path) hρmatch
  -- the reference choice is ρ
  have hsh : staticHit R req.method (cutAny req.path) = true := by
    simp only [staticHit, List.any_eq_true, decide_eq_true_eq]
    exact ⟨ρ, hρR, hρm, hρs, hρmatch⟩
  have href : refRoute sat R req.method (cutAny req.path) = some ρ := by
    unfold refRoute cands
    rw [hsplit, List.filter_append, List.filter_cons]
    simp only [hρm, hρrm, Option.isSome_some, decide_true, and_self, if_true]
    apply MatchL.pick_suff
    · intro c hc; cases hc
    · intro c _; exact better_static_left _ _ hρs
    · intro c hc
      have hc' := List.mem_filter.mp hc
      simp only [decide_eq_true_eq] at hc'
      obtain ⟨hcR2, hcm, hcrm⟩ := hc'
      have hcR : c ∈ R := by rw [hsplit]; simp [hcR2]
      have hcmatch := routeMatch_isSome_match sat c _ hcrm
      have hcns : isStaticPat c.pat = false := by
        cases hcs : isStaticPat c.pat with
        | false => rfl
        | true =>
          exfalso
          obtain ⟨hnc, _, _⟩ := hR c hcR
          have hctx := (static_match_text c hnc hcs req.path hp).mpr hcmatch
          have := hR2 c hcR2
          have hans : statAns hash (hash (req.method ++ req.path)) c = some (C c) := by
            unfold statAns
            rw [if_pos ⟨by rw [C_static_iff c hnc]; exact hcs, by rw [hcm, hctx]⟩]
          rw [hans] at this; simp at this
      exact better_static_dyn _ _ _ _ hρs hcns hρmatch hcmatch
  have hlook := lemma_lookupM sat noRoute script R hRs hN hstd req.method req.path hp hOw
  rw [href] at hlook
  simp only [Option.map_some, hρrm, Option.getD_some] at hlook
  rw [lemma_serve_lookup, hlook]
  obtain ⟨_, hpatt, hrid⟩ := C_meta ρ hn
  have htne : ρ.text ≠ [] := by rw [hn.text]; simp [render]
  simp only [servedStatic, served, leafOf, hcr, hpatt, hrid, htne, if_false, pushAll, List.foldl_nil]
  have h1 : Ctx.fresh.all = [] := rfl
  have h2 : ∀ n, Ctx.fresh.param n = [] := fun _ => rfl
  simp only [h1, h2]

end Rivaas.CompilerL
