import Rivaas.Model.ReloadMutex
import Rivaas.Spec.Lifecycle
/-
C09 — helper lemmas: the invariant of the interleaving semantics of `Reload` under `reloadMu`.
-/
namespace Rivaas.ReloadMutex
open Rivaas.Lifecycle.Spec

theorem dropWhile_replicate_self (k h : Nat) : (List.replicate k h).dropWhile (· == h) = [] := by
  induction k with
  | zero => rfl
  | succ k ih => simp [List.replicate_succ, ih]

theorem noInterleave_replicate (k h : Nat) : noInterleave (List.replicate k h) = true := by
  induction k with
  | zero => rfl
  | succ k ih =>
    simp only [List.replicate_succ, noInterleave, ih, Bool.and_true, dropWhile_replicate_self]
    rfl

theorem dropWhile_append_replicate (c h k : Nat) (hc : c ≠ h) (l : List Nat)
    (hl : (l.dropWhile (· == c)).all (· != c) = true) :
    ((l ++ List.replicate k h).dropWhile (· == c)).all (· != c) = true := by
  have hrep : (List.replicate k h).all (· != c) = true := by
    apply List.all_eq_true.mpr
    intro x hx
    rw [List.eq_of_mem_replicate hx]
    simpa using Ne.symm hc
  induction l with
  | nil =>
    simp only [List.nil_append]
    cases k with
    | zero => rfl
    | succ k =>
      have : (h == c) = false := by simpa using Ne.symm hc
      rw [List.replicate_succ, List.dropWhile_cons, this]
      simpa [List.replicate_succ] using hrep
  | cons x xs ih =>
    by_cases hx : (x == c) = true
    · simp only [List.cons_append, List.dropWhile_cons, hx, if_true] at hl ⊢
      exact ih hl
    · simp only [List.cons_append, List.dropWhile_cons, hx, Bool.false_eq_true, if_false] at hl ⊢
      rw [← List.cons_append, List.all_append, hl, hrep]; rfl

theorem noInterleave_append_replicate (C : List Nat) (k h : Nat) (hC : noInterleave C = true) (hh : h ∉ C) :
    noInterleave (C ++ List.replicate k h) = true := by
  induction C with
  | nil => simpa using noInterleave_replicate k h
  | cons c rest ih =>
    simp only [noInterleave, Bool.and_eq_true] at hC
    simp only [List.mem_cons, not_or] at hh
    simp only [List.cons_append, noInterleave, Bool.and_eq_true]
    exact ⟨dropWhile_append_replicate c h k (Ne.symm hh.1) rest hC.1, ih hC.2 hh.2⟩

/-- thread ids of the log -/
def tids {α} (s : State α) : List Nat := s.log.map (·.1)

/-- the invariant: the log consists of the complete blocks of the threads that are through (`C`) followed
    by the block of the holder so far; idle threads have emitted nothing; only the holder runs -/
def Inv {α} (s : State α) : Prop :=
  ∃ C k, noInterleave C = true ∧
    (∀ t prog, s.threads[t]? = some (.idle prog) → t ∉ tids s) ∧
    (∀ t rest, s.threads[t]? = some (.running rest) → s.holder = some t) ∧
    match s.holder with
    | none => tids s = C
    | some h => tids s = C ++ List.replicate k h ∧ h ∉ C

theorem Inv.init {α} (progs : List (List α)) : Inv (init progs) := by
  refine ⟨[], 0, rfl, ?_, ?_, ?_⟩
  · intro t prog _; simp [tids, ReloadMutex.init]
  · intro t rest h
    simp only [ReloadMutex.init, List.getElem?_map] at h
    cases hp : progs[t]? <;> simp [hp] at h
  · simp [tids, ReloadMutex.init]

theorem getElem?_set_cases {β} (l : List β) (t u : Nat) (a b : β) (h : (l.set t a)[u]? = some b) :
    (u = t ∧ b = a) ∨ (u ≠ t ∧ l[u]? = some b) := by
  by_cases hut : t = u
  · subst hut
    left
    rw [List.getElem?_set_self'] at h
    cases hl : l[t]? with
    | none => simp [hl] at h
    | some x => simp [hl] at h; exact ⟨rfl, h.symm⟩
  · right
    rw [List.getElem?_set_ne hut] at h
    exact ⟨fun e => hut e.symm, h⟩

theorem Inv.step {α} (s : State α) (t : Nat) (h : Inv s) : Inv (step s t) := by
  obtain ⟨C, k, hC, hidle, hrun, hlog⟩ := h
  unfold ReloadMutex.step
  cases ht : s.threads[t]? with
  | none => exact ⟨C, k, hC, hidle, hrun, hlog⟩
  | some th =>
    cases th with
    | done => exact ⟨C, k, hC, hidle, hrun, hlog⟩
    | idle prog =>
      cases hh : s.holder with
      | some h' =>
        simp only []
        refine ⟨C, k, hC, hidle, hrun, ?_⟩
        simpa [hh] using hlog
      | none =>
        simp only []
        rw [hh] at hlog
        simp only at hlog
        refine ⟨C, 0, hC, ?_, ?_, ?_⟩
        · intro u prog' hu
          rcases getElem?_set_cases _ _ _ _ _ hu with ⟨_, hb⟩ | ⟨_, hb⟩
          · cases hb
          · exact hidle u prog' hb
        · intro u rest hu
          rcases getElem?_set_cases _ _ _ _ _ hu with ⟨hut, _⟩ | ⟨_, hb⟩
          · simp [hut]
          · have := hrun u rest hb
            rw [hh] at this; cases this
        · simp only [tids] at hlog ⊢
          simp only [List.replicate_zero, List.append_nil]
          refine ⟨hlog, ?_⟩
          rw [← hlog]
          exact hidle t prog ht
    | running rest =>
      have hholder := hrun t rest ht
      rw [hholder] at hlog
      simp only at hlog
      obtain ⟨hts, hnC⟩ := hlog
      cases rest with
      | nil =>
        -- Unlock
        simp only []
        refine ⟨C ++ List.replicate k t, 0, noInterleave_append_replicate C k t hC hnC, ?_, ?_, ?_⟩
        · intro u prog' hu
          rcases getElem?_set_cases _ _ _ _ _ hu with ⟨_, hb⟩ | ⟨_, hb⟩
          · cases hb
          · exact hidle u prog' hb
        · intro u rest' hu
          rcases getElem?_set_cases _ _ _ _ _ hu with ⟨_, hb⟩ | ⟨hne, hb⟩
          · cases hb
          · have := hrun u rest' hb
            rw [hholder] at this
            simp only [Option.some.injEq] at this
            exact absurd this.symm hne
        · simpa [tids] using hts
      | cons e rest' =>
        simp only []
        refine ⟨C, k + 1, hC, ?_, ?_, ?_⟩
        · intro u prog' hu
          rcases getElem?_set_cases _ _ _ _ _ hu with ⟨_, hb⟩ | ⟨hne, hb⟩
          · cases hb
          · have := hidle u prog' hb
            simp only [tids, List.map_append, List.map_cons, List.map_nil, List.mem_append, List.mem_singleton,
              not_or] at this ⊢
            exact ⟨this, hne⟩
        · intro u rest'' hu
          rcases getElem?_set_cases _ _ _ _ _ hu with ⟨hut, _⟩ | ⟨_, hb⟩
          · simp [hut, hholder]
          · exact hrun u rest'' hb
        · rw [hholder]
          simp only [tids, List.map_append, List.map_cons, List.map_nil] at hts ⊢
          refine ⟨?_, hnC⟩
          rw [hts, List.replicate_succ', List.append_assoc]

theorem Inv.exec {α} (progs : List (List α)) (sched : List Nat) : Inv (exec progs sched) := by
  unfold ReloadMutex.exec
  generalize hs : ReloadMutex.init progs = s0
  have h0 : Inv s0 := hs ▸ Inv.init progs
  clear hs
  induction sched generalizing s0 with
  | nil => exact h0
  | cons t rest ih => exact ih _ (Inv.step s0 t h0)

theorem Inv.serialised {α} (s : State α) (h : Inv s) : noInterleave (tids s) = true := by
  obtain ⟨C, k, hC, _, _, hlog⟩ := h
  cases hh : s.holder with
  | none => rw [hh] at hlog; simp only at hlog; rw [hlog]; exact hC
  | some h' =>
    rw [hh] at hlog; simp only at hlog
    rw [hlog.1]; exact noInterleave_append_replicate C k h' hC hlog.2

/-! ### program order -/

/-- what thread state `th` still has to emit -/
def remaining {α} : Th α → List α
  | .idle prog => prog
  | .running rest => rest
  | .done => []

/-- what thread `t` has emitted so far -/
def emitted {α} (s : State α) (t : Nat) : List α := (s.log.filter (·.1 == t)).map (·.2)

/-- every thread has emitted a prefix of its program, in order, and still has the rest to go -/
def Prog {α} (progs : List (List α)) (s : State α) : Prop :=
  s.threads.length = progs.length ∧
  ∀ t (th : Th α), s.threads[t]? = some th → ∃ p, progs[t]? = some p ∧ emitted s t ++ remaining th = p

theorem Prog.init {α} (progs : List (List α)) : Prog progs (init progs) := by
  refine ⟨by simp [ReloadMutex.init], ?_⟩
  intro t th h
  simp only [ReloadMutex.init, List.getElem?_map] at h
  cases hp : progs[t]? with
  | none => simp [hp] at h
  | some p =>
    simp only [hp, Option.map_some, Option.some.injEq] at h
    subst h
    exact ⟨p, rfl, by simp [emitted, ReloadMutex.init, remaining]⟩

theorem emitted_snoc_self {α} (s : State α) (t : Nat) (e : α) (thr : List (Th α)) :
    emitted { s with threads := thr, log := s.log ++ [(t, e)] } t = emitted s t ++ [e] := by
  simp [emitted, List.filter_append]

theorem emitted_snoc_other {α} (s : State α) (t u : Nat) (e : α) (thr : List (Th α)) (h : u ≠ t) :
    emitted { s with threads := thr, log := s.log ++ [(t, e)] } u = emitted s u := by
  have : ((t == u) = false) := by simpa using (fun hh : t = u => h hh.symm)
  simp [emitted, List.filter_append, this]

theorem Prog.step {α} (progs : List (List α)) (s : State α) (t : Nat) (h : Prog progs s) :
    Prog progs (step s t) := by
  obtain ⟨hlen, hp⟩ := h
  unfold ReloadMutex.step
  cases ht : s.threads[t]? with
  | none => exact ⟨hlen, hp⟩
  | some th =>
    cases th with
    | done => exact ⟨hlen, hp⟩
    | idle prog =>
      cases hh : s.holder with
      | some _ => exact ⟨hlen, hp⟩
      | none =>
        simp only []
        refine ⟨by simpa using hlen, ?_⟩
        intro u th' hu
        rcases getElem?_set_cases _ _ _ _ _ hu with ⟨hut, hb⟩ | ⟨_, hb⟩
        · subst hut; subst hb
          obtain ⟨p, h1, h2⟩ := hp u _ ht
          exact ⟨p, h1, by simpa [emitted, remaining] using h2⟩
        · obtain ⟨p, h1, h2⟩ := hp u _ hb
          exact ⟨p, h1, by simpa [emitted] using h2⟩
    | running rest =>
      cases rest with
      | nil =>
        simp only []
        refine ⟨by simpa using hlen, ?_⟩
        intro u th' hu
        rcases getElem?_set_cases _ _ _ _ _ hu with ⟨hut, hb⟩ | ⟨_, hb⟩
        · subst hut; subst hb
          obtain ⟨p, h1, h2⟩ := hp u _ ht
          exact ⟨p, h1, by simpa [emitted, remaining] using h2⟩
        · obtain ⟨p, h1, h2⟩ := hp u _ hb
          exact ⟨p, h1, by simpa [emitted] using h2⟩
      | cons e rest' =>
        simp only []
        refine ⟨by simpa using hlen, ?_⟩
        intro u th' hu
        rcases getElem?_set_cases _ _ _ _ _ hu with ⟨hut, hb⟩ | ⟨hne, hb⟩
        · subst hut; subst hb
          obtain ⟨p, h1, h2⟩ := hp u _ ht
          refine ⟨p, h1, ?_⟩
          rw [emitted_snoc_self]
          simpa [remaining, List.append_assoc] using h2
        · obtain ⟨p, h1, h2⟩ := hp u _ hb
          refine ⟨p, h1, ?_⟩
          rw [emitted_snoc_other _ _ _ _ _ hne]
          exact h2

theorem Prog.exec {α} (progs : List (List α)) (sched : List Nat) : Prog progs (exec progs sched) := by
  unfold ReloadMutex.exec
  generalize hs : ReloadMutex.init progs = s0
  have h0 : Prog progs s0 := hs ▸ Prog.init progs
  clear hs
  induction sched generalizing s0 with
  | nil => exact h0
  | cons t rest ih => exact ih _ (Prog.step progs s0 t h0)

/-- what a `Reload` call has run so far is a prefix of its hook sequence, in order -/
theorem emitted_prefix {α} (progs : List (List α)) (sched : List Nat) (t : Nat) (p : List α)
    (hp : progs[t]? = some p) : emitted (exec progs sched) t <+: p := by
  obtain ⟨hlen, h⟩ := Prog.exec progs sched
  have hlt : t < progs.length := by
    rcases Nat.lt_or_ge t progs.length with h1 | h1
    · exact h1
    · rw [List.getElem?_eq_none h1] at hp; cases hp
  have : t < (exec progs sched).threads.length := by rw [hlen]; exact hlt
  obtain ⟨p', h1, h2⟩ := h t _ (List.getElem?_eq_getElem this)
  rw [hp] at h1
  simp only [Option.some.injEq] at h1
  subst h1
  exact ⟨_, h2⟩

end Rivaas.ReloadMutex
