import Rivaas.Model.BindAll
/-
C04 — the collecting bind (`WithAllErrors`) against the plain bind: they run the same steps up to
the first error. `Agree o oa`: a plain success is a collecting run without errors and the same
value; a plain error is the *first* error of the collecting run.
-/
namespace Rivaas.Bind

def Agree (o : Outcome) (oa : OutAll) : Prop :=
  match o with
  | .ok v => oa = .done v []
  | .panic => oa = .panic
  | .err e => oa = .panic ∨ ∃ v es, oa = .done v (e :: es)

def AgreeStep (a : Val ⊕ Stop) (sa : StepAll) : Prop :=
  match a with
  | .inl nv => sa = .store nv []
  | .inr .panic => sa = .panic
  | .inr (.err e) => sa = .panic ∨ (∃ es, sa = .skip (e :: es)) ∨ (∃ nv es, sa = .store nv (e :: es))

theorem lemma_agree_step (P : Params) (cfg : Cfg) (nest : Nest) (nestA : NestAll)
    (hn : ∀ a b c d, Agree (nest a b c d) (nestA a b c d))
    (g : Getter) (depth : Nat) (f : FieldInfo) (cur : Val) :
    AgreeStep (fieldAction P cfg nest g depth f cur) (fieldActionAll P cfg nestA g depth f cur) := by
  unfold fieldAction fieldActionAll
  by_cases hm : isMapTy f.ty = true
  · simp only [hm, if_true]
    cases setMap P cfg f.ty cur g f.tagName with
    | error e => exact Or.inr (Or.inl ⟨[], rfl⟩)
    | ok nv => exact rfl
  · simp only [hm, Bool.false_eq_true, if_false]
    by_cases hs : isStructTy f.ty = true
    · simp only [hs, if_true]
      by_cases hd : cfg.maxDepth < depth + 1
      · simp only [hd, if_true]
        exact Or.inr (Or.inl ⟨[], rfl⟩)
      · simp only [hd, if_false]
        have h := hn (structTyOf f.ty) (innerOf (structTyOf f.ty) cur) (g.push f.tagName) (depth + 1)
        cases ho : nest (structTyOf f.ty) (innerOf (structTyOf f.ty) cur) (g.push f.tagName) (depth + 1) with
        | ok v =>
          rw [ho] at h
          have h' : nestA (structTyOf f.ty) (innerOf (structTyOf f.ty) cur) (g.push f.tagName) (depth + 1) = .done v [] := h
          simp only [h']
          exact rfl
        | panic =>
          rw [ho] at h
          have h' : nestA (structTyOf f.ty) (innerOf (structTyOf f.ty) cur) (g.push f.tagName) (depth + 1) = .panic := h
          simp only [h']
          exact rfl
        | err e =>
          rw [ho] at h
          have h' : nestA (structTyOf f.ty) (innerOf (structTyOf f.ty) cur) (g.push f.tagName) (depth + 1) = .panic ∨
              ∃ v es, nestA (structTyOf f.ty) (innerOf (structTyOf f.ty) cur) (g.push f.tagName) (depth + 1) = .done v (e :: es) := h
          cases h' with
          | inl hp => simp only [hp]; exact Or.inl rfl
          | inr hx =>
            obtain ⟨v, es, hx⟩ := hx
            simp only [hx]
            exact Or.inr (Or.inr ⟨rewrap f.ty v, es.map (.bind f.name), rfl⟩)
    · simp only [hs, Bool.false_eq_true, if_false]
      cases hl : lookupField g f with
      | mk key rest =>
        cases rest with
        | mk value has =>
          simp only []
          cases htd : (if has = true then none else f.typedDefault) with
          | some d => exact rfl
          | none =>
            simp only []
            by_cases hsl : isSliceTy f.ty = true
            · simp only [hsl, if_true]
              cases setSlice P cfg f.ty cur (g.getAll key) with
              | error e => exact Or.inr (Or.inl ⟨[], rfl⟩)
              | ok nv => exact rfl
            · simp only [hsl, Bool.false_eq_true, if_false]
              cases setField P cfg f.ty cur (if has = true then value else f.dflt) with
              | none => exact Or.inr (Or.inl ⟨[], rfl⟩)
              | some nv => exact rfl

theorem lemma_agree_prepend_nil (oa : OutAll) : oa.prepend [] = oa := by
  cases oa <;> simp [OutAll.prepend]

theorem lemma_agree_loop (P : Params) (cfg : Cfg) (nest : Nest) (nestA : NestAll)
    (hn : ∀ a b c d, Agree (nest a b c d) (nestA a b c d)) (sty : List Fld) :
    ∀ (fis : List FieldInfo) (elem : Val) (g : Getter) (depth : Nat),
      Agree (loopWith P cfg nest sty fis elem g depth) (loopAllWith P cfg nestA sty fis elem g depth)
  | [], elem, g, depth => by simp [loopWith, loopAllWith, Agree]
  | f :: rest, elem, g, depth => by
    unfold loopWith loopAllWith
    cases hr : reach elem f.index with
    | bad => simp [Agree]
    | nilptr =>
      simp only []
      by_cases hw : (!wants g f) = true
      · simp only [hw, if_true]; exact lemma_agree_loop P cfg nest nestA hn sty rest elem g depth
      · simp only [hw, Bool.false_eq_true, if_false]
        cases hr1 : reach (updAt (.struct sty) elem f.index id) f.index with
        | bad => simp [Agree]
        | nilptr => simp [Agree]
        | ok cur =>
          simp only []
          have hs := lemma_agree_step P cfg nest nestA hn g depth f cur
          cases ha : fieldAction P cfg nest g depth f cur with
          | inl nv =>
            rw [ha] at hs
            have hs' : fieldActionAll P cfg nestA g depth f cur = .store nv [] := hs
            simp only [hs', lemma_agree_prepend_nil]
            exact lemma_agree_loop P cfg nest nestA hn sty rest _ g depth
          | inr st =>
            cases st with
            | panic =>
              rw [ha] at hs
              have hs' : fieldActionAll P cfg nestA g depth f cur = .panic := hs
              simp [hs', Stop.out, Agree]
            | err e =>
              rw [ha] at hs
              have hs' : fieldActionAll P cfg nestA g depth f cur = .panic ∨
                  (∃ es, fieldActionAll P cfg nestA g depth f cur = .skip (e :: es)) ∨
                  (∃ nv es, fieldActionAll P cfg nestA g depth f cur = .store nv (e :: es)) := hs
              simp only [Stop.out, Agree]
              rcases hs' with hp | ⟨es, hk⟩ | ⟨nv, es, hk⟩
              · simp [hp]
              · simp only [hk]
                cases loopAllWith P cfg nestA sty rest (updAt (.struct sty) elem f.index id) g depth with
                | panic => left; rfl
                | done v es' => right; exact ⟨v, es ++ es', by simp [OutAll.prepend]⟩
              · simp only [hk]
                cases loopAllWith P cfg nestA sty rest (updAt (.struct sty) (updAt (.struct sty) elem f.index id) f.index (fun _ => nv)) g depth with
                | panic => left; rfl
                | done v es' => right; exact ⟨v, es ++ es', by simp [OutAll.prepend]⟩
    | ok x =>
      simp only []
      by_cases hw : (!wants g f) = true
      · simp only [hw, if_true]; exact lemma_agree_loop P cfg nest nestA hn sty rest elem g depth
      · simp only [hw, Bool.false_eq_true, if_false]
        cases hr1 : reach (updAt (.struct sty) elem f.index id) f.index with
        | bad => simp [Agree]
        | nilptr => simp [Agree]
        | ok cur =>
          simp only []
          have hs := lemma_agree_step P cfg nest nestA hn g depth f cur
          cases ha : fieldAction P cfg nest g depth f cur with
          | inl nv =>
            rw [ha] at hs
            have hs' : fieldActionAll P cfg nestA g depth f cur = .store nv [] := hs
            simp only [hs', lemma_agree_prepend_nil]
            exact lemma_agree_loop P cfg nest nestA hn sty rest _ g depth
          | inr st =>
            cases st with
            | panic =>
              rw [ha] at hs
              have hs' : fieldActionAll P cfg nestA g depth f cur = .panic := hs
              simp [hs', Stop.out, Agree]
            | err e =>
              rw [ha] at hs
              have hs' : fieldActionAll P cfg nestA g depth f cur = .panic ∨
                  (∃ es, fieldActionAll P cfg nestA g depth f cur = .skip (e :: es)) ∨
                  (∃ nv es, fieldActionAll P cfg nestA g depth f cur = .store nv (e :: es)) := hs
              simp only [Stop.out, Agree]
              rcases hs' with hp | ⟨es, hk⟩ | ⟨nv, es, hk⟩
              · simp [hp]
              · simp only [hk]
                cases loopAllWith P cfg nestA sty rest (updAt (.struct sty) elem f.index id) g depth with
                | panic => left; rfl
                | done v es' => right; exact ⟨v, es ++ es', by simp [OutAll.prepend]⟩
              · simp only [hk]
                cases loopAllWith P cfg nestA sty rest (updAt (.struct sty) (updAt (.struct sty) elem f.index id) f.index (fun _ => nv)) g depth with
                | panic => left; rfl
                | done v es' => right; exact ⟨v, es ++ es', by simp [OutAll.prepend]⟩

theorem lemma_agree_bindAt (P : Params) (cfg : Cfg) (tag : Tag) :
    ∀ (n : Nat) (sty : List Fld) (elem : Val) (g : Getter) (depth : Nat),
      Agree (bindAt P cfg tag n sty elem g depth) (bindAtAll P cfg tag n sty elem g depth)
  | 0, sty, elem, g, depth => by
    simp only [bindAt, bindAtAll]
    exact lemma_agree_loop P cfg (fun _ _ _ _ => .err .depth) (fun _ v _ _ => .done v [.depth])
      (fun _ v _ _ => (Or.inr ⟨v, [], rfl⟩ : Agree (.err .depth) (.done v [.depth]))) sty _ elem g depth
  | n + 1, sty, elem, g, depth => by
    simp only [bindAt, bindAtAll]
    exact lemma_agree_loop P cfg _ _ (lemma_agree_bindAt P cfg tag n) sty _ elem g depth

theorem lemma_agree_bind (P : Params) (cfg : Cfg) (tag : Tag) (ty : Ty) (init : Val) (src : Src) :
    Agree (bind P cfg tag ty init src) (bindAll P cfg tag ty init src) := by
  unfold bind bindAll
  cases ty with
  | struct fs => exact lemma_agree_bindAt P cfg tag cfg.maxDepth fs init _ 0
  | prim p => exact Or.inr ⟨init, [], rfl⟩
  | ptr t => exact Or.inr ⟨init, [], rfl⟩
  | slice t => exact Or.inr ⟨init, [], rfl⟩
  | map t => exact Or.inr ⟨init, [], rfl⟩

theorem lemma_agree_pass (P : Params) (cfg : Cfg) (fs : List Fld) (ty : Tag → Ty) :
    ∀ (srcs : List Src) (cur : Val), Agree (bindPass P cfg fs ty srcs cur) (bindPassAll P cfg fs ty srcs cur)
  | [], cur => by simp [bindPass, bindPassAll, Agree]
  | s :: rest, cur => by
    unfold bindPass bindPassAll
    by_cases ht : hasTagFs s.kind fs = true
    · simp only [ht, if_true]
      have h := lemma_agree_bind P cfg s.kind (ty s.kind) cur s
      cases hb : bind P cfg s.kind (ty s.kind) cur s with
      | ok v =>
        rw [hb] at h
        have h' : bindAll P cfg s.kind (ty s.kind) cur s = .done v [] := h
        simp only [h', lemma_agree_prepend_nil]
        exact lemma_agree_pass P cfg fs ty rest v
      | panic =>
        rw [hb] at h
        have h' : bindAll P cfg s.kind (ty s.kind) cur s = .panic := h
        simp [h', Agree]
      | err e =>
        rw [hb] at h
        have h' : bindAll P cfg s.kind (ty s.kind) cur s = .panic ∨ ∃ v es, bindAll P cfg s.kind (ty s.kind) cur s = .done v (e :: es) := h
        simp only [Agree]
        rcases h' with hp | ⟨v, es, hk⟩
        · simp [hp]
        · simp only [hk]
          cases bindPassAll P cfg fs ty rest v with
          | panic => left; rfl
          | done v' es' => right; exact ⟨v', es ++ es', by simp [OutAll.prepend]⟩
    · simp only [ht, Bool.false_eq_true, if_false]
      exact lemma_agree_pass P cfg fs ty rest cur

theorem lemma_agree_multi (P : Params) (cfg : Cfg) (fs : List Fld) (init : Val) (srcs : List Src) :
    Agree (bindMulti P cfg fs init srcs) (bindMultiAll P cfg fs init srcs) := by
  unfold bindMulti bindMultiAll
  by_cases he : srcs.isEmpty = true
  · simp only [he, if_true]; exact Or.inr ⟨init, [], rfl⟩
  · simp only [he, Bool.false_eq_true, if_false]
    by_cases h1 : (srcs.length == 1) = true
    · simp only [h1, if_true]; exact lemma_agree_pass P cfg fs _ srcs init
    · simp only [h1, Bool.false_eq_true, if_false]
      have h := lemma_agree_pass P cfg fs (fun _ => .struct fs) (srcs.map fun s => { s with kvs := [] }) init
      cases hb : bindPass P cfg fs (fun _ => .struct fs) (srcs.map fun s => { s with kvs := [] }) init with
      | ok v =>
        rw [hb] at h
        have h' : bindPassAll P cfg fs (fun _ => .struct fs) (srcs.map fun s => { s with kvs := [] }) init = .done v [] := h
        simp only [h', lemma_agree_prepend_nil]
        exact lemma_agree_pass P cfg fs _ srcs v
      | panic =>
        rw [hb] at h
        have h' : bindPassAll P cfg fs (fun _ => .struct fs) (srcs.map fun s => { s with kvs := [] }) init = .panic := h
        simp [h', Agree]
      | err e =>
        rw [hb] at h
        have h' : bindPassAll P cfg fs (fun _ => .struct fs) (srcs.map fun s => { s with kvs := [] }) init = .panic ∨
            ∃ v es, bindPassAll P cfg fs (fun _ => .struct fs) (srcs.map fun s => { s with kvs := [] }) init = .done v (e :: es) := h
        simp only [Agree]
        rcases h' with hp | ⟨v, es, hk⟩
        · simp [hp]
        · simp only [hk]
          cases bindPassAll P cfg fs (fun _ => .struct (stripFs fs)) srcs v with
          | panic => left; rfl
          | done v' es' => right; exact ⟨v', es ++ es', by simp [OutAll.prepend]⟩

end Rivaas.Bind
