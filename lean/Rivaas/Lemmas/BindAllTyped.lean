import Rivaas.Lemmas.BindAllSound
import Rivaas.Lemmas.BindTyped
/-
C04 — `WithAllErrors`: the collecting bind preserves the type of the destination (a field that failed keeps the
well-typed value it had), so its result can be the destination of the next source of a multi-source bind.
-/
set_option linter.unusedSimpArgs false
set_option linter.unusedVariables false
namespace Rivaas.Bind

variable (P : Params) (cfg : Cfg) (tag : Tag)

def NestTypedAll (nestA : NestAll) : Prop :=
  ∀ (nfs : List Fld) (ivs : List Val) (g : Getter) (d : Nat) (v : Val) (es : List Err), wts nfs ivs = true →
    Spec.inGrammarFs nfs = true → nestA nfs (.struct ivs) g d = .done v es → wt (.struct nfs) v = true

/-- the collecting treatment of nested structs with its errors forgotten -/
def forgetErrs (nestA : NestAll) : Nest := fun a b c d =>
  match nestA a b c d with
  | .done v _ => .ok v
  | .panic => .panic

theorem lemma_forget_typed (nestA : NestAll) (h : NestTypedAll nestA) : NestTyped (forgetErrs nestA) := by
  intro nfs ivs g d v hw hg hr
  unfold forgetErrs at hr
  cases hn : nestA nfs (.struct ivs) g d with
  | panic => simp [hn] at hr
  | done v' es =>
    simp only [hn, Outcome.ok.injEq] at hr
    subst hr
    exact h nfs ivs g d v' es hw hg hn

theorem lemma_map_not_struct (t : Ty) (h : isMapTy t = true) : isStructTy t = false := by
  cases t with
  | map e => simp [isStructTy, structFields?]
  | ptr e => cases e <;> simp [isMapTy] at h <;> simp [isStructTy, structFields?]
  | _ => simp [isMapTy] at h

/-- what a collecting step stores is what the plain step stores under the error-forgetting treatment of nested structs -/
theorem lemma_storeAll_plain (nestA : NestAll) (g : Getter) (d : Nat) (f : FieldInfo) (cur nv : Val) (es : List Err)
    (h : fieldActionAll P cfg nestA g d f cur = .store nv es) :
    fieldAction P cfg (forgetErrs nestA) g d f cur = .inl nv := by
  by_cases hs : isStructTy f.ty = true
  · have hm : isMapTy f.ty = false := by
      cases hm : isMapTy f.ty with
      | false => rfl
      | true => rw [lemma_map_not_struct f.ty hm] at hs; cases hs
    unfold fieldActionAll at h
    unfold fieldAction
    simp only [hm, hs, Bool.false_eq_true, if_false, if_true] at h ⊢
    by_cases hd : cfg.maxDepth < d + 1
    · simp [hd] at h
    · simp only [hd, if_false] at h ⊢
      unfold forgetErrs
      cases hn : nestA (structTyOf f.ty) (innerOf (structTyOf f.ty) cur) (g.push f.tagName) (d + 1) with
      | panic => simp [hn] at h
      | done v' es' =>
        simp only [hn, StepAll.store.injEq] at h
        simp only [h.1]
  · have hs' : isStructTy f.ty = false := by simpa using hs
    rcases lemma_leaf_step P cfg (forgetErrs nestA) nestA g d f cur hs' with ⟨nv', hp, ha⟩ | ⟨c, _, _, ha⟩
    · rw [ha] at h
      simp only [StepAll.store.injEq] at h
      rw [hp, h.1]
    · rw [ha] at h; cases h

theorem lemma_refLeafAll_wt (nestA : NestAll) (hn : NestTypedAll nestA) (g : Getter) (d : Nat) (h : FieldHdr) (t : Ty)
    (v v' : Val) (es : List Err) (hw : wt t v = true) (hg : Spec.inGrammar t = true)
    (hr : refLeafAll P cfg nestA tag g d h t v = some (v', es)) : wt t v' = true := by
  unfold refLeafAll at hr
  cases hm : mkInfo P tag [] h t with
  | none => simp only [hm, Option.some.injEq, Prod.mk.injEq] at hr; rw [← hr.1]; exact hw
  | some f =>
    simp only [hm] at hr
    by_cases hwf : wants g f = true
    · simp only [hwf, Bool.not_true, Bool.false_eq_true, if_false] at hr
      cases ha : fieldActionAll P cfg nestA g d f v with
      | panic => simp [ha] at hr
      | skip es' => simp only [ha, Option.some.injEq, Prod.mk.injEq] at hr; rw [← hr.1]; exact hw
      | store nv es' =>
        simp only [ha, Option.some.injEq, Prod.mk.injEq] at hr
        rw [← hr.1]
        have hp := lemma_storeAll_plain P cfg nestA g d f v nv es' ha
        have hplain : refLeaf P cfg (forgetErrs nestA) tag g d h t v = .inl nv := by
          unfold refLeaf
          simp only [hm, hwf, Bool.not_true, Bool.false_eq_true, if_false, hp]
        exact lemma_refLeaf_wt P cfg tag (forgetErrs nestA) (lemma_forget_typed nestA hn) g d h t v nv hw hg hplain
    · have hwf' : wants g f = false := by simpa using hwf
      simp only [hwf', Bool.not_false, if_true, Option.some.injEq, Prod.mk.injEq] at hr
      rw [← hr.1]; exact hw

mutual
theorem lemma_refFldAll_wt (nestA : NestAll) (hn : NestTypedAll nestA) (g : Getter) (d : Nat) (h : FieldHdr) :
    ∀ (t : Ty) (v v' : Val) (es : List Err), wt t v = true → Spec.inGrammar t = true →
      refFldAll P cfg nestA tag g d h t v = some (v', es) → wt t v' = true
  | .struct sub, v, v', es, hw, hg, hr => by
    unfold refFldAll at hr
    split at hr
    · simp only [Option.some.injEq, Prod.mk.injEq] at hr; rw [← hr.1]; exact hw
    · split at hr
      · cases v with
        | struct cs =>
          simp only at hr
          cases hrs : refFsAll P cfg nestA tag g d sub cs with
          | none => simp [hrs] at hr
          | some r =>
            obtain ⟨cs', es'⟩ := r
            simp only [hrs, Option.some.injEq, Prod.mk.injEq] at hr
            rw [← hr.1]
            simpa [wt] using lemma_refFsAll_wt nestA hn g d sub cs cs' es' (by simpa [wt] using hw) (by simpa [Spec.inGrammar] using hg) hrs
        | _ => simp [wt] at hw
      · exact lemma_refLeafAll_wt P cfg tag nestA hn g d h _ v v' es hw hg hr
  | .ptr (.struct sub), v, v', es, hw, hg, hr => by
    unfold refFldAll at hr
    split at hr
    · simp only [Option.some.injEq, Prod.mk.injEq] at hr; rw [← hr.1]; exact hw
    · split at hr
      · cases v with
        | ptr y =>
          cases y with
          | struct cs =>
            simp only at hr
            cases hrs : refFsAll P cfg nestA tag g d sub cs with
            | none => simp [hrs] at hr
            | some r =>
              obtain ⟨cs', es'⟩ := r
              simp only [hrs, Option.some.injEq, Prod.mk.injEq] at hr
              rw [← hr.1]
              simpa [wt] using lemma_refFsAll_wt nestA hn g d sub cs cs' es' (by simpa [wt] using hw) (by simpa [Spec.inGrammar] using hg) hrs
          | _ => simp [wt] at hw
        | nil =>
          simp only at hr
          split at hr
          · cases hrs : refFsAll P cfg nestA tag g d sub (zeroFs sub) with
            | none => simp [hrs] at hr
            | some r =>
              obtain ⟨cs', es'⟩ := r
              simp only [hrs, Option.some.injEq, Prod.mk.injEq] at hr
              rw [← hr.1]
              simpa [wt] using lemma_refFsAll_wt nestA hn g d sub _ cs' es' (lemma_wts_zero sub) (by simpa [Spec.inGrammar] using hg) hrs
          · simp only [Option.some.injEq, Prod.mk.injEq] at hr; rw [← hr.1]; simp [wt]
        | _ => simp [wt] at hw
      · exact lemma_refLeafAll_wt P cfg tag nestA hn g d h _ v v' es hw hg hr
  | .prim p, v, v', es, hw, hg, hr => by
    simp only [refFldAll] at hr
    split at hr
    · simp only [Option.some.injEq, Prod.mk.injEq] at hr; rw [← hr.1]; exact hw
    · exact lemma_refLeafAll_wt P cfg tag nestA hn g d h _ v v' es hw hg hr
  | .slice e, v, v', es, hw, hg, hr => by
    simp only [refFldAll] at hr
    split at hr
    · simp only [Option.some.injEq, Prod.mk.injEq] at hr; rw [← hr.1]; exact hw
    · exact lemma_refLeafAll_wt P cfg tag nestA hn g d h _ v v' es hw hg hr
  | .map e, v, v', es, hw, hg, hr => by
    simp only [refFldAll] at hr
    split at hr
    · simp only [Option.some.injEq, Prod.mk.injEq] at hr; rw [← hr.1]; exact hw
    · exact lemma_refLeafAll_wt P cfg tag nestA hn g d h _ v v' es hw hg hr
  | .ptr (.prim p), v, v', es, hw, hg, hr => by
    simp only [refFldAll] at hr
    split at hr
    · simp only [Option.some.injEq, Prod.mk.injEq] at hr; rw [← hr.1]; exact hw
    · exact lemma_refLeafAll_wt P cfg tag nestA hn g d h _ v v' es hw hg hr
  | .ptr (.ptr e), v, v', es, hw, hg, hr => by simp [Spec.inGrammar, Spec.leafTy] at hg
  | .ptr (.slice e), v, v', es, hw, hg, hr => by
    simp only [refFldAll] at hr
    split at hr
    · simp only [Option.some.injEq, Prod.mk.injEq] at hr; rw [← hr.1]; exact hw
    · exact lemma_refLeafAll_wt P cfg tag nestA hn g d h _ v v' es hw hg hr
  | .ptr (.map e), v, v', es, hw, hg, hr => by
    simp only [refFldAll] at hr
    split at hr
    · simp only [Option.some.injEq, Prod.mk.injEq] at hr; rw [← hr.1]; exact hw
    · exact lemma_refLeafAll_wt P cfg tag nestA hn g d h _ v v' es hw hg hr
theorem lemma_refFsAll_wt (nestA : NestAll) (hn : NestTypedAll nestA) (g : Getter) (d : Nat) :
    ∀ (fs : List Fld) (vs vs' : List Val) (es : List Err), wts fs vs = true → Spec.inGrammarFs fs = true →
      refFsAll P cfg nestA tag g d fs vs = some (vs', es) → wts fs vs' = true
  | [], vs, vs', es, hw, _, hr => by
    cases vs with
    | nil => simp only [refFsAll, Option.some.injEq, Prod.mk.injEq] at hr; rw [← hr.1]; simp [wts]
    | cons _ _ => simp [wts] at hw
  | (h, t) :: rest, [], vs', es, hw, _, hr => by simp [wts] at hw
  | (h, t) :: rest, v :: vs, vs', es, hw, hg, hr => by
    simp only [wts, Bool.and_eq_true] at hw
    simp only [Spec.inGrammarFs, Bool.and_eq_true] at hg
    simp only [refFsAll] at hr
    cases hf : refFldAll P cfg nestA tag g d h t v with
    | none => simp [hf] at hr
    | some r =>
      obtain ⟨v', es1⟩ := r
      simp only [hf] at hr
      cases hrs : refFsAll P cfg nestA tag g d rest vs with
      | none => simp [hrs] at hr
      | some rs =>
        obtain ⟨vs'', es2⟩ := rs
        simp only [hrs, Option.some.injEq, Prod.mk.injEq] at hr
        rw [← hr.1]
        simp only [wts, Bool.and_eq_true]
        exact ⟨lemma_refFldAll_wt nestA hn g d h t v v' es1 hw.1 hg.1 hf, lemma_refFsAll_wt nestA hn g d rest vs vs'' es2 hw.2 hg.2 hrs⟩
end

/-- the collecting bindFieldsWithDepth returns a well-typed value of the struct type it was given -/
theorem lemma_bindAtAll_typed : ∀ n : Nat, NestTypedAll (bindAtAll P cfg tag n)
  | 0 => by
    intro nfs ivs g d v es hw hg hr
    have hn : NestTypedAll (fun _ v _ _ => OutAll.done v [Err.depth]) := by
      intro nfs' ivs' _ _ v' es' hw' _ h
      simp only [OutAll.done.injEq] at h
      rw [← h.1]; simpa [wt] using hw'
    simp only [bindAtAll] at hr
    rw [lemma_loopAll_eq_ref P cfg _ tag g d nfs ivs hw] at hr
    cases hrs : refFsAll P cfg (fun _ v _ _ => OutAll.done v [Err.depth]) tag g d nfs ivs with
    | none => simp [hrs, refOutAll] at hr
    | some r =>
      obtain ⟨rvs, es'⟩ := r
      simp only [hrs, refOutAll, List.nil_append, OutAll.done.injEq] at hr
      rw [← hr.1]
      simpa [wt] using lemma_refFsAll_wt P cfg tag _ hn g d nfs ivs rvs es' hw hg hrs
  | n + 1 => by
    intro nfs ivs g d v es hw hg hr
    have hn := lemma_bindAtAll_typed n
    simp only [bindAtAll] at hr
    rw [lemma_loopAll_eq_ref P cfg _ tag g d nfs ivs hw] at hr
    cases hrs : refFsAll P cfg (bindAtAll P cfg tag n) tag g d nfs ivs with
    | none => simp [hrs, refOutAll] at hr
    | some r =>
      obtain ⟨rvs, es'⟩ := r
      simp only [hrs, refOutAll, List.nil_append, OutAll.done.injEq] at hr
      rw [← hr.1]
      simpa [wt] using lemma_refFsAll_wt P cfg tag _ hn g d nfs ivs rvs es' hw hg hrs

theorem lemma_bindAll_typed (fs : List Fld) (ivs : List Val) (src : Src) (v : Val) (es : List Err)
    (hw : wts fs ivs = true) (hg : Spec.inGrammarFs fs = true)
    (h : bindAll P cfg tag (.struct fs) (.struct ivs) src = .done v es) : ∃ rvs, v = .struct rvs ∧ wts fs rvs = true := by
  have := lemma_bindAtAll_typed P cfg tag cfg.maxDepth fs ivs { src := src } 0 v es hw hg (by simpa [bindAll] using h)
  cases v with
  | struct rvs => exact ⟨rvs, rfl, by simpa [wt] using this⟩
  | _ => simp [wt] at this

end Rivaas.Bind
