import Rivaas.Basic
/-
Line protocol shared by every driver (DESIGN.md §2.9).

One case per line, space separated tokens. Strings travel hex-encoded with an `h:`
prefix (so the empty string is `h:`), naturals in decimal, booleans as `0`/`1`,
lists as a count followed by the items. `=>` separates the input from what the
implementation was observed to do. Core Lean only: this file is linked into the
compiled drivers.
-/
namespace Rivaas.Proto

def hexVal (c : Char) : Option Nat :=
  if '0' ≤ c ∧ c ≤ '9' then some (c.toNat - '0'.toNat)
  else if 'a' ≤ c ∧ c ≤ 'f' then some (c.toNat - 'a'.toNat + 10)
  else if 'A' ≤ c ∧ c ≤ 'F' then some (c.toNat - 'A'.toNat + 10)
  else none

/-- decode a hex string into raw bytes -/
def unhexBytes : List Char → Option (List UInt8)
  | [] => some []
  | [_] => none
  | a :: b :: rest => do
    let x ← hexVal a
    let y ← hexVal b
    let r ← unhexBytes rest
    pure (UInt8.ofNat (x * 16 + y) :: r)

def hexDigit (n : Nat) : Char :=
  if n < 10 then Char.ofNat ('0'.toNat + n) else Char.ofNat ('a'.toNat + (n - 10))

def hexBytes (bs : List UInt8) : String :=
  String.ofList (bs.flatMap fun b => [hexDigit (b.toNat / 16), hexDigit (b.toNat % 16)])


def bytesOfU8 (bs : List UInt8) : Bytes := bs.map fun b => Char.ofNat b.toNat
def u8OfBytes (cs : Bytes) : List UInt8 := cs.map fun c => UInt8.ofNat c.toNat

def encStr (cs : Bytes) : String := "h:" ++ hexBytes (u8OfBytes cs)

/-- parser over the token list -/
abbrev P := StateT (List String) Option

def tok : P String := fun s => match s with
  | [] => none
  | t :: r => some (t, r)

def peek : P (Option String) := fun s => some (s.head?, s)

def nat : P Nat := do
  let t ← tok
  match t.toNat? with
  | some n => pure n
  | none => failure

def int : P Int := do
  let t ← tok
  match t.toInt? with
  | some n => pure n
  | none => failure

def bool : P Bool := do
  let t ← tok
  if t == "1" then pure true else if t == "0" then pure false else failure

/-- hex string token `h:…` decoded to bytes-as-chars -/
def str : P Bytes := do
  let t ← tok
  if t.startsWith "h:" then
    match unhexBytes (t.drop 2).toString.toList with
    | some bs => pure (bytesOfU8 bs)
    | none => failure
  else failure

def lit (s : String) : P Unit := do
  let t ← tok
  if t == s then pure () else failure

def manyN {α} (n : Nat) (p : P α) : P (List α) :=
  match n with
  | 0 => pure []
  | n+1 => do
    let a ← p
    let r ← manyN n p
    pure (a :: r)

/-- `n item…` -/
def list {α} (p : P α) : P (List α) := do
  let n ← nat
  manyN n p

def opt {α} (p : P α) : P (Option α) := do
  let b ← bool
  if b then (some <$> p) else pure none

def eoi : P Unit := fun s => match s with
  | [] => some ((), [])
  | _ => none

/-- split a case line into (id, input tokens, observation tokens) -/
def splitCase (line : String) : Option (String × List String × List String) :=
  let toks := ((line.splitOn " ").filter (· ≠ "")).takeWhile (· ≠ "#")
  match toks with
  | [] => none
  | id :: rest =>
    let inp := rest.takeWhile (· ≠ "=>")
    let obs := (rest.dropWhile (· ≠ "=>")).drop 1
    some (id, inp, obs)

def runP {α} (p : P α) (toks : List String) : Option α :=
  match (p <* eoi) toks with
  | some (a, _) => some a
  | none => none

/-- verdict line: `<id> MI=<0|1> S=<0|1> D=<class|-> <model observation tokens…>` -/
def verdict (id : String) (mi s : Bool) (d : String) (modelObs : String) : String :=
  s!"{id} MI={if mi then 1 else 0} S={if s then 1 else 0} D={d} {modelObs}"

/-- generic driver loop: `step` maps a case line to a verdict line -/
partial def loop (h : IO.FS.Stream) (out : IO.FS.Stream) (step : String → String) : IO Unit := do
  let line ← h.getLine
  if line.isEmpty then return ()
  let l := line.trimAscii.toString
  if l.isEmpty || l.startsWith "#" then loop h out step
  else
    out.putStrLn (step l)
    loop h out step

def driverMain (step : String → String) : IO UInt32 := do
  let i ← IO.getStdin
  let o ← IO.getStdout
  loop i o step
  o.flush
  return 0

end Rivaas.Proto
