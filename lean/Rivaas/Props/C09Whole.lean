import Rivaas.Model.LifecycleWhole
import Rivaas.Model.Lifecycle
import Rivaas.Props.C09
/-
C09 — the lifecycle-language theorem over the *regenerated* control flow.

`Model/LifecycleWhole.lean` assembles the slices the extractor regenerates from `app/server.go` (entry points,
`runServer` before the loop, the arms of the event loop, the statements after the label) into one program with
a semantics for the loop/label structure (`execStart`: entry point, valuations of all branch conditions, a
schedule of the event loop). Proved here, for *any* slices `k` that pass the decidable check `checkWhole k`
(which `Tie/C09.lean` discharges by `decide` on the slices of the current source):

* `exec_start_mem_startOuts` — every execution is one of the enumerated paths;
* `whole_in_language` / `every_execution_in_language` — every execution that ends, ends in a `return` and its
  call word is in the lifecycle language (`inStartLang`): in particular no path reaches `executeReadyHooks`
  before `Listen`, leaves the loop other than through `abortStartup; return` or the whole shutdown sequence,
  or skips/repeats a step of `executeShutdownHooks → Shutdown → shutdownObservability → executeStopHooks`,
  for any number of loop iterations;
* `served_word_present` — conversely (from `liveness k`), for every number `h` of SIGHUP reloads the model's
  word `PROLOGUE Listen go recv executeReadyHooks Reload^h <shutdown sequence>` is the word of a path;
* `model_run_follows_a_path` — every run of the lifecycle model (`runSegs current`, every scenario, both values
  of `race`) that does not end in a hook panic follows one of the four path shapes (`ModelPath`), with exactly
  the result that shape has, and leaves empty every log segment whose producing call is not on that path.
-/
namespace Rivaas.C09
open Rivaas.LifecycleSkel

section whole

theorem keepT_append (core : List Name) (a b : List (Name × Name)) :
    keepT core (a ++ b) = keepT core a ++ keepT core b := by
  simp [keepT, List.map_append, List.filter_append]

theorem word_pre (t : List (Name × Name)) (o : Out) : word (Out.pre t o) = keepT allCore t ++ word o := by
  simp [word, Out.pre, keepT_append]

theorem fin_pre (t : List (Name × Name)) (o : Out) : (Out.pre t o).fin = o.fin := rfl

/-! ### every execution is an enumerated path -/

theorem exec_loop_mem_loopOuts (arms : List Stmt) (label : Name) (after : Stmt) (ρa : Nat → Bool) :
    ∀ (sched : Sched) (o : Out), execLoop arms label after ρa sched = some o →
      o ∈ loopOuts arms label after sched.length := by
  intro sched
  induction sched with
  | nil => intro o h; simp [execLoop] at h
  | cons hd rest ih =>
    intro o h
    obtain ⟨i, ρ⟩ := hd
    simp only [execLoop] at h
    cases ha : arms[i]? with
    | none => simp [ha] at h
    | some a =>
      simp only [ha] at h
      have hmem : ∃ a', a' ∈ arms ∧ exec ρ a ∈ outs a' := ⟨a, List.mem_of_getElem? ha, exec_mem_outs ρ a⟩
      simp only [List.length_cons, loopOuts, List.mem_flatMap]
      refine ⟨exec ρ a, hmem, ?_⟩
      cases hfin : (exec ρ a).fin with
      | fall =>
        simp only [hfin, Option.map_eq_some_iff] at h
        obtain ⟨o', ho', rfl⟩ := h
        simp only [List.mem_map]
        exact ⟨o', ih o' ho', rfl⟩
      | goto l =>
        simp only [hfin] at h
        by_cases hl : (l == label) = true
        · simp only [hl, if_true, Option.some.injEq] at h
          simp only [hl, if_true, List.mem_map]
          exact ⟨exec ρa after, exec_mem_outs ρa after, h⟩
        · simp only [hl, Bool.false_eq_true, if_false, Option.some.injEq] at h
          simp only [hl, Bool.false_eq_true, if_false, List.mem_singleton]
          exact h.symm
      | ret ok => simp only [hfin, Option.some.injEq] at h; simp [h]
      | tail n => simp only [hfin, Option.some.injEq] at h; simp [h]

theorem exec_run_mem_runOuts (k : Skels) (ρp ρa : Nat → Bool) (sched : Sched) (o : Out)
    (h : execRun k ρp ρa sched = some o) : o ∈ runOuts k sched.length := by
  simp only [execRun] at h
  simp only [runOuts, List.mem_flatMap]
  refine ⟨exec ρp k.pre, exec_mem_outs ρp k.pre, ?_⟩
  by_cases hf : ((exec ρp k.pre).fin == End.fall) = true
  · simp only [hf, if_true, Option.map_eq_some_iff] at h
    obtain ⟨o', ho', rfl⟩ := h
    simp only [hf, if_true, List.mem_map]
    exact ⟨o', exec_loop_mem_loopOuts _ _ _ ρa sched o' ho', rfl⟩
  · simp only [hf, Bool.false_eq_true, if_false, Option.some.injEq] at h
    simp only [hf, Bool.false_eq_true, if_false, List.mem_singleton]
    exact h.symm

/-- every execution of the assembled program (entry point `e`, any valuations, any schedule of the event loop)
    that ends is one of the enumerated paths -/
theorem exec_start_mem_startOuts (k : Skels) (e : Stmt) (he : e ∈ k.entries) (ρe ρp ρa : Nat → Bool)
    (sched : Sched) (o : Out) (h : execStart k e ρe ρp ρa sched = some o) : o ∈ startOuts k sched.length := by
  simp only [startOuts, List.mem_flatMap]
  refine ⟨e, he, ?_⟩
  simp only [startOutsOf, List.mem_flatMap]
  refine ⟨exec ρe e, exec_mem_outs ρe e, ?_⟩
  simp only [execStart] at h
  cases hfin : (exec ρe e).fin with
  | tail r =>
    simp only [hfin] at h
    by_cases hr : (r == nm "runServer") = true
    · simp only [hr, if_true, Option.map_eq_some_iff] at h
      obtain ⟨o', ho', rfl⟩ := h
      simp only [hr, if_true, List.mem_map]
      exact ⟨o', exec_run_mem_runOuts k ρp ρa sched o' ho', rfl⟩
    · simp only [hr, Bool.false_eq_true, if_false, Option.some.injEq] at h
      simp only [hr, Bool.false_eq_true, if_false, List.mem_singleton]
      exact h.symm
  | fall => simp only [hfin, Option.some.injEq] at h; simp [h]
  | ret ok => simp only [hfin, Option.some.injEq] at h; simp [h]
  | goto l => simp only [hfin, Option.some.injEq] at h; simp [h]

/-! ### every path is in the language -/

theorem inLoopLang_reload (w : List Name) : inLoopLang (nm "Reload" :: w) = inLoopLang w := by
  simp [inLoopLang]

theorem loop_in_language (arms : List Stmt) (label : Name) (after : Stmt)
    (harms : ∀ a ∈ arms.flatMap outs, armOkW label a = true) (hafter : ∀ f ∈ outs after, afterOkW f = true) :
    ∀ (n : Nat) (o : Out), o ∈ loopOuts arms label after n → inLoopLang (word o) = true ∧ isRet o.fin = true := by
  intro n
  induction n with
  | zero => intro o h; simp [loopOuts] at h
  | succ n ih =>
    intro o h
    simp only [loopOuts, List.mem_flatMap] at h
    obtain ⟨a, ha, ho⟩ := h
    have ha : a ∈ arms.flatMap outs := List.mem_flatMap.mpr ha
    have hok := harms a ha
    cases hfin : a.fin with
    | fall =>
      simp only [hfin, List.mem_map] at ho
      obtain ⟨o', ho', rfl⟩ := ho
      obtain ⟨h1, h2⟩ := ih o' ho'
      simp only [armOkW, hfin, Bool.or_eq_true, beq_iff_eq] at hok
      refine ⟨?_, by rw [fin_pre]; exact h2⟩
      rw [word_pre]
      rcases hok with hk | hk
      · rw [hk]; simp only [List.singleton_append, inLoopLang_reload]; exact h1
      · rw [hk]; simpa using h1
    | goto l =>
      simp only [armOkW, hfin, Bool.and_eq_true, beq_iff_eq] at hok
      obtain ⟨hl, hk⟩ := hok
      subst hl
      simp only [hfin, beq_self_eq_true, if_true, List.mem_map] at ho
      obtain ⟨f, hf, rfl⟩ := ho
      have hfo := hafter f hf
      simp only [afterOkW, Bool.and_eq_true, beq_iff_eq] at hfo
      refine ⟨?_, by rw [fin_pre]; exact hfo.1⟩
      rw [word_pre, hk, List.nil_append]
      show inLoopLang (keepT allCore f.trace) = true
      rw [hfo.2]; decide
    | ret ok =>
      simp only [hfin, List.mem_singleton] at ho
      rw [ho]
      simp only [armOkW, hfin, beq_iff_eq] at hok
      refine ⟨?_, by rw [hfin]; rfl⟩
      show inLoopLang (keepT allCore a.trace) = true
      rw [hok]; decide
    | tail t => simp [armOkW, hfin] at hok

theorem runServer_in_language (k : Skels) (hpre : onAll preOkW k.pre = true)
    (harms : k.arms.all (onAll (armOkW (afterLabel k.after))) = true) (hafter : onAll afterOkW k.after = true) :
    ∀ (n : Nat) (o : Out), o ∈ runOuts k n → inRunLang (word o) = true ∧ isRet o.fin = true := by
  intro n o h
  have harms' : ∀ a ∈ k.arms.flatMap outs, armOkW (afterLabel k.after) a = true := by
    intro a ha
    obtain ⟨s, hs, has⟩ := List.mem_flatMap.mp ha
    exact List.all_eq_true.mp (List.all_eq_true.mp harms s hs) a has
  have hafter' : ∀ f ∈ outs k.after, afterOkW f = true := fun f hf => List.all_eq_true.mp hafter f hf
  simp only [runOuts, List.mem_flatMap] at h
  obtain ⟨p, hp, ho⟩ := h
  have hpok := List.all_eq_true.mp hpre p hp
  cases hfin : p.fin with
  | fall =>
    simp only [hfin, beq_self_eq_true, if_true, List.mem_map] at ho
    obtain ⟨o', ho', rfl⟩ := ho
    obtain ⟨h1, h2⟩ := loop_in_language _ _ _ harms' hafter' n o' ho'
    simp only [preOkW, hfin, beq_iff_eq] at hpok
    refine ⟨?_, by rw [fin_pre]; exact h2⟩
    rw [word_pre, hpok]
    simp only [inRunLang, Bool.or_eq_true, Bool.and_eq_true]
    right
    refine ⟨by simp [readyPrefix], ?_⟩
    simpa [readyPrefix] using h1
  | ret ok =>
    have : (p.fin == End.fall) = false := by rw [hfin]; rfl
    simp only [this, Bool.false_eq_true, if_false, List.mem_singleton] at ho
    rw [ho]
    simp only [preOkW, hfin, beq_iff_eq] at hpok
    refine ⟨?_, by rw [hfin]; rfl⟩
    show inRunLang (keepT allCore p.trace) = true
    rw [hpok]; decide
  | tail t => simp [preOkW, hfin] at hpok
  | goto l => simp [preOkW, hfin] at hpok

theorem lemma_entryAbort_inStartLang (w : List Name) (h : entryAbortWords.contains w = true) :
    inStartLang w = true := by
  simp only [inStartLang, h, Bool.true_or]

/-- **the lifecycle language over the regenerated control flow**: slices that pass `checkWhole` ⇒ every path of
    the assembled program, with any number of iterations of the event loop, ends in a `return` and has a call
    word of the lifecycle language -/
theorem whole_in_language (k : Skels) (h : checkWhole k = true) :
    ∀ (n : Nat) (o : Out), o ∈ startOuts k n → inStartLang (word o) = true ∧ isRet o.fin = true := by
  simp only [checkWhole, Bool.and_eq_true] at h
  obtain ⟨⟨⟨hent, hpre⟩, harms⟩, hafter⟩ := h
  intro n o ho
  simp only [startOuts, List.mem_flatMap] at ho
  obtain ⟨e, he, ho⟩ := ho
  simp only [startOutsOf, List.mem_flatMap] at ho
  obtain ⟨x, hx, ho⟩ := ho
  have hxok := List.all_eq_true.mp (List.all_eq_true.mp hent e he) x hx
  cases hfin : x.fin with
  | tail r =>
    simp only [entryOkW, hfin, Bool.and_eq_true, beq_iff_eq] at hxok
    obtain ⟨hr, hk⟩ := hxok
    subst hr
    simp only [hfin, beq_self_eq_true, if_true, List.mem_map] at ho
    obtain ⟨o', ho', rfl⟩ := ho
    obtain ⟨h1, h2⟩ := runServer_in_language k hpre harms hafter n o' ho'
    refine ⟨?_, by rw [fin_pre]; exact h2⟩
    rw [word_pre, hk]
    simp only [inStartLang, Bool.or_eq_true, Bool.and_eq_true]
    right
    refine ⟨by simp [prologue], ?_⟩
    simpa [prologue] using h1
  | ret ok =>
    simp only [hfin, List.mem_singleton] at ho
    rw [ho]
    simp only [entryOkW, hfin] at hxok
    exact ⟨lemma_entryAbort_inStartLang _ hxok, by rw [hfin]; rfl⟩
  | fall => simp [entryOkW, hfin] at hxok
  | goto l => simp [entryOkW, hfin] at hxok

/-- … stated on executions: every entry point, every valuation of every branch condition, every schedule of
    the event loop (any length, any arm in any iteration) -/
theorem every_execution_in_language (k : Skels) (h : checkWhole k = true) (e : Stmt) (he : e ∈ k.entries)
    (ρe ρp ρa : Nat → Bool) (sched : Sched) (o : Out) (hex : execStart k e ρe ρp ρa sched = some o) :
    inStartLang (word o) = true ∧ isRet o.fin = true :=
  whole_in_language k h sched.length o (exec_start_mem_startOuts k e he ρe ρp ρa sched o hex)

/-! ### the model's words are words of paths -/

theorem loop_served_present (arms : List Stmt) (label : Name) (after : Stmt)
    (hrel : ∃ a ∈ arms.flatMap outs, a.fin = .fall ∧ word a = [nm "Reload"])
    (hgo : ∃ a ∈ arms.flatMap outs, a.fin = .goto label ∧ word a = [])
    (haf : ∃ f ∈ outs after, word f = shutdownOrder) :
    ∀ h : Nat, ∃ o ∈ loopOuts arms label after (h + 1), word o = List.replicate h (nm "Reload") ++ shutdownOrder := by
  intro h
  induction h with
  | zero =>
    obtain ⟨a, ha, hfin, hw⟩ := hgo
    obtain ⟨f, hf, hwf⟩ := haf
    refine ⟨Out.pre a.trace f, ?_, ?_⟩
    · simp only [loopOuts]
      refine List.mem_flatMap.mpr ⟨a, ha, ?_⟩
      simp only [hfin, beq_self_eq_true, if_true, List.mem_map]
      exact ⟨f, hf, rfl⟩
    · rw [word_pre]
      have : keepT allCore a.trace = [] := hw
      rw [this, hwf]; rfl
  | succ h ih =>
    obtain ⟨a, ha, hfin, hw⟩ := hrel
    obtain ⟨o, ho, hwo⟩ := ih
    refine ⟨Out.pre a.trace o, ?_, ?_⟩
    · simp only [loopOuts]
      refine List.mem_flatMap.mpr ⟨a, ha, ?_⟩
      simp only [hfin, List.mem_map]
      exact ⟨o, ho, rfl⟩
    · rw [word_pre, hwo]
      have : keepT allCore a.trace = [nm "Reload"] := hw
      rw [this, List.replicate_succ]; rfl

/-- from the slice-level facts `liveness k`: for every number `h` of SIGHUP reloads the word the lifecycle model
    follows when the server is served and stopped is the word of a path of the assembled program -/
theorem served_word_present (k : Skels) (hl : liveness k = true) (h : Nat) :
    modelWord (.served h) ∈ (startOuts k (h + 1)).map word := by
  simp only [liveness, Bool.and_eq_true, List.any_eq_true, beq_iff_eq] at hl
  obtain ⟨⟨⟨⟨⟨e, he, x, hx, hxf, hxw⟩, ⟨p, hp, hpf, hpw⟩⟩, ⟨a, ha, haf, haw⟩⟩, ⟨g, hg, hgf, hgw⟩⟩, ⟨f, hf, _, hfw⟩⟩ := hl
  obtain ⟨o, ho, hwo⟩ := loop_served_present k.arms (afterLabel k.after) k.after ⟨a, ha, haf, haw⟩ ⟨g, hg, hgf, hgw⟩
    ⟨f, hf, hfw⟩ h
  refine List.mem_map.mpr ⟨Out.pre x.trace (Out.pre p.trace o), ?_, ?_⟩
  · simp only [startOuts, List.mem_flatMap]
    refine ⟨e, he, ?_⟩
    simp only [startOutsOf, List.mem_flatMap]
    refine ⟨x, hx, ?_⟩
    simp only [hxf, beq_self_eq_true, if_true, List.mem_map]
    refine ⟨Out.pre p.trace o, ?_, rfl⟩
    simp only [runOuts, List.mem_flatMap]
    refine ⟨p, hp, ?_⟩
    simp only [hpf, beq_self_eq_true, if_true, List.mem_map]
    exact ⟨o, ho, rfl⟩
  · rw [word_pre, word_pre, hwo]
    have h1 : keepT allCore x.trace = prologue := hxw
    have h2 : keepT allCore p.trace = readyPrefix := hpw
    rw [h1, h2]
    simp [modelWord, List.append_assoc]

/-- non-vacuity: the literal skeletons of the current source (`skNow`, Props/C09) pass both checks, and the
    shipped ones (K09a–c) do not -/
example : checkWhole skNow = true ∧ liveness skNow = true ∧ modelPathsPresent skNow 2 = true := by decide

end whole

/-! ### the runs of the lifecycle model follow these paths -/

section model
open Rivaas.Lifecycle Rivaas.Lifecycle.Spec

/-- the result a path shape has -/
def pathRes : ModelPath → Res → Bool
  | .startFailed, r => r == .errStartup
  | .listenFailed, r => r == .errListen
  | .certFailed, r => r == .errListen
  | .served _, r => r == .ok || r == .errDrain

/-- log segments whose producing call is not on the path are empty. Producing calls: `starts` ←
    executeStartHooks, `readies` ← executeReadyHooks, `reloads` ← Reload (and the environment's own calls), `shuts` ←
    executeShutdownHooks, `drain` ← Shutdown, `flush` ← shutdownObservability (inside abortStartup on the failure
    paths), `stops` ← executeStopHooks; `reqIns`, `sig` and `post` belong to the environment of a served run -/
def segsOnPath : ModelPath → Segs → Bool
  | .served _, _ => true
  | _, s => s.readies.isEmpty && s.reqIns.isEmpty && s.reloads.isEmpty && s.sig.isEmpty && s.shuts.isEmpty &&
      s.drain.isEmpty && s.stops.isEmpty && s.post.isEmpty

/-- the path a run of the model follows, read off its result -/
def pathOfRes (nHup : Nat) : Res → Option ModelPath
  | .errStartup => some .startFailed
  | .errListen => some .listenFailed
  | .ok => some (.served nHup)
  | .errDrain => some (.served nHup)
  | _ => none

def FollowsPath (nHup : Nat) (r : Run) : Prop :=
  r.res = .panic ∨ ∃ p, pathOfRes nHup r.res = some p ∧ pathRes p r.res = true ∧ segsOnPath p r.segs = true

theorem lemma_shutdownSeq_follows (sc : Scenario) (race sent : Bool) (s : Segs) (rr : List RRes) (nHup : Nat) :
    FollowsPath nHup (shutdownSeq current sc race sent s rr) := by
  simp only [FollowsPath, shutdownSeq, shutdownTail]
  split
  · left; rfl
  · right
    simp only [current, repaired, Bool.not_true, Bool.and_false, Bool.false_eq_true, if_false]
    split
    · exact ⟨.served nHup, by simp [pathOfRes, pathRes, segsOnPath]⟩
    · exact ⟨.served nHup, by simp [pathOfRes, pathRes, segsOnPath]⟩

/-- **every run of the lifecycle model follows a path of the language**: for every scenario and both values of
    `race`, unless a hook panic leaves `Start`, the run has the result of one of the path shapes and leaves empty
    every log segment whose producing call is not on that path -/
theorem model_run_follows_a_path (sc : Scenario) (race : Bool) (nHup : Nat) :
    FollowsPath nHup (runSegs current sc race) := by
  unfold runSegs
  cases hst : (startHooks sc.metrics 0 false sc.starts).out with
  | panicked => left; simp [hst]
  | failed =>
    right
    exact ⟨.startFailed, by simp [hst, pathOfRes, pathRes, segsOnPath]⟩
  | done =>
    simp only [hst]
    by_cases hl : (sc.listen != .ok) = true
    · right
      exact ⟨.listenFailed, by simp [hl, pathOfRes, pathRes, segsOnPath, current, repaired]⟩
    · simp only [hl, Bool.false_eq_true, if_false]
      split
      · exact lemma_shutdownSeq_follows _ _ _ _ _ _
      · split
        · left; rfl
        · exact lemma_shutdownSeq_follows _ _ _ _ _ _

/-- non-vacuity: a served run with two SIGHUP reloads, and a failed start -/
example : ∃ sc, pathRes (.served 0) (runSegs current sc false).res = true := ⟨wFull2, by decide⟩
example : ∃ sc, (runSegs current sc false).res = .errStartup := ⟨wFail, by decide⟩

/-- **every run of the model is an execution of the regenerated control flow** (at the level of call words): for slices
    that pass `checkWhole`, `liveness` and `modelPathsPresent`, every scenario and both values of `race`: unless a hook
    panic leaves `Start`, the run follows a path shape whose word is the word of an enumerated execution of the assembled
    program (for `served h`, `h` = any number of SIGHUP reloads, in particular the scenario's) — and that execution, like
    every other, is in the lifecycle language -/
theorem model_run_is_an_execution (k : Skels) (hc : checkWhole k = true) (hl : liveness k = true)
    (hp : modelPathsPresent k 0 = true) (sc : Scenario) (race : Bool) (nHup : Nat) :
    (runSegs current sc race).res = .panic ∨
    ∃ p n o, pathOfRes nHup (runSegs current sc race).res = some p ∧ o ∈ startOuts k n ∧ word o = modelWord p ∧
      inStartLang (word o) = true ∧ isRet o.fin = true := by
  rcases model_run_follows_a_path sc race nHup with h | ⟨p, hp1, _, _⟩
  · exact Or.inl h
  · right
    simp only [modelPathsPresent, Bool.and_eq_true, List.contains_eq_mem, decide_eq_true_eq] at hp
    have hmem : ∃ n o, o ∈ startOuts k n ∧ word o = modelWord p := by
      cases p with
      | startFailed =>
        obtain ⟨o, ho, hw⟩ := List.mem_map.mp hp.1.1
        exact ⟨_, o, ho, hw⟩
      | listenFailed =>
        obtain ⟨o, ho, hw⟩ := List.mem_map.mp hp.1.2
        exact ⟨_, o, ho, hw⟩
      | certFailed => simp [pathOfRes] at hp1; split at hp1 <;> simp at hp1
      | served h =>
        obtain ⟨o, ho, hw⟩ := List.mem_map.mp (served_word_present k hl h)
        exact ⟨_, o, ho, hw⟩
    obtain ⟨n, o, ho, hw⟩ := hmem
    obtain ⟨h1, h2⟩ := whole_in_language k hc n o ho
    exact ⟨p, n, o, hp1, ho, hw, h1, h2⟩

/-! ### OnStop hooks: the model's `stopHooks` is the executor with a recover per hook — and that is what it takes -/

/-- `stopHooks` (what `runSegs` uses) is `executeStopHooks` with each hook under its own recover: every hook runs, whatever
    the hooks do, and no panic leaves the loop -/
theorem stopHooks_is_exec_with_recover (i : Nat) (hs : List HB) : stopHooksExec true i hs = (stopHooks i hs, false) := by
  induction hs generalizing i with
  | nil => rfl
  | cons b rest ih => simp [stopHooksExec, stopHooks, ih]

/-- the observation of a run whose OnStop segment is produced by the executor WITHOUT the per-hook recover -/
def runWithStopExec (perHook : Bool) (sc : Scenario) (race : Bool) : Obs :=
  let r := runSegs current sc race
  { r.obs with log := ({ r.segs with stops := (stopHooksExec perHook 0 sc.stops).1 } : Segs).log }

/-- as it would be with one recover around the whole loop (mutation m8) or none: the second OnStop hook of `wFull2`
    panics, the third never runs, and the oracle rejects the run ("OnStop hooks run, each exactly once"; a panicking
    OnStop hook does NOT leave the remaining sequence intact) — with the per-hook recover the same run is accepted -/
theorem stop_panic_without_per_hook_recover_breaks_oracle :
    (stopHooksExec false 0 wFull2.stops).1.filterMap stopTag = [(true, 0), (false, 0), (true, 1), (false, 1)] ∧
    holds wFull2 (runWithStopExec false wFull2 false) = false ∧
    holds wFull2 (runWithStopExec true wFull2 false) = true := by decide

end model

end Rivaas.C09
