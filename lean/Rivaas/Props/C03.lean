/- C03 — Pooled contexts never leak state between requests: theorems about `Model/Pool.lean`.
   The facts about the real source the model relies on (field list, what reset does to each field, that every
   serve path assigns Request/Response/router/index/paramCount before a handler runs, that parameters are written
   only after `paramCount = 0`, that every get has exactly one release and no use after it) are re-proved on the
   regenerated `Gen/*.lean` in `Tie/C03.lean` on every run. -/
import Rivaas.Model.Pool

namespace Rivaas.C03
open Rivaas.Pool

/-- `Sim a c d`: c and d agree on everything a handler can observe, except possibly the fields of `a` that have
    not been assigned yet (router, index, paramCount — the only ones in which a pooled context may differ from a
    brand-new one). Parameter slots are compared only below `paramCount`; a nil and an empty map are the same. -/
structure Sim (a : Assigned) (c d : Ctx) : Prop where
  request : c.request = d.request
  response : c.response = d.response
  handlers : c.handlers = d.handlers
  version : c.version = d.version
  routePattern : c.routePattern = d.routePattern
  acceptHeader : c.acceptHeader = d.acceptHeader
  acceptSpecs : c.acceptSpecs = d.acceptSpecs
  arena : c.arena = d.arena
  aborted : c.aborted = d.aborted
  errors : c.errors = d.errors
  params : c.params.getD [] = d.params.getD []
  router : a.router = true → c.router = d.router
  index : a.index = true → c.index = d.index
  countT : a.count = true → c.paramCount = d.paramCount ∧ 0 ≤ c.paramCount ∧
    ∀ i, i < min c.paramCount.toNat 8 → c.slots i = d.slots i
  countF : a.count = false → c.paramCount ≤ 0 ∧ d.paramCount = 0

/-- a pooled object is clean when it is indistinguishable from a brand-new context before any assignment -/
def Clean (c : Ctx) : Prop := Sim {} c brandNew

/-- **reset leaves nothing behind**: whatever a request and its handlers did to the context — every field, any
    value, more than 8 parameters, a populated Params map, a negative or huge paramCount — after `reset` the object
    differs from a brand-new context only in `router`, `index`, an empty-instead-of-nil map and parameter slots
    that no accessor reads. -/
theorem reset_clean (c : Ctx) : Clean (reset c) := by
  refine ⟨rfl, rfl, rfl, rfl, rfl, rfl, rfl, rfl, rfl, rfl, ?_, ?_, ?_, ?_, ?_⟩
  · cases h : c.params <;> simp [reset, brandNew, h]
  · intro h; cases h
  · intro h; cases h
  · intro h; cases h
  · intro _
    refine ⟨?_, rfl⟩
    simp only [reset]
    split <;> omega

theorem brandNew_clean : Clean brandNew := by
  refine ⟨rfl, rfl, rfl, rfl, rfl, rfl, rfl, rfl, rfl, rfl, rfl, ?_, ?_, ?_, ?_⟩
  · intro h; cases h
  · intro h; cases h
  · intro h; cases h
  · intro _; exact ⟨by simp [brandNew], rfl⟩

/-- one preparation step keeps the two contexts in step -/
theorem lemma_step_sim (a : Assigned) (c d : Ctx) (s : Step) (h : Sim a c d)
    (hw : ∀ k v, s = Step.writeParam k v → a.count = true) :
    Sim (a.step s) (s.apply c) (s.apply d) := by
  cases s with
  | setRequest n => exact { h with request := rfl }
  | setResponse n => exact { h with response := rfl }
  | setHandlers n => exact { h with handlers := rfl }
  | setRouter n => exact { h with router := fun _ => rfl }
  | setIndex i => exact { h with index := fun _ => rfl }
  | setVersion b => exact { h with version := rfl }
  | setPattern b => exact { h with routePattern := rfl }
  | zeroCount =>
    exact { h with
      countT := fun _ => ⟨rfl, by simp [Step.apply], by intro i hi; simp [Step.apply] at hi⟩
      countF := fun hf => by simp [Assigned.step] at hf }
  | writeParam k v =>
    have hc := hw k v rfl
    obtain ⟨heq, hpos, hslots⟩ := h.countT hc
    by_cases hlt : c.paramCount < 8
    · have hlt' : d.paramCount < 8 := heq ▸ hlt
      simp only [Step.apply, hlt, hlt', if_true, Assigned.step]
      refine { h with countT := ?_, countF := ?_ }
      · intro _
        refine ⟨by simp [heq], by simp; omega, ?_⟩
        intro i hi
        simp only at hi ⊢
        rw [← heq]
        by_cases hi' : i = c.paramCount.toNat
        · simp [hi']
        · simp only [hi', if_false]
          apply hslots
          omega
      · intro hf; rw [hc] at hf; cases hf
    · have hlt' : ¬ d.paramCount < 8 := heq ▸ hlt
      simp only [Step.apply, hlt, hlt', if_false, Assigned.step]
      exact { h with
        params := by simp [h.params]
        countT := fun _ => ⟨heq, hpos, hslots⟩
        countF := fun hf => by rw [hc] at hf; cases hf }

/-- **a prepared pooled context looks brand-new**: if the preparation of a serve path assigns Request, Response,
    router, index and paramCount and writes parameters only after `paramCount = 0` (`covers`, established on the
    extracted skeleton by `Tie/C03.ownership_paths`), then what the first handler observes on a clean pooled object is
    exactly what it would observe on a brand-new one. -/
theorem prepare_fresh (steps : List Step) (a : Assigned) (c d : Ctx) (h : Sim a c d) (hc : covers a steps = true) :
    view (prepare steps c) = view (prepare steps d) := by
  induction steps generalizing a c d with
  | nil =>
    simp only [covers, Bool.and_eq_true] at hc
    obtain ⟨⟨⟨⟨hr, hi⟩, hcnt⟩, _⟩, _⟩ := hc
    obtain ⟨heq, _, hslots⟩ := h.countT hcnt
    simp only [prepare, List.foldl_nil, view]
    have hv : (List.range (min c.paramCount.toNat 8)).map c.slots = (List.range (min d.paramCount.toNat 8)).map d.slots := by
      rw [← heq]
      apply List.map_congr_left
      intro i hi
      exact hslots i (by simpa using hi)
    rw [hv, h.request, h.response, h.handlers, h.router hr, h.index hi, heq, h.params, h.version, h.routePattern,
      h.acceptHeader, h.acceptSpecs, h.arena, h.aborted, h.errors]
  | cons s rest ih =>
    simp only [prepare, List.foldl_cons]
    cases s with
    | writeParam k v =>
      simp only [covers, Bool.and_eq_true] at hc
      have := lemma_step_sim a c d (.writeParam k v) h (fun _ _ _ => hc.1)
      exact ih _ _ _ this (by simpa [Assigned.step] using hc.2)
    | _ =>
      simp only [covers] at hc
      exact ih _ _ _ (lemma_step_sim a c d _ h (by intro k v hkv; cases hkv)) hc

/-- the pool invariant: every pooled object is clean, every recorded handler view is the fresh view -/
def Inv (p : Pool) : Prop := (∀ c ∈ p.free, Clean c) ∧ ∀ v ∈ p.views, v.1 = v.2

/-- serve operations of a history respect the preparation discipline -/
def _root_.Rivaas.Pool.Op.ok : Op → Prop
  | .serve _ steps _ => covers {} steps = true
  | _ => True

theorem lemma_take_clean (p : Pool) (reuse : Option Nat) (hf : ∀ c ∈ p.free, Clean c) :
    Clean (take p reuse).1 ∧ ∀ c ∈ (take p reuse).2, Clean c := by
  unfold take
  cases reuse with
  | none => exact ⟨brandNew_clean, hf⟩
  | some k =>
    simp only
    cases hk : p.free[k]? with
    | none => exact ⟨brandNew_clean, hf⟩
    | some c =>
      exact ⟨hf c (List.mem_of_getElem? hk), fun x hx => hf x (List.mem_of_mem_eraseIdx hx)⟩

theorem pool_inv_step (p : Pool) (o : Op) (h : Inv p) (ho : o.ok) : Inv (step p o) := by
  obtain ⟨hf, hv⟩ := h
  cases o with
  | serve reuse steps dirty =>
    obtain ⟨hc, hrest⟩ := lemma_take_clean p reuse hf
    simp only [step]
    refine ⟨?_, ?_⟩
    · intro x hx
      simp only [List.mem_cons] at hx
      rcases hx with rfl | hx
      · exact reset_clean _
      · exact hrest x hx
    · intro v hv'
      simp only [List.mem_append, List.mem_singleton] at hv'
      rcases hv' with hv' | rfl
      · exact hv v hv'
      · exact prepare_fresh steps {} _ _ hc ho
  | probe reuse dirty =>
    obtain ⟨_, hrest⟩ := lemma_take_clean p reuse hf
    simp only [step]
    refine ⟨?_, hv⟩
    intro x hx
    simp only [List.mem_cons] at hx
    rcases hx with rfl | hx
    · exact reset_clean _
    · exact hrest x hx
  | dropOne k =>
    exact ⟨fun c hc => hf c (List.mem_of_mem_eraseIdx hc), hv⟩

theorem pool_inv (ops : List Op) (hok : ∀ o ∈ ops, o.ok) : Inv (run {} ops) := by
  unfold run
  generalize h0 : ({} : Pool) = p0
  have hi : Inv p0 := by subst h0; exact ⟨by simp, by simp⟩
  clear h0
  induction ops generalizing p0 with
  | nil => exact hi
  | cons o os ih =>
    simp only [List.foldl_cons]
    exact ih (fun o' ho' => hok o' (by simp [ho'])) _ (pool_inv_step p0 o hi (hok o (by simp)))

/-- **Main theorem.** For every history of requests — any serve path, any handlers dirtying every field in any
    way, borrowed probe contexts in between, any reuse/drop pattern of sync.Pool — each handler's view of its
    context equals the view it would have on a brand-new context prepared for the same request: parameters, version,
    route pattern, abort flag, collected errors and cached negotiation results of other requests are never visible. -/
theorem fresh_view (ops : List Op) (hok : ∀ o ∈ ops, o.ok) : ∀ v ∈ (run {} ops).views, v.1 = v.2 :=
  (pool_inv ops hok).2

/-- …and after every request the pooled object is indistinguishable from a brand-new one (clean) -/
theorem pooled_objects_clean (ops : List Op) (hok : ∀ o ∈ ops, o.ok) : ∀ c ∈ (run {} ops).free, Clean c :=
  (pool_inv ops hok).1

/-- **a name that is not a parameter of the matched route reads as empty**: `Param` reads the visible slots, then
    the map; on a prepared clean context both hold exactly the parameters the lookup wrote -/
def param (v : View) (k : Bytes) : Bytes :=
  match v.visible.find? (·.1 == k) with
  | some kv => kv.2
  | none => match v.mapEntries.find? (·.1 == k) with
    | some kv => kv.2
    | none => []

/-- preparation of the tree path for `/d/:id` (same as `stepsTree` below; here for the non-vacuity example) -/
def stepsTreeW (req : Nat) (id : Bytes) : List Step :=
  [.setRequest req, .setResponse req, .setIndex (-1), .zeroCount, .setRouter 1, .setVersion [],
   .writeParam "id".toList id, .setPattern "/d/:id".toList, .setHandlers 4, .setIndex (-1)]

/-- the names a preparation writes (the parameters of the matched route) -/
def writtenKeys : List Step → List Bytes
  | [] => []
  | .writeParam k _ :: r => k :: writtenKeys r
  | _ :: r => writtenKeys r

/-- every key a handler can reach through `Param` (visible slots, map entries) is in `K` -/
def KeysIn (c : Ctx) (K : List Bytes) : Prop :=
  (∀ i, i < min c.paramCount.toNat 8 → (c.slots i).1 ∈ K) ∧ (∀ kv ∈ c.params.getD [], kv.1 ∈ K)

theorem lemma_mapSet_keys (m : List KV) (k v : Bytes) (K : List Bytes) (h : ∀ kv ∈ m, kv.1 ∈ K) :
    ∀ kv ∈ mapSet m k v, kv.1 ∈ k :: K := by
  induction m with
  | nil => intro kv hkv; simp [mapSet] at hkv; subst hkv; simp
  | cons x r ih =>
    intro kv hkv
    simp only [mapSet] at hkv
    split at hkv
    · simp only [List.mem_cons] at hkv
      rcases hkv with rfl | hr
      · simp
      · exact List.mem_cons_of_mem _ (h kv (List.mem_cons_of_mem _ hr))
    · simp only [List.mem_cons] at hkv
      rcases hkv with rfl | hr
      · exact List.mem_cons_of_mem _ (h _ (by simp))
      · exact ih (fun kv hkv => h kv (List.mem_cons_of_mem _ hkv)) kv hr

theorem lemma_keys_step (c : Ctx) (K : List Bytes) (s : Step) (h : KeysIn c K) :
    KeysIn (s.apply c) (match s with | .writeParam k _ => k :: K | _ => K) := by
  cases s with
  | writeParam k v =>
    simp only [Step.apply]
    split
    · rename_i hlt
      refine ⟨?_, fun kv hkv => List.mem_cons_of_mem _ (h.2 kv hkv)⟩
      intro i hi
      simp only at hi ⊢
      by_cases hik : i = c.paramCount.toNat
      · simp [hik]
      · simp only [hik, if_false]
        exact List.mem_cons_of_mem _ (h.1 i (by omega))
    · refine ⟨fun i hi => List.mem_cons_of_mem _ (h.1 i hi), ?_⟩
      simpa using lemma_mapSet_keys (c.params.getD []) k v K h.2
  | zeroCount => exact ⟨fun i hi => by simp [Step.apply] at hi, h.2⟩
  | _ => exact h

theorem lemma_keys_prepare (steps : List Step) : ∀ (c : Ctx) (K : List Bytes), KeysIn c K →
    ∀ k, k ∉ K → k ∉ writtenKeys steps →
      (∀ i, i < min (prepare steps c).paramCount.toNat 8 → ((prepare steps c).slots i).1 ≠ k) ∧
      (∀ kv ∈ (prepare steps c).params.getD [], kv.1 ≠ k) := by
  induction steps with
  | nil =>
    intro c K h k hk _
    exact ⟨fun i hi he => hk (he ▸ h.1 i hi), fun kv hkv he => hk (he ▸ h.2 kv hkv)⟩
  | cons s rest ih =>
    intro c K h k hk hw
    simp only [prepare, List.foldl_cons]
    have hs := lemma_keys_step c K s h
    cases s with
    | writeParam k' v' =>
      simp only [writtenKeys, List.mem_cons, not_or] at hw
      exact ih _ (k' :: K) hs k (by simp [hw.1, hk]) hw.2
    | _ => exact ih _ K hs k hk (by simpa [writtenKeys] using hw)

theorem lemma_find_none {l : List KV} {k : Bytes} (h : ∀ kv ∈ l, kv.1 ≠ k) : l.find? (·.1 == k) = none := by
  simp only [List.find?_eq_none, beq_iff_eq]
  exact fun kv hkv => h kv hkv

/-- **a name that is not a parameter of the matched route reads as empty** — on every pooled object that went through
    `reset`, after any preparation that follows the discipline (`covers`), whatever the object held before -/
theorem unknown_param_empty (steps : List Step) (c : Ctx) (hc : Clean c) (hcov : covers {} steps = true)
    (k : Bytes) (hk : k ∉ writtenKeys steps) : param (view (prepare steps c)) k = [] := by
  rw [prepare_fresh steps {} c brandNew hc hcov]
  have hb : KeysIn brandNew [] := ⟨fun i hi => by simp [brandNew] at hi, fun kv hkv => by simp [brandNew] at hkv⟩
  obtain ⟨h1, h2⟩ := lemma_keys_prepare steps brandNew [] hb k (by simp) hk
  unfold param
  have hv : (view (prepare steps brandNew)).visible.find? (·.1 == k) = none := by
    apply lemma_find_none
    intro kv hkv
    simp only [view, List.mem_map, List.mem_range] at hkv
    obtain ⟨i, hi, rfl⟩ := hkv
    exact h1 i hi
  have hm : (view (prepare steps brandNew)).mapEntries.find? (·.1 == k) = none := lemma_find_none h2
  simp [hv, hm]

/-- non-vacuity: after a request on `/d/:id` the name `stale` (which the previous handler put everywhere) reads empty -/
example : param (view (prepare (stepsTreeW 2 "7".toList) (reset (prepare (stepsTreeW 1 "42".toList) brandNew)))) "stale".toList = [] := by
  decide

/-- **app-level pool**: whatever object the app pool hands out (even one a broken `Put` left dirty) and whatever the
    handler does (Bind caches the body and the presence map), the handler of a request starts with its own router
    context, its app and no binding metadata, and a clean object goes back. The three assignments and the three
    clears are re-read from the source by `Tie/C03.app_pool_covers_fields`. -/
theorem app_fresh (pooled : AppCtx) (rc a : Nat) (handler : AppCtx → AppCtx) :
    (appWrap pooled rc a handler).1 = { context := rc, app := a, bindingMeta := 0 } ∧
    (appWrap pooled rc a handler).2 = {} := by
  simp [appWrap, appPut]

/-! ### non-vacuity and what the theorem excludes -/

/-- the preparation of the tree-traversal path of ServeHTTP for `/d/:id` (as in the skeleton: Request, Response,
    index, paramCount, router, version, lookup, routePattern, handlers, index) -/
def stepsTree (req : Nat) (id : Bytes) : List Step :=
  [.setRequest req, .setResponse req, .setIndex (-1), .zeroCount, .setRouter 1, .setVersion [],
   .writeParam "id".toList id, .setPattern "/d/:id".toList, .setHandlers 4, .setIndex (-1)]

/-- a static route: no parameters -/
def stepsStatic (req : Nat) : List Step :=
  [.setRequest req, .setResponse req, .setHandlers 2, .setRouter 1, .setPattern "/s/a".toList, .setIndex (-1),
   .zeroCount, .setVersion []]

example : covers {} (stepsTree 1 "42".toList) = true ∧ covers {} (stepsStatic 2) = true := by decide

/-- a handler that dirties every field: ten parameters' worth of slots and a map entry, version, pattern, abort,
    errors, Accept cache -/
def dirtyAll (c : Ctx) : Ctx :=
  { c with paramCount := 8, slots := fun _ => ("secret".toList, "token".toList), params := some [("p9".toList, "x".toList)],
           version := "v9".toList, routePattern := "/leak".toList, aborted := true, errors := [7],
           acceptHeader := "text/html".toList, acceptSpecs := 5, arena := 3, index := 99, handlers := 77 }

/-- request 1 matches `/d/:id` and dirties everything; request 2 (static route) reuses the object: the second handler
    reads no parameter, an empty version, its own pattern, not aborted, no errors -/
example :
    (run {} [.serve none (stepsTree 1 "42".toList) dirtyAll, .serve (some 0) (stepsStatic 2) id]).views.map
      (fun v => (param v.1 "id".toList, v.1.version, v.1.routePattern, v.1.aborted, v.1.errors, v.1.acceptHeader)) =
      [("42".toList, [], "/d/:id".toList, false, [], []), ([], [], "/s/a".toList, false, [], [])] := by rfl

/-- a `reset` that forgets one field is excluded by the theorem: with `version` left alone the second request of the
    same history reads the first request's version -/
def resetForgetsVersion (c : Ctx) : Ctx := { reset c with version := c.version }

theorem forgetful_reset_leaks :
    (view (prepare [.setRequest 2, .setResponse 2, .setHandlers 2, .setRouter 1, .setIndex (-1), .zeroCount]
      (resetForgetsVersion (dirtyAll (prepare (stepsTree 1 "42".toList) brandNew))))).version = "v9".toList := by decide

/-! ### finding K03a (fixed in /repo 47bf5ea): a failed compiled candidate left parameters behind -/

def nineOf (names : List String) : List KV :=
  names.zip ["s", "1", "2", "3", "4", "5", "6", "7", "8", "9", "zz"] |>.map fun (k, v) => (k.toList, v.toList)

/-- `/m/s/:a/…/:i/:j` (j constrained to digits) on `/m/s/1/…/9/zz`: :a…:i pass and are stored, :j fails -/
def k03aFailed : List KV := nineOf ["a", "b", "c", "d", "e", "f", "g", "h", "i"] |>.zip ["1", "2", "3", "4", "5", "6", "7", "8", "9"] |>.map fun (kv, v) => (kv.1, v.toList)

/-- then `/m/:z/:a/…/:h/:x/:y` matches the same path -/
def k03aMatched : List Step :=
  (nineOf ["z", "a", "b", "c", "d", "e", "f", "g", "h", "x", "y"]).map fun (k, v) => Step.writeParam k v

/-- as shipped: the handler of the second route reads `i = "9"` although `i` is not one of its parameters -/
theorem asIs_failed_candidate_leaks :
    param (view (prepare k03aMatched (failedCandidateAsIs k03aFailed (prepare [.zeroCount] brandNew)))) "i".toList = "9".toList := by
  rfl

/-- repaired (a failed candidate stores nothing): `i` reads as empty -/
theorem fixed_failed_candidate_clean :
    param (view (prepare k03aMatched (prepare [.zeroCount] brandNew))) "i".toList = [] := by
  rfl

/-- a serve path that writes parameters without `paramCount = 0` first is excluded by `covers` -/
example : covers {} [.setRequest 1, .setResponse 1, .setRouter 1, .setIndex (-1), .writeParam [] [], .zeroCount] = false := by
  decide

end Rivaas.C03
