/- C03 — property theorems (stub: not built yet) -/
