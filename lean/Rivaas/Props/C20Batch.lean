import Rivaas.Model.LogBatch
/-
C20 — the BatchLogger neither loses, repeats nor reorders what is logged through it: for every batch size and every
sequence of operations (= every interleaving of the goroutines, since each operation holds the batch mutex throughout).
-/
namespace Rivaas.C20
open Rivaas.LogBatch

theorem lemma_added_append (a b : List Op) : added (a ++ b) = added a ++ added b := by
  induction a with
  | nil => rfl
  | cons o rest ih => cases o <;> simp [added, ih]

theorem lemma_step_inv (size : Nat) (s : St) (o : Op) :
    (step size s o).out ++ (step size s o).batch = s.out ++ s.batch ++ added [o] := by
  cases o with
  | add e =>
    simp only [step, added]
    split <;> simp [flushLocked]
  | flush => simp [step, flushLocked, added]
  | close => simp [step, flushLocked, added]

/-- **nothing lost, nothing twice, nothing reordered**: what has been handed to the Logger followed by what still sits in
    the batch is exactly what was logged, in the order the calls took effect -/
theorem batch_conserves_entries (size : Nat) (ops : List Op) :
    (run size ops).out ++ (run size ops).batch = added ops := by
  have h : ∀ (s : St), (ops.foldl (step size) s).out ++ (ops.foldl (step size) s).batch = s.out ++ s.batch ++ added ops := by
    induction ops with
    | nil => intro s; simp [added]
    | cons o rest ih =>
      intro s
      rw [List.foldl_cons, ih, lemma_step_inv]
      have : added (o :: rest) = added [o] ++ added rest := lemma_added_append [o] rest
      rw [this, List.append_assoc]
  simpa [run] using h {}

/-- the records of one goroutine reach the Logger in the order they were logged: the output restricted to a goroutine
    is a prefix of what that goroutine logged -/
theorem batch_keeps_goroutine_order (size : Nat) (ops : List Op) (g : Nat) :
    ((run size ops).out.filter (·.1 == g)) <+: ((added ops).filter (·.1 == g)) := by
  rw [← batch_conserves_entries size ops, List.filter_append]
  exact List.prefix_append _ _

/-- after `Flush` or `Close` nothing is left in the batch: everything logged so far has been handed to the Logger -/
theorem batch_empty_after_flush (size : Nat) (ops : List Op) (o : Op) (ho : o = .flush ∨ o = .close) :
    (run size (ops ++ [o])).batch = [] ∧ (run size (ops ++ [o])).out = added ops := by
  have hb : (run size (ops ++ [o])).batch = [] := by
    simp only [run, List.foldl_append, List.foldl_cons, List.foldl_nil]
    rcases ho with rfl | rfl <;> simp [step, flushLocked]
  refine ⟨hb, ?_⟩
  have := batch_conserves_entries size (ops ++ [o])
  rw [hb, List.append_nil, lemma_added_append] at this
  rcases ho with rfl | rfl <;> simpa [added] using this

/-- a full batch is flushed by the `add` that fills it: with a positive size the batch never holds `size` entries -/
theorem batch_stays_below_size (size : Nat) (hs : 0 < size) (ops : List Op) : (run size ops).batch.length < size := by
  have h : ∀ (s : St), s.batch.length < size → (ops.foldl (step size) s).batch.length < size := by
    induction ops with
    | nil => intro s hlt; exact hlt
    | cons o rest ih =>
      intro s hlt
      rw [List.foldl_cons]
      apply ih
      cases o with
      | add e =>
        simp only [step]
        split
        · simpa [flushLocked] using hs
        · rename_i hge; simpa using Nat.lt_of_not_ge hge
      | flush => simpa [step, flushLocked] using hs
      | close => simpa [step, flushLocked] using hs
  exact h {} (by simpa using hs)

/-- non-vacuity / witness: two goroutines, batch size 3 -/
example : (run 3 [.add (0, 0), .add (1, 0), .flush, .add (0, 1), .add (1, 1), .add (0, 2), .add (1, 2), .close]).out =
    [(0, 0), (1, 0), (0, 1), (1, 1), (0, 2), (1, 2)] := by decide

end Rivaas.C20
