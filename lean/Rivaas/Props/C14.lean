/- C14 — property theorems (stub: not built yet) -/
