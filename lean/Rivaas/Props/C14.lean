import Rivaas.Lemmas.ConfigMerge
import Rivaas.Lemmas.ConfigSM
import Rivaas.Lemmas.ConfigEnv
/-
C14 — Configuration merging is last-source-wins and reload is atomic.

Property theorems about the model of `config/config.go` (`Model/Config.lean`) against the
declarative oracle (`Spec/Config.lean`). The model follows the code after the `fix:` commit for
K14 (the bound struct is zeroed before decoding); the behaviour as shipped is `loadAsIs` with a
`decide` witness.
-/
namespace Rivaas.C14
open Rivaas.Config

/-! ## 1. each key has the value given by the last source that defines it -/

/-- For **every** list of sources and **every** key path: the merged map holds at the path what the
    last source that defines the path gives — a non-map value as it is (falsy or not: leaves are
    opaque), "a map" where that source has a map, nothing where that source replaced an enclosing
    subtree by a non-map value — with keys compared case-insensitively at every level. -/
theorem get_last_wins (srcs : List Kvs) (p : List Bytes) (hp : p ≠ []) :
    classify (getPath (mergeAll srcs) p) = lastWins srcs p :=
  classify_getPath_mergeAll srcs p hp

/-- not vacuous, falsy values included: `port` is 8080 in the first source and `0` in the second
    (under `SERVER.PORT`), `name` is overridden by the empty string; the last source wins -/
example :
    lastWins [[("server".toList, .map [("port".toList, .leaf "int:8080".toList)]), ("name".toList, .leaf "s:one".toList)],
              [("SERVER".toList, .map [("PORT".toList, .leaf "int:0".toList)]), ("Name".toList, .leaf "s:".toList)]]
      ["server".toList, "port".toList] = .leaf "int:0".toList := by decide

/-- a scalar leaf of a later source wins at any depth, whatever the earlier sources hold there
    (the one-step form of the statement) -/
theorem later_leaf_wins (d s : Kvs) (p : List Bytes) (hp : p ≠ []) (r : Bytes)
    (h : probe (normalize s) p = .leaf r) :
    classify (getPath (mergeKvs d (normalize s)) p) = .leaf r := by
  have hw := wf_normalize s
  rw [classify_getPath_merge p hp d _ hw.1 hw.2, h]

/-- a source that does not reach a path leaves the value there alone -/
theorem untouched_path_kept (d s : Kvs) (p : List Bytes) (hp : p ≠ [])
    (h : probe (normalize s) p = .absent) :
    classify (getPath (mergeKvs d (normalize s)) p) = classify (getPath d p) := by
  have hw := wf_normalize s
  rw [classify_getPath_merge p hp d _ hw.1 hw.2, h]

theorem lemma_splitDots_ne_nil (s : Bytes) : splitDots s ≠ [] := by
  induction s with
  | nil => simp [splitDots]
  | cons c cs ih =>
    simp only [splitDots]
    cases h : splitDots cs with
    | nil => exact absurd h ih
    | cons seg rest => by_cases hc : c = '.' <;> simp [hc]

theorem lemma_classify_none {v : Option CVal} : classify v = .none ↔ v = none := by
  cases v with
  | none => simp [classify]
  | some x => cases x <;> simp [classify]

/-- `Get(key)` — the direct top-level match first, then the dotted path, nil as absent — is the
    last-wins value for every key string -/
theorem get_spec (srcs : List Kvs) (key : Bytes) :
    classify (get (mergeAll srcs) key) = specGet srcs key := by
  unfold Config.get specGet
  by_cases hk : key = []
  · simp [hk, classify]
  · simp only [hk, if_false]
    have h1 : classify (lookup (lower key) (mergeAll srcs)) = lastWins srcs [lower key] :=
      get_last_wins srcs [lower key] (by simp)
    have h2 := get_last_wins srcs (splitDots (lower key)) (lemma_splitDots_ne_nil _)
    unfold getValue
    cases hl : lookup (lower key) (mergeAll srcs) with
    | none =>
      rw [hl] at h1
      simp only [classify] at h1
      rw [← h1]
      simp only []
      rw [← h2]
      cases hg : getPath (mergeAll srcs) (splitDots (lower key)) with
      | none => simp [classify]
      | some v =>
        cases v with
        | leaf r =>
          by_cases hr : r = nilLeaf
          · simp [hr, classify]
          · simp [hr, classify]
        | map m => simp [classify]
    | some v =>
      rw [hl] at h1
      rw [← h1]
      cases v with
      | leaf r =>
        by_cases hr : r = nilLeaf
        · simp [hr, classify]
        · simp [hr, classify]
      | map m => simp [classify]

/-! ## 2. case-insensitively -/

theorem lemma_tableLookup_mem {c l : Char} {t : List (Char × Char)} (h : tableLookup c t = some l) :
    (c, l) ∈ t := by
  induction t with
  | nil => simp [tableLookup] at h
  | cons ul rest ih =>
    obtain ⟨u, l'⟩ := ul
    simp only [tableLookup] at h
    by_cases hu : u = c
    · simp only [hu, if_true, Option.some.injEq] at h
      simp [hu, h]
    · simp only [hu, if_false] at h
      exact List.mem_cons_of_mem _ (ih h)

theorem lemma_lowerChar_idem (c : Char) : lowerChar (lowerChar c) = lowerChar c := by
  unfold lowerChar
  cases h : tableLookup c upperTable with
  | none => simp [h]
  | some l =>
    have hm := lemma_tableLookup_mem h
    have : ∀ ul ∈ upperTable, tableLookup ul.2 upperTable = none := by decide
    simp [this (c, l) hm]

theorem lemma_lower_idem (s : Bytes) : lower (lower s) = lower s := by
  simp [lower, lemma_lowerChar_idem]

/-- a key is looked up the same way however it is capitalised -/
theorem case_insensitive (vals : Kvs) (k₁ k₂ : Bytes) (h : lower k₁ = lower k₂) :
    get vals k₁ = get vals k₂ := by
  have hnil : (k₁ = []) ↔ (k₂ = []) := by
    constructor
    · intro h1; rw [h1] at h
      cases k₂ with
      | nil => rfl
      | cons c cs => simp [lower] at h
    · intro h2; rw [h2] at h
      cases k₁ with
      | nil => rfl
      | cons c cs => simp [lower] at h
  unfold Config.get getValue
  by_cases h1 : k₁ = []
  · simp [h1, hnil.mp h1]
  · have h2 : ¬ k₂ = [] := fun e => h1 (hnil.mpr e)
    simp only [h1, h2, if_false, h]

/-- not vacuous -/
example : lower "Server.PORT".toList = lower "server.port".toList := by decide

/-- what `normalizeMapKeys` does to a map whose keys do not collide when lower-cased: the entry of
    key `K` is found under `lower K`, with its value normalised — nothing else changes -/
theorem normalize_lookup (s : Kvs) (hnc : (s.map fun kv => lower kv.1).Nodup) (k : Bytes) (v : CVal)
    (hm : (k, v) ∈ s) : lookup (lower k) (normalize s) = some (normalizeVal v) := by
  induction s with
  | nil => simp at hm
  | cons kv rest ih =>
    obtain ⟨k', v'⟩ := kv
    simp only [List.map_cons, List.nodup_cons] at hnc
    simp only [normalize]
    have hput_self : ∀ (l : Kvs) (a : Bytes) (x : CVal), lookup a (put l a x) = some x := by
      intro l a x
      induction l with
      | nil => simp [put, lookup]
      | cons e r ihr =>
        obtain ⟨ek, ev⟩ := e
        by_cases he : ek = a
        · simp [put, lookup, he]
        · simp [put, lookup, he, ihr]
    have hput_other : ∀ (l : Kvs) (a b : Bytes) (x : CVal), b ≠ a → lookup b (put l a x) = lookup b l := by
      intro l a b x hne
      induction l with
      | nil => simp [put, lookup]; intro e; exact absurd e.symm hne
      | cons e r ihr =>
        obtain ⟨ek, ev⟩ := e
        by_cases he : ek = a
        · subst he
          have : ¬ ek = b := fun e => hne e.symm
          simp [put, lookup, this]
        · by_cases he2 : ek = b
          · subst he2; simp [put, lookup, he]
          · simp [put, lookup, he, he2, ihr]
    rcases List.mem_cons.mp hm with heq | hrest
    · simp only [Prod.mk.injEq] at heq
      rw [heq.1, heq.2]; exact hput_self _ _ _
    · have hne : lower k ≠ lower k' := by
        intro e
        apply hnc.1
        rw [← e]
        exact List.mem_map.mpr ⟨(k, v), hrest, rfl⟩
      rw [hput_other _ _ _ _ hne]
      exact ih hnc.2 hrest

/-! ## 3. a Load that fails at any stage leaves values and bound struct untouched -/

/-- failure at any stage — a source, the JSON schema, a custom validator (error or recovered
    panic), binding decode or `Validate()` — returns the state it started from -/
theorem load_failure_atomic (schema : Bool) (nv : Nat) (st : State) (inp : LoadInput)
    (h : (load schema nv st inp).2 ≠ .ok) : (load schema nv st inp).1 = st := by
  unfold load at h ⊢
  cases hs : loadSources inp.srcs 0 [] with
  | error i => simp
  | ok maps =>
    simp only [hs] at h ⊢
    by_cases h1 : (schema && schemaRejects (mergeAll maps)) = true
    · simp [h1]
    · simp only [h1] at h ⊢
      cases h2 : firstRejecting (mergeAll maps) nv with
      | some i => simp
      | none =>
        simp only [h2] at h ⊢
        cases hb : inp.bind with
        | none => simp [hb] at h
        | some b =>
          cases b with
          | reject => simp
          | ok fresh => simp [hb] at h

/-- evaluate the model on a concrete input (`merge` is defined by well-founded recursion, which the
    kernel does not unfold for `decide`; its equation lemmas do the work) -/
macro "eval_model" : tactic =>
  `(tactic| (simp [load, loadAsIs, loadSources, mergeAll, mergeKvs, merge, upsert, normalize, normalizeVal, put,
      schemaRejects, validatorRejects, firstRejecting, truthy, lookup, overlay, List.range, List.range.loop,
      List.find?, List.lookup] <;> try decide))

/-- every failure stage is reachable (the hypothesis of `load_failure_atomic` is not vacuous) -/
example : (load true 2 ⟨[], []⟩ ⟨[.fail], none, []⟩).2 = .source 0 := by decide
example : (load true 2 ⟨[], []⟩ ⟨[.ok [("schemafail".toList, .leaf "b:true".toList)]], none, []⟩).2 = .schema := by
  eval_model
example : (load true 2 ⟨[], []⟩ ⟨[.ok [("vpanic1".toList, .leaf "b:true".toList)]], none, []⟩).2 = .validator 1 := by
  eval_model
example : (load true 2 ⟨[], []⟩ ⟨[.ok []], some .reject, []⟩).2 = .binding := by eval_model

/-- where a Load stops does not depend on what had been loaded before -/
theorem stage_history_independent (schema : Bool) (nv : Nat) (s₁ s₂ : State) (inp : LoadInput) :
    (load schema nv s₁ inp).2 = (load schema nv s₂ inp).2 := by
  unfold load
  cases loadSources inp.srcs 0 [] with
  | error i => rfl
  | ok maps =>
    simp only []
    by_cases h1 : (schema && schemaRejects (mergeAll maps)) = true
    · simp [h1]
    · simp only [h1]
      cases firstRejecting (mergeAll maps) nv with
      | some i => rfl
      | none =>
        simp only []
        cases inp.bind with
        | none => rfl
        | some b => cases b <;> rfl

/-- after a successful Load the values are the merge of this Load's sources, whatever was there -/
theorem load_success_values (schema : Bool) (nv : Nat) (st : State) (inp : LoadInput)
    (h : (load schema nv st inp).2 = .ok) :
    ∃ maps, loadSources inp.srcs 0 [] = .ok maps ∧ (load schema nv st inp).1.values = mergeAll maps := by
  unfold load at h ⊢
  cases hs : loadSources inp.srcs 0 [] with
  | error i => simp [hs] at h
  | ok maps =>
    refine ⟨maps, rfl, ?_⟩
    simp only [hs] at h ⊢
    by_cases h1 : (schema && schemaRejects (mergeAll maps)) = true
    · simp [h1] at h
    · simp only [h1] at h ⊢
      cases h2 : firstRejecting (mergeAll maps) nv with
      | some i => simp [h2] at h
      | none =>
        simp only [h2] at h ⊢
        cases hb : inp.bind with
        | none => simp
        | some b =>
          cases b with
          | reject => simp [hb] at h
          | ok fresh => simp

/-- **history independence**: after a successful Load, values and — when a struct is bound — the
    bound struct are the same from any two starting states: what a fresh `Config` produces -/
theorem history_independent (schema : Bool) (nv : Nat) (s₁ s₂ : State) (inp : LoadInput)
    (h : (load schema nv s₁ inp).2 = .ok) :
    (load schema nv s₁ inp).1.values = (load schema nv s₂ inp).1.values ∧
    (inp.bind ≠ none → (load schema nv s₁ inp).1.bound = (load schema nv s₂ inp).1.bound) := by
  have h' : (load schema nv s₂ inp).2 = .ok := by rw [← stage_history_independent schema nv s₁ s₂ inp]; exact h
  obtain ⟨m1, hm1, hv1⟩ := load_success_values schema nv s₁ inp h
  obtain ⟨m2, hm2, hv2⟩ := load_success_values schema nv s₂ inp h'
  rw [hm1] at hm2
  have hmm : m1 = m2 := by injection hm2
  refine ⟨by rw [hv1, hv2, hmm], ?_⟩
  intro hb
  unfold load at h h' ⊢
  simp only [hm1] at h h' ⊢
  by_cases h1 : (schema && schemaRejects (mergeAll m1)) = true
  · simp [h1] at h
  · simp only [h1] at h h' ⊢
    cases h2 : firstRejecting (mergeAll m1) nv with
    | some i => simp [h2] at h
    | none =>
      simp only [h2] at h h' ⊢
      cases hbind : inp.bind with
      | none => exact absurd hbind hb
      | some b =>
        cases b with
        | reject => simp [hbind] at h
        | ok fresh => simp

/-- the bound struct after a successful Load is the one a fresh `Config` decodes -/
theorem bound_is_fresh (schema : Bool) (nv : Nat) (st : State) (inp : LoadInput) (fresh : List (Bytes × Bytes))
    (hb : inp.bind = some (.ok fresh)) (h : (load schema nv st inp).2 = .ok) :
    (load schema nv st inp).1.bound = fresh := by
  unfold load at h ⊢
  cases hs : loadSources inp.srcs 0 [] with
  | error i => simp [hs] at h
  | ok maps =>
    simp only [hs] at h ⊢
    by_cases h1 : (schema && schemaRejects (mergeAll maps)) = true
    · simp [h1] at h
    · simp only [h1] at h ⊢
      cases h2 : firstRejecting (mergeAll maps) nv with
      | some i => simp [h2] at h
      | none => simp [hb]

/-- the state at the end of a history of Loads -/
def finalState (schema : Bool) (nv : Nat) (st : State) : List LoadInput → State
  | [] => st
  | inp :: rest => finalState schema nv (load schema nv st inp).1 rest

/-- **a whole history**: with arbitrary Loads before and only failing Loads after it, the last
    successful Load alone determines values and bound struct -/
theorem last_success_wins (schema : Bool) (nv : Nat) (s₁ s₂ : State)
    (before₁ before₂ after : List LoadInput) (inp : LoadInput)
    (hok : (load schema nv s₁ inp).2 = .ok) (hb : inp.bind ≠ none)
    (hafter : ∀ st, ∀ x ∈ after, (load schema nv st x).2 ≠ .ok) :
    finalState schema nv s₁ (before₁ ++ inp :: after) = finalState schema nv s₂ (before₂ ++ inp :: after) := by
  have hfail : ∀ (tl : List LoadInput) (st : State), (∀ s, ∀ x ∈ tl, (load schema nv s x).2 ≠ .ok) →
      finalState schema nv st tl = st := by
    intro tl
    induction tl with
    | nil => intro st _; rfl
    | cons x xs ih =>
      intro st hx
      simp only [finalState]
      rw [load_failure_atomic schema nv st x (hx st x (List.mem_cons_self ..))]
      exact ih st (fun s y hy => hx s y (List.mem_cons_of_mem _ hy))
  have hpre : ∀ (pre : List LoadInput) (st : State),
      finalState schema nv st (pre ++ inp :: after) =
        (load schema nv (finalState schema nv st pre) inp).1 := by
    intro pre
    induction pre with
    | nil =>
      intro st
      simp only [List.nil_append, finalState]
      exact hfail after _ hafter
    | cons x xs ih => intro st; simp only [List.cons_append, finalState]; exact ih _
  rw [hpre before₁ s₁, hpre before₂ s₂]
  have hok₁ : (load schema nv (finalState schema nv s₁ before₁) inp).2 = .ok := by
    rw [stage_history_independent schema nv _ s₁ inp]; exact hok
  obtain ⟨hv, hbd⟩ := history_independent schema nv (finalState schema nv s₁ before₁)
    (finalState schema nv s₂ before₂) inp hok₁
  have hbd := hbd hb
  cases h1 : load schema nv (finalState schema nv s₁ before₁) inp with
  | mk st1 sg1 =>
    cases h2 : load schema nv (finalState schema nv s₂ before₂) inp with
    | mk st2 sg2 =>
      rw [h1, h2] at hv hbd
      simp only [] at hv hbd ⊢
      cases st1; cases st2
      simp_all

/-- K14, as shipped: the decoder wrote into the existing struct, so `name`, set by the first Load
    and absent from the second, survived — while a fresh `Config` over the second Load's sources
    has the zero value there; the repaired `load` agrees with the fresh one -/
theorem asis_history_witness :
    let l1 : LoadInput := ⟨[.ok [("name".toList, .leaf "s:one".toList)]], some (.ok [("name".toList, "one".toList)]),
                           [⟨"name".toList, true, []⟩]⟩
    let l2 : LoadInput := ⟨[.ok []], some (.ok [("name".toList, [])]), [⟨"name".toList, false, []⟩]⟩
    let z : State := ⟨[], [("name".toList, [])]⟩
    (loadAsIs false 0 (loadAsIs false 0 z l1).1 l2).1.bound = [("name".toList, "one".toList)] ∧
    (loadAsIs false 0 z l2).1.bound = [("name".toList, [])] ∧
    (load false 0 (load false 0 z l1).1 l2).1.bound = [("name".toList, [])] := by
  refine ⟨?_, ?_, ?_⟩ <;> eval_model

/-! ## 4. concurrent readers see the old or the new configuration, never a mixture -/

/-- For **every schedule** of commits (the locked regions of Loads, in lock order) and reads (the
    read-locked pointer loads of `Get`/`Values`): whatever a reader sees is, as a whole, either the
    map that was installed at the start or the merge of the sources of one Load that had committed
    successfully before the read. A map is never modified after it has been installed, so there is
    nothing else a reader could see. -/
theorem readers_see_installed (schema : Bool) (nv : Nat) (inputs : List LoadInput) (st : State)
    (sched : List Op) (seen0 : List (Nat × Kvs)) (rm : Nat × Kvs)
    (h : rm ∈ runSched schema nv inputs st sched seen0) :
    rm ∈ seen0 ∨ rm.2 = st.values ∨
      ∃ i inp maps, Op.commit i ∈ sched ∧ inputs[i]? = some inp ∧
        loadSources inp.srcs 0 [] = .ok maps ∧ rm.2 = mergeAll maps := by
  induction sched generalizing st seen0 with
  | nil =>
    simp only [runSched, List.mem_reverse] at h
    exact Or.inl h
  | cons op rest ih =>
    cases op with
    | commit i =>
      simp only [runSched] at h
      cases hi : inputs[i]? with
      | none =>
        simp only [hi] at h
        rcases ih st seen0 h with h1 | h1 | ⟨j, inp, maps, hj, h2, h3, h4⟩
        · exact Or.inl h1
        · exact Or.inr (Or.inl h1)
        · exact Or.inr (Or.inr ⟨j, inp, maps, List.mem_cons_of_mem _ hj, h2, h3, h4⟩)
      | some inp =>
        simp only [hi] at h
        rcases ih _ seen0 h with h1 | h1 | ⟨j, inp', maps, hj, h2, h3, h4⟩
        · exact Or.inl h1
        · by_cases hok : (load schema nv st inp).2 = .ok
          · obtain ⟨maps, hm, hv⟩ := load_success_values schema nv st inp hok
            exact Or.inr (Or.inr ⟨i, inp, maps, List.mem_cons_self .., hi, hm, by rw [h1, hv]⟩)
          · rw [load_failure_atomic schema nv st inp hok] at h1
            exact Or.inr (Or.inl h1)
        · exact Or.inr (Or.inr ⟨j, inp', maps, List.mem_cons_of_mem _ hj, h2, h3, h4⟩)
    | read r =>
      simp only [runSched] at h
      rcases ih st _ h with h1 | h1 | ⟨j, inp, maps, hj, h2, h3, h4⟩
      · rcases List.mem_cons.mp h1 with h0 | h0
        · exact Or.inr (Or.inl (by rw [h0]))
        · exact Or.inl h0
      · exact Or.inr (Or.inl h1)
      · exact Or.inr (Or.inr ⟨j, inp, maps, List.mem_cons_of_mem _ hj, h2, h3, h4⟩)

/-- **old or new**: readers interleaved in any way with one Load (committed any number of times)
    see the configuration before it or the configuration after it -/
theorem readers_old_or_new (schema : Bool) (nv : Nat) (inp : LoadInput) (st : State) (sched : List Op)
    (rm : Nat × Kvs) (h : rm ∈ runSched schema nv [inp] st sched []) :
    rm.2 = st.values ∨ rm.2 = (load schema nv st inp).1.values := by
  have hall : ∀ (sched : List Op) (cur : State) (seen : List (Nat × Kvs)),
      (cur.values = st.values ∨ cur.values = (load schema nv st inp).1.values) →
      (∀ x ∈ seen, x.2 = st.values ∨ x.2 = (load schema nv st inp).1.values) →
      ∀ x ∈ runSched schema nv [inp] cur sched seen,
        x.2 = st.values ∨ x.2 = (load schema nv st inp).1.values := by
    intro sched
    induction sched with
    | nil => intro cur seen _ hs x hx; simp only [runSched, List.mem_reverse] at hx; exact hs x hx
    | cons op rest ih =>
      intro cur seen hc hs x hx
      cases op with
      | commit j =>
        simp only [runSched] at hx
        cases hj : ([inp] : List LoadInput)[j]? with
        | none => simp only [hj] at hx; exact ih cur seen hc hs x hx
        | some y =>
          have hy : y = inp := by
            cases j with
            | zero => simpa using hj.symm
            | succ k => simp at hj
          simp only [hj, hy] at hx
          refine ih _ seen ?_ hs x hx
          by_cases hok : (load schema nv cur inp).2 = .ok
          · exact Or.inr (history_independent schema nv cur st inp hok).1
          · rw [load_failure_atomic schema nv cur inp hok]; exact hc
      | read r =>
        simp only [runSched] at hx
        refine ih cur _ hc ?_ x hx
        intro y hy
        rcases List.mem_cons.mp hy with h0 | h0
        · rw [h0]; exact hc
        · exact hs y h0
  exact hall sched st [] (Or.inl rfl) (by simp) rm h

/-- not vacuous: a reader before and a reader after a successful commit see different maps -/
example :
    (runSched false 0 [⟨[.ok [("a".toList, .leaf "s:new".toList)]], none, []⟩]
      ⟨[("a".toList, .leaf "s:old".toList)], []⟩ [.read 0, .commit 0, .read 1] []).map (fun rm => (rm.1, rm.2.length)) =
      [(0, 1), (1, 1)] := by
  simp [runSched, load, loadSources, mergeAll, mergeKvs, upsert, normalize, normalizeVal, put, firstRejecting,
    schemaRejects, List.range, List.range.loop]

/-! ## 5. the model passes the very oracle the driver evaluates on the implementation -/

/-- what the driver would observe of the model's Load -/
def obsOf (keys : List Bytes) (r : State × Stage) : LoadObs :=
  { failed := r.2 != .ok, values := r.1.values, bound := r.1.bound,
    gets := keys.map fun k => (k, classify (Config.get r.1.values k)),
    typed := true, panicked := false }

theorem lemma_truthy (v : Option CVal) : truthy v = (classify v == .leaf "b:true".toList) := by
  cases v with
  | none => simp [truthy, classify]
  | some x =>
    cases x with
    | leaf r =>
      simp only [truthy, classify]
      by_cases h : r = "b:true".toList
      · simp [h]
      · have : (r == "b:true".toList) = false := by simpa using h
        rw [this]
        symm
        simp only [beq_eq_false_iff_ne, ne_eq, Res.leaf.injEq]
        exact h
    | map m => simp [truthy, classify]

theorem lemma_keyTrue (maps : List Kvs) (k : Bytes) :
    truthy (lookup k (mergeAll maps)) = keyTrue maps k := by
  rw [lemma_truthy, keyTrue]
  have := get_last_wins maps [k] (by simp)
  simp only [getPath] at this
  rw [this]

theorem lemma_allPaths_ne_nil : ∀ (m : Kvs) (p : List Bytes), p ∈ allPaths m → p ≠ []
  | [], p, h => by simp [allPaths] at h
  | (k, v) :: rest, p, h => by
    simp only [allPaths, List.mem_append, List.mem_cons, List.mem_map] at h
    rcases h with (rfl | ⟨_, _, rfl⟩) | h
    · simp
    · simp
    · exact lemma_allPaths_ne_nil rest p h

theorem lemma_valuesOK (maps : List Kvs) : valuesOK maps (mergeAll maps) = true := by
  unfold valuesOK
  simp only [List.all_eq_true, beq_iff_eq]
  intro p hp
  apply get_last_wins
  rcases List.mem_append.mp hp with h | h
  · obtain ⟨s, _, hs⟩ := List.mem_flatMap.mp h
    exact lemma_allPaths_ne_nil _ p hs
  · exact lemma_allPaths_ne_nil _ p h

/-- **model ⊨ oracle**: from every well-formed state, for every Load input and every set of probe
    keys, what the model does passes `loadOK` — failure ⇒ everything as before; success ⇒ the
    last-wins values at every path, the fresh struct, the last-wins `Get` for every probe -/
theorem loadOK_model (schema : Bool) (nv : Nat) (st : State) (hd : DistinctKeys st.values)
    (hw : WFs st.values) (inp : LoadInput) (keys : List Bytes) :
    loadOK schema nv st.values st.bound inp (obsOf keys (load schema nv st inp)) = true := by
  have hsrc := loadSources_spec inp.srcs 0 []
  have e1 : srcFails ⟨inp.srcs, none, []⟩ = srcFails inp := rfl
  have e2 : okMaps ⟨inp.srcs, none, []⟩ = okMaps inp := rfl
  rw [e1, e2] at hsrc
  unfold loadOK mustFail
  cases hsf : srcFails inp with
  | true =>
    obtain ⟨j, hj⟩ := hsrc.2 hsf
    simp only [Bool.true_or, if_true, obsOf, load, hj]
    simp [kvsEq_refl st.values hd hw]
  | false =>
    have hl := hsrc.1 hsf
    simp only [List.reverse_nil, List.nil_append] at hl
    simp only [Bool.false_or]
    -- the three content-driven verdicts agree with the model's tests on the merged map
    have hschema : schemaRejects (mergeAll (okMaps inp)) = keyTrue (okMaps inp) "schemafail".toList :=
      lemma_keyTrue _ _
    have hval : ∀ i, validatorRejects (mergeAll (okMaps inp)) i =
        (keyTrue (okMaps inp) ("vfail".toList ++ (Nat.repr i).toList) ||
         keyTrue (okMaps inp) ("vpanic".toList ++ (Nat.repr i).toList)) := by
      intro i; simp only [validatorRejects, lemma_keyTrue]
    have hfr : (firstRejecting (mergeAll (okMaps inp)) nv).isSome =
        (List.range nv).any (fun i =>
          keyTrue (okMaps inp) ("vfail".toList ++ (Nat.repr i).toList) ||
          keyTrue (okMaps inp) ("vpanic".toList ++ (Nat.repr i).toList)) := by
      unfold firstRejecting
      have hfun : (fun i => keyTrue (okMaps inp) ("vfail".toList ++ (Nat.repr i).toList) ||
          keyTrue (okMaps inp) ("vpanic".toList ++ (Nat.repr i).toList)) =
          validatorRejects (mergeAll (okMaps inp)) := by
        funext i; exact (hval i).symm
      rw [hfun]
      apply Bool.eq_iff_iff.mpr
      rw [List.find?_isSome, List.any_eq_true]
    simp only [obsOf, load, hl]
    rw [← hschema, ← hfr]
    by_cases h1 : (schema && schemaRejects (mergeAll (okMaps inp))) = true
    · simp [h1, kvsEq_refl st.values hd hw]
    · have h1' : (schema && schemaRejects (mergeAll (okMaps inp))) = false := by simpa using h1
      simp only [h1', Bool.false_or]
      cases h2 : firstRejecting (mergeAll (okMaps inp)) nv with
      | some i => simp [kvsEq_refl st.values hd hw]
      | none =>
        simp only [Option.isSome_none, Bool.false_or]
        cases hb : inp.bind with
        | none =>
          simp only [Bool.false_eq_true, if_false]
          simp [lemma_valuesOK, get_spec]
        | some b =>
          cases b with
          | reject => simp [kvsEq_refl st.values hd hw]
          | ok fresh =>
            simp only [Bool.false_eq_true, if_false]
            simp [lemma_valuesOK, get_spec]

/-- the two outcomes of a Load, with the oracle's fault test: it fails exactly when a fault is
    injected (state untouched), otherwise it installs the merge of its sources and the fresh struct -/
theorem load_cases (schema : Bool) (nv : Nat) (st : State) (inp : LoadInput) :
    (mustFail schema nv inp = true ∧ (load schema nv st inp).1 = st ∧ (load schema nv st inp).2 ≠ .ok) ∨
    (mustFail schema nv inp = false ∧ (load schema nv st inp).2 = .ok ∧
      (load schema nv st inp).1.values = mergeAll (okMaps inp) ∧
      (load schema nv st inp).1.bound =
        (match inp.bind with | some (.ok fresh) => fresh | _ => st.bound)) := by
  have hsrc := loadSources_spec inp.srcs 0 []
  have e1 : srcFails ⟨inp.srcs, none, []⟩ = srcFails inp := rfl
  have e2 : okMaps ⟨inp.srcs, none, []⟩ = okMaps inp := rfl
  rw [e1, e2] at hsrc
  unfold mustFail
  cases hsf : srcFails inp with
  | true =>
    obtain ⟨j, hj⟩ := hsrc.2 hsf
    left
    simp [load, hj]
  | false =>
    have hl := hsrc.1 hsf
    simp only [List.reverse_nil, List.nil_append] at hl
    simp only [Bool.false_or]
    have hschema : schemaRejects (mergeAll (okMaps inp)) = keyTrue (okMaps inp) "schemafail".toList :=
      lemma_keyTrue _ _
    have hval : ∀ i, validatorRejects (mergeAll (okMaps inp)) i =
        (keyTrue (okMaps inp) ("vfail".toList ++ (Nat.repr i).toList) ||
         keyTrue (okMaps inp) ("vpanic".toList ++ (Nat.repr i).toList)) := by
      intro i; simp only [validatorRejects, lemma_keyTrue]
    have hfr : (firstRejecting (mergeAll (okMaps inp)) nv).isSome =
        (List.range nv).any (fun i =>
          keyTrue (okMaps inp) ("vfail".toList ++ (Nat.repr i).toList) ||
          keyTrue (okMaps inp) ("vpanic".toList ++ (Nat.repr i).toList)) := by
      unfold firstRejecting
      have hfun : (fun i => keyTrue (okMaps inp) ("vfail".toList ++ (Nat.repr i).toList) ||
          keyTrue (okMaps inp) ("vpanic".toList ++ (Nat.repr i).toList)) =
          validatorRejects (mergeAll (okMaps inp)) := by
        funext i; exact (hval i).symm
      rw [hfun]
      apply Bool.eq_iff_iff.mpr
      rw [List.find?_isSome, List.any_eq_true]
    simp only [load, hl]
    rw [← hschema, ← hfr]
    by_cases h1 : (schema && schemaRejects (mergeAll (okMaps inp))) = true
    · left; simp [h1]
    · have h1' : (schema && schemaRejects (mergeAll (okMaps inp))) = false := by simpa using h1
      simp only [h1', Bool.false_or]
      cases h2 : firstRejecting (mergeAll (okMaps inp)) nv with
      | some i => left; simp
      | none =>
        simp only [Option.isSome_none, Bool.false_or]
        cases hb : inp.bind with
        | none => right; simp
        | some b =>
          cases b with
          | reject => left; simp
          | ok fresh => right; simp

/-- **two racing Loads, model ⊨ oracle**: whichever locked region runs first, the final state
    passes `raceOK` — values and bound struct stem from the same successful Load -/
theorem raceOK_model (schema : Bool) (nv : Nat) (st : State) (hd : DistinctKeys st.values)
    (hw : WFs st.values) (a b : LoadInput) (hsame : a.bind = none ↔ b.bind = none) :
    let s1 := (load schema nv st a).1
    let s2 := (load schema nv s1 b).1
    raceOK schema nv st.values st.bound a b ((load schema nv st a).2 != .ok)
      ((load schema nv s1 b).2 != .ok) s2.values s2.bound = true := by
  intro s1 s2
  unfold raceOK
  rcases load_cases schema nv st a with ⟨hfa, hsa, hna⟩ | ⟨hfa, hoka, hva, hba⟩
  · -- A fails: s1 = st
    have hs1 : s1 = st := hsa
    rcases load_cases schema nv s1 b with ⟨hfb, hsb, hnb⟩ | ⟨hfb, hokb, hvb, hbb⟩
    · have hs2 : s2 = st := by show (load schema nv s1 b).1 = st; rw [hsb, hs1]
      simp [hfa, hfb, hs2, kvsEq_refl st.values hd hw, hna, hnb]
    · have hv2 : s2.values = mergeAll (okMaps b) := hvb
      have hb2 : s2.bound = (match b.bind with | some (.ok fresh) => fresh | _ => s1.bound) := hbb
      rw [hs1] at hb2
      simp only [hfa, hfb, hv2, hb2, hokb, lemma_valuesOK]
      cases hbind : b.bind with
      | none => simp [hna]
      | some x => cases x <;> simp [hna]
  · rcases load_cases schema nv s1 b with ⟨hfb, hsb, hnb⟩ | ⟨hfb, hokb, hvb, hbb⟩
    · -- only A succeeds: s2 = s1
      have hs2 : s2 = s1 := hsb
      have hv1 : s1.values = mergeAll (okMaps a) := hva
      have hb1 : s1.bound = (match a.bind with | some (.ok fresh) => fresh | _ => st.bound) := hba
      simp only [hfa, hfb, hs2, hv1, hb1, hoka, lemma_valuesOK]
      cases hbind : a.bind with
      | none => simp [hnb]
      | some x => cases x <;> simp [hnb]
    · -- both succeed, B last: the state is B's — unless B has no binding, in which case the struct
      -- is the one A left, which is the fresh struct of A only if … B.bind = none means no struct at all
      have hv2 : s2.values = mergeAll (okMaps b) := hvb
      have hb2 : s2.bound = (match b.bind with | some (.ok fresh) => fresh | _ => s1.bound) := hbb
      have hb1 : s1.bound = (match a.bind with | some (.ok fresh) => fresh | _ => st.bound) := hba
      simp only [hfa, hfb, hv2, hb2, hoka, hokb, lemma_valuesOK]
      cases hbindb : b.bind with
      | none =>
        -- the two Loads belong to one Config: either both have a binding or neither
        have hbinda : a.bind = none := hsame.mpr hbindb
        simp [hb1, hbinda]
      | some x =>
        cases x with
        | reject =>
          -- a rejected binding is a fault: contradicts `mustFail b = false`
          exfalso
          simp [mustFail, hbindb] at hfb
        | ok fresh => simp

/-- the invariant `loadOK_model` asks for holds in every reachable state -/
theorem values_wellformed (schema : Bool) (nv : Nat) (st : State) (hd : DistinctKeys st.values)
    (hw : WFs st.values) (inp : LoadInput) :
    DistinctKeys (load schema nv st inp).1.values ∧ WFs (load schema nv st inp).1.values := by
  by_cases hok : (load schema nv st inp).2 = .ok
  · obtain ⟨maps, _, hv⟩ := load_success_values schema nv st inp hok
    rw [hv]; exact wf_mergeAll maps
  · rw [load_failure_atomic schema nv st inp hok]; exact ⟨hd, hw⟩

/-- a reader that saw the map before or after the Load passes the reader oracle -/
theorem readerOK_model (before after seen : Kvs) (hb : DistinctKeys before ∧ WFs before)
    (ha : DistinctKeys after ∧ WFs after) (h : seen = before ∨ seen = after) :
    readerOK before after seen = true := by
  unfold readerOK
  rcases h with rfl | rfl
  · simp [kvsEq_refl _ hb.1 hb.2]
  · simp [kvsEq_refl _ ha.1 ha.2]

/-! ## 7. `Load` statement by statement: every interleaving of Loads and readers is explained by the atomic model

`Model/ConfigSM.lean` runs the *program* of `Load` (`modelLoad`, ten statement groups — `Tie/C14Load.lean` proves it
equal to the skeleton regenerated from `config/config.go` on every run) one statement group at a time, any number
of loader and reader threads, any schedule, with an explicit `sync.RWMutex`. The atomic steps of sections 4–6
(`Op.commit`, `Op.read`) are no longer assumed: they are derived. -/

section statement_level
open Rivaas.ConfigSM

/-- **refinement**: for every schedule of statement-level steps the pointer loads of the readers returned exactly
    what the atomic model `runSched` returns on the linearisation the run recorded (a `commit t` when loader `t`
    returned, a `read r` when reader `r` loaded the pointer), and whenever nobody holds the write lock the shared
    state (values **and** bound struct) is the atomic model's state after those commits. -/
theorem sm_refines_atomic (schema : Bool) (nv : Nat) (inputs : List LoadInput) (st0 : State) (sched : List Act) :
    let s := run modelLoad schema nv inputs (Sys.init st0) sched
    s.seen.reverse = runSched schema nv inputs st0 s.ops.reverse [] ∧
    (s.writer = none → s.conc = (coarse schema nv inputs st0 s.ops.reverse).1) := by
  intro s
  have h : Inv schema nv inputs st0 s := inv_run (inv_init schema nv inputs st0) sched
  constructor
  · rw [runSched_coarse, h.seen, absOf_coarse]; simp
  · intro hw; rw [h.idle hw, absOf_coarse]

/-- **readers, statement level**: whatever a `Get`/`Values()` saw at any point of any interleaving is, as a whole,
    the initial map or the merge of the sources of one Load that had returned successfully before -/
theorem sm_readers_see_installed (schema : Bool) (nv : Nat) (inputs : List LoadInput) (st0 : State)
    (sched : List Act) (rm : Nat × Kvs)
    (h : rm ∈ (run modelLoad schema nv inputs (Sys.init st0) sched).seen) :
    rm.2 = st0.values ∨
      ∃ i inp maps, Op.commit i ∈ (run modelLoad schema nv inputs (Sys.init st0) sched).ops ∧
        inputs[i]? = some inp ∧ loadSources inp.srcs 0 [] = .ok maps ∧ rm.2 = mergeAll maps := by
  have hr := (sm_refines_atomic schema nv inputs st0 sched).1
  have hm : rm ∈ runSched schema nv inputs st0
      (run modelLoad schema nv inputs (Sys.init st0) sched).ops.reverse [] := by
    rw [← hr]; exact List.mem_reverse.mpr h
  rcases readers_see_installed schema nv inputs st0 _ [] rm hm with h0 | h0 | ⟨i, inp, maps, hi, h1, h2, h3⟩
  · cases h0
  · exact Or.inl h0
  · exact Or.inr ⟨i, inp, maps, List.mem_reverse.mp hi, h1, h2, h3⟩

/-- what a call of `Load` returned (error stage or success) is what the atomic `load` reports on the same sources —
    for every interleaving; by `stage_history_independent` it does not depend on what was loaded before -/
theorem sm_result_is_load_stage (schema : Bool) (nv : Nat) (inputs : List LoadInput) (st0 : State)
    (sched : List Act) (t : Nat) (inp : LoadInput) (r : Stage) (hin : inputs[t]? = some inp)
    (h : ((run modelLoad schema nv inputs (Sys.init st0) sched).ls t).done = some r) (st : State) :
    (load schema nv st inp).2 = r :=
  ((inv_run (inv_init schema nv inputs st0) sched).loc t inp hin).res r h st

/-- the state the atomic model reaches on a list of events is the initial one or what one successful Load installed -/
theorem lemma_coarse_state (schema : Bool) (nv : Nat) (inputs : List LoadInput) (st : State) (ops : List Op) :
    (coarse schema nv inputs st ops).1 = st ∨
      ∃ i inp st', Op.commit i ∈ ops ∧ inputs[i]? = some inp ∧ (load schema nv st' inp).2 = .ok ∧
        (coarse schema nv inputs st ops).1 = (load schema nv st' inp).1 := by
  induction ops generalizing st with
  | nil => exact Or.inl rfl
  | cons op rest ih =>
    cases op with
    | read r =>
      simp only [coarse]
      rcases ih st with h | ⟨i, inp, st', hi, h1, h2, h3⟩
      · exact Or.inl h
      · exact Or.inr ⟨i, inp, st', List.mem_cons_of_mem _ hi, h1, h2, h3⟩
    | commit j =>
      simp only [coarse]
      cases hj : inputs[j]? with
      | none =>
        simp only []
        rcases ih st with h | ⟨i, inp, st', hi, h1, h2, h3⟩
        · exact Or.inl h
        · exact Or.inr ⟨i, inp, st', List.mem_cons_of_mem _ hi, h1, h2, h3⟩
      | some inpj =>
        simp only []
        rcases ih (load schema nv st inpj).1 with h | ⟨i, inp, st', hi, h1, h2, h3⟩
        · by_cases hok : (load schema nv st inpj).2 = .ok
          · exact Or.inr ⟨j, inpj, st, List.mem_cons_self .., hj, hok, h⟩
          · rw [load_failure_atomic schema nv st inpj hok] at h ⊢; exact Or.inl h
        · exact Or.inr ⟨i, inp, st', List.mem_cons_of_mem _ hi, h1, h2, h3⟩

/-- **no mixture of two Loads, statement level**: whenever no Load is inside its locked region, values and bound
    struct are the initial ones, or both stem from one and the same successful Load (its merged sources, and —
    with a binding — the struct a fresh `Config` decodes from them: `load_success_values`, `bound_is_fresh`) -/
theorem sm_quiescent_consistent (schema : Bool) (nv : Nat) (inputs : List LoadInput) (st0 : State)
    (sched : List Act) (hw : (run modelLoad schema nv inputs (Sys.init st0) sched).writer = none) :
    (run modelLoad schema nv inputs (Sys.init st0) sched).conc = st0 ∨
      ∃ i inp maps, Op.commit i ∈ (run modelLoad schema nv inputs (Sys.init st0) sched).ops ∧
        inputs[i]? = some inp ∧ loadSources inp.srcs 0 [] = .ok maps ∧
        (run modelLoad schema nv inputs (Sys.init st0) sched).conc.values = mergeAll maps ∧
        (∀ fresh, inp.bind = some (.ok fresh) →
          (run modelLoad schema nv inputs (Sys.init st0) sched).conc.bound = fresh) := by
  have hc := (sm_refines_atomic schema nv inputs st0 sched).2 hw
  rcases lemma_coarse_state schema nv inputs st0
      (run modelLoad schema nv inputs (Sys.init st0) sched).ops.reverse with h | ⟨i, inp, st', hi, h1, h2, h3⟩
  · exact Or.inl (hc.trans h)
  · obtain ⟨maps, hm, hv⟩ := load_success_values schema nv st' inp h2
    refine Or.inr ⟨i, inp, maps, List.mem_reverse.mp hi, h1, hm, ?_, ?_⟩
    · rw [hc, h3, hv]
    · intro fresh hb; rw [hc, h3]; exact bound_is_fresh schema nv st' inp fresh hb h2

/-- not vacuous: two loaders and a reader, interleaved statement by statement — the second loader reads its sources
    and validates while the first holds the lock, the reader is admitted between the two locked regions -/
example :
    let inputs : List LoadInput := [⟨[.ok [("a".toList, .leaf "s:one".toList)]], none, []⟩,
                                    ⟨[.ok [("a".toList, .leaf "s:two".toList)]], none, []⟩]
    let s := run modelLoad false 0 inputs (Sys.init ⟨[("a".toList, .leaf "s:old".toList)], []⟩)
      ([.loader 0, .loader 0, .loader 0, .loader 0, .loader 0, .reader 0, .loader 1, .loader 1, .loader 1, .loader 1,
        .loader 1, .loader 0, .loader 0, .loader 0, .loader 0, .loader 0, .reader 0, .reader 0, .reader 0,
        .loader 1, .loader 1, .loader 1, .loader 1, .loader 1, .loader 1] : List Act)
    (s.ops.reverse, s.seen.map (·.1), s.writer, (s.ls 0).done, (s.ls 1).done) =
      ([.commit 0, .read 0, .commit 1], [0], none, some .ok, some .ok) := by
  decide

end statement_level

/-! ## 8. the environment source (`config/source/env.go`, `config/codec/env.go`) is inside the model

`envSource prefix os.Environ()` (`Model/ConfigEnv.lean`) is what the driver feeds into `load` for a `WithEnv` source;
the harness ships `os.Environ()` and the prefix, nothing it computed itself. -/

theorem lemma_envDef_ne_nil {l : Bytes} {q : List Bytes} {w : Bytes} (h : envDef l = some (q, w)) : q ≠ [] := by
  unfold envDef at h
  split at h
  · cases h
  · simp only [] at h
    split at h
    · cases h
    · split at h
      · cases h
      · rename_i hne
        injection h with h; injection h with h1 _
        rw [← h1]; exact hne

/-- **last assignment wins inside the environment too**: a variable is visible, as a string with blanks trimmed, at
    the key path its name spells (prefix stripped, lower-cased, split at `_`, empty parts dropped) provided no variable
    listed after it in `os.Environ()` assigns the same path, a prefix of it (that would replace the enclosing map by
    a string) or an extension of it (that would replace the string by a map). -/
theorem env_var_visible (pre post : List Bytes) (line : Bytes) (p : List Bytes) (v : Bytes)
    (hdef : envDef line = some (p, v))
    (hpost : ∀ l ∈ post, ∀ q w, envDef l = some (q, w) → ¬ q <+: p ∧ ¬ p <+: q) :
    getPath (envDecode (pre ++ line :: post)) p = some (strLeaf v) := by
  have hp : p ≠ [] := lemma_envDef_ne_nil hdef
  unfold envDecode
  rw [List.foldl_append, List.foldl_cons]
  have h0 : getPath (envLine (List.foldl envLine [] pre) line) p = some (strLeaf v) := by
    simp only [envLine, hdef]
    exact getPath_insertPath_self _ p hp _
  generalize envLine (List.foldl envLine [] pre) line = acc at h0
  induction post generalizing acc with
  | nil => exact h0
  | cons l rest ih =>
    rw [List.foldl_cons]
    apply ih (fun l' hl' => hpost l' (List.mem_cons_of_mem _ hl'))
    unfold envLine
    cases hd : envDef l with
    | none => exact h0
    | some qw =>
      obtain ⟨q, w⟩ := qw
      obtain ⟨h1, h2⟩ := hpost l (List.mem_cons_self ..) q w hd
      simp only []
      rw [getPath_insertPath_other acc q p (lemma_envDef_ne_nil hd) hp h1 h2]
      exact h0

/-- lines the codec skips change nothing: no `=`, an empty name, a name made of `_` only -/
theorem env_skipped_line (conf : Kvs) (line : Bytes) (h : envDef line = none) : envLine conf line = conf := by
  simp [envLine, h]

/-- not vacuous, and the quirks the model shares with the code: the prefix must match as a whole (`PX_NAME` is not
    `P_…`); `A_B=1` then `A=2` then `A_C=3`: the string replaces the map, the map replaces the string; a value with a
    line feed smuggles in a second variable; names are trimmed and lower-cased, values trimmed -/
example :
    let m := envSource "P_".toList
      ["P_A_B=1".toList, "PX_NAME=decoy".toList, "P_ Name = x ".toList, "P_A=2".toList, "P_A_C=3\nINJ_X=4".toList,
       "P__RATE_=".toList, "P__=5".toList]
    (classify (getPath m ["a".toList, "c".toList]), classify (getPath m ["a".toList, "b".toList]),
     classify (getPath m ["name".toList]), classify (getPath m ["inj".toList, "x".toList]),
     classify (getPath m ["rate".toList]), classify (getPath m ["a".toList]), m.length) =
    (.leaf "s:3".toList, .none, .leaf "s:x".toList, .leaf "s:4".toList, .leaf "s:".toList, .isMap, 4) := by
  decide

/-! ## 9. the binding step: what is a theorem and what is a parameter

`load` takes the struct a decode of the merged values yields (`inp.bind = some (.ok fresh)`) as an input: mapstructure,
`applyDefaults` and `Validate()` are parameters, shipped per case from a fresh `Config`. With `bound := fresh` in the
model, `bound_is_fresh` and the second conjunct of `history_independent` hold **by construction** — they say that the
model has no other influence on the struct, not that the code has none. The part of the binding step that is rivaas's
own is *what the decoder starts from*: as shipped it decoded into the existing struct (`overlay old fresh fields`:
fields whose key is absent keep their old non-zero value — `loadAsIs`, K14), since the fix `bind` zeroes the struct
first. That step is modelled and proved here; that the real decoder behaves like `overlay` is correspondence
(the K14 cases: 291 of 2 005 histories differed on the tree as shipped, none since). -/

/-- the struct `bind` starts from since the fix: every field at its zero value -/
def zeroBound (fields : List FieldInfo) : List (Bytes × Bytes) := fields.map fun f => (f.name, f.zero)

theorem lemma_lookup_zeroBound (fields : List FieldInfo) (name : Bytes) :
    (zeroBound fields).lookup name = (fields.find? fun f => f.name == name).map (·.zero) := by
  induction fields with
  | nil => rfl
  | cons f rest ih =>
    simp only [zeroBound, List.map_cons, List.find?_cons]
    by_cases h : f.name == name
    · have h' : (name == f.name) = true := by
        rw [beq_iff_eq] at h ⊢; exact h.symm
      simp [List.lookup, h, h']
    · have h' : (name == f.name) = false := by
        cases hh : (name == f.name) with
        | false => rfl
        | true => rw [beq_iff_eq] at hh; exact absurd (by rw [beq_iff_eq]; exact hh.symm) h
      simp only [List.lookup, h', h]
      exact ih

/-- **zero first, then decode**: decoding into the zeroed struct gives exactly what a fresh `Config` gives, whatever
    the field list, whatever was bound before — the K14 repair as a theorem about the overlay semantics of the decoder
    (present fields are written; absent ones keep what the struct held, and defaults fill what is still zero) -/
theorem zeroed_bind_is_fresh (fields : List FieldInfo) (fresh : List (Bytes × Bytes)) :
    overlay (zeroBound fields) fresh fields = fresh := by
  unfold overlay
  conv => rhs; rw [← List.map_id fresh]
  apply List.map_congr_left
  intro nf _
  obtain ⟨name, fv⟩ := nf
  simp only [id]
  rw [lemma_lookup_zeroBound]
  cases hf : fields.find? (fun f => f.name == name) with
  | none => rfl
  | some f =>
    simp only [Option.map_some]
    by_cases hp : f.present = true
    · simp [hp]
    · simp [hp]

/-- … whereas decoding into the struct as it is (as shipped) keeps a removed key's old value: the two differ -/
theorem unzeroed_bind_depends_on_history :
    overlay [("name".toList, "\"old\"".toList)] [("name".toList, "\"\"".toList)]
        [{ name := "name".toList, present := false, zero := "\"\"".toList }] ≠
      overlay (zeroBound [{ name := "name".toList, present := false, zero := "\"\"".toList }])
        [("name".toList, "\"\"".toList)] [{ name := "name".toList, present := false, zero := "\"\"".toList }] := by
  decide

/-! ## 10. the oracle's case folding is the standard one (review C14-3)

`lastWins` / `specGet` fold case with the same `lower` the model uses. `lower` is a 26-entry table; here it is proved
equal to Lean core's `Char.toLower` on **every** character, so the oracle's notion of "case-insensitively" is the
standard ASCII one and not an artefact of the model. (`normalize` itself is characterised through lookups by
`normalize_lookup` and `case_insensitive`; an oracle that folds case without `normalize` is not done.) -/

theorem lemma_lowerChar_table : ∀ n : Fin 128, lowerChar (Char.ofNat n.val) = (Char.ofNat n.val).toLower := by decide

theorem lowerChar_is_toLower (c : Char) : lowerChar c = c.toLower := by
  by_cases h : c.toNat < 128
  · have := lemma_lowerChar_table ⟨c.toNat, h⟩
    simpa [Char.ofNat_toNat] using this
  · -- neither the table nor Char.toLower touches a non-ASCII character
    have h1 : c.toLower = c := by
      unfold Char.toLower
      split
      · rename_i hh
        exfalso; apply h
        have h2 : c.val.toNat ≤ 90 := by
          have := UInt32.le_iff_toNat_le.mp hh.2
          simpa using this
        simp only [Char.toNat]; omega
      · rfl
    rw [h1]
    unfold lowerChar
    have : tableLookup c upperTable = none := by
      unfold upperTable
      simp only [tableLookup]
      repeat (first | (rw [if_neg (by intro e; apply h; rw [← e]; decide)]) | rfl)
    rw [this]

theorem lower_is_toLower (s : Bytes) : lower s = s.map Char.toLower := by
  unfold lower
  exact List.map_congr_left fun c _ => lowerChar_is_toLower c

end Rivaas.C14
