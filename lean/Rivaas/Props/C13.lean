import Rivaas.Lemmas.VersionSel
import Rivaas.Lemmas.VersionCfg
import Rivaas.Model.VersionChain
/-
C13 — API-version routing follows the configured detection order.

The theorems quantify over every configuration (detection options in any number and order, patterns,
default, valid list, lifecycles, clock), every route table and every request. Hypotheses:
`ValidCfg` (what `version.NewConfig` enforces), `ValidReq` (the path begins with `/`, Accept values are
free of control characters — what `net/http` delivers) and `libAgrees` (the shipped `url.Values`
results are what standard parsing says; the driver checks it on every case).
Helper lemmas live in `Lemmas/VersionStr.lean` and `Lemmas/VersionSel.lean`.
-/
namespace Rivaas.C13
open Rivaas Rivaas.Version Rivaas.Version.Spec

/-! ### lifecycle decision -/

theorem lemma_lifecycle (cfg : Cfg) (v : Bytes) :
    (setLifecycleHeaders cfg v).2 = gone cfg v ∧
    ((setLifecycleHeaders cfg v).2 = false →
      ((setLifecycleHeaders cfg v).1.deprecation.isSome = isDeprecated cfg v ∧
       (setLifecycleHeaders cfg v).1.sunset.isSome = (isDeprecated cfg v && hasSunsetDate cfg v) ∧
       (isDeprecated cfg v = false →
          (setLifecycleHeaders cfg v).1.link = none ∧ (setLifecycleHeaders cfg v).1.warning = none))) ∧
    ((setLifecycleHeaders cfg v).1.xapi = none ∨ (setLifecycleHeaders cfg v).1.xapi = some v) := by
  unfold setLifecycleHeaders gone isDeprecated hasSunsetDate
  rw [lemma_getLifecycle_eq]
  cases lifecycleOf cfg v with
  | none =>
    refine ⟨rfl, fun _ => ⟨rfl, rfl, fun _ => ⟨rfl, rfl⟩⟩, ?_⟩
    simp only
    split <;> simp
  | some lc =>
    obtain ⟨dep, sun, mig⟩ := lc
    have hx : ∀ (b : Bool), (if (b && v != []) = true then some v else none) = none ∨
        (if (b && v != []) = true then some v else none) = some v := by
      intro b; split <;> simp
    cases sun with
    | none =>
      cases dep
      · exact ⟨rfl, fun _ => ⟨rfl, rfl, fun _ => ⟨rfl, rfl⟩⟩, hx _⟩
      · exact ⟨rfl, fun _ => ⟨rfl, rfl, fun h => by simp at h⟩, hx _⟩
    | some d =>
      obtain ⟨t, http, rfc⟩ := d
      simp only
      by_cases hpast : (cfg.enforceSunset && decide (cfg.now > t)) = true
      · have hpast' : (cfg.enforceSunset && decide (t < cfg.now)) = true := by simpa using hpast
        rw [if_pos hpast]
        refine ⟨?_, ?_, hx _⟩
        · exact hpast'.symm
        · intro h; simp at h
      · have hp1 : (cfg.enforceSunset && decide (cfg.now > t)) = false := by simpa using hpast
        have hp2 : (cfg.enforceSunset && decide (t < cfg.now)) = false := by simpa using hpast
        rw [if_neg hpast]
        cases dep
        · refine ⟨?_, fun _ => ⟨rfl, rfl, fun _ => ⟨rfl, rfl⟩⟩, hx _⟩
          simp only [Option.map_some]; exact hp2.symm
        · refine ⟨?_, fun _ => ⟨rfl, rfl, fun h => by simp at h⟩, hx _⟩
          simp only [Option.map_some]; exact hp2.symm

theorem lemma_notFound (routes : List Route) (req : Req) : isNotFound (notFound routes req) = true := by
  unfold isNotFound notFound
  simp only
  split <;> simp

/-! ### the main theorem -/

/-- **C13.** For every configuration, route table and request, what the model of `ServeHTTP` does
    satisfies the whole oracle: unversioned routes win and report no version; otherwise the version is the
    first candidate in the order "custom first, then configuration order" that the valid list accepts,
    else the default (query and Accept candidates as standard parsing defines them); it is served from
    that version's tree (the default's when it has none) at the path with the version segment removed;
    `Version()` reports it; past sunset under enforcement the answer is 410 and no handler runs;
    deprecation / sunset headers appear exactly for deprecated versions. -/
theorem serve_meets_spec (cfg : Cfg) (routes : List Route) (req : Req)
    (hc : ValidCfg cfg) (hr : ValidReq cfg req) (hlib : libAgrees cfg req = true) :
    specOK cfg routes req (serve cfg routes req) = true := by
  have hlen : cfg.opts.length = req.lib.length := by
    unfold libAgrees at hlib
    simp only [Bool.and_eq_true, beq_iff_eq] at hlib
    exact hlib.1
  unfold serve specOK
  rw [lemma_treeLookup_eq]
  cases hmain : routed routes none req.method req.path with
  | some p => simp [noLifecycleHeaders]
  | none =>
    simp only
    rw [List.any_eq_true]
    refine ⟨_, lemma_routingPath_mem cfg req hr hlen, ?_⟩
    have hsel := lemma_detectVersion_eq cfg req hc hr hlib
    have hne := lemma_selected_ne_nil cfg req hc
    unfold processVersioning
    simp only [lemma_shouldApply cfg _ req.path hc.dflt_ne, Bool.not_true, Bool.false_eq_true, if_false]
    unfold outcomeOK
    simp only [hsel, lemma_selectRoutingTree_eq cfg routes req.method _ hne hc.dflt_ne]
    cases htree : servingTree cfg routes req.method (selected cfg req) with
    | none => exact lemma_notFound routes req
    | some tv =>
      simp only [lemma_treeLookup_eq]
      cases hrt : routed routes (some tv) req.method _ with
      | none => exact lemma_notFound routes req
      | some p =>
        simp only
        obtain ⟨hg, hh, hx⟩ := lemma_lifecycle cfg (selected cfg req)
        cases hgone : gone cfg (selected cfg req) with
        | true =>
          rw [hgone] at hg
          simp [hg]
        | false =>
          rw [hgone] at hg
          obtain ⟨h1, h2, h3⟩ := hh hg
          simp only [hg, Bool.false_eq_true, if_false]
          simp only [h1, h2, Bool.and_eq_true, decide_eq_true_eq, beq_self_eq_true, true_and, and_true,
            Bool.or_eq_true, beq_iff_eq]
          refine ⟨?_, ?_⟩
          · cases hd : isDeprecated cfg (selected cfg req) with
            | true => simp
            | false =>
              obtain ⟨hl, hw⟩ := h3 hd
              simp [hl, hw]
          · rcases hx with hx | hx
            · left; simp [hx]
            · right; exact hx


/-! ### the clauses of the statement, one by one -/

/-- detector order: custom detectors first (each `WithCustomDetection` inserts at the front), then path,
    header, query and Accept detectors in configuration order -/
theorem custom_first {α} (opts : List (DetOpt × α)) :
    buildDetectors opts =
      ((opts.filter (fun o => isCustom o.1)).reverse ++ opts.filter (fun o => !isCustom o.1)).map
        fun x => (toDet x.1, x.2) :=
  lemma_buildDetectors opts

/-- version selection: the first candidate in that order which the valid-versions list accepts, else the
    default — with query and Accept candidates as *standard parsing* defines them -/
theorem detect_first_valid (cfg : Cfg) (req : Req) (hc : ValidCfg cfg) (hr : ValidReq cfg req)
    (hlib : libAgrees cfg req = true) :
    detectVersion cfg req =
      (((detectionOrder (cfg.opts.zip req.lib)).filterMap (candidate req)).find? (accepted cfg.valid)).getD
        cfg.dflt :=
  lemma_detectVersion_eq cfg req hc hr hlib

/-- what "first accepted candidate, else the default" means, position by position (appendix sketch U) -/
theorem first_accepted_spec (valid : List Bytes) (dflt : Bytes) (cs : List Bytes) :
    (∃ (i : Nat) (v : Bytes), cs[i]? = some v ∧ accepted valid v = true ∧ (cs.find? (accepted valid)).getD dflt = v ∧
        ∀ j : Nat, j < i → ∀ w, cs[j]? = some w → accepted valid w = false) ∨
    ((∀ (i : Nat) (v : Bytes), cs[i]? = some v → accepted valid v = false) ∧ (cs.find? (accepted valid)).getD dflt = dflt) := by
  induction cs with
  | nil => right; simp
  | cons c rest ih =>
    by_cases hv : accepted valid c = true
    · left
      exact ⟨0, c, by simp, hv, by simp [hv], by intro j hj; omega⟩
    · have hv' : accepted valid c = false := by simpa using hv
      rcases ih with ⟨i, u, h1, h2, h3, h4⟩ | ⟨h1, h2⟩
      · left
        refine ⟨i + 1, u, by simpa using h1, h2, by simpa [List.find?_cons, hv'] using h3, ?_⟩
        intro j hj w hw
        cases j with
        | zero => simp at hw; subst hw; exact hv'
        | succ j => exact h4 j (by omega) w (by simpa using hw)
      · right
        refine ⟨?_, by simpa [List.find?_cons, hv'] using h2⟩
        intro i w hw
        cases i with
        | zero => simp at hw; subst hw; exact hv'
        | succ i => exact h1 i w (by simpa using hw)

/-- Accept detection agrees with standard parsing of the header: media ranges split on `,`, parameters
    cut at `;`, optional white space trimmed, first media type of the shape `prefix version suffix` -/
theorem accept_scan_eq_std (pattern accept : Bytes) (i : Nat)
    (hp : index pattern versionPlaceholder = some i) (hs : HeaderSafe accept) :
    extractFromAccept (acceptParts pattern).1 (acceptParts pattern).2 accept =
      (mediaTypes accept).findSome?
        (middle (pattern.take i) (pattern.drop (i + versionPlaceholder.length))) := by
  rw [lemma_accept_scan_eq_std pattern accept i hp hs]
  unfold acceptVersion
  simp only [hp]

/-- `middle` is what its name says: the non-empty `v` with `mt = pfx ++ v ++ sfx` -/
theorem middle_spec (pfx sfx mt v : Bytes) :
    middle pfx sfx mt = some v ↔ v ≠ [] ∧ mt = pfx ++ v ++ sfx := by
  unfold middle
  constructor
  · intro h
    simp only at h
    split at h
    · rename_i hc
      simp only [Option.some.injEq] at h
      subst h
      exact ⟨hc.2, hc.1⟩
    · simp at h
  · rintro ⟨hv, rfl⟩
    have : (List.drop pfx.length (pfx ++ v ++ sfx)).take ((pfx ++ v ++ sfx).length - pfx.length - sfx.length) = v := by
      simp [List.append_assoc]
    simp only [this]
    simp [hv]

/-- query detection agrees with standard parsing of the query string (the detector goes through
    `url.Values`; the shipped result is checked against the Lean parser by `libAgrees`) -/
theorem query_detect_eq_std (req : Req) (q : Bytes) (has : Bool) (get : Bytes)
    (h : agreesOne req (.query q, .query has get) = true) :
    detectOne req.path req.rawQuery (.query q, .query has get) = queryFirst req.rawQuery q :=
  lemma_detectOne_eq req (.query q) (.query has get) h (fun _ hp => by cases hp) (fun _ hv => by cases hv)

/-- unversioned routes always win and report no version -/
theorem unversioned_wins (cfg : Cfg) (routes : List Route) (req : Req) (p : Bytes)
    (h : routed routes none req.method req.path = some p) :
    (serve cfg routes req).status = 200 ∧ (serve cfg routes req).handler = some (none, p) ∧
    (serve cfg routes req).version = some [] ∧ noLifecycleHeaders (serve cfg routes req) = true := by
  unfold serve
  rw [lemma_treeLookup_eq, h]
  simp [noLifecycleHeaders]

/-- the handler's `Version()` reports the selected version -/
theorem version_reported (cfg : Cfg) (routes : List Route) (req : Req)
    (hc : ValidCfg cfg) (hr : ValidReq cfg req) (hlib : libAgrees cfg req = true)
    (tv p : Bytes) (h : (serve cfg routes req).handler = some (some tv, p)) :
    (serve cfg routes req).version = some (selected cfg req) := by
  have hspec := serve_meets_spec cfg routes req hc hr hlib
  unfold specOK at hspec
  cases hm : routed routes none req.method req.path with
  | some p' =>
    have := (unversioned_wins cfg routes req p' hm).2.1
    rw [this] at h
    simp at h
  | none =>
    rw [hm] at hspec
    simp only [List.any_eq_true] at hspec
    obtain ⟨rp, _, hok⟩ := hspec
    unfold outcomeOK at hok
    simp only at hok
    split at hok
    · simp [isNotFound, h] at hok
    · split at hok
      · simp [isNotFound, h] at hok
      · split at hok
        · simp [h] at hok
        · simp only [Bool.and_eq_true, beq_iff_eq] at hok
          exact hok.1.1.1.1.2

/-- a version past its sunset date under enforcement answers 410 without running a handler -/
theorem sunset_410_no_handler (cfg : Cfg) (routes : List Route) (req : Req)
    (hc : ValidCfg cfg) (hr : ValidReq cfg req) (hlib : libAgrees cfg req = true)
    (hmain : routed routes none req.method req.path = none)
    (hgone : gone cfg (selected cfg req) = true) :
    (serve cfg routes req).handler = none ∧
    ((serve cfg routes req).status = 410 ∨ isNotFound (serve cfg routes req) = true) := by
  have hspec := serve_meets_spec cfg routes req hc hr hlib
  unfold specOK at hspec
  rw [hmain] at hspec
  simp only [List.any_eq_true] at hspec
  obtain ⟨rp, _, hok⟩ := hspec
  unfold outcomeOK at hok
  simp only [hgone, if_true] at hok
  split at hok
  · have h1 : (serve cfg routes req).handler.isNone = true := by
      unfold isNotFound at hok; simp only [Bool.and_eq_true] at hok; exact hok.1
    exact ⟨by simpa using h1, Or.inr hok⟩
  · split at hok
    · have h1 : (serve cfg routes req).handler.isNone = true := by
        unfold isNotFound at hok; simp only [Bool.and_eq_true] at hok; exact hok.1
      exact ⟨by simpa using h1, Or.inr hok⟩
    · simp only [Bool.and_eq_true, decide_eq_true_eq] at hok
      exact ⟨by simpa using hok.2, Or.inl hok.1⟩

/-- deprecation / sunset headers are emitted exactly for versions configured as deprecated -/
theorem deprecation_headers_iff (cfg : Cfg) (routes : List Route) (req : Req)
    (hc : ValidCfg cfg) (hr : ValidReq cfg req) (hlib : libAgrees cfg req = true)
    (tv p : Bytes) (h : (serve cfg routes req).handler = some (some tv, p)) :
    ((serve cfg routes req).hDeprecation.isSome = isDeprecated cfg (selected cfg req)) ∧
    ((serve cfg routes req).hSunset.isSome =
      (isDeprecated cfg (selected cfg req) && hasSunsetDate cfg (selected cfg req))) ∧
    (isDeprecated cfg (selected cfg req) = false →
      (serve cfg routes req).hLink = none ∧ (serve cfg routes req).hWarning = none) := by
  have hspec := serve_meets_spec cfg routes req hc hr hlib
  unfold specOK at hspec
  cases hm : routed routes none req.method req.path with
  | some p' =>
    have := (unversioned_wins cfg routes req p' hm).2.1
    rw [this] at h
    simp at h
  | none =>
    rw [hm] at hspec
    simp only [List.any_eq_true] at hspec
    obtain ⟨rp, _, hok⟩ := hspec
    unfold outcomeOK at hok
    simp only at hok
    split at hok
    · simp [isNotFound, h] at hok
    · split at hok
      · simp [isNotFound, h] at hok
      · split at hok
        · simp [h] at hok
        · simp only [Bool.and_eq_true, beq_iff_eq, Bool.or_eq_true] at hok
          obtain ⟨⟨⟨⟨_, hd⟩, hs⟩, hl⟩, _⟩ := hok
          refine ⟨hd, hs, ?_⟩
          intro hnd
          rcases hl with hl | hl
          · rw [hnd] at hl; simp at hl
          · simpa using hl

/-- with one path pattern (the documented configuration) the routing path is the path with prefix and
    version segment removed when the pattern finds a segment, and the path itself otherwise -/
theorem path_strip_correct (cfg : Cfg) (path pat : Bytes) (h : pathPatterns cfg = [pat]) :
    routingPaths cfg path =
      (match versionSegment pat path with
       | some (_, rest) => [if rest = [] then ['/'] else rest]
       | none => [path]) := by
  unfold routingPaths
  rw [h]
  simp only [List.any_cons, List.any_nil, Bool.or_false, List.filterMap_cons, List.filterMap_nil]
  unfold versionSegment stripBy
  cases pathPrefix pat with
  | none => simp
  | some pfx =>
    simp only [segmentAfter, stripAfter]
    cases afterPrefix pfx path with
    | none => simp
    | some after =>
      simp only
      by_cases hseg : List.takeWhile (fun x => x != '/') after = []
      · simp [hseg]
      · have hafter : after ≠ [] := by intro hn; rw [hn] at hseg; exact hseg rfl
        simp [hseg, hafter]


/-! ### the code as shipped: witnesses of K13a–K13d (also replayed on the implementation, corpus/C13) -/

/-- K13a: two earlier keys that merely end in the parameter name exhaust the scanner's two probes -/
theorem query_scan_asis_witness :
    extractFromQueryAsIs vb!"v" vb!"xv=v1&yv=v9&v=v2" = .notFound ∧
    queryFirst vb!"xv=v1&yv=v9&v=v2" vb!"v" = some vb!"v2" := by decide

/-- K13a: the shipped scanner decoded neither key nor value -/
theorem query_scan_asis_no_decoding :
    extractFromQueryAsIs vb!"v" vb!"%76=v2" = .notFound ∧ queryFirst vb!"%76=v2" vb!"v" = some vb!"v2" ∧
    extractFromQueryAsIs vb!"v" vb!"v=v%32" = .found vb!"v%32" ∧
    queryFirst vb!"v=v%32" vb!"v" = some vb!"v2" := by decide

/-- K13b: a media type shorter than prefix+suffix that has both: slice bounds out of range -/
theorem accept_scan_asis_panics :
    extractFromAcceptAsIs vb!"application/vnd.api+" vb!"+json" vb!"application/vnd.api+json" = .panic ∧
    extractFromAccept vb!"application/vnd.api+" vb!"+json" vb!"application/vnd.api+json" = none := by decide

/-- K13d: optional white space before the parameter separator hid the version -/
theorem accept_scan_asis_ows :
    extractFromAcceptAsIs vb!"application/vnd.api." vb!"+json" vb!"application/vnd.api.v2+json ;q=0.9" = .notFound ∧
    extractFromAccept vb!"application/vnd.api." vb!"+json" vb!"application/vnd.api.v2+json ;q=0.9" = some vb!"v2" := by
  decide

def cfgSunset : Cfg :=
  { opts := [.query vb!"v"], dflt := vb!"v1", valid := [], sendVersionHeader := true, sendWarning299 := false,
    enforceSunset := true, now := 1750000000,
    lifecycles := [(vb!"v1", { deprecated := false, sunset := some (1749913600, vb!"Sat, 14 Jun 2025 15:06:40 GMT", vb!"2025-06-14T15:06:40Z"), migration := [] })] }

/-- K13c: past its sunset date under enforcement, but not marked deprecated: the shipped code served it -/
theorem sunset_asis_witness : isSunsetAsIs cfgSunset vb!"v1" = false ∧ gone cfgSunset vb!"v1" = true ∧
    (setLifecycleHeaders cfgSunset vb!"v1").2 = true := by decide

/-! ### non-vacuity: the hypotheses of the theorems are met by concrete non-trivial inputs -/

def cfgEx : Cfg :=
  { opts := [.path vb!"/v{version}/", .header vb!"X-API-Version", .query vb!"v",
             .accept vb!"application/vnd.api.v{version}+json", .custom 0],
    dflt := vb!"v1", valid := [vb!"v1", vb!"v2"], sendVersionHeader := true, sendWarning299 := true,
    enforceSunset := true, now := 1750000000,
    lifecycles := [(vb!"v2", { deprecated := true, sunset := some (1760000000, vb!"H", vb!"R"), migration := vb!"https://m" })] }

def routesEx : List Route :=
  [{ ver := some vb!"v1", method := vb!"GET", path := vb!"/users" },
   { ver := some vb!"v2", method := vb!"GET", path := vb!"/users" },
   { ver := none, method := vb!"GET", path := vb!"/health" }]

/-- path says v9 (invalid), header says v3 (invalid), query says v2 (valid): v2 wins, `/v9/users` is stripped -/
def reqEx : Req :=
  { method := vb!"GET", path := vb!"/v9/users", rawQuery := vb!"xv=v1&v=v2",
    lib := [.none, .header vb!"v3", .query true vb!"v2", .accept vb!"application/vnd.api.v1+json ;q=0.9", .custom []] }

theorem cfgEx_valid : ValidCfg cfgEx := by
  refine ⟨by decide, ?_⟩
  intro p hp
  simp [cfgEx] at hp
  subst hp
  exact ⟨21, by decide⟩

theorem reqEx_valid : ValidReq cfgEx reqEx := by
  refine ⟨by decide, ?_⟩
  intro v hv
  simp [reqEx] at hv
  subst hv
  intro c hc
  revert c
  decide

example : libAgrees cfgEx reqEx = true := by decide

/-- the example exercises precedence, rejection by the valid list, stripping and deprecation headers -/
example : (serve cfgEx routesEx reqEx).handler = some (some vb!"v2", vb!"/users") ∧
    (serve cfgEx routesEx reqEx).version = some vb!"v2" ∧
    (serve cfgEx routesEx reqEx).hDeprecation = some vb!"true" ∧
    selected cfgEx reqEx = vb!"v2" := by decide

example : specOK cfgEx routesEx reqEx (serve cfgEx routesEx reqEx) = true :=
  serve_meets_spec cfgEx routesEx reqEx cfgEx_valid reqEx_valid (by decide)

/-- `sunset_410_no_handler` is not vacuous -/
example : routed ([{ ver := some vb!"v1", method := vb!"GET", path := vb!"/users" }] : List Route) none vb!"GET" vb!"/users" = none ∧
    gone cfgSunset vb!"v1" = true := by decide

/-- `unversioned_wins` is not vacuous -/
example : routed routesEx none vb!"GET" vb!"/health" = some vb!"/health" := by decide

/-! ### observer callbacks -/

/-- **The detection callbacks tell the story of the detection**: `OnDetected(v, method)` is called only with the
    version `DetectVersion` returns (and the method name of the detector that produced it), `OnMissing` only when
    it returns the default because no detector produced an acceptable version, and every `OnInvalid(v)` reports a
    non-empty candidate that the valid-versions list rejects; `OnDeprecatedUse` is not one of them. -/
theorem detect_events_sound (valid : List Bytes) (dflt path rawQuery : Bytes) (dets : List (Det × LibVal)) :
    (∀ v m, ObsEv.detected v m ∈ detectLoopEv valid path rawQuery dets →
        detectLoop valid dflt path rawQuery dets = v ∧ ∃ d ∈ dets, d.1.method = m ∧ detectOne path rawQuery d = some v) ∧
    (ObsEv.missing ∈ detectLoopEv valid path rawQuery dets → detectLoop valid dflt path rawQuery dets = dflt) ∧
    (∀ v, ObsEv.invalid v ∈ detectLoopEv valid path rawQuery dets → v ≠ [] ∧ validateVersion valid v = none) ∧
    (∀ v r, ObsEv.deprecatedUse v r ∉ detectLoopEv valid path rawQuery dets) := by
  induction dets with
  | nil => simp [detectLoopEv, detectLoop]
  | cons d rest ih =>
    obtain ⟨ih1, ih2, ih3, ih4⟩ := ih
    cases hd : detectOne path rawQuery d with
    | none =>
      simp only [detectLoopEv, detectLoop, hd]
      refine ⟨?_, ih2, ih3, ih4⟩
      intro v m h
      obtain ⟨h1, d', hd', hm⟩ := ih1 v m h
      exact ⟨h1, d', List.mem_cons_of_mem _ hd', hm⟩
    | some c =>
      cases hv : validateVersion valid c with
      | some ok =>
        have hok : ok = c := by
          unfold validateVersion at hv
          split at hv
          · cases hv
          · split at hv
            · cases hv; rfl
            · split at hv
              · cases hv; rfl
              · cases hv
        subst hok
        simp only [detectLoopEv, detectLoop, hd, hv, List.mem_singleton, ObsEv.detected.injEq, reduceCtorEq,
          false_implies, implies_true, not_false_eq_true, and_true]
        rintro v m ⟨rfl, rfl⟩
        exact ⟨rfl, d, by simp, rfl, hd⟩
      | none =>
        have hev : ∀ e ∈ validateEv valid c, e = ObsEv.invalid c ∧ c ≠ [] := by
          intro e he
          unfold validateEv at he
          split at he
          · cases he
          · rename_i hc
            split at he
            · cases he
            · split at he
              · cases he
              · simp only [List.mem_singleton] at he
                exact ⟨he, hc⟩
        simp only [detectLoopEv, detectLoop, hd, hv, List.mem_append]
        refine ⟨?_, ?_, ?_, ?_⟩
        · rintro v m (h | h)
          · exact absurd (hev _ h).1 (by simp)
          · obtain ⟨h1, d', hd', hm⟩ := ih1 v m h
            exact ⟨h1, d', List.mem_cons_of_mem _ hd', hm⟩
        · rintro (h | h)
          · exact absurd (hev _ h).1 (by simp)
          · exact ih2 h
        · rintro v (h | h)
          · obtain ⟨h1, h2⟩ := hev _ h
            cases h1
            exact ⟨h2, hv⟩
          · exact ih3 v h
        · rintro v r (h | h)
          · exact absurd (hev _ h).1 (by simp)
          · exact ih4 v r h

theorem lemma_deprecation_not_gone (cfg : Cfg) (v : Bytes)
    (h : (setLifecycleHeaders cfg v).1.deprecation.isSome = true) : (setLifecycleHeaders cfg v).2 = false := by
  revert h
  unfold setLifecycleHeaders
  cases getLifecycle cfg.lifecycles v with
  | none => simp
  | some lc =>
    simp only
    repeat' split
    all_goals simp

/-- `OnDeprecatedUse` is called exactly for the requests that get the `Deprecation` header from a version-tree
    handler (with the version and the route pattern that was matched) -/
theorem deprecated_use_iff_header (cfg : Cfg) (routes : List Route) (req : Req) (v r : Bytes)
    (h : ObsEv.deprecatedUse v r ∈ serveEvents cfg routes req) :
    (serve cfg routes req).hDeprecation.isSome = true ∧ (serve cfg routes req).version = some v := by
  unfold serveEvents at h
  unfold serve
  cases hm : treeLookup (treeRoutes routes none req.method) req.path with
  | some p => simp [hm] at h
  | none =>
    simp only [hm, List.mem_append] at h ⊢
    have hnot : ∀ l, l = detectLoopEv cfg.valid req.path req.rawQuery (detectors cfg req) → ObsEv.deprecatedUse v r ∉ l := by
      intro l hl; rw [hl]
      exact (detect_events_sound cfg.valid cfg.dflt req.path req.rawQuery (detectors cfg req)).2.2.2 v r
    rcases h with h | h
    · split at h
      · exact absurd h (hnot _ rfl)
      · cases h
    · cases ht : (processVersioning cfg routes req).tree with
      | none => simp only [ht] at h; exact absurd h (hnot _ rfl)
      | some tv =>
        simp only [ht] at h ⊢
        cases hl : treeLookup (treeRoutes routes (some tv) req.method) (processVersioning cfg routes req).routingPath with
        | none => simp only [hl] at h; exact absurd h (hnot _ rfl)
        | some p =>
          simp only [hl] at h ⊢
          split at h
          · rename_i hdep
            simp only [List.mem_singleton, ObsEv.deprecatedUse.injEq] at h
            obtain ⟨rfl, rfl⟩ := h
            have hg := lemma_deprecation_not_gone cfg (processVersioning cfg routes req).version hdep
            cases hs : setLifecycleHeaders cfg (processVersioning cfg routes req).version with
            | mk hh gone =>
              rw [hs] at hg hdep
              simp only at hg hdep
              subst hg
              simp [hdep]
          · cases h

/-- not vacuous: two candidates rejected by the valid list, the third accepted -/
example : detectLoopEv [vb!"v1", vb!"v2"] vb!"/x" vb!"v=v9"
      [(.header vb!"X-V", .header vb!"v7"), (.query vb!"v", .query true vb!"v9"), (.custom 1, .custom vb!"v2")] =
    [.invalid vb!"v7", .invalid vb!"v9", .detected vb!"v2" vb!"custom"] := by decide

/-! ### lifecycle options: `r.Version(v, opts…)` and `vr.Configure(opts…)` -/

/-- `r.Version(v)` without options registers no lifecycle (and never touches one that is registered) -/
theorem version_without_options_registers_nothing (s : LSt) (id : Nat) (ver : Bytes) :
    (s.step (.version id ver [])).engine = s.engine := by
  simp [LSt.step]

/-- `r.Version(v, opts…)` registers a FRESH configuration built from the options alone -/
theorem version_with_options_is_fresh (s : LSt) (id : Nat) (ver : Bytes) (opts : List LOpt) (h : opts ≠ []) :
    (s.step (.version id ver opts)).engine = s.engine ++ [(ver, id)] ∧
    (s.step (.version id ver opts)).vrs.lookup id = some (ver, some (opts.foldl applyLOpt LC.zero)) := by
  simp [LSt.step, h, List.lookup]

/-- `vr.Configure(opts…)` applies the options ON TOP of what the object already holds and registers the object
    (again) for its version -/
theorem configure_merges (s : LSt) (id : Nat) (ver : Bytes) (lc : Option LC) (opts : List LOpt) (h : opts ≠ [])
    (hv : s.vrs.lookup id = some (ver, lc)) :
    (s.step (.configure id opts)).engine = s.engine ++ [(ver, id)] ∧
    (s.step (.configure id opts)).vrs.lookup id = some (ver, some (opts.foldl applyLOpt (lc.getD LC.zero))) := by
  simp [LSt.step, h, hv, List.lookup]

/-- options only ever switch on / overwrite: once deprecated always deprecated, the last `Sunset` / `MigrationDocs` counts -/
theorem lifecycle_options_monotone (lc : LC) (o : LOpt) :
    (lc.deprecated = true → (applyLOpt lc o).deprecated = true) ∧
    (∀ s, o = .sunset s → (applyLOpt lc o).sunset = some s) ∧
    (∀ u, o = .migration u → (applyLOpt lc o).migration = u) ∧
    ((applyLOpt lc .deprecatedSince).deprecated = true) := by
  refine ⟨?_, ?_, ?_, rfl⟩
  · intro h; cases o <;> simp [applyLOpt, h]
  · rintro s rfl; rfl
  · rintro u rfl; rfl

/-- not vacuous, and the surprising case: an OLDER object for the version that is configured once more after a newer
    one was registered replaces the newer one's lifecycle (the engine holds the pointer that was set last) -/
example :
    getLifecycle (lifecyclesOf [.version 1 vb!"v1" [.migration vb!"old"], .version 2 vb!"v1" [.deprecated, .sunset (5, [], [])],
                                .configure 1 [.successor]]) vb!"v1" =
      some { deprecated := false, sunset := none, migration := vb!"old" } ∧
    getLifecycle (lifecyclesOf [.version 1 vb!"v1" [], .configure 1 [.sunset (3, [], [])], .configure 1 [.deprecatedSince, .sunset (7, [], [])]])
        vb!"v1" = some { deprecated := true, sunset := some (7, [], []), migration := [] } := by decide

/-- the object registered last for a version -/
def lastRegistered (s : LSt) (v : Bytes) : Option Nat := (s.engine.reverse.find? (fun p => p.1 == v)).map (·.2)

/-- what object `id` holds -/
def heldBy (s : LSt) (id : Nat) : Option LC := (s.vrs.lookup id).bind (·.2)

/-- every `r.Version(…)` statement of the script creates an object under a new id -/
def freshIds : List LOp → List Nat → Bool
  | [], _ => true
  | .version id _ _ :: rest, seen => !seen.contains id && freshIds rest (id :: seen)
  | .configure _ _ :: rest, seen => freshIds rest seen

/-- every registered object exists and holds a configuration -/
def Registered (s : LSt) : Prop := ∀ p ∈ s.engine, ∃ ver lc, s.vrs.lookup p.2 = some (ver, some lc)

theorem lemma_lookup_cons_ne {β} (id id' : Nat) (b : β) (l : List (Nat × β)) (h : id' ≠ id) :
    ((id, b) :: l).lookup id' = l.lookup id' := by
  simp [List.lookup, beq_eq_false_iff_ne.2 h]

theorem lemma_registered_step (s : LSt) (op : LOp) (h : Registered s)
    (hfresh : ∀ id ver opts, op = .version id ver opts → s.vrs.lookup id = none) : Registered (s.step op) := by
  cases op with
  | version id ver opts =>
    have hnone := hfresh id ver opts rfl
    by_cases ho : opts = []
    · subst ho
      intro p hp
      simp only [LSt.step, if_true] at hp ⊢
      obtain ⟨v, lc, hlc⟩ := h p hp
      have hid : p.2 ≠ id := by intro e; rw [e, hnone] at hlc; cases hlc
      exact ⟨v, lc, by rw [lemma_lookup_cons_ne _ _ _ _ hid]; exact hlc⟩
    · intro p hp
      simp only [LSt.step, ho, if_false, List.mem_append, List.mem_singleton] at hp ⊢
      rcases hp with hp | rfl
      · obtain ⟨v, lc, hlc⟩ := h p hp
        have hid : p.2 ≠ id := by intro e; rw [e, hnone] at hlc; cases hlc
        exact ⟨v, lc, by rw [lemma_lookup_cons_ne _ _ _ _ hid]; exact hlc⟩
      · exact ⟨ver, opts.foldl applyLOpt LC.zero, by simp [List.lookup]⟩
  | configure id opts =>
    by_cases ho : opts = []
    · subst ho; simpa [LSt.step] using h
    · cases hv : s.vrs.lookup id with
      | none => simpa [LSt.step, ho, hv] using h
      | some vl =>
        obtain ⟨ver, lc0⟩ := vl
        intro p hp
        simp only [LSt.step, ho, hv, if_false, List.mem_append, List.mem_singleton] at hp ⊢
        rcases hp with hp | rfl
        · obtain ⟨v, lc, hlc⟩ := h p hp
          by_cases hid : p.2 = id
          · exact ⟨ver, opts.foldl applyLOpt (lc0.getD LC.zero), by rw [hid]; simp [List.lookup]⟩
          · exact ⟨v, lc, by rw [lemma_lookup_cons_ne _ _ _ _ hid]; exact hlc⟩
        · exact ⟨ver, opts.foldl applyLOpt (lc0.getD LC.zero), by simp [List.lookup]⟩

/-- ids seen so far cover the objects that exist -/
theorem lemma_registered_run (ops : List LOp) (s : LSt) (seen : List Nat) (h : Registered s)
    (hseen : ∀ id, s.vrs.lookup id ≠ none → id ∈ seen) (hf : freshIds ops seen = true) :
    Registered (ops.foldl LSt.step s) := by
  induction ops generalizing s seen with
  | nil => exact h
  | cons op rest ih =>
    rw [List.foldl_cons]
    cases op with
    | version id ver opts =>
      simp only [freshIds, Bool.and_eq_true, Bool.not_eq_true', List.contains_eq_mem, decide_eq_false_iff_not] at hf
      have hnone : s.vrs.lookup id = none := by
        cases hl : s.vrs.lookup id with
        | none => rfl
        | some x => exact absurd (hseen id (by rw [hl]; simp)) hf.1
      refine ih _ (id :: seen) (lemma_registered_step s _ h ?_) ?_ hf.2
      · intro id' ver' opts' he; cases he; exact hnone
      · intro id' hne
        by_cases hid : id' = id
        · subst hid; simp
        · have : s.vrs.lookup id' ≠ none := by
            by_cases ho : opts = []
            · subst ho
              simpa [LSt.step, lemma_lookup_cons_ne _ _ _ _ hid] using hne
            · simpa [LSt.step, ho, lemma_lookup_cons_ne _ _ _ _ hid] using hne
          exact List.mem_cons_of_mem _ (hseen id' this)
    | configure id opts =>
      simp only [freshIds] at hf
      refine ih _ seen (lemma_registered_step s _ h ?_) ?_ hf
      · intro id' ver' opts' he; cases he
      · intro id' hne
        apply hseen id'
        by_cases ho : opts = []
        · subst ho; simpa [LSt.step] using hne
        · cases hv : s.vrs.lookup id with
          | none => simpa [LSt.step, ho, hv] using hne
          | some vl =>
            by_cases hid : id' = id
            · subst hid; rw [hv]; simp
            · simpa [LSt.step, ho, hv, lemma_lookup_cons_ne _ _ _ _ hid] using hne

theorem lemma_find_filterMap_all {α β} (l : List α) (f : α → Option β) (g : α → β) (p : β → Bool)
    (h : ∀ a ∈ l, f a = some (g a)) : (l.filterMap f).reverse.find? p = (l.reverse.find? (fun a => p (g a))).map g := by
  have : l.filterMap f = l.map g := by
    induction l with
    | nil => rfl
    | cons a rest ih =>
      rw [List.filterMap_cons, h a (by simp)]
      simp only [List.map_cons]
      rw [ih (fun b hb => h b (by simp [hb]))]
  rw [this, ← List.map_reverse, List.find?_map]
  rfl

/-- **the lifecycle a version is served with is the one held — at serving time — by the object that was registered
    LAST for it** (`r.Version(v, opts…)` with options, or `Configure` on any object of that version), for every script
    whose `Version` statements create fresh objects -/
theorem lifecycle_last_registration_wins (ops : List LOp) (v : Bytes) (hf : freshIds ops [] = true) :
    let s := ops.foldl LSt.step { vrs := [], engine := [] }
    getLifecycle (lifecyclesOf ops) v = (lastRegistered s v).bind (heldBy s) := by
  intro s
  have hreg : Registered s :=
    lemma_registered_run ops { vrs := [], engine := [] } [] (by intro p hp; cases hp) (by intro id h; simp [List.lookup] at h) hf
  have hl : lifecyclesOf ops = s.engine.filterMap (fun p : Bytes × Nat => match s.vrs.lookup p.2 with
      | some (_, some lc) => some (p.1, lc)
      | _ => Option.none) := rfl
  unfold getLifecycle lastRegistered heldBy
  rw [hl]
  have key := lemma_find_filterMap_all s.engine
    (fun p : Bytes × Nat => match s.vrs.lookup p.2 with
      | some (_, some lc) => some (p.1, lc)
      | _ => Option.none)
    (fun p => (p.1, ((s.vrs.lookup p.2).bind (·.2)).getD LC.zero)) (fun q : Bytes × LC => q.1 == v)
    (by
      intro p hp
      obtain ⟨ver, lc, hlc⟩ := hreg p hp
      simp [hlc])
  rw [key]
  cases hfind : s.engine.reverse.find? (fun a => a.1 == v) with
  | none => simp
  | some p =>
    have hp : p ∈ s.engine := by
      have := List.mem_of_find?_eq_some hfind
      simpa using this
    obtain ⟨ver, lc, hlc⟩ := hreg p hp
    simp [hlc]

/-- not vacuous: the script of the `example` above has fresh ids, and its last registration for `v1` is the OLD object -/
example : freshIds [.version 1 vb!"v1" [.migration vb!"old"], .version 2 vb!"v1" [.deprecated], .configure 1 [.successor]] [] = true ∧
    lastRegistered ([LOp.version 1 vb!"v1" [.migration vb!"old"], .version 2 vb!"v1" [.deprecated], .configure 1 [.successor]].foldl
      LSt.step { vrs := [], engine := [] }) vb!"v1" = some 1 := by decide

/-! ### the handler chain of a version-group route (app layer) -/

section Chain
open Rivaas.VersionChain

/-- **order of a version-group route's chain**: group middleware, then the `WithBefore` handlers, the handler, the
    `WithAfter` handlers — composed from the group's list as it is when the route is registered -/
theorem chain_shape (s : GSt) (g r : Nat) (before after mw : List Nat) (h : s.groups.lookup g = some mw) :
    (s.step (.route g r before after)).routes = s.routes ++ [(r, mw ++ before ++ [0] ++ after)] := by
  simp [GSt.step, h]

/-- a route's chain is fixed at registration: no later operation changes it -/
theorem chain_fixed_at_registration (s : GSt) (op : GOp) : ∃ more, (s.step op).routes = s.routes ++ more := by
  cases op with
  | use g ids => refine ⟨[], ?_⟩; simp only [GSt.step]; split <;> simp
  | sub p c ids => refine ⟨[], ?_⟩; simp only [GSt.step]; split <;> simp
  | route g r b a =>
    simp only [GSt.step]
    split
    · exact ⟨_, rfl⟩
    · exact ⟨[], by simp⟩
  | appUse ids => exact ⟨[], by simp [GSt.step]⟩

/-- **a nested group copies its parent's middleware when it is created**: `Use` on the parent afterwards does not
    reach the child -/
theorem sub_group_is_snapshot (s : GSt) (p c : Nat) (more : List Nat) (hpc : p ≠ c) :
    (s.step (.use p more)).groups.lookup c = s.groups.lookup c := by
  simp only [GSt.step]
  split
  · simp [List.lookup, beq_eq_false_iff_ne.2 (Ne.symm hpc)]
  · rfl

/-- … and the child starts from the parent's list followed by its own -/
theorem sub_group_inherits (s : GSt) (p c : Nat) (ids mw : List Nat) (h : s.groups.lookup p = some mw) :
    (s.step (.sub p c ids)).groups.lookup c = some (mw ++ ids) := by
  simp [GSt.step, h]

def appIds : GOp → List Nat
  | .appUse ids => ids
  | _ => []

theorem lemma_global_fold (ops : List GOp) (s : GSt) :
    (ops.foldl GSt.step s).global = s.global ++ (ops.map appIds).flatten := by
  induction ops generalizing s with
  | nil => simp
  | cons o rest ih =>
    rw [List.foldl_cons, ih]
    cases o with
    | use g ids => simp only [GSt.step]; split <;> simp [appIds]
    | sub p c ids => simp only [GSt.step]; split <;> simp [appIds]
    | route g r b a => simp only [GSt.step]; split <;> simp [appIds]
    | appUse ids => simp [GSt.step, appIds]

/-- **global middleware first, all of it**: every `app.Use` of the script — before or after the route was registered —
    runs in front of the route's own chain, in call order -/
theorem global_middleware_first (ops : List GOp) (r : Nat) (c : List Nat) (h : (r, c) ∈ chains ops) :
    ∃ own, c = (ops.map appIds).flatten ++ own ∧ (r, own) ∈ (runOps ops).routes := by
  unfold chains at h
  simp only [List.mem_map] at h
  obtain ⟨⟨r', own⟩, hmem, heq⟩ := h
  simp only [Prod.mk.injEq] at heq
  obtain ⟨rfl, rfl⟩ := heq
  refine ⟨own, ?_, hmem⟩
  have := lemma_global_fold ops GSt.init
  have h0 : GSt.init.global = [] := rfl
  rw [h0, List.nil_append] at this
  unfold runOps
  rw [this]

/-- not vacuous: parent `Use` after the child was created, `app.Use` after the route was registered -/
example : chains [.sub 0 1 [1], .use 0 [2], .route 1 7 [3] [4], .route 0 8 [] [5], .appUse [9]] =
    [(7, [9, 1, 3, 0, 4]), (8, [9, 2, 0, 5])] := by decide

end Chain

/-! ### the configuration step (`version.NewConfig` and the option functions) -/

theorem lemma_newPathDetector_pattern (p : Bytes) : (newPathDetector p).pattern = p := by
  unfold newPathDetector
  split <;> rfl

theorem lemma_fold_dflt_ne (opts : List Opt) (b : Built) (hb : b.dflt ≠ []) (hw : opts.all wellFormed = true) :
    (opts.foldl upd b).dflt ≠ [] := by
  induction opts generalizing b with
  | nil => exact hb
  | cons o rest ih =>
    simp only [List.all_cons, Bool.and_eq_true] at hw
    rw [List.foldl_cons]
    apply ih _ _ hw.2
    cases o with
    | dflt v => simpa [upd, wellFormed] using hw.1
    | det d => simp only [upd]; split <;> exact hb
    | _ => exact hb

/-- `Config.validate` can never fail after the option functions have succeeded: both of its tests repeat what
    `WithDefault` / `WithPathDetection` already enforce (and `NewConfig` starts from the default `v1`) -/
theorem validate_redundant (opts : List Opt) (b : Built) (h : applyAll Built.init opts = .ok b) :
    validate b = .ok b := by
  have hw : opts.all wellFormed = true := by
    cases hall : opts.all wellFormed with
    | true => rfl
    | false =>
      obtain ⟨e, he⟩ := (lemma_applyAll opts Built.init).2 hall
      rw [he] at h; cases h
  have hb : b = opts.foldl upd Built.init := by
    rw [(lemma_applyAll opts Built.init).1 hw] at h
    cases h; rfl
  have hd : b.dflt ≠ [] := by rw [hb]; exact lemma_fold_dflt_ne opts _ (by decide) hw
  have hp : b.dets.any Det.lacksPlaceholder = false := by
    rw [hb, lemma_upd_dets]
    simp only [Built.init, List.append_nil, List.any_append, List.any_map, List.any_reverse, Bool.or_eq_false_iff,
      List.any_eq_false, List.mem_filter, List.mem_filterMap, Function.comp]
    have key : ∀ d, (∃ o ∈ opts, detOf o = some d) →
        ¬(toDet d).lacksPlaceholder = true := by
      rintro d ⟨o, ho, hdo⟩
      have hwo : wellFormed o = true := (List.all_eq_true.1 hw) o ho
      cases o with
      | det d' =>
        simp only [detOf, Option.some.injEq] at hdo
        subst hdo
        cases d' with
        | path p =>
          simp only [toDet, Det.lacksPlaceholder, lemma_newPathDetector_pattern]
          simp only [wellFormed, hasPlaceholder, Bool.and_eq_true] at hwo
          simp [containsSub, hwo.2]
        | _ => simp [toDet, Det.lacksPlaceholder]
      | _ => simp [detOf] at hdo
    exact ⟨fun d hd => key d hd.1, fun d hd => key d hd.1⟩
  unfold validate
  rw [if_neg hd, if_neg (by rw [hp]; exact Bool.false_ne_true)]

/-- **Configuration is accepted exactly when every option is well-formed** (empty names / patterns, a pattern
    without `{version}`, a nil custom detector, an empty default, an empty valid list or entry are rejected — by the
    first offending option) -/
theorem newConfig_accepts_iff (opts : List Opt) :
    (∃ b, newConfig opts = .ok b) ↔ opts.all wellFormed = true := by
  constructor
  · rintro ⟨b, hb⟩
    cases hall : opts.all wellFormed with
    | true => rfl
    | false =>
      obtain ⟨e, he⟩ := (lemma_applyAll opts Built.init).2 hall
      simp [newConfig, he] at hb
  · intro hw
    have h := (lemma_applyAll opts Built.init).1 hw
    refine ⟨opts.foldl upd Built.init, ?_⟩
    simp only [newConfig, h]
    exact validate_redundant opts _ h

/-- an accepted configuration in closed form -/
theorem newConfig_ok (opts : List Opt) (b : Built) (h : newConfig opts = .ok b) :
    opts.all wellFormed = true ∧ b = opts.foldl upd Built.init := by
  have hw := (newConfig_accepts_iff opts).1 ⟨b, h⟩
  have h1 := (lemma_applyAll opts Built.init).1 hw
  simp only [newConfig, h1, validate_redundant opts _ h1] at h
  cases h
  exact ⟨hw, rfl⟩

/-- **The detectors of an accepted configuration are consulted in the order of the statement**: custom detectors
    first (the one configured last first), then path / header / query / Accept in configuration order — for an
    ARBITRARY list of options (any number of detectors of any kind, duplicates included) -/
theorem newConfig_detection_order (opts : List Opt) (b : Built) (h : newConfig opts = .ok b) :
    b.dets = (detectionOrder ((opts.filterMap detOf).map fun d => (d, ()))).map fun p => toDet p.1 := by
  rw [(newConfig_ok opts b h).2, lemma_upd_dets]
  simp [Built.init, detectionOrder, List.filter_map, Function.comp_def, List.map_reverse]

/-- an accepted configuration satisfies the hypothesis `ValidCfg` of `serve_meets_spec` -/
theorem newConfig_valid_cfg (opts : List Opt) (b : Built) (h : newConfig opts = .ok b) (now : Nat)
    (lcs : List (Bytes × LC)) :
    ValidCfg { opts := opts.filterMap detOf, dflt := b.dflt, valid := b.valid,
               sendVersionHeader := b.sendVersionHeader, sendWarning299 := b.sendWarning299,
               enforceSunset := b.enforceSunset, now := now, lifecycles := lcs } := by
  obtain ⟨hw, hb⟩ := newConfig_ok opts b h
  refine ⟨?_, ?_⟩
  · show b.dflt ≠ []
    rw [hb]; exact lemma_fold_dflt_ne opts _ (by decide) hw
  · intro p hp
    simp only [List.mem_filterMap] at hp
    obtain ⟨o, ho, hdo⟩ := hp
    have hwo : wellFormed o = true := (List.all_eq_true.1 hw) o ho
    cases o with
    | det d' =>
      simp only [detOf, Option.some.injEq] at hdo
      subst hdo
      simp only [wellFormed, hasPlaceholder, Bool.and_eq_true] at hwo
      cases hi : index p versionPlaceholder with
      | none => simp [hi] at hwo
      | some i => exact ⟨i, rfl⟩
    | _ => simp [detOf] at hdo

/-- **C13 (configuration).** What the public API shows of `version.New(opts…)` satisfies the configuration oracle:
    accepted exactly for well-formed options, detectors in the order of the statement, non-empty default (last
    `WithDefault`, else `v1`), valid list of the last `WithValidVersions`, response behaviours as switched on. -/
theorem newConfig_meets_spec (opts : List Opt) : cfgSpecOK opts (observeCfg opts) = true := by
  unfold observeCfg
  cases h : newConfig opts with
  | error e =>
    simp only [cfgSpecOK]
    cases hall : opts.all wellFormed with
    | true =>
      obtain ⟨b, hb⟩ := (newConfig_accepts_iff opts).2 hall
      rw [hb] at h; cases h
    | false =>
      simp only [List.all_eq_false] at hall
      obtain ⟨o, ho, hwo⟩ := hall
      exact List.any_eq_true.2 ⟨o, ho, by simpa using hwo⟩
  | ok b =>
    obtain ⟨hw, hb⟩ := newConfig_ok opts b h
    have hd : b.dflt ≠ [] := by rw [hb]; exact lemma_fold_dflt_ne opts _ (by decide) hw
    have hord := newConfig_detection_order opts b h
    obtain ⟨f1, f2, f3, f4⟩ := lemma_upd_flags opts Built.init
    have hdf := lemma_upd_dflt opts Built.init
    have hvl := lemma_upd_valid opts Built.init
    rw [← hb] at f1 f2 f3 f4 hdf hvl
    simp only [cfgSpecOK, hw, Bool.true_and, Bool.and_eq_true, beq_iff_eq, bne_iff_ne, ne_eq]
    refine ⟨⟨⟨⟨⟨⟨⟨hd, ?_⟩, hdf⟩, hvl⟩, by simpa [Built.init] using f1⟩, by simpa [Built.init] using f2⟩,
      by simpa [Built.init] using f3⟩, by simpa [Built.init] using f4⟩
    rw [hord, List.map_map]
    apply List.map_congr_left
    rintro ⟨d, u⟩ _
    cases d <;> rfl

/-- not vacuous: an ill-formed option in the middle, and an accepted configuration with two custom detectors -/
example : observeCfg [.det (.header vb!"X-V"), .det (.path vb!"/api/"), .dflt vb!"v2"] = .rejected .missingPlaceholder ∧
    observeCfg [.det (.path vb!"/v{version}/"), .det (.custom 1), .valid [vb!"v1", vb!"v2"], .det (.query vb!"v"),
                .det (.custom 2), .dflt vb!"v3", .warning299, .dflt vb!"v2"] =
      .accepted [vb!"custom", vb!"custom", vb!"path", vb!"query"] vb!"v2" [vb!"v1", vb!"v2"] false true false false ∧
    observeCfg [.valid [vb!"v1", [], vb!"v3"]] = .rejected (.emptyVersionEntry 1) ∧
    observeCfg [] = .accepted [] vb!"v1" [] false false false false := by decide

end Rivaas.C13
