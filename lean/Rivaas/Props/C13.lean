/- C13 — property theorems (stub: not built yet) -/
