import Rivaas.Lemmas.VersionSel
/-
C13 — API-version routing follows the configured detection order.

The theorems quantify over every configuration (detection options in any number and order, patterns,
default, valid list, lifecycles, clock), every route table and every request. Hypotheses:
`ValidCfg` (what `version.NewConfig` enforces), `ValidReq` (the path begins with `/`, Accept values are
free of control characters — what `net/http` delivers) and `libAgrees` (the shipped `url.Values`
results are what standard parsing says; the driver checks it on every case).
Helper lemmas live in `Lemmas/VersionStr.lean` and `Lemmas/VersionSel.lean`.
-/
namespace Rivaas.C13
open Rivaas Rivaas.Version Rivaas.Version.Spec

/-! ### lifecycle decision -/

theorem lemma_lifecycle (cfg : Cfg) (v : Bytes) :
    (setLifecycleHeaders cfg v).2 = gone cfg v ∧
    ((setLifecycleHeaders cfg v).2 = false →
      ((setLifecycleHeaders cfg v).1.deprecation.isSome = isDeprecated cfg v ∧
       (setLifecycleHeaders cfg v).1.sunset.isSome = (isDeprecated cfg v && hasSunsetDate cfg v) ∧
       (isDeprecated cfg v = false →
          (setLifecycleHeaders cfg v).1.link = none ∧ (setLifecycleHeaders cfg v).1.warning = none))) ∧
    ((setLifecycleHeaders cfg v).1.xapi = none ∨ (setLifecycleHeaders cfg v).1.xapi = some v) := by
  unfold setLifecycleHeaders gone isDeprecated hasSunsetDate
  rw [lemma_getLifecycle_eq]
  cases lifecycleOf cfg v with
  | none =>
    refine ⟨rfl, fun _ => ⟨rfl, rfl, fun _ => ⟨rfl, rfl⟩⟩, ?_⟩
    simp only
    split <;> simp
  | some lc =>
    obtain ⟨dep, sun, mig⟩ := lc
    have hx : ∀ (b : Bool), (if (b && v != []) = true then some v else none) = none ∨
        (if (b && v != []) = true then some v else none) = some v := by
      intro b; split <;> simp
    cases sun with
    | none =>
      cases dep
      · exact ⟨rfl, fun _ => ⟨rfl, rfl, fun _ => ⟨rfl, rfl⟩⟩, hx _⟩
      · exact ⟨rfl, fun _ => ⟨rfl, rfl, fun h => by simp at h⟩, hx _⟩
    | some d =>
      obtain ⟨t, http, rfc⟩ := d
      simp only
      by_cases hpast : (cfg.enforceSunset && decide (cfg.now > t)) = true
      · have hpast' : (cfg.enforceSunset && decide (t < cfg.now)) = true := by simpa using hpast
        rw [if_pos hpast]
        refine ⟨?_, ?_, hx _⟩
        · exact hpast'.symm
        · intro h; simp at h
      · have hp1 : (cfg.enforceSunset && decide (cfg.now > t)) = false := by simpa using hpast
        have hp2 : (cfg.enforceSunset && decide (t < cfg.now)) = false := by simpa using hpast
        rw [if_neg hpast]
        cases dep
        · refine ⟨?_, fun _ => ⟨rfl, rfl, fun _ => ⟨rfl, rfl⟩⟩, hx _⟩
          simp only [Option.map_some]; exact hp2.symm
        · refine ⟨?_, fun _ => ⟨rfl, rfl, fun h => by simp at h⟩, hx _⟩
          simp only [Option.map_some]; exact hp2.symm

theorem lemma_notFound (routes : List Route) (req : Req) : isNotFound (notFound routes req) = true := by
  unfold isNotFound notFound
  simp only
  split <;> simp

/-! ### the main theorem -/

/-- **C13.** For every configuration, route table and request, what the model of `ServeHTTP` does
    satisfies the whole oracle: unversioned routes win and report no version; otherwise the version is the
    first candidate in the order "custom first, then configuration order" that the valid list accepts,
    else the default (query and Accept candidates as standard parsing defines them); it is served from
    that version's tree (the default's when it has none) at the path with the version segment removed;
    `Version()` reports it; past sunset under enforcement the answer is 410 and no handler runs;
    deprecation / sunset headers appear exactly for deprecated versions. -/
theorem serve_meets_spec (cfg : Cfg) (routes : List Route) (req : Req)
    (hc : ValidCfg cfg) (hr : ValidReq cfg req) (hlib : libAgrees cfg req = true) :
    specOK cfg routes req (serve cfg routes req) = true := by
  have hlen : cfg.opts.length = req.lib.length := by
    unfold libAgrees at hlib
    simp only [Bool.and_eq_true, beq_iff_eq] at hlib
    exact hlib.1
  unfold serve specOK
  rw [lemma_treeLookup_eq]
  cases hmain : routed routes none req.method req.path with
  | some p => simp [noLifecycleHeaders]
  | none =>
    simp only
    rw [List.any_eq_true]
    refine ⟨_, lemma_routingPath_mem cfg req hr hlen, ?_⟩
    have hsel := lemma_detectVersion_eq cfg req hc hr hlib
    have hne := lemma_selected_ne_nil cfg req hc
    unfold processVersioning
    simp only [lemma_shouldApply cfg _ req.path hc.dflt_ne, Bool.not_true, Bool.false_eq_true, if_false]
    unfold outcomeOK
    simp only [hsel, lemma_selectRoutingTree_eq cfg routes req.method _ hne hc.dflt_ne]
    cases htree : servingTree cfg routes req.method (selected cfg req) with
    | none => exact lemma_notFound routes req
    | some tv =>
      simp only [lemma_treeLookup_eq]
      cases hrt : routed routes (some tv) req.method _ with
      | none => exact lemma_notFound routes req
      | some p =>
        simp only
        obtain ⟨hg, hh, hx⟩ := lemma_lifecycle cfg (selected cfg req)
        cases hgone : gone cfg (selected cfg req) with
        | true =>
          rw [hgone] at hg
          simp [hg]
        | false =>
          rw [hgone] at hg
          obtain ⟨h1, h2, h3⟩ := hh hg
          simp only [hg, Bool.false_eq_true, if_false]
          simp only [h1, h2, Bool.and_eq_true, decide_eq_true_eq, beq_self_eq_true, true_and, and_true,
            Bool.or_eq_true, beq_iff_eq]
          refine ⟨?_, ?_⟩
          · cases hd : isDeprecated cfg (selected cfg req) with
            | true => simp
            | false =>
              obtain ⟨hl, hw⟩ := h3 hd
              simp [hl, hw]
          · rcases hx with hx | hx
            · left; simp [hx]
            · right; exact hx


/-! ### the clauses of the statement, one by one -/

/-- detector order: custom detectors first (each `WithCustomDetection` inserts at the front), then path,
    header, query and Accept detectors in configuration order -/
theorem custom_first {α} (opts : List (DetOpt × α)) :
    buildDetectors opts =
      ((opts.filter (fun o => isCustom o.1)).reverse ++ opts.filter (fun o => !isCustom o.1)).map
        fun x => (toDet x.1, x.2) :=
  lemma_buildDetectors opts

/-- version selection: the first candidate in that order which the valid-versions list accepts, else the
    default — with query and Accept candidates as *standard parsing* defines them -/
theorem detect_first_valid (cfg : Cfg) (req : Req) (hc : ValidCfg cfg) (hr : ValidReq cfg req)
    (hlib : libAgrees cfg req = true) :
    detectVersion cfg req =
      (((detectionOrder (cfg.opts.zip req.lib)).filterMap (candidate req)).find? (accepted cfg.valid)).getD
        cfg.dflt :=
  lemma_detectVersion_eq cfg req hc hr hlib

/-- what "first accepted candidate, else the default" means, position by position (appendix sketch U) -/
theorem first_accepted_spec (valid : List Bytes) (dflt : Bytes) (cs : List Bytes) :
    (∃ (i : Nat) (v : Bytes), cs[i]? = some v ∧ accepted valid v = true ∧ (cs.find? (accepted valid)).getD dflt = v ∧
        ∀ j : Nat, j < i → ∀ w, cs[j]? = some w → accepted valid w = false) ∨
    ((∀ (i : Nat) (v : Bytes), cs[i]? = some v → accepted valid v = false) ∧ (cs.find? (accepted valid)).getD dflt = dflt) := by
  induction cs with
  | nil => right; simp
  | cons c rest ih =>
    by_cases hv : accepted valid c = true
    · left
      exact ⟨0, c, by simp, hv, by simp [hv], by intro j hj; omega⟩
    · have hv' : accepted valid c = false := by simpa using hv
      rcases ih with ⟨i, u, h1, h2, h3, h4⟩ | ⟨h1, h2⟩
      · left
        refine ⟨i + 1, u, by simpa using h1, h2, by simpa [List.find?_cons, hv'] using h3, ?_⟩
        intro j hj w hw
        cases j with
        | zero => simp at hw; subst hw; exact hv'
        | succ j => exact h4 j (by omega) w (by simpa using hw)
      · right
        refine ⟨?_, by simpa [List.find?_cons, hv'] using h2⟩
        intro i w hw
        cases i with
        | zero => simp at hw; subst hw; exact hv'
        | succ i => exact h1 i w (by simpa using hw)

/-- Accept detection agrees with standard parsing of the header: media ranges split on `,`, parameters
    cut at `;`, optional white space trimmed, first media type of the shape `prefix version suffix` -/
theorem accept_scan_eq_std (pattern accept : Bytes) (i : Nat)
    (hp : index pattern versionPlaceholder = some i) (hs : HeaderSafe accept) :
    extractFromAccept (acceptParts pattern).1 (acceptParts pattern).2 accept =
      (mediaTypes accept).findSome?
        (middle (pattern.take i) (pattern.drop (i + versionPlaceholder.length))) := by
  rw [lemma_accept_scan_eq_std pattern accept i hp hs]
  unfold acceptVersion
  simp only [hp]

/-- `middle` is what its name says: the non-empty `v` with `mt = pfx ++ v ++ sfx` -/
theorem middle_spec (pfx sfx mt v : Bytes) :
    middle pfx sfx mt = some v ↔ v ≠ [] ∧ mt = pfx ++ v ++ sfx := by
  unfold middle
  constructor
  · intro h
    simp only at h
    split at h
    · rename_i hc
      simp only [Option.some.injEq] at h
      subst h
      exact ⟨hc.2, hc.1⟩
    · simp at h
  · rintro ⟨hv, rfl⟩
    have : (List.drop pfx.length (pfx ++ v ++ sfx)).take ((pfx ++ v ++ sfx).length - pfx.length - sfx.length) = v := by
      simp [List.append_assoc]
    simp only [this]
    simp [hv]

/-- query detection agrees with standard parsing of the query string (the detector goes through
    `url.Values`; the shipped result is checked against the Lean parser by `libAgrees`) -/
theorem query_detect_eq_std (req : Req) (q : Bytes) (has : Bool) (get : Bytes)
    (h : agreesOne req (.query q, .query has get) = true) :
    detectOne req.path req.rawQuery (.query q, .query has get) = queryFirst req.rawQuery q :=
  lemma_detectOne_eq req (.query q) (.query has get) h (fun _ hp => by cases hp) (fun _ hv => by cases hv)

/-- unversioned routes always win and report no version -/
theorem unversioned_wins (cfg : Cfg) (routes : List Route) (req : Req) (p : Bytes)
    (h : routed routes none req.method req.path = some p) :
    (serve cfg routes req).status = 200 ∧ (serve cfg routes req).handler = some (none, p) ∧
    (serve cfg routes req).version = some [] ∧ noLifecycleHeaders (serve cfg routes req) = true := by
  unfold serve
  rw [lemma_treeLookup_eq, h]
  simp [noLifecycleHeaders]

/-- the handler's `Version()` reports the selected version -/
theorem version_reported (cfg : Cfg) (routes : List Route) (req : Req)
    (hc : ValidCfg cfg) (hr : ValidReq cfg req) (hlib : libAgrees cfg req = true)
    (tv p : Bytes) (h : (serve cfg routes req).handler = some (some tv, p)) :
    (serve cfg routes req).version = some (selected cfg req) := by
  have hspec := serve_meets_spec cfg routes req hc hr hlib
  unfold specOK at hspec
  cases hm : routed routes none req.method req.path with
  | some p' =>
    have := (unversioned_wins cfg routes req p' hm).2.1
    rw [this] at h
    simp at h
  | none =>
    rw [hm] at hspec
    simp only [List.any_eq_true] at hspec
    obtain ⟨rp, _, hok⟩ := hspec
    unfold outcomeOK at hok
    simp only at hok
    split at hok
    · simp [isNotFound, h] at hok
    · split at hok
      · simp [isNotFound, h] at hok
      · split at hok
        · simp [h] at hok
        · simp only [Bool.and_eq_true, beq_iff_eq] at hok
          exact hok.1.1.1.1.2

/-- a version past its sunset date under enforcement answers 410 without running a handler -/
theorem sunset_410_no_handler (cfg : Cfg) (routes : List Route) (req : Req)
    (hc : ValidCfg cfg) (hr : ValidReq cfg req) (hlib : libAgrees cfg req = true)
    (hmain : routed routes none req.method req.path = none)
    (hgone : gone cfg (selected cfg req) = true) :
    (serve cfg routes req).handler = none ∧
    ((serve cfg routes req).status = 410 ∨ isNotFound (serve cfg routes req) = true) := by
  have hspec := serve_meets_spec cfg routes req hc hr hlib
  unfold specOK at hspec
  rw [hmain] at hspec
  simp only [List.any_eq_true] at hspec
  obtain ⟨rp, _, hok⟩ := hspec
  unfold outcomeOK at hok
  simp only [hgone, if_true] at hok
  split at hok
  · have h1 : (serve cfg routes req).handler.isNone = true := by
      unfold isNotFound at hok; simp only [Bool.and_eq_true] at hok; exact hok.1
    exact ⟨by simpa using h1, Or.inr hok⟩
  · split at hok
    · have h1 : (serve cfg routes req).handler.isNone = true := by
        unfold isNotFound at hok; simp only [Bool.and_eq_true] at hok; exact hok.1
      exact ⟨by simpa using h1, Or.inr hok⟩
    · simp only [Bool.and_eq_true, decide_eq_true_eq] at hok
      exact ⟨by simpa using hok.2, Or.inl hok.1⟩

/-- deprecation / sunset headers are emitted exactly for versions configured as deprecated -/
theorem deprecation_headers_iff (cfg : Cfg) (routes : List Route) (req : Req)
    (hc : ValidCfg cfg) (hr : ValidReq cfg req) (hlib : libAgrees cfg req = true)
    (tv p : Bytes) (h : (serve cfg routes req).handler = some (some tv, p)) :
    ((serve cfg routes req).hDeprecation.isSome = isDeprecated cfg (selected cfg req)) ∧
    ((serve cfg routes req).hSunset.isSome =
      (isDeprecated cfg (selected cfg req) && hasSunsetDate cfg (selected cfg req))) ∧
    (isDeprecated cfg (selected cfg req) = false →
      (serve cfg routes req).hLink = none ∧ (serve cfg routes req).hWarning = none) := by
  have hspec := serve_meets_spec cfg routes req hc hr hlib
  unfold specOK at hspec
  cases hm : routed routes none req.method req.path with
  | some p' =>
    have := (unversioned_wins cfg routes req p' hm).2.1
    rw [this] at h
    simp at h
  | none =>
    rw [hm] at hspec
    simp only [List.any_eq_true] at hspec
    obtain ⟨rp, _, hok⟩ := hspec
    unfold outcomeOK at hok
    simp only at hok
    split at hok
    · simp [isNotFound, h] at hok
    · split at hok
      · simp [isNotFound, h] at hok
      · split at hok
        · simp [h] at hok
        · simp only [Bool.and_eq_true, beq_iff_eq, Bool.or_eq_true] at hok
          obtain ⟨⟨⟨⟨_, hd⟩, hs⟩, hl⟩, _⟩ := hok
          refine ⟨hd, hs, ?_⟩
          intro hnd
          rcases hl with hl | hl
          · rw [hnd] at hl; simp at hl
          · simpa using hl

/-- with one path pattern (the documented configuration) the routing path is the path with prefix and
    version segment removed when the pattern finds a segment, and the path itself otherwise -/
theorem path_strip_correct (cfg : Cfg) (path pat : Bytes) (h : pathPatterns cfg = [pat]) :
    routingPaths cfg path =
      (match versionSegment pat path with
       | some (_, rest) => [if rest = [] then ['/'] else rest]
       | none => [path]) := by
  unfold routingPaths
  rw [h]
  simp only [List.any_cons, List.any_nil, Bool.or_false, List.filterMap_cons, List.filterMap_nil]
  unfold versionSegment stripBy
  cases pathPrefix pat with
  | none => simp
  | some pfx =>
    simp only [segmentAfter, stripAfter]
    cases afterPrefix pfx path with
    | none => simp
    | some after =>
      simp only
      by_cases hseg : List.takeWhile (fun x => x != '/') after = []
      · simp [hseg]
      · have hafter : after ≠ [] := by intro hn; rw [hn] at hseg; exact hseg rfl
        simp [hseg, hafter]


/-! ### the code as shipped: witnesses of K13a–K13d (also replayed on the implementation, corpus/C13) -/

/-- K13a: two earlier keys that merely end in the parameter name exhaust the scanner's two probes -/
theorem query_scan_asis_witness :
    extractFromQueryAsIs vb!"v" vb!"xv=v1&yv=v9&v=v2" = .notFound ∧
    queryFirst vb!"xv=v1&yv=v9&v=v2" vb!"v" = some vb!"v2" := by decide

/-- K13a: the shipped scanner decoded neither key nor value -/
theorem query_scan_asis_no_decoding :
    extractFromQueryAsIs vb!"v" vb!"%76=v2" = .notFound ∧ queryFirst vb!"%76=v2" vb!"v" = some vb!"v2" ∧
    extractFromQueryAsIs vb!"v" vb!"v=v%32" = .found vb!"v%32" ∧
    queryFirst vb!"v=v%32" vb!"v" = some vb!"v2" := by decide

/-- K13b: a media type shorter than prefix+suffix that has both: slice bounds out of range -/
theorem accept_scan_asis_panics :
    extractFromAcceptAsIs vb!"application/vnd.api+" vb!"+json" vb!"application/vnd.api+json" = .panic ∧
    extractFromAccept vb!"application/vnd.api+" vb!"+json" vb!"application/vnd.api+json" = none := by decide

/-- K13d: optional white space before the parameter separator hid the version -/
theorem accept_scan_asis_ows :
    extractFromAcceptAsIs vb!"application/vnd.api." vb!"+json" vb!"application/vnd.api.v2+json ;q=0.9" = .notFound ∧
    extractFromAccept vb!"application/vnd.api." vb!"+json" vb!"application/vnd.api.v2+json ;q=0.9" = some vb!"v2" := by
  decide

def cfgSunset : Cfg :=
  { opts := [.query vb!"v"], dflt := vb!"v1", valid := [], sendVersionHeader := true, sendWarning299 := false,
    enforceSunset := true, now := 1750000000,
    lifecycles := [(vb!"v1", { deprecated := false, sunset := some (1749913600, vb!"Sat, 14 Jun 2025 15:06:40 GMT", vb!"2025-06-14T15:06:40Z"), migration := [] })] }

/-- K13c: past its sunset date under enforcement, but not marked deprecated: the shipped code served it -/
theorem sunset_asis_witness : isSunsetAsIs cfgSunset vb!"v1" = false ∧ gone cfgSunset vb!"v1" = true ∧
    (setLifecycleHeaders cfgSunset vb!"v1").2 = true := by decide

/-! ### non-vacuity: the hypotheses of the theorems are met by concrete non-trivial inputs -/

def cfgEx : Cfg :=
  { opts := [.path vb!"/v{version}/", .header vb!"X-API-Version", .query vb!"v",
             .accept vb!"application/vnd.api.v{version}+json", .custom 0],
    dflt := vb!"v1", valid := [vb!"v1", vb!"v2"], sendVersionHeader := true, sendWarning299 := true,
    enforceSunset := true, now := 1750000000,
    lifecycles := [(vb!"v2", { deprecated := true, sunset := some (1760000000, vb!"H", vb!"R"), migration := vb!"https://m" })] }

def routesEx : List Route :=
  [{ ver := some vb!"v1", method := vb!"GET", path := vb!"/users" },
   { ver := some vb!"v2", method := vb!"GET", path := vb!"/users" },
   { ver := none, method := vb!"GET", path := vb!"/health" }]

/-- path says v9 (invalid), header says v3 (invalid), query says v2 (valid): v2 wins, `/v9/users` is stripped -/
def reqEx : Req :=
  { method := vb!"GET", path := vb!"/v9/users", rawQuery := vb!"xv=v1&v=v2",
    lib := [.none, .header vb!"v3", .query true vb!"v2", .accept vb!"application/vnd.api.v1+json ;q=0.9", .custom []] }

theorem cfgEx_valid : ValidCfg cfgEx := by
  refine ⟨by decide, ?_⟩
  intro p hp
  simp [cfgEx] at hp
  subst hp
  exact ⟨21, by decide⟩

theorem reqEx_valid : ValidReq cfgEx reqEx := by
  refine ⟨by decide, ?_⟩
  intro v hv
  simp [reqEx] at hv
  subst hv
  intro c hc
  revert c
  decide

example : libAgrees cfgEx reqEx = true := by decide

/-- the example exercises precedence, rejection by the valid list, stripping and deprecation headers -/
example : (serve cfgEx routesEx reqEx).handler = some (some vb!"v2", vb!"/users") ∧
    (serve cfgEx routesEx reqEx).version = some vb!"v2" ∧
    (serve cfgEx routesEx reqEx).hDeprecation = some vb!"true" ∧
    selected cfgEx reqEx = vb!"v2" := by decide

example : specOK cfgEx routesEx reqEx (serve cfgEx routesEx reqEx) = true :=
  serve_meets_spec cfgEx routesEx reqEx cfgEx_valid reqEx_valid (by decide)

/-- `sunset_410_no_handler` is not vacuous -/
example : routed ([{ ver := some vb!"v1", method := vb!"GET", path := vb!"/users" }] : List Route) none vb!"GET" vb!"/users" = none ∧
    gone cfgSunset vb!"v1" = true := by decide

/-- `unversioned_wins` is not vacuous -/
example : routed routesEx none vb!"GET" vb!"/health" = some vb!"/health" := by decide

end Rivaas.C13
