import Rivaas.Model.Radix
/-
C08 (review item C08-2): on the per-tree static-table exit of ServeHTTP the end callback's label is the request path
(`serveStaticRoute(…, path, …)`). "Never the raw path" holds there because that table (`staticPaths`, compiled into the
per-tree table at warm-up) is keyed by REGISTERED paths: a hit for `path` means `path` is one of the registered
patterns. This is derived here from the routing model (Model/Radix, the model C01's theorems are about, and the one the
C08 driver recomputes `tree.getRoute` with), discharging the third conjunct of `C08.RoutesIn` whenever the fact
`tree.compiled.getRoute(path)` is the routing model's answer.
-/
namespace Rivaas.C08
open Rivaas.Radix

/-- the keys of the static table -/
def staticKeys (l : List (Bytes × Leaf)) : List Bytes := l.map (·.1)

theorem lemma_setStatic_keys (path : Bytes) (lf : Leaf) (l : List (Bytes × Leaf)) :
    ∀ k ∈ staticKeys (setStatic path lf l), k = path ∨ k ∈ staticKeys l := by
  induction l with
  | nil => intro k hk; simp [setStatic, staticKeys] at hk; exact Or.inl hk
  | cons x r ih =>
    intro k hk
    obtain ⟨xk, xv⟩ := x
    simp only [setStatic] at hk
    split at hk
    · simp only [staticKeys, List.map_cons, List.mem_cons] at hk ⊢
      rcases hk with rfl | hk
      · exact Or.inr (Or.inl rfl)
      · exact Or.inr (Or.inr hk)
    · simp only [staticKeys, List.map_cons, List.mem_cons] at hk ⊢
      rcases hk with rfl | hk
      · exact Or.inr (Or.inl rfl)
      · rcases ih k hk with h | h
        · exact Or.inl h
        · exact Or.inr (Or.inr h)

theorem lemma_getStatic_key (path : Bytes) (l : List (Bytes × Leaf)) (lf : Leaf) (h : getStatic path l = some lf) :
    path ∈ staticKeys l := by
  induction l with
  | nil => simp [getStatic] at h
  | cons x r ih =>
    obtain ⟨xk, xv⟩ := x
    simp only [getStatic] at h
    split at h
    · rename_i hk; simp [staticKeys, hk]
    · simp only [staticKeys, List.map_cons, List.mem_cons]; exact Or.inr (ih h)

/-- registering a route adds at most its own path to the static table -/
theorem lemma_addRoute_keys (t : Tree) (path : Bytes) (rid : Nat) (cons : List (Bytes × Nat)) :
    ∀ k ∈ staticKeys (addRoute t path rid cons).statics, k = path ∨ k ∈ staticKeys t.statics := by
  intro k hk
  unfold addRoute addRouteGen addLeafGen at hk
  split at hk
  · exact Or.inr hk
  · split at hk
    · split at hk <;> exact Or.inr hk
    · split at hk
      · exact lemma_setStatic_keys path _ t.statics k hk
      · exact Or.inr hk

/-- the tree a router builds from a list of registrations (pattern, constraints), in order -/
def buildTree (regs : List (Bytes × List (Bytes × Nat))) : Tree :=
  (regs.foldl (fun (ti : Tree × Nat) r => (addRoute ti.1 r.1 ti.2 r.2, ti.2 + 1)) (Tree.empty, 0)).1

theorem lemma_fold_keys (regs : List (Bytes × List (Bytes × Nat))) :
    ∀ (t : Tree) (i : Nat) (K : List Bytes), (∀ k ∈ staticKeys t.statics, k ∈ K) →
      ∀ k ∈ staticKeys (regs.foldl (fun (ti : Tree × Nat) r => (addRoute ti.1 r.1 ti.2 r.2, ti.2 + 1)) (t, i)).1.statics,
        k ∈ K ++ regs.map (·.1) := by
  induction regs with
  | nil => intro t i K h k hk; simpa using h k hk
  | cons r rest ih =>
    intro t i K h k hk
    simp only [List.foldl_cons] at hk
    have h' : ∀ k ∈ staticKeys (addRoute t r.1 i r.2).statics, k ∈ K ++ [r.1] := by
      intro k hk
      rcases lemma_addRoute_keys t r.1 i r.2 k hk with rfl | hk
      · simp
      · exact List.mem_append_left _ (h k hk)
    have := ih (addRoute t r.1 i r.2) (i + 1) (K ++ [r.1]) h' k hk
    simpa [List.append_assoc] using this

/-- **the static table is keyed by registered patterns**: a hit of the per-tree static table for the request path means
    the path IS a registered pattern — the label `serveStaticRoute` reports is a registered pattern, not an arbitrary
    raw path -/
theorem static_hit_is_registered (regs : List (Bytes × List (Bytes × Nat))) (path : Bytes)
    (h : compiledStatic (buildTree regs) path = true) : path ∈ regs.map (·.1) := by
  unfold compiledStatic at h
  cases hg : getStatic path (buildTree regs).statics with
  | none => simp [hg] at h
  | some lf =>
    have hk := lemma_getStatic_key path _ lf hg
    have := lemma_fold_keys regs Tree.empty 0 [] (by simp [Tree.empty, staticKeys]) path hk
    simpa using this

/-- non-vacuity: the static table of a small router; a parameter route is not in it -/
example : compiledStatic (buildTree [("/s/a".toList, []), ("/d/:id".toList, [])]) "/s/a".toList = true ∧
    compiledStatic (buildTree [("/s/a".toList, []), ("/d/:id".toList, [])]) "/d/7".toList = false := by decide

end Rivaas.C08
