import Rivaas.Lemmas.OpenAPIWF
set_option linter.unusedSimpArgs false
/-
C07 — property theorems (generated OpenAPI documents are valid, closed, complete and deterministic).
-/
namespace Rivaas.C07
open Rivaas.OpenAPI

/-! ### `$ref` closure -/

/-- **refs_closed.** Whatever the type environment (recursive, mutually recursive, generic, colliding
    names), the operations, the version and the validator: every `$ref` of a produced document — in a
    parameter, a request body, a response or inside a component — is `#/components/schemas/<k>` for a
    key `k` of `components.schemas`, and resolves as a JSON pointer. -/
theorem refs_closed (cfg : ApiCfg) (v : Version) (strict : Bool) (V : Option (Doc Schema → Bool)) (env : Env) (ops : List OpIn)
    (d : Doc Schema) (h : generate cfg v strict V env ops = .ok d) : refsClosed d = true := by
  obtain ⟨paths, comps, hb, hp⟩ := generate_ok h
  obtain ⟨rfl, _⟩ := project_ok hp
  obtain ⟨hops, hcomps, _⟩ := build_post env ops paths comps hb
  show refsClosed (projDoc v paths comps) = true
  simp only [refsClosed, List.all_eq_true, Doc.allRefs, List.mem_flatMap]
  rintro r ⟨x, hx, hr⟩
  rw [projDoc_keys]
  apply resolves_of_inNames (fun k hk => by
    simp only [List.mem_map] at hk
    obtain ⟨ks, hks, rfl⟩ := hk
    exact (hcomps ks hks).1)
  have hgood : ∃ y : IR, Good (comps.map (·.1)) y ∧ x = projSchema v y := by
    rcases mem_projDoc_allSchemas hx with ⟨pi, hpi, mo, hmo, y, hy, rfl⟩ | ⟨ks, hks, rfl⟩
    · exact ⟨y, hops pi hpi mo hmo y hy, rfl⟩
    · exact ⟨ks.2, (hcomps ks hks).2, rfl⟩
  obtain ⟨y, hy, rfl⟩ := hgood
  have : Tree.All (fun _ : Attrs => True) (InNames (comps.map (·.1))) (projSchema v y) := by
    cases v <;> exact Tree.All.project (fun _ _ => trivial) y hy
  exact Tree.All.refs _ this r hr

/-- non-vacuity of the hypothesis `generate … = .ok d`: a route with a parameter generates a document
    (3.1, validation on with a validator that accepts) -/
example :
    (match generate {} .v31 true (some fun _ => true) []
        [{ method := s "GET", path := s "/n/:id", summary := [], description := [], opID := [], req := none, resps := [] }] with
     | .ok d => d.opIds == [s "getNById"] && d.paths.map (·.1) == [s "/n/{id}"]
     | .error _ => false) = true := by decide

/-- non-vacuity on a recursive type (`type Node struct{ Next *Node }`): generation terminates, returns a
    reference, and the registered component refers to itself — the situation the invariant of
    `refs_closed` is about (evaluated with the equations of Lemmas/OpenAPIEval: `decide` does not unfold
    well-founded recursion) -/
example : gen envR [] [] (.named 0) [] =
    (refTo (s "pa.Node"), [(s "pa.Node", objNode [] (.cons (s "next") (refTo (s "pa.Node")) .nil))]) := envR_eval

/-! ### component names (K07c) -/

/-- **names_wellformed.** Every key of `components.schemas` matches `^[a-zA-Z0-9._-]+$`. -/
theorem names_wellformed (cfg : ApiCfg) (v : Version) (strict : Bool) (V : Option (Doc Schema → Bool)) (env : Env) (ops : List OpIn)
    (d : Doc Schema) (h : generate cfg v strict V env ops = .ok d) : namesOK d = true := by
  obtain ⟨paths, comps, hb, hp⟩ := generate_ok h
  obtain ⟨rfl, _⟩ := project_ok hp
  obtain ⟨_, hcomps, _⟩ := build_post env ops paths comps hb
  show namesOK (projDoc v paths comps) = true
  simp only [namesOK, List.all_eq_true, projDoc, List.mem_map]
  rintro ks' ⟨ks, hks, rfl⟩
  exact (hcomps ks hks).1

/-- the name function itself: empty (anonymous struct, never registered) or well formed -/
theorem schemaName_ok (name pkgPath : B) : schemaName name pkgPath = [] ∨ nameOK (schemaName name pkgPath) = true :=
  schemaName_wellformed name pkgPath

/-! ### operation ids -/

theorem lemma_opIds_perm (v : Version) (paths : List (B × PathItem IR)) (comps : List (B × IR)) :
    List.Perm (projDoc v paths comps).opIds (pathsIds paths) := by
  simp only [Doc.opIds, Doc.operations, projDoc, List.flatMap_map, List.map_flatMap, pathsIds]
  apply perm_flatMap_congr
  intro pi _
  simp only [List.map_map]
  refine ((sortByKey_perm _).map _).trans ?_
  simp only [List.map_map, itemIds]
  exact List.Perm.of_eq (List.map_congr_left fun mo _ => rfl)

/-- **opids_unique_or_error.** `Generate` returns an error (`duplicate operation ID`) or a document whose
    operationIds are pairwise different — for generated and custom ids, for operations that are dropped
    (TRACE, custom methods) or overwritten (same method and path twice). -/
theorem opids_unique_or_error (cfg : ApiCfg) (v : Version) (strict : Bool) (V : Option (Doc Schema → Bool)) (env : Env)
    (ops : List OpIn) (d : Doc Schema) (h : generate cfg v strict V env ops = .ok d) : opIdsUnique d = true := by
  obtain ⟨paths, comps, hb, hp⟩ := generate_ok h
  obtain ⟨rfl, _⟩ := project_ok hp
  obtain ⟨_, _, hnd⟩ := build_post env ops paths comps hb
  show opIdsUnique (projDoc v paths comps) = true
  rw [opIdsUnique, nodupB_iff]
  exact (lemma_opIds_perm v paths comps).nodup_iff.2 hnd

/-- the error does occur: two routes whose generated ids coincide -/
example :
    (match generate {} .v30 false none []
        [{ method := s "GET", path := s "/users/:id", summary := [], description := [], opID := [], req := none, resps := [] },
         { method := s "GET", path := s "/user/:id", summary := [], description := [], opID := [], req := none, resps := [] }] with
     | .ok _ => false
     | .error e => e == .dupOp) = true := by decide

/-! ### path parameters -/

theorem lemma_lookup_map_snd {β γ : Type} (f : β → γ) : ∀ (l : List (B × β)) (k : B),
    (l.map fun e => (e.1, f e.2)).lookup k = (l.lookup k).map f
  | [], k => by simp [List.lookup]
  | (k0, v0) :: rest, k => by
    by_cases h : k = k0
    · subst h; simp [lookup_cons_eq]
    · simp only [List.map_cons]
      rw [lookup_cons_ne _ _ _ _ h, lookup_cons_ne _ _ _ _ h, lemma_lookup_map_snd f rest k]

theorem lemma_lookup_ne_none {β} : ∀ (l : List (B × β)) (k : B), k ∈ l.map (·.1) → l.lookup k ≠ none
  | [], k, h => by simp at h
  | (k0, v0) :: rest, k, h => by
    by_cases hk : k = k0
    · subst hk; simp [lookup_cons_eq]
    · rw [lookup_cons_ne _ _ _ _ hk]
      simp only [List.map_cons, List.mem_cons] at h
      rcases h with h | h
      · exact absurd h hk
      · exact lemma_lookup_ne_none rest k h

/-- **path_params_complete.** For every operation handed in whose route passed `ValidatePath` (the
    constructors panic otherwise) and that is not overwritten by a later one with the same key and
    method: the route's path with every `:name` written `{name}` is a key of `paths`; under it, the
    operation has, for every `:name`, `{name}` as a segment of the key and exactly one parameter with
    `in: path` and that name, and it is `required` — whether the request struct declares the parameter
    (once or several times, in an embedded struct or not) or not. -/
theorem path_params_complete (cfg : ApiCfg) (v : Version) (strict : Bool) (V : Option (Doc Schema → Bool)) (env : Env)
    (ops : List OpIn) (d : Doc Schema) (henv : EnvNamed env) (hvalid : ∀ op ∈ ops, validatePath op.path = true)
    (h : generate cfg v strict V env ops = .ok d) : pathParamsOK ops d = true := by
  obtain ⟨paths, comps, hb, hp⟩ := generate_ok h
  obtain ⟨rfl, _⟩ := project_ok hp
  obtain ⟨hknd, hkall, hitems⟩ := build_prov env ops paths comps hb
  show pathParamsOK ops (projDoc v paths comps) = true
  simp only [pathParamsOK, List.all_eq_true]
  intro op0 hs
  have hop0 : op0 ∈ ops := survives_sub ops op0 hs
  have hkey : specPathKey op0.path ∈ paths.map (·.1) := by rw [← convertPath_eq_spec]; exact hkall op0 hop0
  have hlk : (projDoc v paths comps).paths.lookup (specPathKey op0.path) =
      (paths.lookup (specPathKey op0.path)).map fun item => sortByKey (item.map fun mo => (mo.1, mo.2.map (projSchema v))) := by
    simp only [projDoc]
    exact lemma_lookup_map_snd (fun item : PathItem IR => sortByKey (item.map fun mo => (mo.1, mo.2.map (projSchema v)))) paths _
  rw [hlk]
  cases hl : paths.lookup (specPathKey op0.path) with
  | none => exact absurd hl (lemma_lookup_ne_none paths _ hkey)
  | some item' =>
    simp only [Option.map_some]
    have hi : (specPathKey op0.path, item') ∈ paths := mem_of_lookup_some _ _ _ hl
    cases hl2 : (sortByKey (item'.map fun mo => (mo.1, mo.2.map (projSchema v)))).lookup (specMember op0.method) with
    | none =>
      -- a stored method always has its member (`build_members`): the lookup cannot fail for one of the seven
      simp only [Bool.or_eq_true, Bool.not_eq_eq_eq_not, Bool.not_true]
      by_cases hstd : [s "get", s "put", s "post", s "delete", s "options", s "head", s "patch"].contains (specMember op0.method) = true
      · exfalso
        have hsm : specMember op0.method ∈ storedMembers := by
          simp only [List.contains_eq_mem, List.mem_cons, List.not_mem_nil, or_false, decide_eq_true_eq] at hstd
          simp only [storedMembers, List.mem_cons, List.not_mem_nil, or_false]
          rcases hstd with h | h | h | h | h | h | h <;> simp [h]
        have hmm := methodMember_of_spec hsm
        have hi' : (convertPath op0.path, item') ∈ paths := by rw [convertPath_eq_spec]; exact hi
        have hk := build_members env ops paths comps hb op0 hop0 _ hmm item' hi'
        obtain ⟨mo, hmo, hmk⟩ := List.mem_map.1 hk
        have : specMember op0.method ∈ (sortByKey (item'.map fun mo => (mo.1, mo.2.map (projSchema v)))).map (·.1) :=
          List.mem_map.2 ⟨(mo.1, mo.2.map (projSchema v)), mem_sortByKey.2 (List.mem_map.2 ⟨mo, hmo, rfl⟩), hmk⟩
        exact lemma_lookup_ne_none _ _ this hl2
      · exact Or.inr (by simpa using hstd)
    | some o'' =>
      simp only []
      have hm := mem_sortByKey.1 (mem_of_lookup_some _ _ _ hl2)
      obtain ⟨mo, hmo, e⟩ := List.mem_map.1 hm
      simp only [Prod.mk.injEq] at e
      obtain ⟨e1, rfl⟩ := e
      have ho : (specMember op0.method, mo.2) ∈ item' := by rw [← e1]; exact hmo
      obtain ⟨st, so, st', so', hbo⟩ := build_prov_survivor env ops paths comps hb op0 hs item' hi mo.2 ho
      have hshape := buildOperation_shape env henv op0 st so mo.2 st' so' (hvalid op0 hop0) hbo
      exact opPathParamsOK_of_shape (hshape.map (projSchema v))

/-- non-vacuity: `/n/:id/:k` gives two required path parameters -/
example :
    (match generate {} .v30 false none []
        [{ method := s "GET", path := s "/n/:id/:k", summary := [], description := [], opID := [], req := none, resps := [] }] with
     | .ok d => pathParamsOK [{ method := s "GET", path := s "/n/:id/:k", summary := [], description := [], opID := [], req := none, resps := [] }] d &&
                d.operations.map (fun o => o.params.map (·.name)) == [[s "id", s "k"]]
     | .error _ => false) = true := by decide

/-! ### WF: the transcribed fragment of the meta-schemas (partial) -/

/-- **wf_doc.** Every produced document satisfies `wfDoc` — the fragment of the 3.0 / 3.1 meta-schema
    transcribed in Spec/OpenAPI.lean: the `openapi` pattern; path keys start with `/`; path item members
    are operation members; parameters have a name, `in` ∈ {query, header, path, cookie}, `required: true`
    when `in: path`, and are unique by (in, name) (uniqueItems — K07g); `responses` is not empty, its keys
    match `[1-5](\d\d|XX)` (K07e), every response has a description; every Schema Object — in a
    parameter, body, response or component, at any depth — carries only members the version admits, with
    admissible values (`type` names, `required` non-empty without duplicates — K07d, `enum` non-empty,
    `nullable`/boolean `exclusive…` only in 3.0, `type` arrays / numeric `exclusive…` / `examples` /
    `contentEncoding` only in 3.1, non-negative integer `minLength`/`maxLength`).
    This is *not* the whole meta-schema: see notes/C07.md; full validity is checked per case against
    the repository's embedded meta-schema (differential evidence). -/
theorem wf_doc (cfg : ApiCfg) (v : Version) (strict : Bool) (V : Option (Doc Schema → Bool)) (env : Env)
    (ops : List OpIn) (d : Doc Schema) (henv : EnvNamed env) (hvalid : ∀ op ∈ ops, validatePath op.path = true)
    (h : generate cfg v strict V env ops = .ok d) : wfDoc v d = true := by
  obtain ⟨paths, comps, hb, hp⟩ := generate_ok h
  obtain ⟨rfl, _⟩ := project_ok hp
  obtain ⟨hgood, hcomps, _⟩ := build_post env ops paths comps hb
  obtain ⟨_, _, hitems⟩ := build_prov env ops paths comps hb
  have hkeys := build_keys env ops paths comps hb
  simp only [wfDoc, Bool.and_eq_true, List.all_eq_true]
  refine ⟨⟨?_, ?_⟩, ?_⟩
  · cases v <;> simp only [projDoc, applyCfg] <;> decide
  · intro pi'' hpi''
    simp only [applyCfg, projDoc, List.mem_map] at hpi''
    obtain ⟨pi, hpi, rfl⟩ := hpi''
    constructor
    · obtain ⟨op, hop, e⟩ := hkeys pi.1 (List.mem_map.2 ⟨pi, hpi, rfl⟩)
      simp only []
      rw [← e]
      exact validatePath_slash (hvalid op hop)
    · intro mo'' hmo''
      have hm := mem_sortByKey.1 hmo''
      obtain ⟨mo, hmo, rfl⟩ := List.mem_map.1 hm
      obtain ⟨_, hprov⟩ := hitems pi.1 pi.2 hpi
      obtain ⟨pre, op, post, e, hmem, _, ⟨st, so, st', so', hbo⟩⟩ := hprov mo.1 mo.2 hmo
      have hop : op ∈ ops := by
        have : op ∈ ops.filter fun x => convertPath x.path = pi.1 := by rw [e]; simp
        exact (List.mem_filter.1 this).1
      have hshape := buildOperation_shape env henv op st so mo.2 st' so' (hvalid op hop) hbo
      constructor
      · have := (methodMember_some hmem).2
        simp only [storedMembers, List.mem_cons, List.not_mem_nil, or_false] at this
        simp only []
        rcases this with h | h | h | h | h | h | h <;> rw [h] <;> decide
      · apply wfOperation_of_shape v (hshape.map (projSchema v))
        intro x hx
        obtain ⟨y, hy, rfl⟩ := mem_schemas_map hx
        exact wfSchema_proj v _ y (hgood pi hpi mo hmo y hy)
  · intro ks' hks'
    simp only [applyCfg, projDoc, List.mem_map] at hks'
    obtain ⟨ks, hks, rfl⟩ := hks'
    exact wfSchema_proj v _ ks.2 (hcomps ks hks).2

/-! ### the whole oracle, and the validator -/

/-- **generate_meets_spec.** `Generate` returns an error or a document on which the whole oracle
    `docOK` holds (references closed, path parameters complete, operation ids unique, component names
    well formed, WF) — for every type environment (recursive, generic, colliding names), every operation
    set, both versions, strict on or off, and every validator. Hypotheses: the routes passed
    `ValidatePath` (otherwise no operation exists: the constructors panic) and struct fields have names
    (a fact about `reflect`). -/
theorem generate_meets_spec (cfg : ApiCfg) (v : Version) (strict : Bool) (V : Option (Doc Schema → Bool)) (env : Env)
    (ops : List OpIn) (d : Doc Schema) (henv : EnvNamed env) (hvalid : ∀ op ∈ ops, validatePath op.path = true)
    (h : generate cfg v strict V env ops = .ok d) : docOK v ops d = true := by
  simp only [docOK, Bool.and_eq_true]
  exact ⟨⟨⟨⟨refs_closed cfg v strict V env ops d h, path_params_complete cfg v strict V env ops d henv hvalid h⟩,
    opids_unique_or_error cfg v strict V env ops d h⟩, names_wellformed cfg v strict V env ops d h⟩,
    wf_doc cfg v strict V env ops d henv hvalid h⟩

/-- non-vacuity of `generate_meets_spec`: hypotheses met, a document is produced, the oracle evaluates to
    true (kept small: kernel evaluation duplicates `let`-bound recursive results; no response type:
    `decide` cannot run the well-founded `gen`) -/
example :
    let ops : List OpIn :=
      [{ method := s "POST", path := s "/o/:id", summary := s "s", description := [], opID := [], req := none,
         resps := [(201, s "Created", none)] }]
    (ops.all (fun op => validatePath op.path) &&
     (match generate {} .v30 true none [] ops with
      | .ok d => docOK .v30 ops d && d.opIds == [s "createOById"]
      | .error _ => false)) = true := by decide

/-- **validation_transparent.** Switching on the built-in validation never rejects a document the
    validator accepts, and never changes it: with validation on the result is the document generated
    with validation off when the validator accepts it, and the `validation` error otherwise. (The
    validator is a parameter: the jsonschema library on the embedded meta-schema; that the real wiring
    behaves like this model is what the correspondence run checks — K07a.) -/
theorem validation_transparent (cfg : ApiCfg) (v : Version) (strict : Bool) (ok : Doc Schema → Bool) (env : Env) (ops : List OpIn) :
    generate cfg v strict (some ok) env ops =
      match generate cfg v strict none env ops with
      | .ok d => if ok d then .ok d else .error .validation
      | .error e => .error e := by
  unfold generate
  cases build env ops with
  | error e => rfl
  | ok r =>
    simp only []
    cases project cfg strict v r.1 r.2 <;> rfl

/-! ### determinism: map iteration order (K07h) -/

theorem lemma_setAssoc_keys_of_mem {β} (k : B) (v : β) : ∀ (l : List (B × β)), k ∈ l.map (·.1) →
    (setAssoc k v l).map (·.1) = l.map (·.1)
  | [], h => by simp at h
  | (k', v') :: rest, h => by
    simp only [setAssoc]
    split
    next hk => simp [hk]
    next hk =>
      simp only [List.map_cons, List.mem_cons] at h ⊢
      rcases h with h | h
      · exact absurd h.symm hk
      · rw [lemma_setAssoc_keys_of_mem k v rest h]

theorem lemma_lookup_none_not_mem {β} (k : B) : ∀ (l : List (B × β)), l.lookup k = none → k ∉ l.map (·.1)
  | [], _ => by simp
  | (k', v') :: rest, h => by
    simp only [List.lookup] at h
    split at h
    · cases h
    next hne =>
      simp only [List.map_cons, List.mem_cons, not_or]
      exact ⟨by simpa using hne, lemma_lookup_none_not_mem k rest h⟩

theorem lemma_lookup_some_mem {β} (k : B) (v : β) : ∀ (l : List (B × β)), l.lookup k = some v → k ∈ l.map (·.1)
  | [], h => by simp [List.lookup] at h
  | (k', v') :: rest, h => by
    simp only [List.lookup] at h
    split at h
    next heq => simp only [List.map_cons, List.mem_cons]; exact Or.inl (by simpa using heq)
    next => simp only [List.map_cons, List.mem_cons]; exact Or.inr (lemma_lookup_some_mem k v rest h)

/-- the `byPath` map has each converted path once (it is a Go map) -/
theorem groupByPath_keys_nodup : ∀ ops : List OpIn, ((groupByPath ops).map (·.1)).Nodup
  | [] => by simp [groupByPath]
  | op :: rest => by
    simp only [groupByPath]
    split
    next grp heq =>
      rw [lemma_setAssoc_keys_of_mem _ _ _ (lemma_lookup_some_mem _ _ _ heq)]
      exact groupByPath_keys_nodup rest
    next heq =>
      simp only [List.map_cons, List.nodup_cons]
      exact ⟨lemma_lookup_none_not_mem _ _ heq, groupByPath_keys_nodup rest⟩

/-- **deterministic (paths).** `Build` ranges over the Go map `byPath`. Whatever order the runtime
    iterates it in — every permutation of its entries — the result (path items, component schemas,
    error) is the same: the keys are visited in sorted order. -/
theorem deterministic_path_order (env : Env) (g g' : List (B × List OpIn)) (hp : List.Perm g g')
    (hk : (g.map (·.1)).Nodup) : buildFromGroups env g' = buildFromGroups env g := by
  unfold buildFromGroups
  rw [sortByKey_perm_invariant hp hk]

/-- the hypothesis of `deterministic_path_order` is met by the map `Build` constructs, for all operations -/
theorem deterministic (env : Env) (ops : List OpIn) (g' : List (B × List OpIn)) (hp : List.Perm (groupByPath ops) g') :
    buildFromGroups env g' = build env ops :=
  deterministic_path_order env _ _ hp (groupByPath_keys_nodup ops)

/-- **deterministic (response codes).** `buildOperation` ranges over the Go map `doc.ResponseTypes`;
    every iteration order gives the same operation, registry and error. -/
theorem deterministic_status_order (env : Env) (op : OpIn) (resps' : List (Nat × B × Option Ty)) (st : Schemas)
    (so : List B) (hp : List.Perm op.resps resps') (hk : (op.resps.map (·.1)).Nodup) :
    buildOperation env { op with resps := resps' } st so = buildOperation env op st so := by
  have hempty : resps'.isEmpty = op.resps.isEmpty := by
    have := hp.length_eq
    cases h1 : op.resps <;> cases h2 : resps' <;> simp_all
  have hdoc : OpIn.hasDoc { op with resps := resps' } = op.hasDoc := by simp only [OpIn.hasDoc, hempty]
  have hid : opIdOf { op with resps := resps' } = opIdOf op := by simp only [opIdOf, hdoc]
  unfold buildOperation
  simp only [hdoc, hid, sortStatuses_perm_invariant hp hk]

/-- non-vacuity of the determinism theorems: a permuted map with distinct keys -/
example : List.Perm [(s "/b", ([] : List OpIn)), (s "/a", [])] [(s "/a", []), (s "/b", [])] ∧
    ([(s "/b", ([] : List OpIn)), (s "/a", [])].map (·.1)).Nodup := by
  refine ⟨List.Perm.swap _ _ _, by decide⟩

/-- as shipped (before K07h) the paths were visited in map iteration order, and with two types that
    share a component name the registry depends on that order: visiting `a/dup.I` then `b/dup.I`
    registers a different `dup.I` than the other way round -/
theorem asIs_iteration_order_witness :
    (gen envW [] [] (.named 1) (gen envW [] [] (.named 0) []).2).2 ≠
    (gen envW [] [] (.named 0) (gen envW [] [] (.named 1) []).2).2 := envW_order_matters

/-- first writer wins (the mechanism behind the witness) -/
theorem first_writer_wins {env : Env} {id : Nat} {n p : B} {fs : List Field} {st : Schemas}
    (hl : env.lookup id = some (.struct n p fs)) (hn : schemaName n p ≠ [])
    (hk : hasKey st (schemaName n p) = true) :
    gen env [] [] (.named id) st = (refTo (schemaName n p), st) :=
  gen_struct_known hl (by simp) hn hk

/-- as shipped (before K07c) an instantiated generic type gives a key outside the pattern -/
theorem schemaNameAsIs_witness :
    nameOK (schemaNameAsIs (s "Page[example.com/api.Item]") (s "example.com/api")) = false := by decide

theorem schemaName_fixed_on_witness :
    schemaName (s "Page[example.com/api.Item]") (s "example.com/api") = s "api.Page_example.com_api.Item_" := by decide

/-! ### time.Time example (K07b) -/

/-- as shipped the schema of `time.Time` depended on the clock -/
theorem timeSchemaAsIs_witness :
    timeSchemaAsIs (s "2026-09-26T10:00:00Z") ≠ timeSchemaAsIs (s "2026-09-26T10:00:01Z") := by
  simp [timeSchemaAsIs, leaf, s]

/-! ### API options that reach the document: servers, info.summary, StrictDownlevel -/

/-- **StrictDownlevel**: with a 3.0 target and an `info.summary` configured, strict mode never produces a document
    (the error the option exists for), whatever the validator -/
theorem strict_summary_is_error (cfg : ApiCfg) (V : Option (Doc Schema → Bool)) (env : Env) (ops : List OpIn)
    (d : Doc Schema) (hs : cfg.summary ≠ []) : generate cfg .v30 true V env ops ≠ .ok d := by
  intro h
  obtain ⟨paths, comps, _, hp⟩ := generate_ok h
  unfold project at hp
  split at hp
  · cases hp
  · rw [if_pos ⟨rfl, rfl, hs⟩] at hp; cases hp

/-- without strict mode the 3.0 projection drops the summary (a 3.0 Info Object with a `summary` member would fail
    the meta-schema — this is also a conjunct of `wf_doc`); the 3.1 projection keeps it -/
theorem summary_projection (cfg : ApiCfg) (v : Version) (strict : Bool) (V : Option (Doc Schema → Bool)) (env : Env)
    (ops : List OpIn) (d : Doc Schema) (h : generate cfg v strict V env ops = .ok d) :
    d.infoSummary = (match v with | .v30 => [] | .v31 => cfg.summary) := by
  obtain ⟨paths, comps, _, hp⟩ := generate_ok h
  obtain ⟨rfl, _⟩ := project_ok hp
  cases v <;> rfl

/-- configured servers are written as they are; without any, 3.1 gets the default server `/` and 3.0 none -/
theorem servers_projection (cfg : ApiCfg) (v : Version) (strict : Bool) (V : Option (Doc Schema → Bool)) (env : Env)
    (ops : List OpIn) (d : Doc Schema) (h : generate cfg v strict V env ops = .ok d) :
    d.servers = if cfg.servers.isEmpty then (match v with | .v30 => [] | .v31 => [s "/"]) else cfg.servers := by
  obtain ⟨paths, comps, _, hp⟩ := generate_ok h
  obtain ⟨rfl, _⟩ := project_ok hp
  cases v <;> rfl

/-- not vacuous: the same summary is an error under strict 3.0, dropped under plain 3.0, kept under 3.1 -/
example :
    let ops : List OpIn := [{ method := s "GET", path := s "/a", summary := s "x", description := [], opID := [], req := none, resps := [] }]
    let cfg : ApiCfg := { summary := s "An API" }
    ((match generate cfg .v30 true none [] ops with | .error .strict => true | _ => false),
     (match generate cfg .v30 false none [] ops with | .ok d => d.infoSummary.isEmpty | _ => false),
     (match generate cfg .v31 true none [] ops with | .ok d => d.infoSummary == s "An API" | _ => false)) = (true, true, true) := by
  decide

/-! ### `WithResponse` option handling: the example maps, folded by the model -/

/-- **"single example OR named examples"**: whatever sequence of `WithResponse` calls an operation was built from, a
    response's media type never gets both members (the Media Type Object does not admit both; `wfResp` demands it and
    `wf_doc` proves it for every generated document) -/
theorem response_examples_exclusive (opts : List RespOpt) (status : Nat) :
    ¬ ((exampleOf opts status).1 = true ∧ (exampleOf opts status).2 ≠ []) :=
  exampleOf_exclusive opts status

/-- named examples win over a sample value documented for the same status, in whichever order the two calls came -/
theorem named_examples_win (opts : List RespOpt) (status : Nat) (h : namedOf opts status ≠ []) :
    (exampleOf opts status).1 = false := by
  unfold exampleOf
  simp only []
  split
  · rename_i he; exact absurd (List.isEmpty_iff.mp he) h
  · rfl

/-- the last call with named examples decides which ones -/
theorem last_named_call_decides (opts : List RespOpt) (o : RespOpt) (hn : o.nilValue = false) (hne : o.named ≠ []) :
    namedOf (opts ++ [o]) o.status = o.named := by
  unfold namedOf
  have : (o.status == o.status && !o.nilValue && !o.named.isEmpty) = true := by
    simp [hn, hne]
  rw [List.filter_append]
  simp only [List.filter, this, List.getLast?_append, List.getLast?_singleton, Option.some_or]

/-- not vacuous: a sample value first and named examples later, and the reverse -/
example :
    let a : RespOpt := { status := 200, nilValue := false, nonZero := true, named := [] }
    let b : RespOpt := { status := 200, nilValue := false, nonZero := false, named := [s "ok", s "alt", s "ok"] }
    (exampleOf [a] 200, exampleOf [a, b] 200, exampleOf [b, a] 200, exampleOf [a, b] 404) =
      ((true, []), (false, [s "alt", s "ok"]), (false, [s "alt", s "ok"]), (false, [])) := by decide

/-! ### validation: what can be said about the validator itself

`validation_transparent` is about *any* validator `V` (a parameter: the jsonschema library on the embedded
meta-schema): it is a statement about the wiring — validation on filters with `V` and never alters a document. That
`V` accepts what is valid is, for the real `V`, observed per case (meta-schema verdict, validator probe). For the part
of the meta-schemas that is transcribed (`wfDoc`) it is a theorem: -/

/-- **the fragment validator never rejects**: with the transcribed fragment of the meta-schema as the validator,
    switching validation on changes nothing at all — every document `Generate` produces is accepted (this is `wf_doc`
    used as a statement about validation: a validator that checks no more than `wfDoc` cannot reject a generated
    document; what the real meta-schema demands beyond the fragment is covered by correspondence only) -/
theorem fragment_validator_never_rejects (cfg : ApiCfg) (v : Version) (strict : Bool) (env : Env) (ops : List OpIn)
    (henv : EnvNamed env) (hvalid : ∀ op ∈ ops, validatePath op.path = true) :
    generate cfg v strict (some (wfDoc v)) env ops = generate cfg v strict none env ops := by
  rw [validation_transparent]
  cases h : generate cfg v strict none env ops with
  | error e => rfl
  | ok d =>
    simp only []
    rw [wf_doc cfg v strict none env ops d henv hvalid h]
    rfl

/-- and more generally: any validator that accepts every document satisfying the whole oracle `docOK` accepts every
    generated document — validation on equals validation off for it -/
theorem sound_validator_never_rejects (cfg : ApiCfg) (v : Version) (strict : Bool) (ok : Doc Schema → Bool) (env : Env)
    (ops : List OpIn) (henv : EnvNamed env) (hvalid : ∀ op ∈ ops, validatePath op.path = true)
    (hok : ∀ d, docOK v ops d = true → ok d = true) :
    generate cfg v strict (some ok) env ops = generate cfg v strict none env ops := by
  rw [validation_transparent]
  cases h : generate cfg v strict none env ops with
  | error e => rfl
  | ok d =>
    simp only []
    rw [hok d (generate_meets_spec cfg v strict none env ops d henv hvalid h)]
    rfl

/-! ### non-vacuity over a non-empty type environment (review C07-2)

`decide` cannot run the well-founded `gen`; the witness is evaluated by rewriting with the evaluation lemmas of
`Lemmas/OpenAPIEval.lean` (`envW`: two struct types; the operation's response type is the first). -/

def opW : OpIn := { method := s "GET", path := s "/a/:id", summary := s "s", description := [], opID := [], req := none,
                    resps := [(200, s "OK", some (.named 0))] }

theorem lemma_genResps_W : genResps envW (sortStatuses opW.resps) [] =
    .ok ([{ code := s "200", description := s "OK", schema := some (refTo (s "dup.I")) }],
         [(s "dup.I", objNode [] (.cons (s "a") (primSchema .string) .nil))]) := by
  have hs : sortStatuses opW.resps = [(200, s "OK", some (.named 0))] := by decide
  rw [hs, genResps]
  have hc : validResponseCode (itoa 200) = true := by decide
  simp only [hc, Bool.not_true, Bool.false_eq_true, if_false, ne_eq]
  rw [envW_first]
  simp only [genResps]
  have h1 : itoa 200 = s "200" := by decide
  have h2 : (if s "OK" = [] then s "Response" else s "OK") = s "OK" := by decide
  simp [h1, h2]

theorem lemma_buildOperation_W : ∃ o st, buildOperation envW opW [] [] = .ok (o, st, [opIdOf opW]) ∧
    st = [(s "dup.I", objNode [] (.cons (s "a") (primSchema .string) .nil))] := by
  unfold buildOperation
  have hd : ([] : List B).contains (opIdOf opW) = false := by decide
  have hdoc : opW.hasDoc = true := by decide
  have hreq : opW.req.bind (introspect envW) = none := by decide
  simp only [hd, hdoc, Bool.false_eq_true, if_false, Bool.not_true, hreq, opParams, opBody]
  have hst : ((extractPathParams opW.path).all fun p => styleOK p.loc p.style) = true := by decide
  simp only [hst, Bool.not_true, Bool.false_eq_true, if_false, lemma_genResps_W]
  exact ⟨_, _, rfl, rfl⟩

theorem lemma_generate_W : ∃ d, generate {} .v30 false none envW [opW] = .ok d := by
  obtain ⟨o, st, hb, _⟩ := lemma_buildOperation_W
  have hg : sortByKey (groupByPath [opW]) = [(s "/a/{id}", [opW])] := by rfl
  have hm : methodMember opW.method = some (s "get") := by decide
  unfold generate build buildFromGroups
  rw [hg]
  simp only [buildGroups, buildGroup, hb, hm]
  unfold project
  simp

/-- hypotheses of `generate_meets_spec` met over a non-empty environment with struct fields, `Generate` returns a
    document, and the whole oracle holds on it -/
theorem nonempty_env_witness :
    EnvNamed envW ∧ (∀ op ∈ [opW], validatePath op.path = true) ∧
    ∃ d, generate {} .v30 false none envW [opW] = .ok d ∧ docOK .v30 [opW] d = true := by
  have henv : EnvNamed envW := by
    intro e he n p fs hdef f hf m t hft
    simp only [envW, List.mem_cons, List.not_mem_nil, or_false] at he
    rcases he with rfl | rfl <;> simp only [Def.struct.injEq] at hdef <;> obtain ⟨_, _, rfl⟩ := hdef <;>
      simp only [List.mem_singleton] at hf <;> subst hf <;> simp only [Field.field.injEq] at hft <;>
      obtain ⟨rfl, _⟩ := hft <;> decide
  have hv : ∀ op ∈ [opW], validatePath op.path = true := by
    intro op hop; simp only [List.mem_singleton] at hop; subst hop; decide
  obtain ⟨d, hd⟩ := lemma_generate_W
  exact ⟨henv, hv, d, hd, generate_meets_spec {} .v30 false none envW [opW] d henv hv hd⟩

end Rivaas.C07
