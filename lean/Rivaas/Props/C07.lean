import Rivaas.Lemmas.OpenAPIDoc
/-
C07 — property theorems (generated OpenAPI documents are valid, closed, complete and deterministic).
-/
namespace Rivaas.C07
open Rivaas.OpenAPI

/-! ### `$ref` closure -/

/-- **refs_closed.** Whatever the type environment (recursive, mutually recursive, generic, colliding
    names), the operations, the version and the validator: every `$ref` of a produced document — in a
    parameter, a request body, a response or inside a component — is `#/components/schemas/<k>` for a
    key `k` of `components.schemas`, and resolves as a JSON pointer. -/
theorem refs_closed (v : Version) (strict : Bool) (V : Option (Doc Schema → Bool)) (env : Env) (ops : List OpIn)
    (d : Doc Schema) (h : generate v strict V env ops = .ok d) : refsClosed d = true := by
  obtain ⟨paths, comps, hb, hp⟩ := generate_ok h
  obtain ⟨rfl, _⟩ := project_ok hp
  obtain ⟨hops, hcomps, _⟩ := build_post env ops paths comps hb
  simp only [refsClosed, List.all_eq_true, Doc.allRefs, List.mem_flatMap]
  rintro r ⟨x, hx, hr⟩
  rw [projDoc_keys]
  apply resolves_of_inNames (fun k hk => by
    simp only [List.mem_map] at hk
    obtain ⟨ks, hks, rfl⟩ := hk
    exact (hcomps ks hks).1)
  have hgood : ∃ y : IR, Good (comps.map (·.1)) y ∧ x = projSchema v y := by
    rcases mem_projDoc_allSchemas hx with ⟨pi, hpi, mo, hmo, y, hy, rfl⟩ | ⟨ks, hks, rfl⟩
    · exact ⟨y, hops pi hpi mo hmo y hy, rfl⟩
    · exact ⟨ks.2, (hcomps ks hks).2, rfl⟩
  obtain ⟨y, hy, rfl⟩ := hgood
  have : Tree.All (fun _ : Attrs => True) (InNames (comps.map (·.1))) (projSchema v y) := by
    cases v <;> exact Tree.All.project (fun _ _ => trivial) y hy
  exact Tree.All.refs _ this r hr

/-- non-vacuity of the hypothesis `generate … = .ok d`: a route with a parameter generates a document
    (3.1, validation on with a validator that accepts) -/
example :
    (match generate .v31 true (some fun _ => true) []
        [{ method := s "GET", path := s "/n/:id", summary := [], description := [], opID := [], req := none, resps := [] }] with
     | .ok d => d.opIds == [s "getNById"] && d.paths.map (·.1) == [s "/n/{id}"]
     | .error _ => false) = true := by decide

/-! ### component names (K07c) -/

/-- **names_wellformed.** Every key of `components.schemas` matches `^[a-zA-Z0-9._-]+$`. -/
theorem names_wellformed (v : Version) (strict : Bool) (V : Option (Doc Schema → Bool)) (env : Env) (ops : List OpIn)
    (d : Doc Schema) (h : generate v strict V env ops = .ok d) : namesOK d = true := by
  obtain ⟨paths, comps, hb, hp⟩ := generate_ok h
  obtain ⟨rfl, _⟩ := project_ok hp
  obtain ⟨_, hcomps, _⟩ := build_post env ops paths comps hb
  simp only [namesOK, List.all_eq_true, projDoc, List.mem_map]
  rintro ks' ⟨ks, hks, rfl⟩
  exact (hcomps ks hks).1

/-- the name function itself: empty (anonymous struct, never registered) or well formed -/
theorem schemaName_ok (name pkgPath : B) : schemaName name pkgPath = [] ∨ nameOK (schemaName name pkgPath) = true :=
  schemaName_wellformed name pkgPath

/-! ### operation ids -/

theorem lemma_opIds_perm (v : Version) (paths : List (B × PathItem IR)) (comps : List (B × IR)) :
    List.Perm (projDoc v paths comps).opIds (pathsIds paths) := by
  simp only [Doc.opIds, Doc.operations, projDoc, List.flatMap_map, List.map_flatMap, pathsIds]
  apply perm_flatMap_congr
  intro pi _
  simp only [List.map_map]
  refine ((sortByKey_perm _).map _).trans ?_
  simp only [List.map_map, itemIds]
  exact List.Perm.of_eq (List.map_congr_left fun mo _ => rfl)

/-- **opids_unique_or_error.** `Generate` returns an error (`duplicate operation ID`) or a document whose
    operationIds are pairwise different — for generated and custom ids, for operations that are dropped
    (TRACE, custom methods) or overwritten (same method and path twice). -/
theorem opids_unique_or_error (v : Version) (strict : Bool) (V : Option (Doc Schema → Bool)) (env : Env)
    (ops : List OpIn) (d : Doc Schema) (h : generate v strict V env ops = .ok d) : opIdsUnique d = true := by
  obtain ⟨paths, comps, hb, hp⟩ := generate_ok h
  obtain ⟨rfl, _⟩ := project_ok hp
  obtain ⟨_, _, hnd⟩ := build_post env ops paths comps hb
  rw [opIdsUnique, nodupB_iff]
  exact (lemma_opIds_perm v paths comps).nodup_iff.2 hnd

/-- the error does occur: two routes whose generated ids coincide -/
example :
    (match generate .v30 false none []
        [{ method := s "GET", path := s "/users/:id", summary := [], description := [], opID := [], req := none, resps := [] },
         { method := s "GET", path := s "/user/:id", summary := [], description := [], opID := [], req := none, resps := [] }] with
     | .ok _ => false
     | .error e => e == .dupOp) = true := by decide

/-- as shipped (before K07c) an instantiated generic type gives a key outside the pattern -/
theorem schemaNameAsIs_witness :
    nameOK (schemaNameAsIs (s "Page[example.com/api.Item]") (s "example.com/api")) = false := by decide

theorem schemaName_fixed_on_witness :
    schemaName (s "Page[example.com/api.Item]") (s "example.com/api") = s "api.Page_example.com_api.Item_" := by decide

/-! ### time.Time example (K07b) -/

/-- as shipped the schema of `time.Time` depended on the clock -/
theorem timeSchemaAsIs_witness :
    timeSchemaAsIs (s "2026-09-26T10:00:00Z") ≠ timeSchemaAsIs (s "2026-09-26T10:00:01Z") := by
  simp [timeSchemaAsIs, leaf, s]

end Rivaas.C07
