import Rivaas.Lemmas.OpenAPIEval
/-
C07 — property theorems (generated OpenAPI documents are valid, closed, complete and deterministic).
-/
namespace Rivaas.C07
open Rivaas.OpenAPI

/-! ### `$ref` closure -/

/-- **refs_closed.** Whatever the type environment (recursive, mutually recursive, generic, colliding
    names), the operations, the version and the validator: every `$ref` of a produced document — in a
    parameter, a request body, a response or inside a component — is `#/components/schemas/<k>` for a
    key `k` of `components.schemas`, and resolves as a JSON pointer. -/
theorem refs_closed (v : Version) (strict : Bool) (V : Option (Doc Schema → Bool)) (env : Env) (ops : List OpIn)
    (d : Doc Schema) (h : generate v strict V env ops = .ok d) : refsClosed d = true := by
  obtain ⟨paths, comps, hb, hp⟩ := generate_ok h
  obtain ⟨rfl, _⟩ := project_ok hp
  obtain ⟨hops, hcomps, _⟩ := build_post env ops paths comps hb
  simp only [refsClosed, List.all_eq_true, Doc.allRefs, List.mem_flatMap]
  rintro r ⟨x, hx, hr⟩
  rw [projDoc_keys]
  apply resolves_of_inNames (fun k hk => by
    simp only [List.mem_map] at hk
    obtain ⟨ks, hks, rfl⟩ := hk
    exact (hcomps ks hks).1)
  have hgood : ∃ y : IR, Good (comps.map (·.1)) y ∧ x = projSchema v y := by
    rcases mem_projDoc_allSchemas hx with ⟨pi, hpi, mo, hmo, y, hy, rfl⟩ | ⟨ks, hks, rfl⟩
    · exact ⟨y, hops pi hpi mo hmo y hy, rfl⟩
    · exact ⟨ks.2, (hcomps ks hks).2, rfl⟩
  obtain ⟨y, hy, rfl⟩ := hgood
  have : Tree.All (fun _ : Attrs => True) (InNames (comps.map (·.1))) (projSchema v y) := by
    cases v <;> exact Tree.All.project (fun _ _ => trivial) y hy
  exact Tree.All.refs _ this r hr

/-- non-vacuity of the hypothesis `generate … = .ok d`: a route with a parameter generates a document
    (3.1, validation on with a validator that accepts) -/
example :
    (match generate .v31 true (some fun _ => true) []
        [{ method := s "GET", path := s "/n/:id", summary := [], description := [], opID := [], req := none, resps := [] }] with
     | .ok d => d.opIds == [s "getNById"] && d.paths.map (·.1) == [s "/n/{id}"]
     | .error _ => false) = true := by decide

/-! ### component names (K07c) -/

/-- **names_wellformed.** Every key of `components.schemas` matches `^[a-zA-Z0-9._-]+$`. -/
theorem names_wellformed (v : Version) (strict : Bool) (V : Option (Doc Schema → Bool)) (env : Env) (ops : List OpIn)
    (d : Doc Schema) (h : generate v strict V env ops = .ok d) : namesOK d = true := by
  obtain ⟨paths, comps, hb, hp⟩ := generate_ok h
  obtain ⟨rfl, _⟩ := project_ok hp
  obtain ⟨_, hcomps, _⟩ := build_post env ops paths comps hb
  simp only [namesOK, List.all_eq_true, projDoc, List.mem_map]
  rintro ks' ⟨ks, hks, rfl⟩
  exact (hcomps ks hks).1

/-- the name function itself: empty (anonymous struct, never registered) or well formed -/
theorem schemaName_ok (name pkgPath : B) : schemaName name pkgPath = [] ∨ nameOK (schemaName name pkgPath) = true :=
  schemaName_wellformed name pkgPath

/-! ### operation ids -/

theorem lemma_opIds_perm (v : Version) (paths : List (B × PathItem IR)) (comps : List (B × IR)) :
    List.Perm (projDoc v paths comps).opIds (pathsIds paths) := by
  simp only [Doc.opIds, Doc.operations, projDoc, List.flatMap_map, List.map_flatMap, pathsIds]
  apply perm_flatMap_congr
  intro pi _
  simp only [List.map_map]
  refine ((sortByKey_perm _).map _).trans ?_
  simp only [List.map_map, itemIds]
  exact List.Perm.of_eq (List.map_congr_left fun mo _ => rfl)

/-- **opids_unique_or_error.** `Generate` returns an error (`duplicate operation ID`) or a document whose
    operationIds are pairwise different — for generated and custom ids, for operations that are dropped
    (TRACE, custom methods) or overwritten (same method and path twice). -/
theorem opids_unique_or_error (v : Version) (strict : Bool) (V : Option (Doc Schema → Bool)) (env : Env)
    (ops : List OpIn) (d : Doc Schema) (h : generate v strict V env ops = .ok d) : opIdsUnique d = true := by
  obtain ⟨paths, comps, hb, hp⟩ := generate_ok h
  obtain ⟨rfl, _⟩ := project_ok hp
  obtain ⟨_, _, hnd⟩ := build_post env ops paths comps hb
  rw [opIdsUnique, nodupB_iff]
  exact (lemma_opIds_perm v paths comps).nodup_iff.2 hnd

/-- the error does occur: two routes whose generated ids coincide -/
example :
    (match generate .v30 false none []
        [{ method := s "GET", path := s "/users/:id", summary := [], description := [], opID := [], req := none, resps := [] },
         { method := s "GET", path := s "/user/:id", summary := [], description := [], opID := [], req := none, resps := [] }] with
     | .ok _ => false
     | .error e => e == .dupOp) = true := by decide

/-! ### determinism: map iteration order (K07h) -/

theorem lemma_setAssoc_keys_of_mem {β} (k : B) (v : β) : ∀ (l : List (B × β)), k ∈ l.map (·.1) →
    (setAssoc k v l).map (·.1) = l.map (·.1)
  | [], h => by simp at h
  | (k', v') :: rest, h => by
    simp only [setAssoc]
    split
    next hk => simp [hk]
    next hk =>
      simp only [List.map_cons, List.mem_cons] at h ⊢
      rcases h with h | h
      · exact absurd h.symm hk
      · rw [lemma_setAssoc_keys_of_mem k v rest h]

theorem lemma_lookup_none_not_mem {β} (k : B) : ∀ (l : List (B × β)), l.lookup k = none → k ∉ l.map (·.1)
  | [], _ => by simp
  | (k', v') :: rest, h => by
    simp only [List.lookup] at h
    split at h
    · cases h
    next hne =>
      simp only [List.map_cons, List.mem_cons, not_or]
      exact ⟨by simpa using hne, lemma_lookup_none_not_mem k rest h⟩

theorem lemma_lookup_some_mem {β} (k : B) (v : β) : ∀ (l : List (B × β)), l.lookup k = some v → k ∈ l.map (·.1)
  | [], h => by simp [List.lookup] at h
  | (k', v') :: rest, h => by
    simp only [List.lookup] at h
    split at h
    next heq => simp only [List.map_cons, List.mem_cons]; exact Or.inl (by simpa using heq)
    next => simp only [List.map_cons, List.mem_cons]; exact Or.inr (lemma_lookup_some_mem k v rest h)

/-- the `byPath` map has each converted path once (it is a Go map) -/
theorem groupByPath_keys_nodup : ∀ ops : List OpIn, ((groupByPath ops).map (·.1)).Nodup
  | [] => by simp [groupByPath]
  | op :: rest => by
    simp only [groupByPath]
    split
    next grp heq =>
      rw [lemma_setAssoc_keys_of_mem _ _ _ (lemma_lookup_some_mem _ _ _ heq)]
      exact groupByPath_keys_nodup rest
    next heq =>
      simp only [List.map_cons, List.nodup_cons]
      exact ⟨lemma_lookup_none_not_mem _ _ heq, groupByPath_keys_nodup rest⟩

/-- **deterministic (paths).** `Build` ranges over the Go map `byPath`. Whatever order the runtime
    iterates it in — every permutation of its entries — the result (path items, component schemas,
    error) is the same: the keys are visited in sorted order. -/
theorem deterministic_path_order (env : Env) (g g' : List (B × List OpIn)) (hp : List.Perm g g')
    (hk : (g.map (·.1)).Nodup) : buildFromGroups env g' = buildFromGroups env g := by
  unfold buildFromGroups
  rw [sortByKey_perm_invariant hp hk]

/-- the hypothesis of `deterministic_path_order` is met by the map `Build` constructs, for all operations -/
theorem deterministic (env : Env) (ops : List OpIn) (g' : List (B × List OpIn)) (hp : List.Perm (groupByPath ops) g') :
    buildFromGroups env g' = build env ops :=
  deterministic_path_order env _ _ hp (groupByPath_keys_nodup ops)

/-- **deterministic (response codes).** `buildOperation` ranges over the Go map `doc.ResponseTypes`;
    every iteration order gives the same operation, registry and error. -/
theorem deterministic_status_order (env : Env) (op : OpIn) (resps' : List (Nat × B × Option Ty)) (st : Schemas)
    (so : List B) (hp : List.Perm op.resps resps') (hk : (op.resps.map (·.1)).Nodup) :
    buildOperation env { op with resps := resps' } st so = buildOperation env op st so := by
  have hempty : resps'.isEmpty = op.resps.isEmpty := by
    have := hp.length_eq
    cases h1 : op.resps <;> cases h2 : resps' <;> simp_all
  have hdoc : OpIn.hasDoc { op with resps := resps' } = op.hasDoc := by simp only [OpIn.hasDoc, hempty]
  have hid : opIdOf { op with resps := resps' } = opIdOf op := by simp only [opIdOf, hdoc]
  unfold buildOperation
  simp only [hdoc, hid, sortStatuses_perm_invariant hp hk]

/-- as shipped (before K07h) the paths were visited in map iteration order, and with two types that
    share a component name the registry depends on that order: visiting `a/dup.I` then `b/dup.I`
    registers a different `dup.I` than the other way round -/
theorem asIs_iteration_order_witness :
    (gen envW [] [] (.named 1) (gen envW [] [] (.named 0) []).2).2 ≠
    (gen envW [] [] (.named 0) (gen envW [] [] (.named 1) []).2).2 := envW_order_matters

/-- first writer wins (the mechanism behind the witness) -/
theorem first_writer_wins {env : Env} {id : Nat} {n p : B} {fs : List Field} {st : Schemas}
    (hl : env.lookup id = some (.struct n p fs)) (hn : schemaName n p ≠ [])
    (hk : hasKey st (schemaName n p) = true) :
    gen env [] [] (.named id) st = (refTo (schemaName n p), st) :=
  gen_struct_known hl (by simp) hn hk

/-- as shipped (before K07c) an instantiated generic type gives a key outside the pattern -/
theorem schemaNameAsIs_witness :
    nameOK (schemaNameAsIs (s "Page[example.com/api.Item]") (s "example.com/api")) = false := by decide

theorem schemaName_fixed_on_witness :
    schemaName (s "Page[example.com/api.Item]") (s "example.com/api") = s "api.Page_example.com_api.Item_" := by decide

/-! ### time.Time example (K07b) -/

/-- as shipped the schema of `time.Time` depended on the clock -/
theorem timeSchemaAsIs_witness :
    timeSchemaAsIs (s "2026-09-26T10:00:00Z") ≠ timeSchemaAsIs (s "2026-09-26T10:00:01Z") := by
  simp [timeSchemaAsIs, leaf, s]

end Rivaas.C07
