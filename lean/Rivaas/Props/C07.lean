import Rivaas.Spec.OpenAPI
/-
C07 — property theorems (generated OpenAPI documents are valid, closed, complete and deterministic).
-/
namespace Rivaas.C07
open Rivaas.OpenAPI

/-! ### component names (K07c) -/

theorem lemma_nameByteOK_iff (c : Char) : nameByteOK c = nameCharOK c := rfl

/-- every byte `sanitizeComponentName` leaves in a name is allowed in a component key -/
theorem sanitize_ok (name : B) : (sanitize name).all nameCharOK = true := by
  simp only [sanitize, List.all_map, List.all_eq_true]
  intro c _
  simp only [Function.comp]
  by_cases h : nameByteOK c = true
  · simp [h, ← lemma_nameByteOK_iff]
  · have : nameByteOK '_' = true := by decide
    simp [h, ← lemma_nameByteOK_iff, this]

theorem lemma_sanitize_length (name : B) : (sanitize name).length = name.length := by simp [sanitize]

/-- `schemaName` is empty (anonymous struct: never registered) or matches `^[a-zA-Z0-9._-]+$` -/
theorem schemaName_wellformed (name pkgPath : B) :
    schemaName name pkgPath = [] ∨ nameOK (schemaName name pkgPath) = true := by
  unfold schemaName
  by_cases h0 : name = []
  · simp [h0]
  · right
    have hne : ∀ x : B, x ≠ [] → nameOK (sanitize x) = true := by
      intro x hx
      simp only [nameOK, Bool.and_eq_true, sanitize_ok, and_true]
      cases x with
      | nil => exact absurd rfl hx
      | cons c cs => simp [sanitize]
    simp only [h0, if_false]
    split
    · exact hne _ h0
    · split
      · exact hne _ h0
      · apply hne
        intro h
        have := congrArg List.length h
        simp [s] at this

/-- as shipped (before K07c) an instantiated generic type gives a key outside the pattern -/
theorem schemaNameAsIs_witness :
    nameOK (schemaNameAsIs (s "Page[example.com/api.Item]") (s "example.com/api")) = false := by decide

theorem schemaName_fixed_on_witness :
    schemaName (s "Page[example.com/api.Item]") (s "example.com/api") = s "api.Page_example.com_api.Item_" := by decide

/-! ### time.Time example (K07b) -/

/-- as shipped the schema of `time.Time` depended on the clock -/
theorem timeSchemaAsIs_witness :
    timeSchemaAsIs (s "2026-09-26T10:00:00Z") ≠ timeSchemaAsIs (s "2026-09-26T10:00:01Z") := by
  simp [timeSchemaAsIs, leaf, s]

end Rivaas.C07
