/- C07 — property theorems (stub: not built yet) -/
