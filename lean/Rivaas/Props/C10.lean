import Rivaas.Spec.Contain
import Rivaas.Model.RecoveryOpts
import Rivaas.Model.TimeoutAsIs
/-
C10 — Panics and timeouts are contained.

Part 1 (recovery) is about the shared chain machine `Rivaas.Chain` (Model/Chain.lean) with the
recovery middleware — `recovers := true`, body `[Next]` — at position 0, as `app.New` installs it.
Part 2 (timeout) is about the two-thread system `Rivaas.Timeout` (Model/Timeout.lean), for **every
schedule**.
-/
namespace Rivaas.C10

/-! ## Part 1 — recovery contains every panic -/
section Recovery
open Rivaas.Chain

/-- the real recovery middleware as a chain position: deferred `recover`, then `c.Next()` -/
def recoveryMw : Prog := { recovers := true, acts := [.next] }

/-- As shipped (before the K10c `fix:` commit `handlePanic` did not abort the chain):
    `[recovery; A panics; B panics]` — B is entered *after* the recovered panic, outside the
    recovery frame, and its panic leaves `ServeHTTP`. Reproduced on the real code (corpus/C10). -/
theorem asis_escape :
    let cfg : Cfg := { abortOnRecover := false }
    let progs : List Prog := [recoveryMw, { acts := [.panic 0] }, { acts := [.panic 1] }]
    (exec cfg progs).escaped = some 1 ∧
    (exec cfg progs).trace = [.enter 0, .enter 1, .unwound 1, .exit 0, .enter 2, .unwound 2] := by
  decide

/-- as shipped, second shape: the next handler writes behind the 500 body -/
theorem asis_second_write :
    let cfg : Cfg := { abortOnRecover := false }
    let progs : List Prog := [recoveryMw, { acts := [.panic 1] }, { acts := [.write] }]
    (exec cfg progs).body = [.rec500, .h 2] := by
  decide

/-- the repaired code on the same chains: B never starts, nothing escapes, one 500 body -/
theorem fixed_same_chains :
    let p1 : List Prog := [recoveryMw, { acts := [.panic 0] }, { acts := [.panic 1] }]
    let p2 : List Prog := [recoveryMw, { acts := [.panic 1] }, { acts := [.write] }]
    (exec {} p1).escaped = none ∧ (exec {} p1).trace = [.enter 0, .enter 1, .unwound 1, .exit 0] ∧
    (exec {} p2).body = [.rec500] ∧ (exec {} p2).status = some .rec500 := by
  decide

/-- the chain is over: aborted / cancelled-with-check, or the cursor is past the last position -/
def Done (cfg : Cfg) (progs : List Prog) (s : St) : Prop :=
  s.stopped cfg = true ∨ (progs.length : Int) ≤ s.idx + 1

/-- the recovery frame of position 0 after it has called `Next()` -/
def base : List Frame := [Frame.fn 0 .recover [], Frame.loop]

/-- Invariant of the repaired recovery: nothing has escaped, and the stack is one of
    * recovery about to call `Next()`;
    * anything at all (`top`) on top of the `Next` activation called by recovery;
    * recovery about to return, ServeHTTP's own `Next` activation, or nothing — and then the chain is `Done`. -/
def Inv (cfg : Cfg) (progs : List Prog) (s : St) : Prop :=
  s.escaped = none ∧ 0 ≤ s.idx ∧
  (s.stack = [Frame.fn 0 .recover [.next], Frame.loop] ∨
   (∃ top, s.stack = top ++ Frame.loop :: base) ∨
   ((s.stack = base ∨ s.stack = [Frame.loop] ∨ s.stack = []) ∧ Done cfg progs s))

theorem lemma_unwind_guarded (cfg : Cfg) (hab : cfg.abortOnRecover = true) (progs : List Prog) (v : Nat)
    (top : List Frame) (s : St) (hesc : s.escaped = none) (hidx : 0 ≤ s.idx) :
    Inv cfg progs (unwind cfg v (top ++ Frame.loop :: base) s) := by
  induction top generalizing s with
  | nil =>
    simp only [List.nil_append, base, unwind]
    refine ⟨by simpa [St.write] using hesc, by simpa [St.write] using hidx, Or.inr (Or.inr ⟨Or.inl rfl, Or.inl ?_⟩)⟩
    simp [St.stopped, St.write, hab]
  | cons f t ih =>
    cases f with
    | loop => simpa [unwind] using ih s hesc hidx
    | fn k fk acts =>
      cases fk with
      | sub => simpa [unwind] using ih s hesc hidx
      | plain => simpa [unwind] using ih _ (by simpa using hesc) (by simpa using hidx)
      | recover =>
        simp only [List.cons_append, unwind]
        exact ⟨by simpa [St.write] using hesc, by simpa [St.write] using hidx,
          Or.inr (Or.inl ⟨Frame.fn k .recover [] :: t, by simp [St.write]⟩)⟩

/-- the loop head of a `Next` whose caller's stack is `stk` -/
theorem lemma_loopHead_inv (cfg : Cfg) (progs : List Prog) (s : St) (top : List Frame)
    (hesc : s.escaped = none) (hidx : 0 ≤ s.idx) (hst : s.stack = top ++ base)
    (hcase : top = [] ∨ ∃ t, top = t ++ [Frame.loop]) :
    Inv cfg progs (loopHead cfg progs s) := by
  unfold loopHead
  by_cases hc : 0 ≤ s.idx ∧ s.idx < progs.length
  · by_cases hs : s.stopped cfg = true
    · simp only [hc, and_self, if_true, hs]
      rcases hcase with rfl | ⟨t, rfl⟩
      · exact ⟨hesc, hidx, Or.inr (Or.inr ⟨Or.inl (by simpa using hst), Or.inl hs⟩)⟩
      · exact ⟨hesc, hidx, Or.inr (Or.inl ⟨t, by simp [hst]⟩)⟩
    · simp only [hc, and_self, if_true, hs]
      refine ⟨hesc, hidx, Or.inr (Or.inl ?_)⟩
      rcases hcase with rfl | ⟨t, rfl⟩
      · exact ⟨[Frame.fn s.idx.toNat (progs.getD s.idx.toNat default).fk (progs.getD s.idx.toNat default).acts],
          by simp [hst]⟩
      · exact ⟨Frame.fn s.idx.toNat (progs.getD s.idx.toNat default).fk (progs.getD s.idx.toNat default).acts ::
          Frame.loop :: t, by simp [hst]⟩
  · simp only [hc, if_false]
    rcases hcase with rfl | ⟨t, rfl⟩
    · refine ⟨hesc, hidx, Or.inr (Or.inr ⟨Or.inl (by simpa using hst), Or.inr ?_⟩)⟩
      have : ¬ (s.idx < progs.length) := fun h => hc ⟨hidx, h⟩
      omega
    · exact ⟨hesc, hidx, Or.inr (Or.inl ⟨t, by simp [hst]⟩)⟩

theorem lemma_step_inv (cfg : Cfg) (hab : cfg.abortOnRecover = true) (progs : List Prog) (s : St)
    (h : Inv cfg progs s) : Inv cfg progs (step cfg progs s) := by
  obtain ⟨hesc, hidx, hshape⟩ := h
  rcases hshape with hst | ⟨top, hst⟩ | ⟨hst, hd⟩
  · -- recovery calls Next()
    simp only [step, hst, callNext]
    exact lemma_loopHead_inv cfg progs _ [] hesc (by simp; omega) (by simp [base]) (Or.inl rfl)
  · cases top with
    | nil =>
      -- the Next activation called by recovery continues its loop
      simp only [List.nil_append] at hst
      simp only [step, hst]
      exact lemma_loopHead_inv cfg progs _ [] hesc (by simp; omega) (by simp) (Or.inl rfl)
    | cons f t =>
      simp only [List.cons_append] at hst
      cases f with
      | loop =>
        simp only [step, hst]
        exact lemma_loopHead_inv cfg progs _ (t ++ [Frame.loop]) hesc (by simp; omega) (by simp) (Or.inr ⟨t, rfl⟩)
      | fn k fk acts =>
        cases acts with
        | nil =>
          simp only [step, hst]
          exact ⟨hesc, hidx, Or.inr (Or.inl ⟨t, rfl⟩)⟩
        | cons a as =>
          cases a with
          | ret => simp only [step, hst]; exact ⟨hesc, hidx, Or.inr (Or.inl ⟨t, rfl⟩)⟩
          | abort => simp only [step, hst]; exact ⟨hesc, hidx, Or.inr (Or.inl ⟨Frame.fn k fk as :: t, rfl⟩)⟩
          | cancel => simp only [step, hst]; exact ⟨hesc, hidx, Or.inr (Or.inl ⟨Frame.fn k fk as :: t, rfl⟩)⟩
          | write =>
            simp only [step, hst]
            exact ⟨by simpa [St.write] using hesc, by simpa [St.write] using hidx,
              Or.inr (Or.inl ⟨Frame.fn k fk as :: t, by simp [St.write]⟩)⟩
          | call b =>
            simp only [step, hst]
            exact ⟨hesc, hidx, Or.inr (Or.inl ⟨Frame.fn k .sub b :: Frame.fn k fk as :: t, rfl⟩)⟩
          | next =>
            simp only [step, hst, callNext]
            exact lemma_loopHead_inv cfg progs _ (Frame.fn k fk as :: t ++ [Frame.loop]) hesc (by simp; omega)
              (by simp) (Or.inr ⟨Frame.fn k fk as :: t, rfl⟩)
          | panic v =>
            simp only [step, hst]
            have := lemma_unwind_guarded cfg hab progs v (Frame.fn k fk as :: t) s hesc hidx
            simpa using this
  · -- the chain is over: whatever is left on the stack returns, nothing is entered
    have hdone' : ∀ s' : St, s'.idx = s.idx + 1 → s'.aborted = s.aborted → s'.cancelled = s.cancelled →
        Done cfg progs s' := by
      intro s' h1 h2 h3
      rcases hd with h | h
      · left; simpa [St.stopped, h2, h3] using h
      · right; omega
    rcases hst with hst | hst | hst
    · simp only [step, hst, base]
      exact ⟨hesc, hidx, Or.inr (Or.inr ⟨Or.inr (Or.inl rfl), by
        rcases hd with h | h
        · left; simpa [St.stopped] using h
        · right; simpa using h⟩)⟩
    · simp only [step, hst, loopHead]
      have hnot : ¬ ((0 ≤ s.idx + 1 ∧ s.idx + 1 < progs.length) ∧ ¬ (St.stopped cfg { s with idx := s.idx + 1, stack := [] } = true)) := by
        rintro ⟨⟨_, h2⟩, h3⟩
        rcases hd with h | h
        · exact h3 (by simpa [St.stopped] using h)
        · omega
      by_cases hc : 0 ≤ s.idx + 1 ∧ s.idx + 1 < progs.length
      · by_cases hs : St.stopped cfg { s with idx := s.idx + 1, stack := [] } = true
        · simp only [hc, and_self, if_true, hs]
          exact ⟨hesc, by simp; omega, Or.inr (Or.inr ⟨Or.inr (Or.inr rfl), Or.inl hs⟩)⟩
        · exact absurd ⟨hc, hs⟩ hnot
      · simp only [hc, if_false]
        refine ⟨hesc, by simp; omega, Or.inr (Or.inr ⟨Or.inr (Or.inr rfl), ?_⟩)⟩
        exact hdone' _ rfl rfl rfl
    · simp only [step, hst]
      exact ⟨hesc, hidx, Or.inr (Or.inr ⟨Or.inr (Or.inr hst), hd⟩)⟩

theorem lemma_run_inv (cfg : Cfg) (hab : cfg.abortOnRecover = true) (progs : List Prog) (n : Nat) (s : St)
    (h : Inv cfg progs s) : Inv cfg progs (run cfg progs n s) := by
  induction n generalizing s with
  | zero => exact h
  | succ n ih => exact ih _ (lemma_step_inv cfg hab progs s h)

theorem lemma_start_inv (cfg : Cfg) (rest : List Prog) :
    Inv cfg (recoveryMw :: rest) (start cfg (recoveryMw :: rest)) := by
  have h : start cfg (recoveryMw :: rest) =
      { init with idx := 0, stack := [Frame.fn 0 .recover [.next], Frame.loop], trace := [Ev.enter 0] } := by
    simp [start, callNext, loopHead, init, St.stopped, recoveryMw, Prog.fk]
  rw [h]
  exact ⟨rfl, by simp, Or.inl rfl⟩

/-- **Containment.** With the recovery middleware first in the chain (the app default) and
    `handlePanic` aborting the chain (the code after the K10c fix), no panic — whatever its value,
    at whatever position, before or after `Next()`, before or after a write, inside nested calls,
    however many handlers panic — ever leaves `ServeHTTP`: for every chain, every handler program
    and every number of steps. -/
theorem recovery_contains (cfg : Cfg) (hab : cfg.abortOnRecover = true) (rest : List Prog) (n : Nat) :
    (run cfg (recoveryMw :: rest) n (start cfg (recoveryMw :: rest))).escaped = none :=
  (lemma_run_inv cfg hab _ n _ (lemma_start_inv cfg rest)).1

/-- non-vacuity: panics do happen and are caught — five handlers, three of them panic at different
    sites; without recovery in front the first of them escapes -/
example :
    let rest : List Prog := [{ acts := [.write, .next, .panic 3] }, { acts := [.call [.next, .panic 0]] },
                             { acts := [.next] }, { acts := [.panic 4] }, { acts := [.panic 1] }]
    (exec {} (recoveryMw :: rest)).escaped = none ∧
    (exec {} (recoveryMw :: rest)).body = [.h 1, .rec500] ∧
    (exec {} rest).escaped = some 4 := by decide

/-! ### "the client receives a 500 if nothing had been written" -/

theorem lemma_unwind_status (cfg : Cfg) (v : Nat) (top : List Frame) (s : St) (h : s.status = none) :
    (unwind cfg v (top ++ Frame.loop :: base) s).status = some Chunk.rec500 := by
  induction top generalizing s with
  | nil => simp [base, unwind, St.write, h]
  | cons f t ih =>
    cases f with
    | loop => simpa [unwind] using ih s h
    | fn k fk acts =>
      cases fk with
      | sub => simpa [unwind] using ih s h
      | plain => simpa [unwind] using ih _ (by simpa using h)
      | recover => simp [unwind, St.write, h]

/-- the status line, once sent, is never replaced (first `WriteHeader` wins) -/
theorem lemma_unwind_status_keep (cfg : Cfg) (v : Nat) (st : List Frame) (s : St) (c : Chunk)
    (h : s.status = some c) : (unwind cfg v st s).status = some c := by
  induction st generalizing s with
  | nil => simpa [unwind] using h
  | cons f t ih =>
    cases f with
    | loop => simpa [unwind] using ih s h
    | fn k fk acts =>
      cases fk with
      | sub => simpa [unwind] using ih s h
      | plain => simpa [unwind] using ih _ (by simpa using h)
      | recover => simp [unwind, St.write, h]

theorem lemma_loopHead_status (cfg : Cfg) (progs : List Prog) (s : St) :
    (loopHead cfg progs s).status = s.status := by
  unfold loopHead
  split
  · split <;> rfl
  · rfl

theorem lemma_step_status_keep (cfg : Cfg) (progs : List Prog) (s : St) (c : Chunk) (h : s.status = some c) :
    (step cfg progs s).status = some c := by
  unfold step
  split
  · exact h
  · rw [lemma_loopHead_status]; exact h
  · exact h
  · split
    · exact h
    · exact h
    · exact h
    · simp [St.write, h]
    · unfold callNext; rw [lemma_loopHead_status]; exact h
    · exact h
    · exact lemma_unwind_status_keep cfg _ _ s c h

theorem status_sticky (cfg : Cfg) (progs : List Prog) (n : Nat) (s : St) (c : Chunk) (h : s.status = some c) :
    (run cfg progs n s).status = some c := by
  induction n generalizing s with
  | zero => exact h
  | succ n ih => exact ih _ (lemma_step_status_keep cfg progs s c h)

/-- the machine is about to execute `panic v` -/
def aboutToPanic (s : St) : Prop :=
  ∃ k fk v as rest, s.stack = Frame.fn k fk (Act.panic v :: as) :: rest

/-- **500 if nothing had been written.** In any reachable state of a chain with recovery first: if
    the next thing to happen is a panic and no status line has been sent yet, then from the next
    step on — forever — the status line is recovery's 500. -/
theorem recovery_answers_500 (cfg : Cfg) (hab : cfg.abortOnRecover = true) (rest : List Prog) (n m : Nat) :
    let s := run cfg (recoveryMw :: rest) n (start cfg (recoveryMw :: rest))
    aboutToPanic s → s.status = none →
    (run cfg (recoveryMw :: rest) (m + 1) s).status = some Chunk.rec500 := by
  intro s hp hs
  have hinv := lemma_run_inv cfg hab _ n _ (lemma_start_inv cfg rest)
  obtain ⟨k, fk, v, as, rst, hst⟩ := hp
  obtain ⟨_, _, hshape⟩ := hinv
  have hstep : (step cfg (recoveryMw :: rest) s).status = some Chunk.rec500 := by
    rcases hshape with h | ⟨top, h⟩ | ⟨h, _⟩
    · rw [hst] at h; simp at h
    · cases top with
      | nil => rw [hst] at h; simp at h
      | cons f t =>
        rw [hst] at h
        simp only [List.cons_append, List.cons.injEq] at h
        obtain ⟨_, h2⟩ := h
        simp only [step, hst]
        have := lemma_unwind_status cfg v (Frame.fn k fk as :: t) s hs
        simpa [h2] using this
    · rcases h with h | h | h <;> rw [hst] at h <;> simp [base] at h
  show (run cfg _ (m + 1) s).status = _
  simp only [run]
  exact status_sticky cfg _ m _ _ hstep

/-- non-vacuity: a reachable state that is about to panic with nothing written -/
example :
    let rest : List Prog := [{ acts := [.next] }, { acts := [.call [.panic 2]] }]
    let s := run {} (recoveryMw :: rest) 3 (start {} (recoveryMw :: rest))
    (∃ k fk v as rst, s.stack = Frame.fn k fk (Act.panic v :: as) :: rst) ∧ s.status = none :=
  ⟨⟨2, .sub, 2, [], [.fn 2 .plain [], .loop, .fn 1 .plain [], .loop, .fn 0 .recover [], .loop], rfl⟩, by decide⟩


/-! ### later requests are served normally, also on reused pooled contexts -/

theorem lemma_serveOn_reset (cfg : Cfg) (progs : List Prog) (c : PCtx) (h : c.aborted = false) :
    serveOn cfg progs c = exec cfg progs := by
  unfold serveOn exec start
  rw [h]
  rfl

/-- **Later requests are unaffected.** Whatever the earlier requests did — recovered panics (which
    leave `aborted = true` behind until `reset()`), escaped panics, aborts — and whichever serve
    path released their contexts, every request of the sequence behaves exactly like a request on
    a brand-new context: the pool only ever holds reset contexts. -/
theorem later_requests_unaffected (cfg : Cfg) (pool : List PCtx) (hp : ∀ c ∈ pool, c.aborted = false)
    (reqs : List (List Prog × Bool)) :
    serveAll cfg pool reqs = reqs.map fun (p, _) => exec cfg p := by
  induction reqs generalizing pool with
  | nil => rfl
  | cons q qs ih =>
    obtain ⟨p, d⟩ := q
    have hc : (pool.headD PCtx.reset).aborted = false := by
      cases pool with
      | nil => rfl
      | cons c r => exact hp c (List.mem_cons_self ..)
    have htail : ∀ c ∈ pool.tail, c.aborted = false := fun c hc' => hp c (List.mem_of_mem_tail hc')
    simp only [serveAll, List.map_cons, lemma_serveOn_reset cfg p _ hc]
    congr 1
    apply ih
    intro c hc'
    unfold release at hc'
    split at hc'
    · exact htail c hc'
    · rcases List.mem_cons.mp hc' with h | h
      · rw [h]; rfl
      · exact htail c h

/-- non-vacuity: a recovered panic leaves the context aborted, and the next request on the same
    pool still runs its whole chain -/
example :
    let bad : List Prog := [recoveryMw, { acts := [.panic 0] }, { acts := [.write] }]
    let good : List Prog := [recoveryMw, { acts := [.next] }, { acts := [.write] }]
    (exec {} bad).aborted = true ∧
    ((serveAll {} [] [(bad, false), (good, true), (good, false)]).map (·.body)) = [[.rec500], [.h 2], [.h 2]] := by
  decide

end Recovery

/-! ## Part 2 — the timeout middleware, over all schedules -/
section TimeoutMw
open Rivaas.Timeout

theorem lemma_t_run_cons (waitH : Hooks) (t : Tok) (ts : List Tok) (s : St) :
    run waitH (t :: ts) s = run waitH ts (step waitH s t) := rfl

/-- lift a step invariant to every schedule -/
theorem lemma_t_run_induct (waitH : Hooks) (P : St → Prop) (hstep : ∀ s t, P s → P (step waitH s t))
    (sched : List Tok) (s : St) (h : P s) : P (run waitH sched s) := by
  induction sched generalizing s with
  | nil => exact h
  | cons t ts ih => exact ih _ (hstep s t h)

/-! ### as shipped: the three ways in which the response was not "exactly one" (findings K10a, K10b,
K10d — fixed; `runAsIs` is the middleware before the `fix:` commits, `run` the repaired one) -/

/-- K10a as shipped: deadline, timeout body, then the handler (which ignores the context) writes: the
    body holds both JSON values. Reproduced on the pre-fix code with this very order forced by channels. -/
theorem timeout_interleave_witness :
    let s := runAsIs false [.h, .h, .rc, .h, .rc, .h, .h, .h, .rd]
      (init [.fireDl, .awaitCtx, .awaitE, .awaitT, .write])
    s.rpc = .returned ∧ s.body = [.t408, .h] ∧ timeoutOK (obsOf s) = false := by decide

/-- K10a as shipped with nothing but the real timer and a handler that is merely slow: `dl` fires, the
    middleware answers 408, the handler's write lands behind it -/
theorem timeout_interleave_timer_witness :
    let s := runAsIs false [.dl, .rc, .rc, .h, .h, .rd] (init [.write])
    s.rpc = .returned ∧ s.body = [.t408, .h] ∧ timeoutOK (obsOf s) = false := by decide

/-- K10a as shipped, the other order: the handler has started the response, the 408 body lands behind it -/
theorem timeout_interleave_started_witness :
    let s := runAsIs false [.h, .h, .h, .rc, .rc, .h, .h, .h, .rd] (init [.write, .fireDl, .awaitCtx, .hold, .write])
    s.rpc = .returned ∧ s.body = [.h, .t408, .h] ∧ timeoutOK (obsOf s) = false := by decide

/-- K10b as shipped: the parent context is cancelled — the middleware returns (and `ServeHTTP` puts the
    context back into the pool) while the handler goroutine is still running -/
theorem parent_cancel_releases_early_witness :
    let s := runAsIs false [.h, .h, .rc] (init [.firePc, .awaitCtx, .hold, .panic 1])
    s.rpc = .returned ∧ s.hDone = false ∧ s.releasedEarly = true ∧ timeoutOK (obsOf s) = false := by decide

/-- K10d as shipped: the handler panics after the timeout body was written; the re-raised panic reaches
    recovery, whose 500 body follows the 408 body -/
theorem timeout_then_panic_witness :
    let s := runAsIs false [.h, .h, .rc, .h, .rc, .h, .h, .rd]
      (init [.fireDl, .awaitCtx, .awaitE, .awaitT, .panic 0])
    s.rpc = .returned ∧ s.body = [.t408, .rec500] ∧ s.recovered = some 0 ∧ timeoutOK (obsOf s) = false := by decide

/-- the repaired middleware on the same five inputs and schedules: one response each, the handler
    waited for, the panic handed to recovery -/
theorem timeout_fixed_on_witnesses :
    (let s := run false [.h, .h, .rc, .rc, .h, .rc, .h, .h, .h, .rd] (init [.fireDl, .awaitCtx, .awaitE, .awaitT, .write])
     s.rpc = .returned ∧ s.body = [.t408] ∧ timeoutOK (obsOf s) = true) ∧
    (let s := run false [.dl, .rc, .rc, .rc, .h, .h, .rd] (init [.write])
     s.rpc = .returned ∧ s.body = [.t408] ∧ timeoutOK (obsOf s) = true) ∧
    (let s := run false [.h, .h, .h, .rc, .rc, .h, .h, .h, .rd] (init [.write, .fireDl, .awaitCtx, .hold, .write])
     s.rpc = .returned ∧ s.body = [.h, .h] ∧ timeoutOK (obsOf s) = true) ∧
    (let s := run false [.h, .h, .rc, .h, .h, .rd] (init [.firePc, .awaitCtx, .hold, .panic 1])
     s.rpc = .returned ∧ s.hDone = true ∧ s.recovered = some 1 ∧ s.body = [.rec500] ∧ timeoutOK (obsOf s) = true) ∧
    (let s := run false [.h, .h, .rc, .rc, .h, .rc, .h, .h, .rd] (init [.fireDl, .awaitCtx, .awaitE, .awaitT, .panic 0])
     s.rpc = .returned ∧ s.body = [.t408] ∧ s.recovered = some 0 ∧ timeoutOK (obsOf s) = true) := by decide

/-! ### the repaired middleware: the whole oracle, every program, every schedule, no exclusion -/

/-- the invariant: `ServeHTTP` has not returned before the handler goroutine is done and its panic is
    with recovery; the response is in one of three states — the chain's (no timeout body, ever), claimed
    by the timeout handler and still empty, or exactly the timeout response -/
def InvF (s : St) : Prop :=
  (s.rpc = .returned → s.hDone = true ∧ s.recovered = s.panicChan) ∧
  (s.rpc ≠ .returned → s.recovered = none) ∧
  s.releasedEarly = false ∧
  (  (s.timedOut = false ∧ s.tWritten = false ∧ Chunk.t408 ∉ s.body ∧ s.rpc ≠ .thandler ∧
        (s.started = true → Chunk.h ∈ s.body) ∧
        (s.rpc ≠ .returned → s.started = false → s.body = [] ∧ s.status = none) ∧
        (s.rpc = .returned → s.panicChan.isSome → Chunk.h ∈ s.body ∨ s.status = some .rec500))
   ∨ (s.timedOut = true ∧ s.rpc = .thandler ∧ s.tWritten = false ∧ s.body = [] ∧ s.status = none)
   ∨ (s.timedOut = true ∧ (s.rpc = .waitDone ∨ s.rpc = .returned) ∧ s.tWritten = true ∧
        s.body = [Chunk.t408] ∧ s.status = some Chunk.t408))

theorem lemma_stepH_invF (s : St) (h : InvF s) : InvF (stepH s) := by
  unfold stepH
  split
  · exact h
  · rename_i hnd
    have hnr : s.rpc ≠ .returned := fun hr => hnd (h.1 hr).1
    obtain ⟨h1, h2, h3, h4⟩ := h
    split
    all_goals (try split)
    all_goals (first | exact ⟨h1, h2, h3, h4⟩ | skip)
    all_goals
      refine ⟨fun hr => absurd hr (by simpa [St.write] using hnr), fun _ => by simpa [St.write] using h2 hnr, by simpa [St.write] using h3, ?_⟩
    all_goals
      rcases h4 with h4 | h4 | h4
      all_goals simp_all [St.write]

theorem lemma_finishR_invF (s : St) (h : InvF s) (hd : s.hDone = true) (hnr : s.rpc ≠ .returned)
    (hnt : s.rpc ≠ .thandler) : InvF (finishR s) := by
  obtain ⟨h1, h2, h3, h4⟩ := h
  have hrec := h2 hnr
  unfold finishR
  split
  · rename_i v hv
    split
    · rename_i hto
      refine ⟨fun _ => ⟨hd, by simp [hv]⟩, fun hx => by simp at hx, by simp [hd], ?_⟩
      rcases h4 with h4 | h4 | h4
      · simp_all
      · simp_all
      · exact Or.inr (Or.inr ⟨h4.1, Or.inr rfl, h4.2.2.1, h4.2.2.2.1, h4.2.2.2.2⟩)
    · rename_i hto
      refine ⟨fun _ => ⟨hd, by simp [hv, St.write]⟩, fun hx => by simp [St.write] at hx, by simp [hd, St.write], ?_⟩
      rcases h4 with h4 | h4 | h4
      · refine Or.inl ?_
        obtain ⟨a1, a2, a3, a4, a5, a6, a7⟩ := h4
        refine ⟨a1, a2, by simp [St.write, a3], by simp [St.write], fun hs => by simp [St.write, a5 hs], fun hx => by simp [St.write] at hx, fun _ _ => ?_⟩
        cases hst : s.started
        · have := a6 hnr hst
          exact Or.inr (by simp [St.write, this.2])
        · exact Or.inl (by simp [St.write, a5 hst])
      · simp_all
      · simp_all
  · rename_i hv
    refine ⟨fun _ => ⟨hd, by simp [hv, hrec]⟩, fun hx => by simp at hx, by simp [hd], ?_⟩
    rcases h4 with h4 | h4 | h4
    · refine Or.inl ?_
      obtain ⟨a1, a2, a3, a4, a5, a6, a7⟩ := h4
      exact ⟨a1, a2, a3, by simp, a5, fun hx => by simp at hx, fun _ hp => by simp [hv] at hp⟩
    · exact absurd h4.2.1 hnt
    · exact Or.inr (Or.inr ⟨h4.1, Or.inr rfl, h4.2.2.1, h4.2.2.2.1, h4.2.2.2.2⟩)

theorem lemma_stepR_invF (waitH : Hooks) (pd : Bool) (s : St) (h : InvF s) : InvF (stepR waitH pd s) := by
  cases hpc : s.rpc with
  | select =>
    simp only [stepR, hpc]
    split
    · rename_i hc
      exact lemma_finishR_invF s h (by cases hd : s.hDone <;> simp_all) (by simp [hpc]) (by simp [hpc])
    · split
      · exact h
      · obtain ⟨h1, h2, h3, h4⟩ := h
        have hrec := h2 (by simp [hpc])
        have h4' : s.timedOut = false ∧ s.tWritten = false ∧ Chunk.t408 ∉ s.body ∧
            (s.started = true → Chunk.h ∈ s.body) ∧ (s.started = false → s.body = [] ∧ s.status = none) := by
          rcases h4 with h4 | h4 | h4
          · exact ⟨h4.1, h4.2.1, h4.2.2.1, h4.2.2.2.2.1, h4.2.2.2.2.2.1 (by simp [hpc])⟩
          · simp [hpc] at h4
          · rcases h4.2.1 with h | h <;> simp [hpc] at h
        split
        · exact ⟨fun hx => by simp at hx, fun _ => hrec, h3, Or.inl ⟨h4'.1, h4'.2.1, h4'.2.2.1, by simp, h4'.2.2.2.1, fun _ hf => h4'.2.2.2.2 hf, fun hx => by simp at hx⟩⟩
        · exact ⟨fun hx => by simp at hx, fun _ => hrec, h3, Or.inl ⟨h4'.1, h4'.2.1, h4'.2.2.1, by simp, h4'.2.2.2.1, fun _ hf => h4'.2.2.2.2 hf, fun hx => by simp at hx⟩⟩
  | logging =>
    simp only [stepR, hpc]
    split
    · exact h
    · obtain ⟨h1, h2, h3, h4⟩ := h
      have hrec := h2 (by simp [hpc])
      have h4' : s.timedOut = false ∧ s.tWritten = false ∧ Chunk.t408 ∉ s.body ∧
          (s.started = true → Chunk.h ∈ s.body) ∧ (s.started = false → s.body = [] ∧ s.status = none) := by
        rcases h4 with h4 | h4 | h4
        · exact ⟨h4.1, h4.2.1, h4.2.2.1, h4.2.2.2.2.1, h4.2.2.2.2.2.1 (by simp [hpc])⟩
        · simp [hpc] at h4
        · rcases h4.2.1 with h | h <;> simp [hpc] at h
      split
      · rename_i hst
        refine ⟨fun hx => by simp at hx, fun _ => hrec, h3, Or.inl ⟨h4'.1, h4'.2.1, h4'.2.2.1, by simp, h4'.2.2.2.1, fun _ hf => ?_, fun hx => by simp at hx⟩⟩
        simp [hst] at hf
      · rename_i hst
        have := h4'.2.2.2.2 (by simpa using hst)
        exact ⟨fun hx => by simp at hx, fun _ => hrec, h3, Or.inr (Or.inl ⟨rfl, rfl, h4'.2.1, this.1, this.2⟩)⟩
  | thandler =>
    simp only [stepR, hpc]
    obtain ⟨h1, h2, h3, h4⟩ := h
    have hrec := h2 (by simp [hpc])
    split
    · exact ⟨h1, h2, h3, h4⟩
    · rcases h4 with h4 | h4 | h4
      · exact absurd hpc h4.2.2.2.1
      · exact ⟨fun hx => by simp [St.write] at hx, fun _ => by simpa [St.write] using hrec, by simpa [St.write] using h3,
          Or.inr (Or.inr ⟨by simp [St.write, h4.1], Or.inl (by simp [St.write]), by simp [St.write], by simp [St.write, h4.2.2.2.1], by simp [St.write, h4.2.2.2.2]⟩)⟩
      · rcases h4.2.1 with h | h <;> simp [hpc] at h
  | waitDone =>
    simp only [stepR, hpc]
    split
    · rename_i hd
      exact lemma_finishR_invF s h hd (by simp [hpc]) (by simp [hpc])
    · exact h
  | returned => simp only [stepR, hpc]; exact h

theorem lemma_step_invF (waitH : Hooks) (s : St) (t : Tok) (h : InvF s) : InvF (step waitH s t) := by
  cases t with
  | h => exact lemma_stepH_invF s h
  | rd => exact lemma_stepR_invF waitH true s h
  | rc => exact lemma_stepR_invF waitH false s h
  | dl => exact h
  | pc => exact h

theorem lemma_init_invF (prog : List HAct) : InvF (init prog) := by
  simp [InvF, init]

/-- well-formedness of the response: only documents of the three writers, and a 408 status line only together
    with the timeout body -/
def InvW (s : St) : Prop :=
  Chunk.other ∉ s.body ∧ (s.status = some Chunk.t408 → Chunk.t408 ∈ s.body)

theorem lemma_write_invW (s : St) (c : Chunk) (hc : c ≠ .other) (h : InvW s) : InvW (s.write c) := by
  obtain ⟨h1, h2⟩ := h
  refine ⟨by simp [St.write, h1]; exact fun h => hc h.symm, ?_⟩
  intro hs
  cases hst : s.status with
  | none =>
    simp [St.write, hst] at hs
    simp [St.write, hs]
  | some x =>
    simp [St.write, hst] at hs
    subst hs
    simp [St.write, h2 hst]

theorem lemma_fields_invW (s s' : St) (hb : s'.body = s.body) (hs : s'.status = s.status) (h : InvW s) : InvW s' := by
  unfold InvW
  rw [hb, hs]
  exact h

theorem lemma_stepH_invW (s : St) (h : InvW s) : InvW (stepH s) := by
  unfold stepH
  split
  · exact h
  · split
    all_goals (try split)
    all_goals first
      | exact h
      | exact lemma_fields_invW s _ rfl rfl h
      | exact lemma_write_invW _ .h (by decide) (lemma_fields_invW s _ rfl rfl h)

theorem lemma_finishR_invW (s : St) (h : InvW s) : InvW (finishR s) := by
  unfold finishR
  split
  · split
    · exact lemma_fields_invW s _ rfl rfl h
    · exact lemma_write_invW _ .rec500 (by decide) (lemma_fields_invW s _ rfl rfl h)
  · exact lemma_fields_invW s _ rfl rfl h

theorem lemma_stepR_invW (waitH : Hooks) (pd : Bool) (s : St) (h : InvW s) : InvW (stepR waitH pd s) := by
  unfold stepR
  split
  · split
    · exact lemma_finishR_invW s h
    · split
      · exact h
      · split
        · exact lemma_fields_invW s _ rfl rfl h
        · exact lemma_fields_invW s _ rfl rfl h
  · split
    · exact h
    · split
      · exact lemma_fields_invW s _ rfl rfl h
      · exact lemma_fields_invW s _ rfl rfl h
  · split
    · exact h
    · exact lemma_write_invW _ .t408 (by decide) (lemma_fields_invW s _ rfl rfl h)
  · split
    · exact lemma_finishR_invW s h
    · exact h
  · exact h

theorem lemma_step_invW (waitH : Hooks) (s : St) (t : Tok) (h : InvW s) : InvW (step waitH s t) := by
  cases t with
  | h => exact lemma_stepH_invW s h
  | rd => exact lemma_stepR_invW waitH true s h
  | rc => exact lemma_stepR_invW waitH false s h
  | dl => exact lemma_fields_invW s _ rfl rfl h
  | pc => exact lemma_fields_invW s _ rfl rfl h

theorem lemma_init_invW (prog : List HAct) : InvW (init prog) := by
  simp [InvW, init]
theorem lemma_invF_ok (s : St) (h : InvF s) (hw : InvW s) (hr : s.rpc = .returned) : timeoutOK (obsOf s) = true := by
  obtain ⟨h1, _, h3, h4⟩ := h
  obtain ⟨w1, w2⟩ := hw
  have hno : s.body.contains Chunk.other = false := by simpa using w1
  obtain ⟨_, hrec⟩ := h1 hr
  rcases h4 with h4 | h4 | h4
  · obtain ⟨a1, _, a3, _, _, _, a7⟩ := h4
    have hnot : s.body.contains Chunk.t408 = false := by simpa using a3
    have hcnt : s.body.count Chunk.t408 = 0 := List.count_eq_zero.mpr a3
    have hst : s.status ≠ some Chunk.t408 := fun hs => a3 (w2 hs)
    simp only [timeoutOK, obsOf, h3, hnot, hcnt, hrec, a1]
    cases hp : s.panicChan.isSome
    · simp [w1, hst]
    · rcases a7 hr hp with hh | hh
      · simp [hh, w1, hst]
      · simp [hh, w1]
  · simp [hr] at h4
  · obtain ⟨c1, _, _, hb, hs⟩ := h4
    simp [timeoutOK, obsOf, h3, hb, hs, hrec, c1]
    cases s.panicChan <;> simp

/-- **Exactly one well-formed response.** For every handler program and every schedule of request
    goroutine, handler goroutine, timer and client: when `ServeHTTP` has returned the whole timeout
    oracle holds — at most one timeout body, never together with handler output or recovery's body,
    status 408 with it, the handler goroutine is over, its panic has reached recovery and is answered
    with recovery's 500 when nothing had been written. -/
theorem timeout_single_response (waitH : Hooks) (prog : List HAct) (sched : List Tok) :
    (run waitH sched (init prog)).rpc = .returned → timeoutOK (obsOf (run waitH sched (init prog))) = true :=
  lemma_invF_ok _ (lemma_t_run_induct waitH InvF (lemma_step_invF waitH) sched _ (lemma_init_invF prog))
    (lemma_t_run_induct waitH InvW (lemma_step_invW waitH) sched _ (lemma_init_invW prog))

/-- non-vacuity: runs that end `returned` — after a deadline and a late panic; with the response
    started before the deadline; after a parent cancel -/
example :
    let s := run true [.h, .h, .rc, .rc, .h, .h, .rd, .rd] (init [.fireDl, .awaitCtx, .awaitE, .panic 3])
    s.rpc = .returned ∧ s.recovered = some 3 ∧ s.timedOut = true ∧ s.body = [.t408] := by decide

example :
    let s := run false [.h, .h, .h, .rc, .rc, .h, .h, .rd] (init [.write, .fireDl, .awaitCtx, .write, .panic 2])
    s.rpc = .returned ∧ s.timedOut = false ∧ s.body = [.h, .h, .rec500] ∧ s.status = some .h := by decide

/-- the window between the `select` and the claim: the timeout is being logged (the logger waits), the handler
    starts the response in that very moment — the claim fails, the response stays the handler's -/
example :
    let s := run { waitL := true } [.h, .h, .rc, .h, .h, .h, .rc, .h, .rd]
      (init [.fireDl, .awaitCtx, .awaitL, .write, .signalH])
    s.rpc = .returned ∧ s.timedOut = false ∧ s.body = [.h] ∧ timeoutOK (obsOf s) = true := by decide

/-- **Re-panic.** For every handler program and every schedule: when the middleware has returned,
    whatever panic the handler goroutine raised — before or after the deadline, with or without a
    parent cancel — has been re-raised on the request goroutine and handled by recovery
    (`recovered = panicChan`, also when there was no panic). -/
theorem timeout_repanics (waitH : Hooks) (prog : List HAct) (sched : List Tok) :
    let s := run waitH sched (init prog)
    s.rpc = .returned → s.recovered = s.panicChan := by
  intro s hr
  exact ((lemma_t_run_induct waitH InvF (lemma_step_invF waitH) sched _ (lemma_init_invF prog)).1 hr).2

/-- **The request waits for its handler.** The context is never handed back while the handler
    goroutine runs — for every schedule: deadline, parent cancel or neither. -/
theorem timeout_waits_for_handler (waitH : Hooks) (prog : List HAct) (sched : List Tok) :
    let s := run waitH sched (init prog)
    s.rpc = .returned → s.hDone = true := by
  intro s hr
  exact ((lemma_t_run_induct waitH InvF (lemma_step_invF waitH) sched _ (lemma_init_invF prog)).1 hr).1

/-- the timeout body is written at most once, at every moment of every execution -/
theorem timeout_body_at_most_once (waitH : Hooks) (prog : List HAct) (sched : List Tok) :
    (run waitH sched (init prog)).body.count Chunk.t408 ≤ 1 := by
  have h := (lemma_t_run_induct waitH InvF (lemma_step_invF waitH) sched _ (lemma_init_invF prog)).2.2.2
  rcases h with h | h | h
  · have := List.count_eq_zero.mpr h.2.2.1
    omega
  · simp [h.2.2.2.1]
  · simp [h.2.2.2.1]

/-- the response has one owner at every moment of every execution, not only at the end -/
theorem timeout_never_interleaved (waitH : Hooks) (prog : List HAct) (sched : List Tok) :
    let s := run waitH sched (init prog)
    Chunk.t408 ∈ s.body → s.body = [Chunk.t408] ∧ s.status = some Chunk.t408 := by
  intro s hm
  have h := (lemma_t_run_induct waitH InvF (lemma_step_invF waitH) sched _ (lemma_init_invF prog)).2.2.2
  rcases h with h | h | h
  · exact absurd hm h.2.2.1
  · have : s.body = [] := h.2.2.2.1
    simp [this] at hm
  · exact ⟨h.2.2.2.1, h.2.2.2.2⟩

/-! ### the liveness half of "exactly one response": an overrun is answered, and only the timeout handler answers it -/

/-- once the guard is claimed it stays claimed -/
theorem lemma_step_timedOut_mono (waitH : Hooks) (s : St) (t : Tok) (h : s.timedOut = true) :
    (step waitH s t).timedOut = true := by
  cases t with
  | h =>
    show (stepH s).timedOut = true
    unfold stepH
    split
    · exact h
    · split
      all_goals (try split)
      all_goals simp [St.write, h]
  | rd =>
    show (stepR waitH true s).timedOut = true
    unfold stepR finishR
    repeat' split
    all_goals simp_all [St.write]
  | rc =>
    show (stepR waitH false s).timedOut = true
    unfold stepR finishR
    repeat' split
    all_goals simp_all [St.write]
  | dl => exact h
  | pc => exact h

theorem lemma_run_timedOut_mono (waitH : Hooks) (sched : List Tok) (s : St) (h : s.timedOut = true) :
    (run waitH sched s).timedOut = true := by
  induction sched generalizing s with
  | nil => exact h
  | cons t ts ih => exact ih _ (lemma_step_timedOut_mono waitH s t h)

/-- **The response is the timeout response iff the guard was claimed.** For every program and schedule, once
    `ServeHTTP` has returned: the timeout body is in the response iff the middleware claimed the response at the
    deadline, and then the response is exactly the timeout response (status 408, body = the one 408 document) -/
theorem timeout_response_iff_claimed (waitH : Hooks) (prog : List HAct) (sched : List Tok) :
    let s := run waitH sched (init prog)
    s.rpc = .returned →
      (Chunk.t408 ∈ s.body ↔ s.timedOut = true) ∧
      (s.timedOut = true → s.body = [Chunk.t408] ∧ s.status = some Chunk.t408) := by
  intro s hr
  have h := (lemma_t_run_induct waitH InvF (lemma_step_invF waitH) sched _ (lemma_init_invF prog)).2.2.2
  rcases h with h | h | h
  · have hf : s.timedOut = false := h.1
    refine ⟨⟨fun hm => absurd hm h.2.2.1, fun ht => ?_⟩, fun ht => ?_⟩
    · rw [hf] at ht; cases ht
    · rw [hf] at ht; cases ht
  · have : s.rpc = .thandler := h.2.1
    rw [this] at hr; cases hr
  · exact ⟨⟨fun _ => h.1, fun _ => by rw [h.2.2.2.1]; simp⟩, fun _ => ⟨h.2.2.2.1, h.2.2.2.2⟩⟩

/-- **An overrun is answered.** Whenever the request goroutine reaches its timeout decision (`tw.timeout()`, the
    step out of `RPc.logging`) while the chain has not started the response — the deadline passed on an untouched
    response — and its hooks let it proceed, the response of the request, when `ServeHTTP` returns, is exactly the
    timeout response: whatever the handler does afterwards, however the rest is scheduled. -/
theorem timeout_answers_overrun (waitH : Hooks) (prog : List HAct) (s1 s2 : List Tok) (pd : Bool) :
    let mid := run waitH s1 (init prog)
    let fin := run waitH s2 (stepR waitH pd mid)
    mid.rpc = .logging → mid.started = false → (waitH.waitL && !mid.hGo) = false →
    fin.rpc = .returned → fin.body = [Chunk.t408] ∧ fin.status = some Chunk.t408 := by
  intro mid fin hlog hst hgo hret
  have hclaim : (stepR waitH pd mid).timedOut = true := by
    simp [stepR, hlog, hgo, hst]
  have hto : fin.timedOut = true := lemma_run_timedOut_mono waitH s2 _ hclaim
  -- `fin` is the run of the schedule s1 ++ [r] ++ s2
  have hfin : fin = run waitH (s1 ++ (if pd then Tok.rd else Tok.rc) :: s2) (init prog) := by
    show run waitH s2 (stepR waitH pd mid) = _
    unfold run
    rw [List.foldl_append, List.foldl_cons]
    cases pd <;> rfl
  have := timeout_response_iff_claimed waitH prog (s1 ++ (if pd then Tok.rd else Tok.rc) :: s2)
  simp only [] at this
  rw [← hfin] at this
  exact (this hret).2 hto

/-- non-vacuity: the decision point is reached on an untouched response, the handler writes and panics afterwards -/
example :
    let prog : List HAct := [.fireDl, .awaitCtx, .awaitE, .write, .panic 1]
    let mid := run false [.h, .h, .rc] (init prog)
    mid.rpc = .logging ∧ mid.started = false ∧
    (run false [.rc, .h, .h, .h, .rd] (stepR false false mid)).rpc = .returned ∧
    (run false [.rc, .h, .h, .h, .rd] (stepR false false mid)).body = [.t408] := by decide

/-- what the driver computes for a harness case (`fair`, the handler-first / request-first
    scheduler) is the run of *a* schedule — so every theorem above that quantifies over schedules
    applies to it -/
theorem fair_is_a_schedule (waitH : Hooks) (hFirst : Bool) (n : Nat) (s : St) :
    ∃ sched : List Tok, fair waitH hFirst n s = run waitH sched s := by
  induction n generalizing s with
  | zero => exact ⟨[], rfl⟩
  | succ n ih =>
    cases hFirst with
    | true =>
      simp only [fair, if_true]
      by_cases ha : (stepH s != s) = true
      · obtain ⟨sched, h⟩ := ih (stepH s)
        exact ⟨.h :: sched, by simp only [ha, if_true]; exact h⟩
      · by_cases hb : (stepR waitH true s != s) = true
        · obtain ⟨sched, h⟩ := ih (stepR waitH true s)
          exact ⟨.rd :: sched, by simp only [ha, hb, if_true]; exact h⟩
        · exact ⟨[], by simp only [ha, hb]; rfl⟩
    | false =>
      simp only [fair, Bool.false_eq_true, if_false]
      by_cases ha : (stepR waitH true s != s) = true
      · obtain ⟨sched, h⟩ := ih (stepR waitH true s)
        exact ⟨.rd :: sched, by simp only [ha, if_true]; exact h⟩
      · by_cases hb : (stepH s != s) = true
        · obtain ⟨sched, h⟩ := ih (stepH s)
          exact ⟨.h :: sched, by simp only [ha, hb, if_true]; exact h⟩
        · exact ⟨[], by simp only [ha, hb]; rfl⟩

/-- the same for the scheduler used under a real budget (it may let the timer fire) -/
theorem fairT_is_a_schedule (waitH : Hooks) (hFirst : Bool) (n : Nat) (s : St) :
    ∃ sched : List Tok, fairT waitH hFirst n s = run waitH sched s := by
  induction n generalizing s with
  | zero => exact ⟨[], rfl⟩
  | succ n ih =>
    have hdl : ∀ x, (∃ sched, x = run waitH sched (step waitH s .dl)) → ∃ sched, x = run waitH sched s := by
      rintro x ⟨sched, h⟩; exact ⟨.dl :: sched, h⟩
    cases hFirst with
    | true =>
      simp only [fairT, if_true]
      by_cases ha : (stepH s != s) = true
      · obtain ⟨sched, h⟩ := ih (stepH s)
        exact ⟨.h :: sched, by simp only [ha, if_true]; exact h⟩
      · by_cases hb : (stepR waitH true s != s) = true
        · obtain ⟨sched, h⟩ := ih (stepR waitH true s)
          exact ⟨.rd :: sched, by simp only [ha, hb, if_true]; exact h⟩
        · simp only [ha, hb]
          by_cases hl : s.ctx = .live
          · simp only [hl, if_true]
            exact hdl _ (ih _)
          · simp only [hl]; exact ⟨[], rfl⟩
    | false =>
      simp only [fairT, Bool.false_eq_true, if_false]
      by_cases ha : (stepR waitH true s != s) = true
      · obtain ⟨sched, h⟩ := ih (stepR waitH true s)
        exact ⟨.rd :: sched, by simp only [ha, if_true]; exact h⟩
      · by_cases hb : (stepH s != s) = true
        · obtain ⟨sched, h⟩ := ih (stepH s)
          exact ⟨.h :: sched, by simp only [ha, hb, if_true]; exact h⟩
        · simp only [ha, hb]
          by_cases hl : s.ctx = .live
          · simp only [hl, if_true]
            exact hdl _ (ih _)
          · simp only [hl]; exact ⟨[], rfl⟩

/-- the timed chain behind the middleware: after the deadline the `Next` loop of the handler
    goroutine starts no further position — `[awaitCtx, awaitE, awaitT] ; guard ; [write] ; guard ; [write]` under
    the real timer answers 408 once and nothing else -/
example :
    let prog : List HAct := [.guard 7, .awaitCtx, .awaitE, .awaitT, .guard 3, .write, .guard 1, .write]
    let s := fairT false true 40 (init prog)
    s.rpc = .returned ∧ s.body = [.t408] ∧ s.status = some .t408 ∧ timeoutOK (obsOf s) = true := by decide

end TimeoutMw

/-! ## Part 3 — the options of the timeout middleware (`options.go`, `shouldSkip`) -/
section TimeoutOptions
open Rivaas.Timeout

/-- the skip function after folding the options over a configuration -/
theorem lemma_fold_skipFunc (opts : List Opt) (c : Config) :
    (opts.foldl applyOpt c).skipFunc = if opts.any isSkipOpt then lastSkipFn opts else c.skipFunc := by
  induction opts generalizing c with
  | nil => simp
  | cons o os ih =>
    rw [List.foldl_cons, ih]
    cases hany : os.any isSkipOpt <;> cases o <;> simp [applyOpt, isSkipOpt, lastSkipFn, hany]

theorem lemma_fold_paths (opts : List Opt) (c : Config) (path : List Char) :
    (opts.foldl applyOpt c).skipPaths.contains path =
      (c.skipPaths.contains path || opts.any fun o => match o with | .skipPaths ps => ps.contains path | _ => false) := by
  induction opts generalizing c with
  | nil => simp
  | cons o os ih =>
    rw [List.foldl_cons, ih]
    cases o <;> simp [applyOpt, Bool.or_assoc]

theorem lemma_fold_prefixes (opts : List Opt) (c : Config) (path : List Char) :
    (opts.foldl applyOpt c).skipPrefixes.any (fun p => p.isPrefixOf path) =
      (c.skipPrefixes.any (fun p => p.isPrefixOf path) ||
        opts.any fun o => match o with | .skipPrefix ps => ps.any (fun p => p.isPrefixOf path) | _ => false) := by
  induction opts generalizing c with
  | nil => simp
  | cons o os ih =>
    rw [List.foldl_cons, ih]
    cases o <;> simp [applyOpt, Bool.or_assoc]

theorem lemma_fold_suffixes (opts : List Opt) (c : Config) (path : List Char) :
    (opts.foldl applyOpt c).skipSuffixes.any (fun p => p.isSuffixOf path) =
      (c.skipSuffixes.any (fun p => p.isSuffixOf path) ||
        opts.any fun o => match o with | .skipSuffix ps => ps.any (fun p => p.isSuffixOf path) | _ => false) := by
  induction opts generalizing c with
  | nil => simp
  | cons o os ih =>
    rw [List.foldl_cons, ih]
    cases o <;> simp [applyOpt, Bool.or_assoc]

theorem lemma_any_optSkips (opts : List Opt) (path : List Char) :
    opts.any (optSkips path) =
      ((opts.any fun o => match o with | .skipPaths ps => ps.contains path | _ => false) ||
       (opts.any fun o => match o with | .skipPrefix ps => ps.any (fun p => p.isPrefixOf path) | _ => false) ||
       (opts.any fun o => match o with | .skipSuffix ps => ps.any (fun p => p.isSuffixOf path) | _ => false)) := by
  induction opts with
  | nil => simp
  | cons o os ih =>
    simp only [List.any_cons, ih]
    generalize (os.any fun o => match o with | .skipPaths ps => ps.contains path | _ => false) = a
    generalize (os.any fun o => match o with | .skipPrefix ps => ps.any (fun p => p.isPrefixOf path) | _ => false) = b
    generalize (os.any fun o => match o with | .skipSuffix ps => ps.any (fun p => p.isSuffixOf path) | _ => false) = d
    cases o <;> simp only [optSkips, Bool.false_or] <;> cases a <;> cases b <;> cases d <;> simp

theorem lemma_lastSkip_none (opts : List Opt) (h : opts.any isSkipOpt = false) : lastSkipFn opts = none := by
  induction opts with
  | nil => rfl
  | cons o os ih =>
    simp only [List.any_cons, Bool.or_eq_false_iff] at h
    cases o <;> simp_all [lastSkipFn, isSkipOpt]

/-- **Options.** Whatever options are given in whatever order, the request is left alone iff some
    `WithSkipPaths` / `WithSkipPrefix` / `WithSkipSuffix` option covers its path or the last `WithSkip` function
    returns true. -/
theorem skip_decision_meets_spec (opts : List Opt) (path : List Char) :
    shouldSkip (configure opts) path = skipSpec opts path := by
  have hp := lemma_fold_paths opts {} path
  have hx := lemma_fold_prefixes opts {} path
  have hs := lemma_fold_suffixes opts {} path
  have hf := lemma_fold_skipFunc opts {}
  simp only [List.contains_nil, Bool.false_or, List.any_nil] at hp hx hs
  unfold shouldSkip skipSpec configure
  rw [hp, hx, hs, hf, lemma_any_optSkips]
  generalize (opts.any fun o => match o with | .skipPaths ps => ps.contains path | _ => false) = a
  generalize (opts.any fun o => match o with | .skipPrefix ps => ps.any (fun p => p.isPrefixOf path) | _ => false) = b
  generalize (opts.any fun o => match o with | .skipSuffix ps => ps.any (fun p => p.isSuffixOf path) | _ => false) = d
  cases hany : opts.any isSkipOpt
  · simp [lemma_lastSkip_none opts hany]
    cases a <;> cases b <;> cases d <;> simp
  · simp
    cases a <;> cases b <;> cases d <;> simp
    all_goals (cases lastSkipFn opts <;> simp <;> rename_i v <;> cases v <;> simp)

/-- the last `WithDuration`, the last of `WithoutLogging` / `WithLogger`, the last `WithHandler` win; defaults
    30 s, logging on, the default 408 handler -/
theorem option_defaults : configure [] = { durationMs := 30000, logging := true, handlerTag := 0 } := rfl

theorem last_duration_wins (opts : List Opt) (ms : Nat) (rest : List Opt)
    (h : ∀ o ∈ rest, ∀ m, o ≠ .duration m) : (configure (opts ++ .duration ms :: rest)).durationMs = ms := by
  unfold configure
  rw [List.foldl_append, List.foldl_cons]
  have hc : (applyOpt (List.foldl applyOpt {} opts) (.duration ms)).durationMs = ms := rfl
  generalize (applyOpt (List.foldl applyOpt {} opts) (.duration ms)) = c at hc
  have : ∀ c : Config, (rest.foldl applyOpt c).durationMs = c.durationMs := by
    intro c
    induction rest generalizing c with
    | nil => rfl
    | cons o os ih =>
      rw [List.foldl_cons, ih (fun o' ho' => h o' (List.mem_cons_of_mem _ ho'))]
      have := h o (List.mem_cons_self ..)
      cases o <;> simp_all [applyOpt]
  rw [this, hc]


/-- what a skipped request needs in order to end well -/
def InvS (s : St) : Prop :=
  s.releasedEarly = false ∧ Chunk.t408 ∉ s.body ∧ (s.started = true → Chunk.h ∈ s.body) ∧
  (s.started = false → s.body = [] ∧ s.status = none) ∧ s.panicChan = none ∧ s.recovered = none ∧
  Chunk.other ∉ s.body ∧ s.status ≠ some Chunk.t408 ∧ s.timedOut = false

theorem lemma_runSkipped_ok (drop : Nat) (prog : List HAct) (s : St) (h : InvS s) :
    timeoutOK (obsOf (runSkipped drop prog s)) = true ∧ (runSkipped drop prog s).rpc = .returned ∧
    Chunk.t408 ∉ (runSkipped drop prog s).body := by
  induction prog generalizing drop s with
  | nil =>
    obtain ⟨h1, h2, _, _, h5, h6, h7, h8, h9⟩ := h
    have hcnt : s.body.count Chunk.t408 = 0 := List.count_eq_zero.mpr h2
    cases drop <;> simp [runSkipped, timeoutOK, obsOf, h1, hcnt, h5, h6, h2, h7, h8, h9]
  | cons a r ih =>
    cases drop with
    | succ k => simp only [runSkipped]; exact ih k s h
    | zero =>
      obtain ⟨h1, h2, h3, h4, h5, h6, h7, h8, h9⟩ := h
      cases a with
      | write =>
        simp only [runSkipped]
        refine ih 0 _ ⟨by simpa [St.write] using h1, by simp [St.write, h2], fun _ => by simp [St.write],
          fun hf => by simp [St.write] at hf, by simpa [St.write] using h5, by simpa [St.write] using h6,
          by simp [St.write, h7], ?_, by simpa [St.write] using h9⟩
        cases hst : s.status <;> simp_all [St.write]
      | panic v =>
        simp only [runSkipped]
        have hcnt : s.body.count Chunk.t408 = 0 := List.count_eq_zero.mpr h2
        refine ⟨?_, by simp [St.write], by simp [St.write, h2]⟩
        have hs8 : (s.status.or (some Chunk.rec500)) ≠ some Chunk.t408 := by
          cases hst : s.status <;> simp_all
        cases hst : s.started
        · have := h4 hst
          simp [timeoutOK, obsOf, St.write, h1, this.1, this.2, h9]
        · have := h3 hst
          simp [timeoutOK, obsOf, St.write, h1, h2, hcnt, List.count_append, this, h7, h9]
          simpa using hs8
      | fireDl => simp only [runSkipped]; exact ih 0 _ ⟨h1, h2, h3, h4, h5, h6, h7, h8, h9⟩
      | firePc => simp only [runSkipped]; exact ih 0 _ ⟨h1, h2, h3, h4, h5, h6, h7, h8, h9⟩
      | guard n => simp only [runSkipped]; exact ih _ s ⟨h1, h2, h3, h4, h5, h6, h7, h8, h9⟩
      | awaitCtx => simp only [runSkipped]; exact ih 0 s ⟨h1, h2, h3, h4, h5, h6, h7, h8, h9⟩
      | awaitL => simp only [runSkipped]; exact ih 0 s ⟨h1, h2, h3, h4, h5, h6, h7, h8, h9⟩
      | awaitE => simp only [runSkipped]; exact ih 0 s ⟨h1, h2, h3, h4, h5, h6, h7, h8, h9⟩
      | awaitT => simp only [runSkipped]; exact ih 0 s ⟨h1, h2, h3, h4, h5, h6, h7, h8, h9⟩
      | signalH => simp only [runSkipped]; exact ih 0 s ⟨h1, h2, h3, h4, h5, h6, h7, h8, h9⟩
      | awaitRet => simp only [runSkipped]; exact ih 0 s ⟨h1, h2, h3, h4, h5, h6, h7, h8, h9⟩
      | hold => simp only [runSkipped]; exact ih 0 s ⟨h1, h2, h3, h4, h5, h6, h7, h8, h9⟩

/-- **Skipped requests.** A request the options exempt is served straight through: it returns, its response never
    contains a timeout body, and the single-response oracle holds — for every program. -/
theorem skipped_single_response (prog : List HAct) :
    let s := runSkipped 0 prog (init prog)
    timeoutOK (obsOf s) = true ∧ s.rpc = .returned ∧ Chunk.t408 ∉ s.body :=
  lemma_runSkipped_ok 0 prog (init prog) ⟨rfl, by simp [init], by simp [init], fun _ => ⟨rfl, rfl⟩, rfl, rfl, by simp [init], by simp [init], rfl⟩

example :
    let opts := [Opt.skipPrefix ["/adm".toList], .duration 5, .skip (some false), .skipPaths ["/t".toList]]
    shouldSkip (configure opts) "/t".toList = true ∧ shouldSkip (configure opts) "/admin/x".toList = true ∧
    shouldSkip (configure opts) "/x".toList = false ∧ skipFuncCalled (configure opts) "/x".toList = true ∧
    skipFuncCalled (configure opts) "/t".toList = false ∧ (configure opts).durationMs = 5 := by decide
/-! ### transparency: without a deadline and without a client cancel the middleware changes nothing -/

/-- the observation of a program executed straight through (no second goroutine, no guard), as a function of the
    response so far — what `runSkipped` computes, without the machine state around it -/
def seqObs : Nat → List HAct → Ctx → Option Chunk → List Chunk → TObs
  | _, [], _, st, b =>
    { status := st, body := b, escaped := false, releasedEarly := false, hPanicked := false, recovered := false, claimed := false }
  | d+1, _ :: r, c, st, b => seqObs d r c st b
  | 0, .write :: r, c, st, b => seqObs 0 r c (st.or (some .h)) (b ++ [.h])
  | 0, .panic _ :: _, _, st, b =>
    { status := st.or (some .rec500), body := b ++ [.rec500], escaped := false, releasedEarly := false,
      hPanicked := true, recovered := true, claimed := false }
  | 0, .fireDl :: r, c, st, b => seqObs 0 r (if c = .live then .deadline else c) st b
  | 0, .firePc :: r, c, st, b => seqObs 0 r (if c = .live then .cancelled else c) st b
  | 0, .guard n :: r, c, st, b => seqObs (if c = .live then 0 else n) r c st b
  | 0, .awaitCtx :: r, c, st, b => seqObs 0 r c st b
  | 0, .awaitL :: r, c, st, b => seqObs 0 r c st b
  | 0, .awaitE :: r, c, st, b => seqObs 0 r c st b
  | 0, .awaitT :: r, c, st, b => seqObs 0 r c st b
  | 0, .signalH :: r, c, st, b => seqObs 0 r c st b
  | 0, .awaitRet :: r, c, st, b => seqObs 0 r c st b
  | 0, .hold :: r, c, st, b => seqObs 0 r c st b

theorem lemma_runSkipped_seqObs (d : Nat) (p : List HAct) (s : St) (h1 : s.panicChan = none) (h2 : s.recovered = none)
    (h3 : s.releasedEarly = false) (h4 : s.timedOut = false) :
    obsOf (runSkipped d p s) = seqObs d p s.ctx s.status s.body := by
  induction p generalizing d s with
  | nil => cases d <;> simp [runSkipped, seqObs, obsOf, h1, h2, h3, h4]
  | cons a r ih =>
    cases d with
    | succ k => simp only [runSkipped, seqObs]; exact ih k s h1 h2 h3 h4
    | zero =>
      cases a with
      | write =>
        simp only [runSkipped, seqObs]
        rw [ih 0 _ (by simpa [St.write] using h1) (by simpa [St.write] using h2) (by simpa [St.write] using h3) (by simpa [St.write] using h4)]
        simp [St.write]
      | panic v => simp [runSkipped, seqObs, obsOf, St.write, h3, h4]
      | fireDl => simp only [runSkipped, seqObs]; exact ih 0 _ h1 h2 h3 h4
      | firePc => simp only [runSkipped, seqObs]; exact ih 0 _ h1 h2 h3 h4
      | guard n => simp only [runSkipped, seqObs]; exact ih _ s h1 h2 h3 h4
      | awaitCtx => simp only [runSkipped, seqObs]; exact ih 0 s h1 h2 h3 h4
      | awaitL => simp only [runSkipped, seqObs]; exact ih 0 s h1 h2 h3 h4
      | awaitE => simp only [runSkipped, seqObs]; exact ih 0 s h1 h2 h3 h4
      | awaitT => simp only [runSkipped, seqObs]; exact ih 0 s h1 h2 h3 h4
      | signalH => simp only [runSkipped, seqObs]; exact ih 0 s h1 h2 h3 h4
      | awaitRet => simp only [runSkipped, seqObs]; exact ih 0 s h1 h2 h3 h4
      | hold => simp only [runSkipped, seqObs]; exact ih 0 s h1 h2 h3 h4

/-- no deadline and no cancel can happen: neither the program nor the schedule produces one -/
def quietProg (p : List HAct) : Prop := ∀ a ∈ p, a ≠ .fireDl ∧ a ≠ .firePc
def quietSched (s : List Tok) : Prop := ∀ t ∈ s, t ≠ .dl ∧ t ≠ .pc

def InvQ (T : TObs) (s : St) : Prop :=
  s.ctx = .live ∧ s.timedOut = false ∧ quietProg s.hprog ∧
  ((s.rpc = .select ∧ s.hDone = false ∧ s.panicChan = none ∧ s.recovered = none ∧ s.releasedEarly = false ∧
      seqObs 0 s.hprog .live s.status s.body = T) ∨
   (s.rpc = .select ∧ s.hDone = true ∧ s.recovered = none ∧ obsOf (finishR s) = T) ∨
   (s.rpc = .returned ∧ s.hDone = true ∧ obsOf s = T))

theorem lemma_quiet_tail {a : HAct} {r : List HAct} (h : quietProg (a :: r)) : quietProg r :=
  fun x hx => h x (List.mem_cons_of_mem _ hx)

theorem lemma_stepH_invQ (T : TObs) (s : St) (h : InvQ T s) : InvQ T (stepH s) := by
  obtain ⟨hc, ht, hq, h4⟩ := h
  rcases h4 with ⟨hr, hd, hp, hrec, hre, hobs⟩ | ⟨hr, hd, hrec, hs⟩ | ⟨hr, hd, ho⟩
  · cases hprog : s.hprog with
    | nil =>
      rw [hprog] at hobs
      have hstep : stepH s = { s with hDone := true, hGo := true } := by simp [stepH, hd, hprog]
      rw [hstep]
      refine ⟨hc, ht, by simpa using hq, Or.inr (Or.inl ⟨hr, rfl, hrec, ?_⟩)⟩
      rw [← hobs]
      simp [finishR, hp, obsOf, seqObs, hrec, ht]
    | cons a r =>
      rw [hprog] at hobs hq
      have hq' := lemma_quiet_tail hq
      have ha := hq a (List.mem_cons_self ..)
      have keep : ∀ s' : St, s'.ctx = s.ctx → s'.timedOut = s.timedOut → s'.hprog = r → s'.rpc = s.rpc → s'.hDone = s.hDone →
          s'.panicChan = s.panicChan → s'.recovered = s.recovered → s'.releasedEarly = s.releasedEarly →
          s'.status = s.status → s'.body = s.body → seqObs 0 r .live s.status s.body = T → InvQ T s' := by
        intro s' e1 e2 e3 e4 e5 e6 e7 e8 e9 e10 e11
        exact ⟨by rw [e1]; exact hc, by rw [e2]; exact ht, by rw [e3]; exact hq',
          Or.inl ⟨by rw [e4]; exact hr, by rw [e5]; exact hd, by rw [e6]; exact hp, by rw [e7]; exact hrec,
            by rw [e8]; exact hre, by rw [e3, e9, e10]; exact e11⟩⟩
      have stay : InvQ T s := ⟨hc, ht, by rw [hprog]; exact hq, Or.inl ⟨hr, hd, hp, hrec, hre, by rw [hprog]; exact hobs⟩⟩
      cases a with
      | write =>
        have hstep : stepH s = ({ s with hprog := r, started := true }).write .h := by simp [stepH, hd, hprog, ht]
        rw [hstep]
        refine ⟨by simpa [St.write] using hc, by simpa [St.write] using ht, by simpa [St.write] using hq',
          Or.inl ⟨by simpa [St.write] using hr, by simpa [St.write] using hd, by simpa [St.write] using hp,
            by simpa [St.write] using hrec, by simpa [St.write] using hre, ?_⟩⟩
        simpa [St.write, seqObs] using hobs
      | fireDl => exact absurd rfl ha.1
      | firePc => exact absurd rfl ha.2
      | awaitCtx =>
        have hstep : stepH s = s := by simp [stepH, hd, hprog, hc]
        rw [hstep]; exact stay
      | awaitL =>
        by_cases hx : s.tLogging = true
        · have hstep : stepH s = { s with hprog := r } := by simp [stepH, hd, hprog, hx]
          rw [hstep]; exact keep _ rfl rfl rfl rfl rfl rfl rfl rfl rfl rfl (by simpa [seqObs] using hobs)
        · have hstep : stepH s = s := by simp [stepH, hd, hprog, hx]
          rw [hstep]; exact stay
      | awaitE =>
        by_cases hx : s.tEntered = true
        · have hstep : stepH s = { s with hprog := r } := by simp [stepH, hd, hprog, hx]
          rw [hstep]; exact keep _ rfl rfl rfl rfl rfl rfl rfl rfl rfl rfl (by simpa [seqObs] using hobs)
        · have hstep : stepH s = s := by simp [stepH, hd, hprog, hx]
          rw [hstep]; exact stay
      | awaitT =>
        by_cases hx : s.tWritten = true
        · have hstep : stepH s = { s with hprog := r } := by simp [stepH, hd, hprog, hx]
          rw [hstep]; exact keep _ rfl rfl rfl rfl rfl rfl rfl rfl rfl rfl (by simpa [seqObs] using hobs)
        · have hstep : stepH s = s := by simp [stepH, hd, hprog, hx]
          rw [hstep]; exact stay
      | signalH =>
        have hstep : stepH s = { s with hprog := r, hGo := true } := by simp [stepH, hd, hprog]
        rw [hstep]; exact keep _ rfl rfl rfl rfl rfl rfl rfl rfl rfl rfl (by simpa [seqObs] using hobs)
      | awaitRet =>
        have hstep : stepH s = s := by simp [stepH, hd, hprog, hr]
        rw [hstep]; exact stay
      | hold =>
        have hstep : stepH s = { s with hprog := r } := by simp [stepH, hd, hprog]
        rw [hstep]; exact keep _ rfl rfl rfl rfl rfl rfl rfl rfl rfl rfl (by simpa [seqObs] using hobs)
      | panic v =>
        have hstep : stepH s = { s with hprog := [], panicChan := some v, hDone := true, hGo := true } := by
          simp [stepH, hd, hprog]
        rw [hstep]
        refine ⟨hc, ht, by simp [quietProg], Or.inr (Or.inl ⟨hr, rfl, hrec, ?_⟩)⟩
        rw [← hobs]
        simp [finishR, ht, obsOf, seqObs, St.write]
      | guard n =>
        have hstep : stepH s = { s with hprog := r } := by simp [stepH, hd, hprog, hc]
        rw [hstep]; exact keep _ rfl rfl rfl rfl rfl rfl rfl rfl rfl rfl (by simpa [seqObs] using hobs)
  · have hstep : stepH s = s := by simp [stepH, hd]
    rw [hstep]; exact ⟨hc, ht, hq, Or.inr (Or.inl ⟨hr, hd, hrec, hs⟩)⟩
  · have hstep : stepH s = s := by simp [stepH, hd]
    rw [hstep]; exact ⟨hc, ht, hq, Or.inr (Or.inr ⟨hr, hd, ho⟩)⟩

theorem lemma_stepR_invQ (T : TObs) (waitH : Hooks) (pd : Bool) (s : St) (h : InvQ T s) : InvQ T (stepR waitH pd s) := by
  obtain ⟨hc, ht, hq, h4⟩ := h
  rcases h4 with ⟨hr, hd, hp, hrec, hre, hobs⟩ | ⟨hr, hd, hrec, hs⟩ | ⟨hr, hd, ho⟩
  · have hstep : stepR waitH pd s = s := by simp [stepR, hr, hd, hc]
    rw [hstep]; exact ⟨hc, ht, hq, Or.inl ⟨hr, hd, hp, hrec, hre, hobs⟩⟩
  · have hstep : stepR waitH pd s = finishR s := by simp [stepR, hr, hd, hc]
    rw [hstep]
    have hf : (finishR s).ctx = s.ctx ∧ (finishR s).timedOut = s.timedOut ∧ (finishR s).hprog = s.hprog ∧
        (finishR s).rpc = .returned ∧ (finishR s).hDone = s.hDone := by
      unfold finishR; split <;> (try split) <;> simp [St.write]
    exact ⟨by rw [hf.1]; exact hc, by rw [hf.2.1]; exact ht, by rw [hf.2.2.1]; exact hq,
      Or.inr (Or.inr ⟨hf.2.2.2.1, by rw [hf.2.2.2.2]; exact hd, hs⟩)⟩
  · have hstep : stepR waitH pd s = s := by simp [stepR, hr]
    rw [hstep]; exact ⟨hc, ht, hq, Or.inr (Or.inr ⟨hr, hd, ho⟩)⟩

/-- **The timeout middleware is transparent when nothing times out.** If neither the program nor the schedule lets
    the deadline pass or the client go away, then for every interleaving of the two goroutines the request ends —
    when it ends — exactly as if the chain had been served straight through (`runSkipped`, the path of an exempt
    request): same status, same body, same recovery. -/
theorem timeout_transparent_when_quiet (waitH : Hooks) (prog : List HAct) (sched : List Tok)
    (hp : quietProg prog) (hs : quietSched sched) :
    (run waitH sched (init prog)).rpc = .returned →
      obsOf (run waitH sched (init prog)) = obsOf (runSkipped 0 prog (init prog)) := by
  intro hret
  rw [lemma_runSkipped_seqObs 0 prog (init prog) rfl rfl rfl rfl]
  have h0 : InvQ (seqObs 0 prog .live none []) (init prog) :=
    ⟨rfl, rfl, hp, Or.inl ⟨rfl, rfl, rfl, rfl, rfl, rfl⟩⟩
  have hstep : ∀ s t, (t ≠ Tok.dl ∧ t ≠ Tok.pc) → InvQ (seqObs 0 prog .live none []) s →
      InvQ (seqObs 0 prog .live none []) (step waitH s t) := by
    intro s t ht h
    cases t with
    | h => exact lemma_stepH_invQ _ s h
    | rd => exact lemma_stepR_invQ _ waitH true s h
    | rc => exact lemma_stepR_invQ _ waitH false s h
    | dl => exact absurd rfl ht.1
    | pc => exact absurd rfl ht.2
  have hfin : ∀ (sched : List Tok) (s : St), quietSched sched → InvQ (seqObs 0 prog .live none []) s →
      InvQ (seqObs 0 prog .live none []) (run waitH sched s) := by
    intro sched
    induction sched with
    | nil => intro s _ h; exact h
    | cons t ts ih =>
      intro s hq h
      exact ih _ (fun x hx => hq x (List.mem_cons_of_mem _ hx)) (hstep s t (hq t (List.mem_cons_self ..)) h)
  obtain ⟨_, _, _, h4⟩ := hfin sched (init prog) hs h0
  rcases h4 with ⟨hr, _⟩ | ⟨hr, _⟩ | ⟨_, _, ho⟩
  · rw [hr] at hret; cases hret
  · rw [hr] at hret; cases hret
  · simpa [init] using ho

example :
    let prog : List HAct := [.write, .guard 1, .write, .panic 4]
    quietProg prog ∧ quietSched [.h, .rd, .h, .h, .h, .rc] ∧
    (run false [.h, .rd, .h, .h, .h, .rc] (init prog)).rpc = .returned ∧
    (run false [.h, .rd, .h, .h, .h, .rc] (init prog)).body = [.h, .h, .rec500] := by
  refine ⟨by simp [quietProg], by simp [quietSched], by decide, by decide⟩
end TimeoutOptions

/-! ## Part 4 — the options of the recovery middleware (`options.go`, `captureStack`) -/
section RecoveryOptions
open Rivaas.Recovery

/-- `captureStack` never fails and never keeps more than there is, for every stack and every `int` given to
    `WithStackSize` -/
theorem capture_stack_total (len : Nat) (maxSize : Int) :
    ∃ kept, captureStack len maxSize = some kept ∧ kept ≤ len ∧ (0 ≤ maxSize → (kept : Int) ≤ maxSize ∨ kept = len) := by
  unfold captureStack
  by_cases hneg : maxSize < 0
  · simp only [hneg, if_true]
    by_cases hl : (len : Int) > 0
    · simp only [hl, if_true]
      exact ⟨0, by simp, by omega, fun h => by omega⟩
    · simp only [hl, if_false]
      exact ⟨len, rfl, Nat.le_refl _, fun _ => Or.inr rfl⟩
  · simp only [hneg, if_false]
    by_cases hl : (len : Int) > maxSize
    · simp only [hl, if_true]
      refine ⟨maxSize.toNat, rfl, by omega, fun _ => Or.inl (by omega)⟩
    · simp only [hl, if_false]
      exact ⟨len, rfl, Nat.le_refl _, fun _ => Or.inr rfl⟩

/-- **Recovery's own path cannot fail on configuration.** For every option list in every order and every stack
    length, `handlePanic` gets from `c.Abort()` to the response handler. -/
theorem recovery_options_reach_handler (opts : List Opt) (stackLen : Nat) :
    reachesHandler (configure opts) stackLen = true := by
  unfold reachesHandler
  split
  · obtain ⟨k, hk, _⟩ := capture_stack_total stackLen (configure opts).stackSize
    simp [hk]
  · rfl

/-- K10e as shipped: `WithStackSize(-1)` with the default logging and stack traces — the slice expression panics
    inside the deferred recover; the repaired code keeps nothing instead -/
theorem asis_negative_stack_size_panics :
    reachesHandlerAsIs (configure [.withStackSize (-1)]) 2048 = false ∧
    reachesHandler (configure [.withStackSize (-1)]) 2048 = true ∧
    captureStack 2048 (-1) = some 0 ∧ captureStack 2048 16 = some 16 ∧ captureStack 10 4096 = some 10 := by decide

end RecoveryOptions

end Rivaas.C10
