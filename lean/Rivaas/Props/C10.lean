import Rivaas.Spec.Contain
/-
C10 — Panics and timeouts are contained.

Part 1 (recovery) is about the shared chain machine `Rivaas.Chain` (Model/Chain.lean) with the
recovery middleware — `recovers := true`, body `[Next]` — at position 0, as `app.New` installs it.
Part 2 (timeout) is about the two-thread system `Rivaas.Timeout` (Model/Timeout.lean), for **every
schedule**.
-/
namespace Rivaas.C10

/-! ## Part 1 — recovery contains every panic -/
section Recovery
open Rivaas.Chain

/-- the real recovery middleware as a chain position: deferred `recover`, then `c.Next()` -/
def recoveryMw : Prog := { recovers := true, acts := [.next] }

/-- As shipped (before the K10c `fix:` commit `handlePanic` did not abort the chain):
    `[recovery; A panics; B panics]` — B is entered *after* the recovered panic, outside the
    recovery frame, and its panic leaves `ServeHTTP`. Reproduced on the real code (corpus/C10). -/
theorem asis_escape :
    let cfg : Cfg := { abortOnRecover := false }
    let progs : List Prog := [recoveryMw, { acts := [.panic 0] }, { acts := [.panic 1] }]
    (exec cfg progs).escaped = some 1 ∧
    (exec cfg progs).trace = [.enter 0, .enter 1, .unwound 1, .exit 0, .enter 2, .unwound 2] := by
  decide

/-- as shipped, second shape: the next handler writes behind the 500 body -/
theorem asis_second_write :
    let cfg : Cfg := { abortOnRecover := false }
    let progs : List Prog := [recoveryMw, { acts := [.panic 1] }, { acts := [.write] }]
    (exec cfg progs).body = [.rec500, .h 2] := by
  decide

/-- the repaired code on the same chains: B never starts, nothing escapes, one 500 body -/
theorem fixed_same_chains :
    let p1 : List Prog := [recoveryMw, { acts := [.panic 0] }, { acts := [.panic 1] }]
    let p2 : List Prog := [recoveryMw, { acts := [.panic 1] }, { acts := [.write] }]
    (exec {} p1).escaped = none ∧ (exec {} p1).trace = [.enter 0, .enter 1, .unwound 1, .exit 0] ∧
    (exec {} p2).body = [.rec500] ∧ (exec {} p2).status = some .rec500 := by
  decide

/-- the chain is over: aborted / cancelled-with-check, or the cursor is past the last position -/
def Done (cfg : Cfg) (progs : List Prog) (s : St) : Prop :=
  s.stopped cfg = true ∨ (progs.length : Int) ≤ s.idx + 1

/-- the recovery frame of position 0 after it has called `Next()` -/
def base : List Frame := [Frame.fn 0 .recover [], Frame.loop]

/-- Invariant of the repaired recovery: nothing has escaped, and the stack is one of
    * recovery about to call `Next()`;
    * anything at all (`top`) on top of the `Next` activation called by recovery;
    * recovery about to return, ServeHTTP's own `Next` activation, or nothing — and then the chain is `Done`. -/
def Inv (cfg : Cfg) (progs : List Prog) (s : St) : Prop :=
  s.escaped = none ∧ 0 ≤ s.idx ∧
  (s.stack = [Frame.fn 0 .recover [.next], Frame.loop] ∨
   (∃ top, s.stack = top ++ Frame.loop :: base) ∨
   ((s.stack = base ∨ s.stack = [Frame.loop] ∨ s.stack = []) ∧ Done cfg progs s))

theorem lemma_unwind_guarded (cfg : Cfg) (hab : cfg.abortOnRecover = true) (progs : List Prog) (v : Nat)
    (top : List Frame) (s : St) (hesc : s.escaped = none) (hidx : 0 ≤ s.idx) :
    Inv cfg progs (unwind cfg v (top ++ Frame.loop :: base) s) := by
  induction top generalizing s with
  | nil =>
    simp only [List.nil_append, base, unwind]
    refine ⟨by simpa [St.write] using hesc, by simpa [St.write] using hidx, Or.inr (Or.inr ⟨Or.inl rfl, Or.inl ?_⟩)⟩
    simp [St.stopped, St.write, hab]
  | cons f t ih =>
    cases f with
    | loop => simpa [unwind] using ih s hesc hidx
    | fn k fk acts =>
      cases fk with
      | sub => simpa [unwind] using ih s hesc hidx
      | plain => simpa [unwind] using ih _ (by simpa using hesc) (by simpa using hidx)
      | recover =>
        simp only [List.cons_append, unwind]
        exact ⟨by simpa [St.write] using hesc, by simpa [St.write] using hidx,
          Or.inr (Or.inl ⟨Frame.fn k .recover [] :: t, by simp [St.write]⟩)⟩

/-- the loop head of a `Next` whose caller's stack is `stk` -/
theorem lemma_loopHead_inv (cfg : Cfg) (progs : List Prog) (s : St) (top : List Frame)
    (hesc : s.escaped = none) (hidx : 0 ≤ s.idx) (hst : s.stack = top ++ base)
    (hcase : top = [] ∨ ∃ t, top = t ++ [Frame.loop]) :
    Inv cfg progs (loopHead cfg progs s) := by
  unfold loopHead
  by_cases hc : 0 ≤ s.idx ∧ s.idx < progs.length
  · by_cases hs : s.stopped cfg = true
    · simp only [hc, and_self, if_true, hs]
      rcases hcase with rfl | ⟨t, rfl⟩
      · exact ⟨hesc, hidx, Or.inr (Or.inr ⟨Or.inl (by simpa using hst), Or.inl hs⟩)⟩
      · exact ⟨hesc, hidx, Or.inr (Or.inl ⟨t, by simp [hst]⟩)⟩
    · simp only [hc, and_self, if_true, hs]
      refine ⟨hesc, hidx, Or.inr (Or.inl ?_)⟩
      rcases hcase with rfl | ⟨t, rfl⟩
      · exact ⟨[Frame.fn s.idx.toNat (progs.getD s.idx.toNat default).fk (progs.getD s.idx.toNat default).acts],
          by simp [hst]⟩
      · exact ⟨Frame.fn s.idx.toNat (progs.getD s.idx.toNat default).fk (progs.getD s.idx.toNat default).acts ::
          Frame.loop :: t, by simp [hst]⟩
  · simp only [hc, if_false]
    rcases hcase with rfl | ⟨t, rfl⟩
    · refine ⟨hesc, hidx, Or.inr (Or.inr ⟨Or.inl (by simpa using hst), Or.inr ?_⟩)⟩
      have : ¬ (s.idx < progs.length) := fun h => hc ⟨hidx, h⟩
      omega
    · exact ⟨hesc, hidx, Or.inr (Or.inl ⟨t, by simp [hst]⟩)⟩

theorem lemma_step_inv (cfg : Cfg) (hab : cfg.abortOnRecover = true) (progs : List Prog) (s : St)
    (h : Inv cfg progs s) : Inv cfg progs (step cfg progs s) := by
  obtain ⟨hesc, hidx, hshape⟩ := h
  rcases hshape with hst | ⟨top, hst⟩ | ⟨hst, hd⟩
  · -- recovery calls Next()
    simp only [step, hst, callNext]
    exact lemma_loopHead_inv cfg progs _ [] hesc (by simp; omega) (by simp [base]) (Or.inl rfl)
  · cases top with
    | nil =>
      -- the Next activation called by recovery continues its loop
      simp only [List.nil_append] at hst
      simp only [step, hst]
      exact lemma_loopHead_inv cfg progs _ [] hesc (by simp; omega) (by simp) (Or.inl rfl)
    | cons f t =>
      simp only [List.cons_append] at hst
      cases f with
      | loop =>
        simp only [step, hst]
        exact lemma_loopHead_inv cfg progs _ (t ++ [Frame.loop]) hesc (by simp; omega) (by simp) (Or.inr ⟨t, rfl⟩)
      | fn k fk acts =>
        cases acts with
        | nil =>
          simp only [step, hst]
          exact ⟨hesc, hidx, Or.inr (Or.inl ⟨t, rfl⟩)⟩
        | cons a as =>
          cases a with
          | ret => simp only [step, hst]; exact ⟨hesc, hidx, Or.inr (Or.inl ⟨t, rfl⟩)⟩
          | abort => simp only [step, hst]; exact ⟨hesc, hidx, Or.inr (Or.inl ⟨Frame.fn k fk as :: t, rfl⟩)⟩
          | cancel => simp only [step, hst]; exact ⟨hesc, hidx, Or.inr (Or.inl ⟨Frame.fn k fk as :: t, rfl⟩)⟩
          | write =>
            simp only [step, hst]
            exact ⟨by simpa [St.write] using hesc, by simpa [St.write] using hidx,
              Or.inr (Or.inl ⟨Frame.fn k fk as :: t, by simp [St.write]⟩)⟩
          | call b =>
            simp only [step, hst]
            exact ⟨hesc, hidx, Or.inr (Or.inl ⟨Frame.fn k .sub b :: Frame.fn k fk as :: t, rfl⟩)⟩
          | next =>
            simp only [step, hst, callNext]
            exact lemma_loopHead_inv cfg progs _ (Frame.fn k fk as :: t ++ [Frame.loop]) hesc (by simp; omega)
              (by simp) (Or.inr ⟨Frame.fn k fk as :: t, rfl⟩)
          | panic v =>
            simp only [step, hst]
            have := lemma_unwind_guarded cfg hab progs v (Frame.fn k fk as :: t) s hesc hidx
            simpa using this
  · -- the chain is over: whatever is left on the stack returns, nothing is entered
    have hdone' : ∀ s' : St, s'.idx = s.idx + 1 → s'.aborted = s.aborted → s'.cancelled = s.cancelled →
        Done cfg progs s' := by
      intro s' h1 h2 h3
      rcases hd with h | h
      · left; simpa [St.stopped, h2, h3] using h
      · right; omega
    rcases hst with hst | hst | hst
    · simp only [step, hst, base]
      exact ⟨hesc, hidx, Or.inr (Or.inr ⟨Or.inr (Or.inl rfl), by
        rcases hd with h | h
        · left; simpa [St.stopped] using h
        · right; simpa using h⟩)⟩
    · simp only [step, hst, loopHead]
      have hnot : ¬ ((0 ≤ s.idx + 1 ∧ s.idx + 1 < progs.length) ∧ ¬ (St.stopped cfg { s with idx := s.idx + 1, stack := [] } = true)) := by
        rintro ⟨⟨_, h2⟩, h3⟩
        rcases hd with h | h
        · exact h3 (by simpa [St.stopped] using h)
        · omega
      by_cases hc : 0 ≤ s.idx + 1 ∧ s.idx + 1 < progs.length
      · by_cases hs : St.stopped cfg { s with idx := s.idx + 1, stack := [] } = true
        · simp only [hc, and_self, if_true, hs]
          exact ⟨hesc, by simp; omega, Or.inr (Or.inr ⟨Or.inr (Or.inr rfl), Or.inl hs⟩)⟩
        · exact absurd ⟨hc, hs⟩ hnot
      · simp only [hc, if_false]
        refine ⟨hesc, by simp; omega, Or.inr (Or.inr ⟨Or.inr (Or.inr rfl), ?_⟩)⟩
        exact hdone' _ rfl rfl rfl
    · simp only [step, hst]
      exact ⟨hesc, hidx, Or.inr (Or.inr ⟨Or.inr (Or.inr hst), hd⟩)⟩

theorem lemma_run_inv (cfg : Cfg) (hab : cfg.abortOnRecover = true) (progs : List Prog) (n : Nat) (s : St)
    (h : Inv cfg progs s) : Inv cfg progs (run cfg progs n s) := by
  induction n generalizing s with
  | zero => exact h
  | succ n ih => exact ih _ (lemma_step_inv cfg hab progs s h)

theorem lemma_start_inv (cfg : Cfg) (rest : List Prog) :
    Inv cfg (recoveryMw :: rest) (start cfg (recoveryMw :: rest)) := by
  have h : start cfg (recoveryMw :: rest) =
      { init with idx := 0, stack := [Frame.fn 0 .recover [.next], Frame.loop], trace := [Ev.enter 0] } := by
    simp [start, callNext, loopHead, init, St.stopped, recoveryMw, Prog.fk]
  rw [h]
  exact ⟨rfl, by simp, Or.inl rfl⟩

/-- **Containment.** With the recovery middleware first in the chain (the app default) and
    `handlePanic` aborting the chain (the code after the K10c fix), no panic — whatever its value,
    at whatever position, before or after `Next()`, before or after a write, inside nested calls,
    however many handlers panic — ever leaves `ServeHTTP`: for every chain, every handler program
    and every number of steps. -/
theorem recovery_contains (cfg : Cfg) (hab : cfg.abortOnRecover = true) (rest : List Prog) (n : Nat) :
    (run cfg (recoveryMw :: rest) n (start cfg (recoveryMw :: rest))).escaped = none :=
  (lemma_run_inv cfg hab _ n _ (lemma_start_inv cfg rest)).1

/-- non-vacuity: panics do happen and are caught — five handlers, three of them panic at different
    sites; without recovery in front the first of them escapes -/
example :
    let rest : List Prog := [{ acts := [.write, .next, .panic 3] }, { acts := [.call [.next, .panic 0]] },
                             { acts := [.next] }, { acts := [.panic 4] }, { acts := [.panic 1] }]
    (exec {} (recoveryMw :: rest)).escaped = none ∧
    (exec {} (recoveryMw :: rest)).body = [.h 1, .rec500] ∧
    (exec {} rest).escaped = some 4 := by decide

/-! ### "the client receives a 500 if nothing had been written" -/

theorem lemma_unwind_status (cfg : Cfg) (v : Nat) (top : List Frame) (s : St) (h : s.status = none) :
    (unwind cfg v (top ++ Frame.loop :: base) s).status = some Chunk.rec500 := by
  induction top generalizing s with
  | nil => simp [base, unwind, St.write, h]
  | cons f t ih =>
    cases f with
    | loop => simpa [unwind] using ih s h
    | fn k fk acts =>
      cases fk with
      | sub => simpa [unwind] using ih s h
      | plain => simpa [unwind] using ih _ (by simpa using h)
      | recover => simp [unwind, St.write, h]

/-- the status line, once sent, is never replaced (first `WriteHeader` wins) -/
theorem lemma_unwind_status_keep (cfg : Cfg) (v : Nat) (st : List Frame) (s : St) (c : Chunk)
    (h : s.status = some c) : (unwind cfg v st s).status = some c := by
  induction st generalizing s with
  | nil => simpa [unwind] using h
  | cons f t ih =>
    cases f with
    | loop => simpa [unwind] using ih s h
    | fn k fk acts =>
      cases fk with
      | sub => simpa [unwind] using ih s h
      | plain => simpa [unwind] using ih _ (by simpa using h)
      | recover => simp [unwind, St.write, h]

theorem lemma_loopHead_status (cfg : Cfg) (progs : List Prog) (s : St) :
    (loopHead cfg progs s).status = s.status := by
  unfold loopHead
  split
  · split <;> rfl
  · rfl

theorem lemma_step_status_keep (cfg : Cfg) (progs : List Prog) (s : St) (c : Chunk) (h : s.status = some c) :
    (step cfg progs s).status = some c := by
  unfold step
  split
  · exact h
  · rw [lemma_loopHead_status]; exact h
  · exact h
  · split
    · exact h
    · exact h
    · exact h
    · simp [St.write, h]
    · unfold callNext; rw [lemma_loopHead_status]; exact h
    · exact h
    · exact lemma_unwind_status_keep cfg _ _ s c h

theorem status_sticky (cfg : Cfg) (progs : List Prog) (n : Nat) (s : St) (c : Chunk) (h : s.status = some c) :
    (run cfg progs n s).status = some c := by
  induction n generalizing s with
  | zero => exact h
  | succ n ih => exact ih _ (lemma_step_status_keep cfg progs s c h)

/-- the machine is about to execute `panic v` -/
def aboutToPanic (s : St) : Prop :=
  ∃ k fk v as rest, s.stack = Frame.fn k fk (Act.panic v :: as) :: rest

/-- **500 if nothing had been written.** In any reachable state of a chain with recovery first: if
    the next thing to happen is a panic and no status line has been sent yet, then from the next
    step on — forever — the status line is recovery's 500. -/
theorem recovery_answers_500 (cfg : Cfg) (hab : cfg.abortOnRecover = true) (rest : List Prog) (n m : Nat) :
    let s := run cfg (recoveryMw :: rest) n (start cfg (recoveryMw :: rest))
    aboutToPanic s → s.status = none →
    (run cfg (recoveryMw :: rest) (m + 1) s).status = some Chunk.rec500 := by
  intro s hp hs
  have hinv := lemma_run_inv cfg hab _ n _ (lemma_start_inv cfg rest)
  obtain ⟨k, fk, v, as, rst, hst⟩ := hp
  obtain ⟨_, _, hshape⟩ := hinv
  have hstep : (step cfg (recoveryMw :: rest) s).status = some Chunk.rec500 := by
    rcases hshape with h | ⟨top, h⟩ | ⟨h, _⟩
    · rw [hst] at h; simp at h
    · cases top with
      | nil => rw [hst] at h; simp at h
      | cons f t =>
        rw [hst] at h
        simp only [List.cons_append, List.cons.injEq] at h
        obtain ⟨_, h2⟩ := h
        simp only [step, hst]
        have := lemma_unwind_status cfg v (Frame.fn k fk as :: t) s hs
        simpa [h2] using this
    · rcases h with h | h | h <;> rw [hst] at h <;> simp [base] at h
  show (run cfg _ (m + 1) s).status = _
  simp only [run]
  exact status_sticky cfg _ m _ _ hstep

/-- non-vacuity: a reachable state that is about to panic with nothing written -/
example :
    let rest : List Prog := [{ acts := [.next] }, { acts := [.call [.panic 2]] }]
    let s := run {} (recoveryMw :: rest) 3 (start {} (recoveryMw :: rest))
    (∃ k fk v as rst, s.stack = Frame.fn k fk (Act.panic v :: as) :: rst) ∧ s.status = none :=
  ⟨⟨2, .sub, 2, [], [.fn 2 .plain [], .loop, .fn 1 .plain [], .loop, .fn 0 .recover [], .loop], rfl⟩, by decide⟩


/-! ### later requests are served normally, also on reused pooled contexts -/

theorem lemma_serveOn_reset (cfg : Cfg) (progs : List Prog) (c : PCtx) (h : c.aborted = false) :
    serveOn cfg progs c = exec cfg progs := by
  unfold serveOn exec start
  rw [h]
  rfl

/-- **Later requests are unaffected.** Whatever the earlier requests did — recovered panics (which
    leave `aborted = true` behind until `reset()`), escaped panics, aborts — and whichever serve
    path released their contexts, every request of the sequence behaves exactly like a request on
    a brand-new context: the pool only ever holds reset contexts. -/
theorem later_requests_unaffected (cfg : Cfg) (pool : List PCtx) (hp : ∀ c ∈ pool, c.aborted = false)
    (reqs : List (List Prog × Bool)) :
    serveAll cfg pool reqs = reqs.map fun (p, _) => exec cfg p := by
  induction reqs generalizing pool with
  | nil => rfl
  | cons q qs ih =>
    obtain ⟨p, d⟩ := q
    have hc : (pool.headD PCtx.reset).aborted = false := by
      cases pool with
      | nil => rfl
      | cons c r => exact hp c (List.mem_cons_self ..)
    have htail : ∀ c ∈ pool.tail, c.aborted = false := fun c hc' => hp c (List.mem_of_mem_tail hc')
    simp only [serveAll, List.map_cons, lemma_serveOn_reset cfg p _ hc]
    congr 1
    apply ih
    intro c hc'
    unfold release at hc'
    split at hc'
    · exact htail c hc'
    · rcases List.mem_cons.mp hc' with h | h
      · rw [h]; rfl
      · exact htail c h

/-- non-vacuity: a recovered panic leaves the context aborted, and the next request on the same
    pool still runs its whole chain -/
example :
    let bad : List Prog := [recoveryMw, { acts := [.panic 0] }, { acts := [.write] }]
    let good : List Prog := [recoveryMw, { acts := [.next] }, { acts := [.write] }]
    (exec {} bad).aborted = true ∧
    ((serveAll {} [] [(bad, false), (good, true), (good, false)]).map (·.body)) = [[.rec500], [.h 2], [.h 2]] := by
  decide

end Recovery

/-! ## Part 2 — the timeout middleware, over all schedules -/
section TimeoutMw
open Rivaas.Timeout

theorem lemma_t_run_cons (waitH : Bool) (t : Tok) (ts : List Tok) (s : St) :
    run waitH (t :: ts) s = run waitH ts (step waitH s t) := rfl

/-- lift a step invariant to every schedule -/
theorem lemma_t_run_induct (waitH : Bool) (P : St → Prop) (hstep : ∀ s t, P s → P (step waitH s t))
    (sched : List Tok) (s : St) (h : P s) : P (run waitH sched s) := by
  induction sched generalizing s with
  | nil => exact h
  | cons t ts ih => exact ih _ (hstep s t h)

/-! ### as shipped: the three ways in which the response is not "exactly one" (recorded findings) -/

/-- K10a: deadline, timeout body, then the handler (which ignores the context) writes: the body holds
    both JSON values. Reproduced on the real code with this very order forced by channels. -/
theorem timeout_interleave_witness :
    let s := run false [.h, .h, .rc, .h, .rc, .h, .h, .h, .rd]
      (init [.fireDl, .awaitCtx, .awaitE, .awaitT, .write])
    s.rpc = .returned ∧ s.body = [.t408, .h] ∧ timeoutOK (obsOf s) = false := by decide

/-- K10a with nothing but the real timer and a handler that is merely slow: `dl` fires, the
    middleware answers 408, the handler's write lands behind it -/
theorem timeout_interleave_timer_witness :
    let s := run false [.dl, .rc, .rc, .h, .h, .rd] (init [.write])
    s.rpc = .returned ∧ s.body = [.t408, .h] ∧ timeoutOK (obsOf s) = false := by decide

/-- K10b: the parent context is cancelled — the middleware returns (and `ServeHTTP` puts the
    context back into the pool) while the handler goroutine is still running -/
theorem parent_cancel_releases_early_witness :
    let s := run false [.h, .h, .rc] (init [.firePc, .awaitCtx, .awaitRet])
    s.rpc = .returned ∧ s.hDone = false ∧ s.releasedEarly = true ∧ timeoutOK (obsOf s) = false := by decide

/-- K10d: the handler panics after the timeout body was written; the re-raised panic reaches
    recovery, whose 500 body follows the 408 body -/
theorem timeout_then_panic_witness :
    let s := run false [.h, .h, .rc, .h, .rc, .h, .h, .rd]
      (init [.fireDl, .awaitCtx, .awaitE, .awaitT, .panic 0])
    s.rpc = .returned ∧ s.body = [.t408, .rec500] ∧ s.recovered = some 0 ∧ timeoutOK (obsOf s) = false := by decide

/-! ### full-strength clauses (no exclusion) -/

/-- invariant behind `timeout_repanics` and `timeout_waits_for_handler` -/
def InvR (s : St) : Prop :=
  (s.rpc ≠ .returned → s.recovered = none) ∧
  (s.rpc = .returned → s.ctx ≠ .cancelled → s.hDone = true ∧ s.recovered = s.panicChan)

theorem lemma_finishR (s : St) (hd : s.hDone = true) (hr : s.recovered = none) :
    (finishR s).rpc = .returned ∧ (finishR s).hDone = true ∧ (finishR s).recovered = (finishR s).panicChan ∧
    (finishR s).ctx = s.ctx := by
  unfold finishR
  split <;> simp_all [St.write]

theorem lemma_stepH_invR (s : St) (h : InvR s) : InvR (stepH s) := by
  obtain ⟨h1, h2⟩ := h
  unfold stepH
  split
  · exact ⟨h1, h2⟩
  · rename_i hnd
    have hret : s.rpc = .returned → s.ctx = .cancelled := by
      intro hr
      by_cases hc : s.ctx = .cancelled
      · exact hc
      · exact absurd (h2 hr hc).1 hnd
    split
    all_goals (try split)
    all_goals
      refine ⟨fun hr => by simp_all [St.write], fun hr hc => ?_⟩
      have := hret (by simpa [St.write] using hr)
      simp_all [St.write]

theorem lemma_stepR_invR (waitH pd : Bool) (s : St) (h : InvR s) : InvR (stepR waitH pd s) := by
  obtain ⟨h1, h2⟩ := h
  cases hpc : s.rpc with
  | select =>
    have hr : s.recovered = none := h1 (by simp [hpc])
    simp only [stepR, hpc]
    by_cases hcond : (s.hDone && (pd || s.ctx == .live)) = true
    · have hd : s.hDone = true := by
        cases hdd : s.hDone <;> simp_all
      obtain ⟨f1, f2, f3, _⟩ := lemma_finishR s hd hr
      simp only [hcond, if_true]
      exact ⟨fun hn => absurd f1 hn, fun _ _ => ⟨f2, f3⟩⟩
    · simp only [hcond, Bool.false_eq_true, if_false]
      by_cases hl : s.ctx = .live
      · simp only [hl, if_true]
        exact ⟨fun _ => hr, fun hret => by simp [hpc] at hret⟩
      · simp only [hl, if_false]
        by_cases hdl : s.ctx = .deadline
        · simp only [hdl, if_true]
          exact ⟨fun _ => hr, fun hret => by simp at hret⟩
        · simp only [hdl, if_false]
          refine ⟨fun hn => by simp at hn, fun _ hc => ?_⟩
          exfalso
          apply hc
          show s.ctx = .cancelled
          cases hctx : s.ctx <;> simp_all
  | thandler =>
    have hr : s.recovered = none := h1 (by simp [hpc])
    simp only [stepR, hpc]
    split
    · exact ⟨fun _ => hr, fun hret => by simp [hpc] at hret⟩
    · exact ⟨fun _ => by simpa [St.write] using hr, fun hret => by simp [St.write] at hret⟩
  | waitDone =>
    have hr : s.recovered = none := h1 (by simp [hpc])
    simp only [stepR, hpc]
    split
    · rename_i hd
      obtain ⟨f1, f2, f3, _⟩ := lemma_finishR s hd hr
      exact ⟨fun hn => absurd f1 hn, fun _ _ => ⟨f2, f3⟩⟩
    · exact ⟨fun _ => hr, fun hret => by simp [hpc] at hret⟩
  | returned =>
    simp only [stepR, hpc]
    exact ⟨h1, h2⟩

theorem lemma_step_invR (waitH : Bool) (s : St) (t : Tok) (h : InvR s) : InvR (step waitH s t) := by
  cases t with
  | h => exact lemma_stepH_invR s h
  | rd => exact lemma_stepR_invR waitH true s h
  | rc => exact lemma_stepR_invR waitH false s h
  | dl =>
    obtain ⟨h1, h2⟩ := h
    refine ⟨h1, fun hr hc => ?_⟩
    apply h2 hr
    intro hcc
    simp [step, hcc] at hc
  | pc =>
    obtain ⟨h1, h2⟩ := h
    refine ⟨h1, fun hr hc => ?_⟩
    apply h2 hr
    intro hcc
    simp [step, hcc] at hc

theorem lemma_init_invR (prog : List HAct) : InvR (init prog) := by
  simp [InvR, init]

/-- **Re-panic.** For every handler program and every schedule: when the middleware has returned
    and the parent context was not cancelled, the handler goroutine has finished and whatever
    panic it raised — before or after the deadline — has been re-raised on the request goroutine
    and handled by recovery (`recovered = panicChan`, also when there was no panic). -/
theorem timeout_repanics (waitH : Bool) (prog : List HAct) (sched : List Tok) :
    let s := run waitH sched (init prog)
    s.rpc = .returned → s.ctx ≠ .cancelled → s.recovered = s.panicChan := by
  intro s hr hc
  exact ((lemma_t_run_induct waitH InvR (lemma_step_invR waitH) sched _ (lemma_init_invR prog)).2 hr hc).2

/-- **The timed-out request waits for its handler.** Without a parent cancel the context is never
    handed back while the handler goroutine runs — for every schedule, deadline or not. -/
theorem timeout_waits_for_handler (waitH : Bool) (prog : List HAct) (sched : List Tok) :
    let s := run waitH sched (init prog)
    s.rpc = .returned → s.ctx ≠ .cancelled → s.hDone = true := by
  intro s hr hc
  exact ((lemma_t_run_induct waitH InvR (lemma_step_invR waitH) sched _ (lemma_init_invR prog)).2 hr hc).1

/-- non-vacuity: a run that ends `returned`, not cancelled, after a deadline and a late panic -/
example :
    let s := run true [.h, .h, .rc, .h, .h, .rd, .rd] (init [.fireDl, .awaitCtx, .awaitE, .panic 3])
    s.rpc = .returned ∧ s.ctx ≠ .cancelled ∧ s.recovered = some 3 ∧ s.timedOut = true := by decide

/-! ### at most one timeout body — every program, every schedule, no exclusion -/

def InvT (s : St) : Prop :=
  (s.tWritten = false ∧ s.body.count Chunk.t408 = 0) ∨
  (s.tWritten = true ∧ s.body.count Chunk.t408 = 1 ∧ (s.rpc = .waitDone ∨ s.rpc = .returned))

theorem lemma_finishR_fields (s : St) :
    (finishR s).rpc = .returned ∧ (finishR s).tWritten = s.tWritten ∧
    (finishR s).body.count Chunk.t408 = s.body.count Chunk.t408 ∧ (finishR s).releasedEarly = s.releasedEarly ∧
    (finishR s).ctx = s.ctx ∧ (finishR s).hprog = s.hprog ∧ (finishR s).panicChan = s.panicChan := by
  unfold finishR
  split <;> simp [St.write, List.count_append]

theorem lemma_stepH_fields (s : St) :
    (stepH s).rpc = s.rpc ∧ (stepH s).tWritten = s.tWritten ∧ (stepH s).releasedEarly = s.releasedEarly ∧
    (stepH s).recovered = s.recovered ∧ (stepH s).body.count Chunk.t408 = s.body.count Chunk.t408 := by
  unfold stepH
  split
  · simp
  · split
    all_goals (try split)
    all_goals simp [St.write, List.count_append]

theorem lemma_step_invT (waitH : Bool) (s : St) (t : Tok) (h : InvT s) : InvT (step waitH s t) := by
  have hR : ∀ pd, InvT (stepR waitH pd s) := by
    intro pd
    cases hpc : s.rpc with
    | select =>
      simp only [stepR, hpc]
      have hf := lemma_finishR_fields s
      rcases h with ⟨h1, h2⟩ | ⟨_, _, h3⟩
      · split
        · exact Or.inl ⟨by rw [hf.2.1]; exact h1, by rw [hf.2.2.1]; exact h2⟩
        · split
          · exact Or.inl ⟨h1, h2⟩
          · split <;> exact Or.inl ⟨h1, h2⟩
      · rcases h3 with h3 | h3 <;> simp [hpc] at h3
    | thandler =>
      simp only [stepR, hpc]
      rcases h with ⟨h1, h2⟩ | ⟨_, _, h3⟩
      · split
        · exact Or.inl ⟨h1, h2⟩
        · exact Or.inr ⟨rfl, by simp [St.write, List.count_append, h2], Or.inl rfl⟩
      · rcases h3 with h3 | h3 <;> simp [hpc] at h3
    | waitDone =>
      simp only [stepR, hpc]
      have hf := lemma_finishR_fields s
      split
      · rcases h with ⟨h1, h2⟩ | ⟨h1, h2, _⟩
        · exact Or.inl ⟨by rw [hf.2.1]; exact h1, by rw [hf.2.2.1]; exact h2⟩
        · exact Or.inr ⟨by rw [hf.2.1]; exact h1, by rw [hf.2.2.1]; exact h2, Or.inr hf.1⟩
      · exact h
    | returned => simp only [stepR, hpc]; exact h
  cases t with
  | h =>
    have hf := lemma_stepH_fields s
    show InvT (stepH s)
    unfold InvT
    rw [hf.1, hf.2.1, hf.2.2.2.2]
    exact h
  | rd => exact hR true
  | rc => exact hR false
  | dl => exact h
  | pc => exact h

/-- **Exactly one timeout response.** Whatever the handler does and however the two goroutines,
    the timer and the client interleave, the timeout body is written at most once. -/
theorem timeout_body_at_most_once (waitH : Bool) (prog : List HAct) (sched : List Tok) :
    (run waitH sched (init prog)).body.count Chunk.t408 ≤ 1 := by
  have := lemma_t_run_induct waitH InvT (lemma_step_invT waitH) sched (init prog) (Or.inl ⟨rfl, rfl⟩)
  rcases this with ⟨_, h⟩ | ⟨_, h, _⟩ <;> omega

/-! ### the partial theorem: outside the recorded classes the whole oracle holds -/

theorem lemma_stepH_hprog (s : St) : ∀ a ∈ (stepH s).hprog, a ∈ s.hprog := by
  unfold stepH
  split
  · exact fun a h => h
  · split
    all_goals (try split)
    all_goals
      intro a h
      first
        | exact h
        | (simp only [St.write] at h; simp_all; done)
        | (simp_all; first | done | exact Or.inr (List.mem_of_mem_drop ‹_›))

/-- schedule without environment events of a kind -/
def noTok (x : Tok) (sched : List Tok) : Prop := ∀ t ∈ sched, t ≠ x

theorem lemma_t_run_induct' (waitH : Bool) (P : St → Prop) (ok : Tok → Prop)
    (hstep : ∀ s t, ok t → P s → P (step waitH s t))
    (sched : List Tok) (hs : ∀ t ∈ sched, ok t) (s : St) (h : P s) : P (run waitH sched s) := by
  induction sched generalizing s with
  | nil => exact h
  | cons t ts ih =>
    exact ih (fun t' ht' => hs t' (List.mem_cons_of_mem _ ht')) _ (hstep s t (hs t (List.mem_cons_self ..)) h)

/-- (a) neither a deadline nor a cancellation can happen: the handler finishes first -/
def InvA (s : St) : Prop :=
  s.ctx = .live ∧ (∀ a ∈ s.hprog, a ≠ .fireDl ∧ a ≠ .firePc) ∧ s.releasedEarly = false ∧
  s.tWritten = false ∧ s.body.count Chunk.t408 = 0 ∧ (s.recovered.isSome → Chunk.rec500 ∈ s.body) ∧
  (s.rpc = .select ∨ s.rpc = .returned)

theorem lemma_stepH_invA (s : St) (h : InvA s) : InvA (stepH s) := by
  obtain ⟨h1, h2, h3, h4, h5, h6, h7⟩ := h
  have hf := lemma_stepH_fields s
  have hp := lemma_stepH_hprog s
  refine ⟨?_, fun a ha => h2 a (hp a ha), by rw [hf.2.2.1]; exact h3, by rw [hf.2.1]; exact h4,
    by rw [hf.2.2.2.2]; exact h5, ?_, by rw [hf.1]; exact h7⟩
  · unfold stepH
    split
    · exact h1
    · split
      all_goals (try split)
      all_goals first
        | exact h1
        | exact h1
        | (exfalso; have := h2 _ (by rw [‹s.hprog = _›]; exact List.mem_cons_self ..); simp at this)
  · rw [hf.2.2.2.1]
    intro hr
    have := h6 hr
    unfold stepH
    split
    · exact this
    · split
      all_goals (try split)
      all_goals simp [St.write, this]

theorem lemma_stepR_invA (waitH pd : Bool) (s : St) (h : InvA s) : InvA (stepR waitH pd s) := by
  obtain ⟨h1, h2, h3, h4, h5, h6, h7⟩ := h
  have hfin : InvA (finishR s) := by
    have hf := lemma_finishR_fields s
    refine ⟨by rw [hf.2.2.2.2.1]; exact h1, by rw [hf.2.2.2.2.2.1]; exact h2, by rw [hf.2.2.2.1]; exact h3,
      by rw [hf.2.1]; exact h4, by rw [hf.2.2.1]; exact h5, ?_, Or.inr hf.1⟩
    unfold finishR
    split
    · intro _; simp [St.write]
    · exact h6
  rcases h7 with hpc | hpc
  · simp only [stepR, hpc, h1]
    split
    · exact hfin
    · simp; exact ⟨h1, h2, h3, h4, h5, h6, Or.inl hpc⟩
  · simp only [stepR, hpc]; exact ⟨h1, h2, h3, h4, h5, h6, Or.inr hpc⟩

theorem lemma_step_invA (waitH : Bool) (s : St) (t : Tok) (ht : t ≠ .dl ∧ t ≠ .pc) (h : InvA s) :
    InvA (step waitH s t) := by
  cases t with
  | h => exact lemma_stepH_invA s h
  | rd => exact lemma_stepR_invA waitH true s h
  | rc => exact lemma_stepR_invA waitH false s h
  | dl => exact absurd rfl ht.1
  | pc => exact absurd rfl ht.2

/-- (b) no cancellation, and the handler neither writes nor panics: at most the timeout body -/
def InvB (s : St) : Prop :=
  s.ctx ≠ .cancelled ∧ (∀ a ∈ s.hprog, a ≠ .firePc ∧ a ≠ .write ∧ ∀ v, a ≠ .panic v) ∧
  s.panicChan = none ∧ s.recovered = none ∧ s.releasedEarly = false ∧
  ((s.body = [] ∧ s.status = none) ∨ (s.body = [Chunk.t408] ∧ s.status = some Chunk.t408 ∧
    (s.rpc = .waitDone ∨ s.rpc = .returned)))

theorem lemma_stepH_invB (s : St) (h : InvB s) : InvB (stepH s) := by
  obtain ⟨h1, h2, h3, h4, h5, h6⟩ := h
  have hp := lemma_stepH_hprog s
  have hkeep : ∀ s' : St, s'.ctx ≠ .cancelled → (∀ a ∈ s'.hprog, a ∈ s.hprog) → s'.panicChan = none →
      s'.recovered = s.recovered → s'.releasedEarly = s.releasedEarly → s'.body = s.body →
      s'.status = s.status → s'.rpc = s.rpc → InvB s' := by
    intro s' c1 c2 c3 c4 c5 c6 c7 c8
    exact ⟨c1, fun a ha => h2 a (c2 a ha), c3, by rw [c4]; exact h4, by rw [c5]; exact h5, by rw [c6, c7, c8]; exact h6⟩
  unfold stepH
  split
  · exact ⟨h1, h2, h3, h4, h5, h6⟩
  · split
    · exact hkeep _ h1 (by simp) h3 rfl rfl rfl rfl rfl
    · rename_i r hpr
      exact absurd rfl (h2 .write (by rw [hpr]; exact List.mem_cons_self ..)).2.1
    · rename_i r hpr
      refine hkeep _ ?_ (by intro a ha; rw [hpr]; exact List.mem_cons_of_mem _ ha) h3 rfl rfl rfl rfl rfl
      show (if s.ctx = .live then Ctx.deadline else s.ctx) ≠ .cancelled
      split <;> simp_all
    · rename_i r hpr
      exact absurd rfl (h2 .firePc (by rw [hpr]; exact List.mem_cons_self ..)).1
    · rename_i r hpr
      split
      · exact ⟨h1, h2, h3, h4, h5, h6⟩
      · exact hkeep _ h1 (by intro a ha; rw [hpr]; exact List.mem_cons_of_mem _ ha) h3 rfl rfl rfl rfl rfl
    · rename_i r hpr
      split
      · exact hkeep _ h1 (by intro a ha; rw [hpr]; exact List.mem_cons_of_mem _ ha) h3 rfl rfl rfl rfl rfl
      · exact ⟨h1, h2, h3, h4, h5, h6⟩
    · rename_i r hpr
      split
      · exact hkeep _ h1 (by intro a ha; rw [hpr]; exact List.mem_cons_of_mem _ ha) h3 rfl rfl rfl rfl rfl
      · exact ⟨h1, h2, h3, h4, h5, h6⟩
    · rename_i r hpr
      exact hkeep _ h1 (by intro a ha; rw [hpr]; exact List.mem_cons_of_mem _ ha) h3 rfl rfl rfl rfl rfl
    · rename_i r hpr
      split
      · exact hkeep _ h1 (by intro a ha; rw [hpr]; exact List.mem_cons_of_mem _ ha) h3 rfl rfl rfl rfl rfl
      · exact ⟨h1, h2, h3, h4, h5, h6⟩
    · rename_i r hpr
      exact hkeep _ h1 (by intro a ha; rw [hpr]; exact List.mem_cons_of_mem _ ha) h3 rfl rfl rfl rfl rfl
    · rename_i v r hpr
      exact absurd rfl ((h2 (.panic v) (by rw [hpr]; exact List.mem_cons_self ..)).2.2 v)
    · rename_i n r hpr
      refine hkeep _ h1 ?_ h3 rfl rfl rfl rfl rfl
      intro a ha
      rw [hpr]
      simp only [] at ha
      split at ha
      · exact List.mem_cons_of_mem _ ha
      · exact List.mem_cons_of_mem _ (List.mem_of_mem_drop ha)

theorem lemma_stepR_invB (waitH pd : Bool) (s : St) (h : InvB s) : InvB (stepR waitH pd s) := by
  obtain ⟨h1, h2, h3, h4, h5, h6⟩ := h
  have hfin : finishR s = { s with rpc := .returned } := by simp [finishR, h3]
  cases hpc : s.rpc with
  | select =>
    simp only [stepR, hpc]
    have h6' : s.body = [] ∧ s.status = none := by
      rcases h6 with h | ⟨_, _, h | h⟩
      · exact h
      · simp [hpc] at h
      · simp [hpc] at h
    split
    · rw [hfin]; exact ⟨h1, h2, h3, h4, h5, Or.inl h6'⟩
    · split
      · exact ⟨h1, h2, h3, h4, h5, h6⟩
      · split
        · exact ⟨h1, h2, h3, h4, h5, Or.inl h6'⟩
        · rename_i hl hd
          exfalso; apply h1
          cases hctx : s.ctx <;> simp_all
  | thandler =>
    simp only [stepR, hpc]
    have h6' : s.body = [] ∧ s.status = none := by
      rcases h6 with h | ⟨_, _, h | h⟩
      · exact h
      · simp [hpc] at h
      · simp [hpc] at h
    split
    · exact ⟨h1, h2, h3, h4, h5, h6⟩
    · exact ⟨h1, h2, h3, h4, h5, Or.inr ⟨by simp [St.write, h6'.1], by simp [St.write, h6'.2], Or.inl rfl⟩⟩
  | waitDone =>
    simp only [stepR, hpc]
    split
    · rw [hfin]
      refine ⟨h1, h2, h3, h4, h5, ?_⟩
      rcases h6 with h | ⟨ha, hb, _⟩
      · exact Or.inl h
      · exact Or.inr ⟨ha, hb, Or.inr rfl⟩
    · exact ⟨h1, h2, h3, h4, h5, h6⟩
  | returned => simp only [stepR, hpc]; exact ⟨h1, h2, h3, h4, h5, h6⟩

theorem lemma_step_invB (waitH : Bool) (s : St) (t : Tok) (ht : t ≠ .pc) (h : InvB s) :
    InvB (step waitH s t) := by
  cases t with
  | h => exact lemma_stepH_invB s h
  | rd => exact lemma_stepR_invB waitH true s h
  | rc => exact lemma_stepR_invB waitH false s h
  | dl =>
    obtain ⟨h1, h2, h3, h4, h5, h6⟩ := h
    refine ⟨?_, h2, h3, h4, h5, h6⟩
    show (if s.ctx = .live then Ctx.deadline else s.ctx) ≠ .cancelled
    split <;> simp_all
  | pc => exact absurd rfl ht

theorem lemma_contains_false {α} [BEq α] [LawfulBEq α] (l : List α) (x : α) (h : l.contains x = false) :
    ∀ a ∈ l, a ≠ x := by
  intro a ha hax
  subst hax
  have : l.contains a = true := by simpa using ha
  rw [this] at h
  exact Bool.noConfusion h

/-- **Partial theorem.** Outside the three recorded classes — K10b (the parent context can be
    cancelled), K10a (a deadline is possible and the handler writes), K10d (a deadline is possible
    and the handler panics), each a decidable predicate on the *input* — the as-is middleware
    satisfies the whole timeout oracle whenever it has returned: for every handler program and
    every schedule of the two goroutines and the timer. -/
theorem timeout_partial (waitH : Bool) (prog : List HAct) (sched : List Tok)
    (ha : dK10a prog sched = false) (hb : dK10b prog sched = false) (hd : dK10d prog sched = false) :
    (run waitH sched (init prog)).rpc = .returned → timeoutOK (obsOf (run waitH sched (init prog))) = true := by
  intro hret
  simp only [dK10b, cancelPossible, Bool.or_eq_false_iff] at hb
  have hnpc_prog := lemma_contains_false _ _ hb.1
  have hnpc : ∀ t ∈ sched, t ≠ Tok.pc := lemma_contains_false _ _ hb.2
  have hR := lemma_t_run_induct waitH InvR (lemma_step_invR waitH) sched _ (lemma_init_invR prog)
  by_cases hdp : deadlinePossible prog sched = true
  · -- a deadline is possible: then the handler neither writes nor panics
    have hw : hasWrite prog = false := by simpa [dK10a, hdp] using ha
    have hp : hasPanic prog = false := by simpa [dK10d, hdp] using hd
    have hnw := lemma_contains_false _ _ hw
    have hnp : ∀ a ∈ prog, ∀ v, a ≠ HAct.panic v := by
      intro a ha' v hv
      subst hv
      have : hasPanic prog = true := by
        unfold hasPanic
        exact List.any_eq_true.mpr ⟨_, ha', rfl⟩
      simp [hp] at this
    have h0 : InvB (init prog) :=
      ⟨by simp [init], fun a ha' => ⟨hnpc_prog a ha', hnw a ha', hnp a ha'⟩, rfl, rfl, rfl, Or.inl ⟨rfl, rfl⟩⟩
    have hB := lemma_t_run_induct' waitH InvB (· ≠ Tok.pc) (fun s t ht h => lemma_step_invB waitH s t ht h)
      sched hnpc _ h0
    generalize run waitH sched (init prog) = s at *
    obtain ⟨_, _, b3, _, b5, b6⟩ := hB
    rcases b6 with ⟨hb1, hb2⟩ | ⟨hb1, hb2, _⟩
    · simp [timeoutOK, obsOf, b3, b5, hb1]
    · simp [timeoutOK, obsOf, b3, b5, hb1, hb2]
  · -- no deadline, no cancellation: the handler finishes first
    have hdp' : deadlinePossible prog sched = false := by simpa using hdp
    simp only [deadlinePossible, Bool.or_eq_false_iff] at hdp'
    have hndl_prog := lemma_contains_false _ _ hdp'.1
    have hndl : ∀ t ∈ sched, t ≠ Tok.dl := lemma_contains_false _ _ hdp'.2
    have h0 : InvA (init prog) :=
      ⟨rfl, fun a ha' => ⟨hndl_prog a ha', hnpc_prog a ha'⟩, rfl, rfl, rfl, by simp [init], Or.inl rfl⟩
    have hA := lemma_t_run_induct' waitH InvA (fun t => t ≠ Tok.dl ∧ t ≠ Tok.pc)
      (fun s t ht h => lemma_step_invA waitH s t ht h) sched (fun t ht => ⟨hndl t ht, hnpc t ht⟩) _ h0
    generalize run waitH sched (init prog) = s at *
    obtain ⟨a1, _, a3, _, a5, a6, _⟩ := hA
    have hrec := (hR.2 hret (by rw [a1]; simp)).2
    have hnot : s.body.contains Chunk.t408 = false := by
      cases hc : s.body.contains Chunk.t408
      · rfl
      · have hm : Chunk.t408 ∈ s.body := by simpa using hc
        have := List.count_pos_iff.mpr hm
        omega
    simp only [timeoutOK, obsOf, a3, hnot, a5]
    cases hp : s.panicChan.isSome
    · simp
    · simp
      exact a6 (by rw [hrec]; exact hp)

/-- non-vacuity of the partial theorem, both branches: a handler that writes and finishes with no
    deadline around; and an overrunning handler that honours the context -/
example :
    dK10a [.write, .write] [.h, .h, .h, .rd] = false ∧ dK10b [.write, .write] [.h, .h, .h, .rd] = false ∧
    dK10d [.write, .write] [.h, .h, .h, .rd] = false ∧
    (run false [.h, .h, .h, .rd] (init [.write, .write])).rpc = .returned ∧
    (run false [.h, .h, .h, .rd] (init [.write, .write])).body = [.h, .h] := by decide

example :
    let prog : List HAct := [.awaitCtx]
    let sched : List Tok := [.h, .dl, .rc, .h, .rc, .h, .rd]
    dK10a prog sched = false ∧ dK10b prog sched = false ∧ dK10d prog sched = false ∧
    (run false sched (init prog)).rpc = .returned ∧ (run false sched (init prog)).body = [.t408] ∧
    (run false sched (init prog)).timedOut = true := by decide


/-- what the driver computes for a harness case (`fair`, the handler-first / request-first
    scheduler) is the run of *a* schedule — so every theorem above that quantifies over schedules
    applies to it -/
theorem fair_is_a_schedule (waitH hFirst : Bool) (n : Nat) (s : St) :
    ∃ sched : List Tok, fair waitH hFirst n s = run waitH sched s := by
  induction n generalizing s with
  | zero => exact ⟨[], rfl⟩
  | succ n ih =>
    cases hFirst with
    | true =>
      simp only [fair, if_true]
      by_cases ha : (stepH s != s) = true
      · obtain ⟨sched, h⟩ := ih (stepH s)
        exact ⟨.h :: sched, by simp only [ha, if_true]; exact h⟩
      · by_cases hb : (stepR waitH true s != s) = true
        · obtain ⟨sched, h⟩ := ih (stepR waitH true s)
          exact ⟨.rd :: sched, by simp only [ha, hb, if_true]; exact h⟩
        · exact ⟨[], by simp only [ha, hb]; rfl⟩
    | false =>
      simp only [fair, Bool.false_eq_true, if_false]
      by_cases ha : (stepR waitH true s != s) = true
      · obtain ⟨sched, h⟩ := ih (stepR waitH true s)
        exact ⟨.rd :: sched, by simp only [ha, if_true]; exact h⟩
      · by_cases hb : (stepH s != s) = true
        · obtain ⟨sched, h⟩ := ih (stepH s)
          exact ⟨.h :: sched, by simp only [ha, hb, if_true]; exact h⟩
        · exact ⟨[], by simp only [ha, hb]; rfl⟩

/-- the same for the scheduler used under a real budget (it may let the timer fire) -/
theorem fairT_is_a_schedule (waitH hFirst : Bool) (n : Nat) (s : St) :
    ∃ sched : List Tok, fairT waitH hFirst n s = run waitH sched s := by
  induction n generalizing s with
  | zero => exact ⟨[], rfl⟩
  | succ n ih =>
    have hdl : ∀ x, (∃ sched, x = run waitH sched (step waitH s .dl)) → ∃ sched, x = run waitH sched s := by
      rintro x ⟨sched, h⟩; exact ⟨.dl :: sched, h⟩
    cases hFirst with
    | true =>
      simp only [fairT, if_true]
      by_cases ha : (stepH s != s) = true
      · obtain ⟨sched, h⟩ := ih (stepH s)
        exact ⟨.h :: sched, by simp only [ha, if_true]; exact h⟩
      · by_cases hb : (stepR waitH true s != s) = true
        · obtain ⟨sched, h⟩ := ih (stepR waitH true s)
          exact ⟨.rd :: sched, by simp only [ha, hb, if_true]; exact h⟩
        · simp only [ha, hb]
          by_cases hl : s.ctx = .live
          · simp only [hl, if_true]
            exact hdl _ (ih _)
          · simp only [hl]; exact ⟨[], rfl⟩
    | false =>
      simp only [fairT, Bool.false_eq_true, if_false]
      by_cases ha : (stepR waitH true s != s) = true
      · obtain ⟨sched, h⟩ := ih (stepR waitH true s)
        exact ⟨.rd :: sched, by simp only [ha, if_true]; exact h⟩
      · by_cases hb : (stepH s != s) = true
        · obtain ⟨sched, h⟩ := ih (stepH s)
          exact ⟨.h :: sched, by simp only [ha, hb, if_true]; exact h⟩
        · simp only [ha, hb]
          by_cases hl : s.ctx = .live
          · simp only [hl, if_true]
            exact hdl _ (ih _)
          · simp only [hl]; exact ⟨[], rfl⟩

/-- the timed chain behind the middleware: after the deadline the `Next` loop of the handler
    goroutine starts no further position — `[awaitCtx, awaitE, awaitT] ; guard ; [write] ; guard ; [write]` under
    the real timer answers 408 once and nothing else -/
example :
    let prog : List HAct := [.guard 7, .awaitCtx, .awaitE, .awaitT, .guard 3, .write, .guard 1, .write]
    let s := fairT false true 40 (init prog)
    s.rpc = .returned ∧ s.body = [.t408] ∧ s.status = some .t408 ∧ timeoutOK (obsOf s) = true := by decide

end TimeoutMw

end Rivaas.C10
