/- C10 — property theorems (stub: not built yet) -/
