import Rivaas.Spec.RealIP
import Rivaas.Model.RealIPText
import Rivaas.Model.RemoteAddr
/-
C18 — Client IP resolution cannot be spoofed by untrusted peers.
Property theorems only (helper lemmas are marked `private`/`lemma_` and sit above the theorem
that uses them). All statements quantify over every request, header content and hop limit.
-/
namespace Rivaas.C18
open Rivaas.RealIP

/-! ### helper lemmas about the walk -/

theorem lemma_seen_stays (mh : Nat) (l : List Item) (hops : Nat) (b : Option (Bytes × Bool))
    (hb : isUntrusted b) : isUntrusted (walk mh l hops true b) := by
  induction l generalizing hops b with
  | nil => simpa [walk] using hb
  | cons it rest ih =>
    match it with
    | none => simpa [walk] using ih hops b hb
    | some (ip, true) => simpa [walk] using hb
    | some (ip, false) => simpa [walk] using ih hops (some (ip, false)) (by simp [isUntrusted])

theorem lemma_walk_some (mh : Nat) (l : List Item) (hops : Nat) (seen : Bool)
    (b : Option (Bytes × Bool)) (hb : b.isSome) : (walk mh l hops seen b).isSome := by
  induction l generalizing hops seen b with
  | nil => simpa [walk] using hb
  | cons it rest ih =>
    match it with
    | none => simpa [walk] using ih hops seen b hb
    | some (ip, true) =>
      simp only [walk]
      split
      · exact hb
      · split
        · exact hb
        · exact ih _ _ _ (by simp)
    | some (ip, false) => simpa [walk] using ih hops true (some (ip, false)) (by simp)

/-- whatever the walk returns is one of the items it was given, or the initial boundary -/
theorem lemma_walk_mem (mh : Nat) (l : List Item) (hops : Nat) (seen : Bool)
    (b : Option (Bytes × Bool)) (x : Bytes × Bool) (h : walk mh l hops seen b = some x) :
    some x ∈ l ∨ b = some x := by
  induction l generalizing hops seen b with
  | nil => right; simpa [walk] using h
  | cons it rest ih =>
    match it with
    | none =>
      rcases ih hops seen b (by simpa [walk] using h) with h1 | h1
      · left; simp [h1]
      · right; exact h1
    | some (ip, true) =>
      simp only [walk] at h
      split at h
      · right; exact h
      · split at h
        · right; exact h
        · rcases ih _ _ _ h with h1 | h1
          · left; simp [h1]
          · left; simp [← h1]
    | some (ip, false) =>
      rcases ih hops true (some (ip, false)) (by simpa [walk] using h) with h1 | h1
      · left; simp [h1]
      · left; simp [← h1]

/-- with room for at least one hop, the walk yields an address as soon as one item parses -/
theorem lemma_walk_none (mh : Nat) (l : List Item) (hops : Nat)
    (hlt : hops < mh) (h : walk mh l hops false none = none) : ∀ it ∈ l, it = none := by
  induction l with
  | nil => simp
  | cons it rest ih =>
    match it with
    | none =>
      intro x hx
      simp only [List.mem_cons] at hx
      rcases hx with rfl | hx
      · rfl
      · exact ih (by simpa [walk] using h) x hx
    | some (ip, true) =>
      have hn : ¬ (hops ≥ mh) := by omega
      have h2 : walk mh rest (hops+1) false (some (ip, true)) = none := by
        simpa [walk, hn] using h
      have := lemma_walk_some mh rest (hops+1) false (some (ip, true)) (by simp)
      rw [h2] at this; simp at this
    | some (ip, false) =>
      have h2 : walk mh rest hops true (some (ip, false)) = none := by
        simpa [walk] using h
      have := lemma_walk_some mh rest hops true (some (ip, false)) (by simp)
      rw [h2] at this; simp at this

/-! ### property theorems -/

/-- **Non-interference.** If the directly connected peer is not trusted, forwarding headers have no
    influence: the result is the peer address for every header content. -/
theorem untrusted_peer_noninterference (r : Req) (h : r.peerTrusted = false) :
    clientIP r = r.peer := by
  simp [clientIP, h]

/-- Two requests that differ only in their headers resolve to the same address when the peer is
    untrusted (the relational form of non-interference). -/
theorem untrusted_peer_headers_irrelevant (r : Req) (hdrs' : List Hdr) (mh' : Nat)
    (h : r.peerTrusted = false) :
    clientIP { r with hdrs := hdrs', maxHops := mh' } = clientIP r := by
  simp [clientIP, h]

/-- **Hop-limit clause, on the walk.** If X-Forwarded-For names an untrusted address with at most
    `maxHops - hops` trusted addresses to its right, the walk ends on an untrusted address — never
    on a trusted proxy. Every item list, every hop limit. -/
theorem walk_never_trusted (mh : Nat) (l : List Item) (hops : Nat) (b : Option (Bytes × Bool))
    (hle : hops ≤ mh) (h : untrustedWithin (mh - hops) l = true) :
    isUntrusted (walk mh l hops false b) := by
  induction l generalizing hops b with
  | nil => simp [untrustedWithin] at h
  | cons it rest ih =>
    match it with
    | none => simpa [walk] using ih hops b hle (by simpa [untrustedWithin] using h)
    | some (ip, false) =>
      simpa [walk] using lemma_seen_stays mh rest hops (some (ip, false)) (by simp [isUntrusted])
    | some (ip, true) =>
      have hlt : hops < mh := by
        cases hm : mh - hops with
        | zero => rw [hm] at h; simp [untrustedWithin] at h
        | succ k => omega
      have h' : untrustedWithin (mh - (hops + 1)) rest = true := by
        have : mh - hops = (mh - (hops + 1)) + 1 := by omega
        rw [this] at h; simpa [untrustedWithin] using h
      have hn : ¬ (hops ≥ mh) := by omega
      simpa [walk, hn] using ih (hops + 1) (some (ip, true)) (by omega) h'

/-- **Hop-limit clause, on `lastUntrustedXFF`.** The address taken from X-Forwarded-For is one of
    the header's *untrusted* addresses whenever one lies within the hop limit. -/
theorem xff_never_trusted (mh : Nat) (items : List Item)
    (h : untrustedWithin mh items.reverse = true) :
    ∃ ip, lastUntrustedXFF mh items = some ip ∧ ip ∈ xffUntrusted items := by
  have hu := walk_never_trusted mh items.reverse 0 none (Nat.zero_le _) (by simpa using h)
  unfold lastUntrustedXFF
  match hw : walk mh items.reverse 0 false none with
  | none => simp [hw, isUntrusted] at hu
  | some (ip, true) => simp [hw, isUntrusted] at hu
  | some (ip, false) =>
    refine ⟨ip, by simp, ?_⟩
    rcases lemma_walk_mem _ _ _ _ _ _ hw with h1 | h1
    · simp only [xffUntrusted, List.mem_filterMap]
      exact ⟨some (ip, false), by simpa using h1, rfl⟩
    · simp at h1

/-- the address taken from X-Forwarded-For is always one of its valid IP literals -/
theorem xff_result_is_item (mh : Nat) (items : List Item) (ip : Bytes)
    (h : lastUntrustedXFF mh items = some ip) : ip ∈ hdrIPs (.xff items) := by
  unfold lastUntrustedXFF at h
  match hw : walk mh items.reverse 0 false none with
  | none => simp [hw] at h
  | some (ip', t) =>
    simp [hw] at h
    subst h
    rcases lemma_walk_mem _ _ _ _ _ _ hw with h1 | h1
    · simp only [hdrIPs, List.mem_filterMap]
      exact ⟨some (ip', t), by simpa using h1, rfl⟩
    · simp at h1

/-- a header yields an address exactly when it offers at least one valid IP literal -/
theorem hdr_yields_iff_offers (mh : Nat) (hmh : 1 ≤ mh) (h : Hdr) :
    (hdrValue mh h).isSome = hdrOffers h := by
  cases h with
  | single v => cases v <;> simp [hdrValue, hdrOffers, hdrIPs]
  | xff items =>
    simp only [hdrValue, hdrOffers, hdrIPs, lastUntrustedXFF, Option.isSome_map]
    match hw : walk mh items.reverse 0 false none with
    | some x =>
      rcases lemma_walk_mem _ _ _ _ _ _ hw with h1 | h1
      · have : (items.filterMap fun it => it.map (·.1)) ≠ [] := by
          intro hnil
          have hm : x.1 ∈ items.filterMap (fun it => it.map (·.1)) :=
            List.mem_filterMap.mpr ⟨some x, by simpa using h1, rfl⟩
          simp [hnil] at hm
        simp [this]
      · simp at h1
    | none =>
      have hall := lemma_walk_none mh items.reverse 0 (by omega) hw
      have : (items.filterMap fun it => it.map (·.1)) = [] := by
        apply List.filterMap_eq_nil_iff.mpr
        intro it hit
        have := hall it (by simpa using hit)
        simp [this]
      simp [this]

/-- **Main theorem.** For every request and configuration (hop limit ≥ 1, as `compileProxies`
    guarantees) the resolved address satisfies the whole C18 oracle: peer for an untrusted peer;
    otherwise a valid literal from the first configured header that offers one (documented header
    order), the peer if none does; and an untrusted address whenever X-Forwarded-For names one
    within the hop limit. -/
theorem clientIP_meets_spec (r : Req) (hmh : 1 ≤ r.maxHops) : specOK r (clientIP r) = true := by
  unfold specOK clientIP
  cases hpt : r.peerTrusted with
  | false => simp
  | true =>
    simp only [Bool.not_true, Bool.false_eq_true, if_false]
    generalize r.hdrs = hs
    induction hs with
    | nil => simp [firstHdr]
    | cons h rest ih =>
      have hy := hdr_yields_iff_offers r.maxHops hmh h
      simp only [firstHdr, List.find?]
      cases ho : hdrOffers h with
      | false =>
        rw [ho] at hy
        have : hdrValue r.maxHops h = none := by
          cases hv : hdrValue r.maxHops h <;> simp [hv] at hy ⊢
        simp only [this]
        exact ih
      | true =>
        rw [ho] at hy
        match hv : hdrValue r.maxHops h with
        | none => simp [hv] at hy
        | some ip =>
          simp only []
          cases h with
          | single v =>
            simp only [hdrValue] at hv
            simp [hdrIPs, hv]
          | xff items =>
            simp only [hdrValue] at hv
            have hm := xff_result_is_item _ _ _ hv
            simp only [Bool.and_eq_true, List.contains_iff_mem, hm, true_and]
            split
            · rename_i hw
              obtain ⟨ip', h1, h2⟩ := xff_never_trusted _ _ hw
              rw [hv] at h1
              cases h1
              simpa using h2
            · rfl

/-- the result is the peer or a syntactically valid IP literal of a configured header: never any
    other string -/
theorem result_is_peer_or_header_ip (r : Req) :
    clientIP r = r.peer ∨ ∃ h ∈ r.hdrs, clientIP r ∈ hdrIPs h := by
  unfold clientIP
  cases r.peerTrusted with
  | false => simp
  | true =>
    simp only [Bool.not_true, Bool.false_eq_true, if_false]
    generalize r.hdrs = hs
    induction hs with
    | nil => simp [firstHdr]
    | cons h rest ih =>
      simp only [firstHdr]
      match hv : hdrValue r.maxHops h with
      | some ip =>
        right
        refine ⟨h, by simp, ?_⟩
        cases h with
        | single v => simp only [hdrValue] at hv; simp [hdrIPs, hv]
        | xff items => exact xff_result_is_item _ _ _ hv
      | none =>
        simp only []
        rcases ih with h1 | ⟨h', hm, h2⟩
        · left; exact h1
        · right; exact ⟨h', by simp [hm], h2⟩

/-! ### the walk as shipped before the repair (findings K18a, K18b) -/

/-- K18a: maxHops = 1, `X-Forwarded-For: 9.9.9.9, 10.0.0.2` → the trusted proxy `10.0.0.2` -/
theorem asis_offbyone_witness :
    walkAsIs 1 [some (['2'], true), some (['9'], false)] 0 none = some (['2'], true) := by decide

/-- K18b: `X-Forwarded-For: 127.0.0.1, 9.9.9.9` → the spoofed trusted address, any generous limit -/
theorem asis_spoof_witness :
    walkAsIs 5 [some (['9'], false), some (['L'], true)] 0 none = some (['L'], true) := by decide

/-- the repaired walk on the same two inputs -/
theorem fixed_on_witnesses :
    walk 1 [some (['2'], true), some (['9'], false)] 0 false none = some (['9'], false) ∧
    walk 5 [some (['9'], false), some (['L'], true)] 0 false none = some (['9'], false) := by decide

/-! ### non-vacuity -/

/-- the hypotheses of `walk_never_trusted` / `clientIP_meets_spec` are met by a concrete request
    with a trusted peer, two headers and a three-item chain -/
example :
    let r : Req := { maxHops := 2, peer := ['p'], peerTrusted := true,
                     hdrs := [.single none, .xff [some (['c'], false), some (['a'], true), none, some (['b'], true)]] }
    1 ≤ r.maxHops ∧ untrustedWithin 2 [some (['b'], true), none, some (['a'], true), some (['c'], false)] = true ∧
    clientIP r = ['c'] := by decide


/-! ### the text layer: `splitAndTrim`, `parseOneIP` -/

/-- `strings.Join(parts, ",")` -/
def joinComma : List Bytes → Bytes
  | [] => []
  | [x] => x
  | x :: y :: rest => x ++ ',' :: joinComma (y :: rest)

theorem lemma_splitComma_ne_nil (s cur : Bytes) : splitComma s cur ≠ [] := by
  induction s generalizing cur with
  | nil => simp [splitComma]
  | cons c cs ih =>
    simp only [splitComma]
    split
    · simp
    · exact ih _

/-- splitting on commas loses nothing: joining the fields gives the header value back -/
theorem splitComma_join (s cur : Bytes) : joinComma (splitComma s cur) = cur.reverse ++ s := by
  induction s generalizing cur with
  | nil => simp [splitComma, joinComma]
  | cons c cs ih =>
    simp only [splitComma]
    split
    · rename_i hc
      have hc' : c = ',' := by simpa using hc
      have hne := lemma_splitComma_ne_nil cs []
      match hsp : splitComma cs [] with
      | [] => exact absurd hsp hne
      | y :: rest =>
        have := ih []
        rw [hsp] at this
        simp [joinComma, this, hc']
    · rw [ih]; simp

theorem lemma_splitComma_no_comma (s cur : Bytes) (hcur : ',' ∉ cur) :
    ∀ p ∈ splitComma s cur, ',' ∉ p := by
  induction s generalizing cur with
  | nil => intro p hp; simp [splitComma] at hp; subst hp; simpa using hcur
  | cons c cs ih =>
    intro p hp
    simp only [splitComma] at hp
    split at hp
    · simp only [List.mem_cons] at hp
      rcases hp with rfl | hp
      · simpa using hcur
      · exact ih [] (by simp) p hp
    · rename_i hc
      exact ih (c :: cur) (by
        intro hm
        simp only [List.mem_cons] at hm
        rcases hm with h | h
        · exact hc (by simp [← h])
        · exact hcur h) p hp

theorem lemma_stripPrefix_some (p s r : Bytes) (h : stripPrefix p s = some r) : s = p ++ r := by
  induction p generalizing s with
  | nil => simp [stripPrefix] at h; simp [h]
  | cons a p ih =>
    cases s with
    | nil => simp [stripPrefix] at h
    | cons c s =>
      simp only [stripPrefix] at h
      split at h
      · rename_i hac
        have : a = c := by simpa using hac
        subst this
        simp [ih s h]
      · simp at h

theorem lemma_stripOne_some (ps : List Bytes) (s r : Bytes) (h : stripOne ps s = some r) :
    ∃ p ∈ ps, s = p ++ r := by
  induction ps with
  | nil => simp [stripOne] at h
  | cons p ps ih =>
    simp only [stripOne] at h
    match hp : stripPrefix p s with
    | some r' =>
      simp only [hp, Option.some.injEq] at h
      subst h
      exact ⟨p, by simp, lemma_stripPrefix_some p s r' hp⟩
    | none =>
      simp only [hp] at h
      obtain ⟨q, hq, e⟩ := ih h
      exact ⟨q, by simp [hq], e⟩

/-- what `trimWith` returns is a suffix of its input: no byte is invented or reordered -/
theorem lemma_trimWith_suffix (pats : List Bytes) (n : Nat) (s : Bytes) :
    ∃ pre, s = pre ++ trimWith pats n s := by
  induction n generalizing s with
  | zero => exact ⟨[], by simp [trimWith]⟩
  | succ n ih =>
    simp only [trimWith]
    match h : stripOne pats s with
    | none => exact ⟨[], by simp⟩
    | some r =>
      obtain ⟨p, _, e⟩ := lemma_stripOne_some pats s r h
      obtain ⟨pre, e2⟩ := ih r
      exact ⟨p ++ pre, by rw [e]; simp only []; rw [List.append_assoc, ← e2]⟩

/-- **fuel adequacy**: with fuel ≥ length (what `trimLeft`/`trimRight` pass) the result has no strippable
    prefix left — the fuel never cuts the trim short -/
theorem lemma_trimWith_fixed (pats : List Bytes) (hne : ∀ p ∈ pats, p ≠ []) (n : Nat) (s : Bytes)
    (hn : s.length ≤ n) : stripOne pats (trimWith pats n s) = none := by
  induction n generalizing s with
  | zero =>
    have : s = [] := by cases s with | nil => rfl | cons _ _ => simp at hn
    subst this
    simp only [trimWith]
    match h : stripOne pats [] with
    | none => rfl
    | some r =>
      obtain ⟨p, hp, e⟩ := lemma_stripOne_some pats [] r h
      have : p = [] := by
        cases p with | nil => rfl | cons _ _ => simp at e
      exact absurd this (hne p hp)
  | succ n ih =>
    simp only [trimWith]
    match h : stripOne pats s with
    | none => simp [h]
    | some r =>
      simp only []
      obtain ⟨p, hp, e⟩ := lemma_stripOne_some pats s r h
      have hpl : 0 < p.length := by
        cases p with | nil => exact absurd rfl (hne [] hp) | cons _ _ => simp
      apply ih
      have : s.length = p.length + r.length := by rw [e]; simp
      omega

theorem lemma_spacePats_ne : ∀ p ∈ spacePats, p ≠ [] := by decide
theorem lemma_spacePatsRev_ne : ∀ p ∈ spacePats.map List.reverse, p ≠ [] := by decide

theorem lemma_trimLeft_sub (s : Bytes) : ∀ c ∈ trimLeft s, c ∈ s := by
  intro c hc
  obtain ⟨pre, e⟩ := lemma_trimWith_suffix spacePats s.length s
  unfold trimLeft at hc
  rw [e]; simp [hc]

theorem lemma_trimRight_sub (s : Bytes) : ∀ c ∈ trimRight s, c ∈ s := by
  intro c hc
  obtain ⟨pre, e⟩ := lemma_trimWith_suffix (spacePats.map List.reverse) s.length s.reverse
  unfold trimRight at hc
  have : c ∈ s.reverse := by rw [e]; simp [List.mem_reverse.mp hc]
  simpa using this

theorem lemma_trim_sub (s : Bytes) : ∀ c ∈ trim s, c ∈ s := by
  intro c hc
  exact lemma_trimLeft_sub s c (lemma_trimRight_sub _ c hc)

/-- after the trim the string neither begins nor ends with a white-space rune -/
theorem trim_is_fixed (s : Bytes) :
    stripOne (spacePats.map List.reverse) (trim s).reverse = none := by
  unfold trim trimRight
  simp only [List.reverse_reverse]
  exact lemma_trimWith_fixed _ lemma_spacePatsRev_ne _ _ (by simp)

theorem trimLeft_is_fixed (s : Bytes) : stripOne spacePats (trimLeft s) = none :=
  lemma_trimWith_fixed _ lemma_spacePats_ne _ _ (Nat.le_refl _)

theorem lemma_no_space_head (t : Bytes) (h : stripOne (spacePats.map List.reverse) t = none) :
    ∀ c rest, t = c :: rest → isSpace c = false := by
  intro c rest e
  subst e
  cases hc : isSpace c with
  | false => rfl
  | true =>
    exfalso
    have hc' : ((((c = ' ' ∨ c = '\t') ∨ c = '\n') ∨ c = '\x0b') ∨ c = '\x0c') ∨ c = '\r' := by
      simpa [isSpace] using hc
    rcases hc' with ((((rfl | rfl) | rfl) | rfl) | rfl) | rfl <;>
      simp [spacePats, stripOne, stripPrefix] at h

/-- **`splitAndTrim` yields clean candidates.** Every item handed to `parseOneIP` is non-empty,
    contains no comma and does not end in a white-space rune (`trim_is_fixed`; here: not in ASCII white space); and no byte is invented
    (each byte of an item is a byte of the header). -/
theorem splitAndTrim_items_clean (s : Bytes) :
    ∀ p ∈ splitAndTrim s, p ≠ [] ∧ ',' ∉ p ∧ (∀ c ∈ p, c ∈ s) ∧
      (∀ c rest, p.reverse = c :: rest → isSpace c = false) := by
  intro p hp
  unfold splitAndTrim at hp
  split at hp
  · simp at hp
  · simp only [List.mem_filter, List.mem_map] at hp
    obtain ⟨⟨q, hq, rfl⟩, hne⟩ := hp
    have hnc := lemma_splitComma_no_comma s [] (by simp) q hq
    have hsub : ∀ c ∈ q, c ∈ s := by
      intro c hc
      have hj := splitComma_join s []
      have : c ∈ joinComma (splitComma s []) := by
        generalize splitComma s [] = l at hq
        induction l with
        | nil => simp at hq
        | cons x xs ihx =>
          cases xs with
          | nil => simp at hq; subst hq; simpa [joinComma] using hc
          | cons y ys =>
            simp only [List.mem_cons] at hq
            rcases hq with rfl | hq
            · simp [joinComma, hc]
            · have := ihx (by simpa using hq)
              simp only [joinComma, List.mem_append, List.mem_cons]
              right; right; exact this
      simpa [hj] using this
    refine ⟨by simpa using hne, ?_, ?_, ?_⟩
    · intro hm; exact hnc (lemma_trim_sub q _ hm)
    · intro c hc; exact hsub c (lemma_trim_sub q c hc)
    · intro c rest h
      exact lemma_no_space_head _ (trim_is_fixed q) c rest h

/-- **Non-interference on the raw request.** With an untrusted peer the answer is the peer address
    for every header text whatsoever (whenever the case's `net` table covers the items). -/
theorem untrusted_peer_noninterference_raw (r : RawReq) (h : r.peerTrusted = false) (res : Bytes)
    (hres : clientIPRaw r = some res) : res = r.peer := by
  unfold clientIPRaw at hres
  match hp : r.parse with
  | none => simp [hp] at hres
  | some q =>
    simp only [hp, Option.map_some, Option.some.injEq] at hres
    have hq : q.peerTrusted = false ∧ q.peer = r.peer := by
      unfold RawReq.parse at hp
      match hm : r.hdrs.mapM (parseHdr r.tbl) with
      | none => simp [hm] at hp
      | some hs => simp [hm] at hp; subst hp; exact ⟨h, rfl⟩
    rw [← hres, untrusted_peer_noninterference q hq.1, hq.2]

/-- **The whole oracle on the raw request**: whatever the header text, the answer computed through
    `splitAndTrim`/`parseOneIP`/the walk satisfies the C18 oracle of the parsed request. -/
theorem clientIPRaw_meets_spec (r : RawReq) (hmh : 1 ≤ r.maxHops) (q : Req) (res : Bytes)
    (hq : r.parse = some q) (hres : clientIPRaw r = some res) : specOK q res = true := by
  unfold clientIPRaw at hres
  simp only [hq, Option.map_some, Option.some.injEq] at hres
  have hm : q.maxHops = r.maxHops := by
    unfold RawReq.parse at hq
    match hm : r.hdrs.mapM (parseHdr r.tbl) with
    | none => simp [hm] at hq
    | some hs => simp [hm] at hq; subst hq; rfl
  rw [← hres]
  exact clientIP_meets_spec q (by omega)

example : splitAndTrim " 1.1.1.1 ,, 10.0.0.1,x ".toList = ["1.1.1.1".toList, "10.0.0.1".toList, ['x']] := by decide


/-! ### the RemoteAddr layer: `net.SplitHostPort`, `clientIPFromRemoteAddr` -/

theorem lemma_idxOf_none (c : Char) (s : Bytes) (h : c ∉ s) : idxOf c s = none := by
  induction s with
  | nil => rfl
  | cons x xs ih =>
    have hx : (x == c) = false := by
      simp only [List.mem_cons, not_or] at h
      simpa using fun e => h.1 e.symm
    simp only [List.mem_cons, not_or] at h
    simp [idxOf, hx, ih h.2]

theorem lemma_idxOf_some_mem (c : Char) (s : Bytes) (k : Nat) (h : idxOf c s = some k) : c ∈ s := by
  induction s generalizing k with
  | nil => simp [idxOf] at h
  | cons x xs ih =>
    simp only [idxOf] at h
    split at h
    · rename_i hx; simp at hx; simp [hx]
    · match hi : idxOf c xs with
      | none => simp [hi] at h
      | some j => exact List.mem_cons_of_mem _ (ih j hi)

theorem lemma_idxOf_append (c : Char) (a b : Bytes) (h : c ∉ a) : idxOf c (a ++ c :: b) = some a.length := by
  induction a with
  | nil => simp [idxOf]
  | cons x xs ih =>
    simp only [List.mem_cons, not_or] at h
    have hx : (x == c) = false := by simpa using fun e => h.1 e.symm
    simp [idxOf, hx, ih h.2]

theorem lemma_lastIdxOf_append (c : Char) (a b : Bytes) (h : c ∉ b) :
    lastIdxOf c (a ++ c :: b) = some a.length := by
  unfold lastIdxOf
  have hr : (a ++ c :: b).reverse = b.reverse ++ c :: a.reverse := by simp
  rw [hr, lemma_idxOf_append c b.reverse a.reverse (by simpa using h)]
  simp only [Option.map_some, List.length_reverse, List.length_append, List.length_cons]
  congr 1
  omega

theorem lemma_isSome_idxOf (c : Char) (s : Bytes) : (idxOf c s).isSome = true ↔ c ∈ s := by
  constructor
  · intro h
    match hi : idxOf c s with
    | none => simp [hi] at h
    | some k => exact lemma_idxOf_some_mem c s k hi
  · intro h
    match hi : idxOf c s with
    | none =>
      exfalso
      induction s with
      | nil => simp at h
      | cons x xs ih =>
        simp only [idxOf] at hi
        split at hi
        · simp at hi
        · rename_i hx
          simp only [List.mem_cons] at h
          rcases h with rfl | h
          · simp at hx
          · match hj : idxOf c xs with
            | none => exact ih h hj
            | some j => simp [hj] at hi
    | some k => simp

/-- a host or port text as the statement's forms use it: no colon, no bracket -/
def Plain (s : Bytes) : Prop := ':' ∉ s ∧ '[' ∉ s ∧ ']' ∉ s

/-- **`ip:port`** — for every host without colon/bracket (any IPv4 literal, any host name) and every port,
    `clientIPFromRemoteAddr` yields exactly the host. -/
theorem peerOf_host_port (host port : Bytes) (hh : Plain host) (hp : Plain port) (hne : host ≠ []) :
    peerOf (host ++ ':' :: port) = host := by
  obtain ⟨h1, h2, h3⟩ := hh
  obtain ⟨p1, p2, p3⟩ := hp
  have hhead : (host ++ ':' :: port).head? ≠ some '[' := by
    cases host with
    | nil => exact absurd rfl hne
    | cons x xs =>
      simp only [List.cons_append, List.head?_cons, ne_eq, Option.some.injEq]
      intro e; exact h2 (by simp [e])
  have hb1 : '[' ∉ host ++ ':' :: port := by simp [h2, p2]
  have hb2 : ']' ∉ host ++ ':' :: port := by simp [h3, p3]
  unfold peerOf splitHostPort
  rw [lemma_lastIdxOf_append ':' host port p1]
  have e1 : ((host ++ ':' :: port).head? == some '[') = false := by simpa using hhead
  simp only [e1, Bool.false_eq_true, if_false, List.take_left']
  rw [lemma_idxOf_none ':' host h1, lemma_idxOf_none '[' _ hb1, lemma_idxOf_none ']' _ hb2]
  simp

/-- **`[v6]:port`** — for every bracketed host without brackets inside (any IPv6 literal, zones included)
    and every port, `clientIPFromRemoteAddr` yields exactly the text between the brackets. -/
theorem peerOf_bracket_port (h6 port : Bytes) (hb : '[' ∉ h6 ∧ ']' ∉ h6) (hp : Plain port) :
    peerOf ('[' :: h6 ++ ']' :: ':' :: port) = h6 := by
  obtain ⟨b1, b2⟩ := hb
  obtain ⟨p1, p2, p3⟩ := hp
  unfold peerOf splitHostPort
  have hl : lastIdxOf ':' ('[' :: h6 ++ ']' :: ':' :: port) = some (h6.length + 2) := by
    have := lemma_lastIdxOf_append ':' ('[' :: h6 ++ [']']) port p1
    simpa [List.append_assoc] using this
  have hi : idxOf ']' ('[' :: h6 ++ ']' :: ':' :: port) = some (h6.length + 1) := by
    have := lemma_idxOf_append ']' ('[' :: h6) (':' :: port) (by simp [b2])
    simpa using this
  rw [hl]
  simp only [List.cons_append, List.head?_cons, beq_self_eq_true, if_true, List.isEmpty_cons,
    Bool.false_eq_true, if_false]
  have hi' : idxOf ']' ('[' :: (h6 ++ ']' :: ':' :: port)) = some (h6.length + 1) := by simpa using hi
  rw [hi']
  have hlen : ¬ (h6.length + 1 + 1 = ('[' :: (h6 ++ ']' :: ':' :: port)).length) := by
    simp only [List.length_cons, List.length_append]; omega
  simp only [beq_iff_eq, hlen, if_false, if_true]
  have e2 : idxOf '[' (List.drop 1 ('[' :: (h6 ++ ']' :: ':' :: port))) = none := by
    simp only [List.drop_succ_cons, List.drop_zero]
    exact lemma_idxOf_none _ _ (by simp [b1, p2])
  have e3 : idxOf ']' (List.drop (h6.length + 1 + 1) ('[' :: (h6 ++ ']' :: ':' :: port))) = none := by
    have : List.drop (h6.length + 1 + 1) ('[' :: (h6 ++ ']' :: ':' :: port)) = ':' :: port := by
      simp [List.drop_append]
    rw [this]
    exact lemma_idxOf_none _ _ (by simp [p3])
  rw [e2, e3]
  simp

/-- **bare address** — a RemoteAddr without any colon (bare IPv4, a name) is returned as it is -/
theorem peerOf_bare (addr : Bytes) (h : ':' ∉ addr) : peerOf addr = addr := by
  unfold peerOf
  split
  · rename_i he
    have : addr = [] := by simpa using he
    simp [this]
  · have : splitHostPort addr = none := by
      unfold splitHostPort lastIdxOf
      rw [lemma_idxOf_none ':' addr.reverse (by simpa using h)]
      rfl
    rw [this]

/-- **bare IPv6** — a RemoteAddr with two or more colons and no brackets (a bare IPv6 literal) makes
    `net.SplitHostPort` fail ("too many colons") and is returned as it is -/
theorem peerOf_bare_v6 (a b c : Bytes) (hc : ':' ∉ c) (hb : '[' ∉ a ++ ':' :: b ++ ':' :: c) :
    peerOf (a ++ ':' :: b ++ ':' :: c) = a ++ ':' :: b ++ ':' :: c := by
  unfold peerOf
  split
  · rename_i he; simp at he
  · have hs : splitHostPort (a ++ ':' :: b ++ ':' :: c) = none := by
      unfold splitHostPort
      rw [lemma_lastIdxOf_append ':' (a ++ ':' :: b) c hc]
      have hhead : ((a ++ ':' :: b ++ ':' :: c).head? == some '[') = false := by
        cases a with
        | nil => simp
        | cons x xs =>
          simp only [List.cons_append, List.head?_cons, beq_eq_false_iff_ne, ne_eq, Option.some.injEq]
          intro e; exact hb (by simp [e])
      simp only [hhead, Bool.false_eq_true, if_false, List.take_left']
      have : (idxOf ':' (a ++ ':' :: b)).isSome = true := (lemma_isSome_idxOf _ _).mpr (by simp)
      simp [this]
    rw [hs]

/-- **Non-interference from the wire.** Whatever the RemoteAddr form and whatever the header text: if the
    peer (`clientIPFromRemoteAddr(RemoteAddr)`) is not trusted, `ClientIP()` is that peer. -/
theorem untrusted_peer_noninterference_wire (w : WireReq) (res : Bytes)
    (hpt : peerTrusted w.tbl (peerOf w.remoteAddr) = some false) (hres : clientIPWire w = some res) :
    res = peerOf w.remoteAddr := by
  unfold clientIPWire WireReq.toRaw at hres
  simp only [hpt, Option.bind_eq_bind, Option.bind_some, Option.pure_def] at hres
  exact untrusted_peer_noninterference_raw _ rfl res hres

/-- the three forms on concrete addresses (also non-vacuity of the four lemmas above) -/
example : peerOf "203.0.113.7:443".toList = "203.0.113.7".toList ∧
          peerOf "[2001:db8::1%eth0]:8080".toList = "2001:db8::1%eth0".toList ∧
          peerOf "10.0.0.1".toList = "10.0.0.1".toList ∧
          peerOf "2001:db8::1".toList = "2001:db8::1".toList ∧
          peerOf "[::1]".toList = "[::1]".toList ∧ peerOf [] = [] := by decide

/-! ## `IsLocalhost()` — a helper computed from `ClientIP()` alone (Tie: `isLocalhost_from_clientIP_only`) -/

/-- with an untrusted peer `IsLocalhost()` is a function of the peer address: no forwarding header can make a
    remote client look local (or a local one remote) -/
theorem untrusted_peer_isLocalhost (r : Req) (h : r.peerTrusted = false) :
    isLocalhost r = isLocalhostOf r.peer := by
  simp [isLocalhost, untrusted_peer_noninterference r h]

theorem untrusted_peer_isLocalhost_headers_irrelevant (r : Req) (hdrs' : List Hdr) (mh' : Nat)
    (h : r.peerTrusted = false) :
    isLocalhost { r with hdrs := hdrs', maxHops := mh' } = isLocalhost r := by
  simp [isLocalhost, untrusted_peer_headers_irrelevant r hdrs' mh' h]

/-- non-vacuity: an untrusted remote peer that sends `X-Forwarded-For: 127.0.0.1` is not local; the same header
    through a trusted proxy decides (that is what trusting the proxy means) -/
example :
    isLocalhost { maxHops := 1, peer := "203.0.113.7".toList, peerTrusted := false,
                  hdrs := [.xff [some ("127.0.0.1".toList, false)]] } = false ∧
    isLocalhost { maxHops := 1, peer := "10.0.0.1".toList, peerTrusted := true,
                  hdrs := [.xff [some ("127.0.0.1".toList, false)]] } = true ∧
    isLocalhostOf "127.8.9.1".toList = true ∧ isLocalhostOf "::1".toList = true ∧
    isLocalhostOf "1270.0.0.1".toList = false := by decide

/-! ## the hop limit as configured -/

theorem compileMaxHops_ge_one (configured : Int) : 1 ≤ compileMaxHops configured := by
  unfold compileMaxHops
  split
  · exact Nat.le_refl 1
  · omega

/-- **the whole oracle, for every configured hop limit** (zero, negative, huge): the hypothesis `1 ≤ maxHops` of
    `clientIP_meets_spec` is what `compileProxies` establishes -/
theorem clientIP_meets_spec_compiled (r : Req) (configured : Int) :
    specOK { r with maxHops := compileMaxHops configured } (clientIP { r with maxHops := compileMaxHops configured }) = true :=
  clientIP_meets_spec _ (compileMaxHops_ge_one configured)

example : compileMaxHops 0 = 1 ∧ compileMaxHops (-100) = 1 ∧ compileMaxHops 3 = 3 := by decide

/-! ## the third clause for every header order (review item C18-1): partial, finding K18c -/

theorem lemma_names_offers (mh : Nat) (h : Hdr) (hn : xffNamesUntrusted mh h = true) : hdrOffers h = true := by
  cases h with
  | single v => simp [xffNamesUntrusted] at hn
  | xff items =>
    simp only [xffNamesUntrusted] at hn
    -- an untrusted item within the limit is an item that parses
    have key : ∀ (b : Nat) (l : List Item), untrustedWithin b l = true → ∃ ip t, some (ip, t) ∈ l := by
      intro b l
      induction l generalizing b with
      | nil => intro h; simp [untrustedWithin] at h
      | cons it rest ih =>
        intro h
        match it, b, h with
        | none, b, h =>
          obtain ⟨ip, t, hm⟩ := ih b (by simpa [untrustedWithin] using h)
          exact ⟨ip, t, List.mem_cons_of_mem _ hm⟩
        | some (ip, false), _, _ => exact ⟨ip, false, List.mem_cons_self ..⟩
        | some (ip, true), _, _ => exact ⟨ip, true, List.mem_cons_self ..⟩
    obtain ⟨ip, t, hm⟩ := key _ _ hn
    have hm' : some (ip, t) ∈ items := List.mem_reverse.mp hm
    unfold hdrOffers hdrIPs
    simp only [Bool.not_eq_true', List.isEmpty_eq_false_iff, ne_eq]
    intro hnil
    have : ip ∈ items.filterMap (fun it => it.map (·.1)) := List.mem_filterMap.mpr ⟨some (ip, t), hm', rfl⟩
    rw [hnil] at this
    simp at this

/-- **the third clause for every header order, outside the recorded class** (`tr` = "lies inside a trusted CIDR",
    consistent with the classification of the X-Forwarded-For items): unless a header in front of the deciding
    X-Forwarded-For shadows it (`shadowed`, finding K18c), the result is never a trusted proxy's address when some
    configured X-Forwarded-For names an untrusted address within the hop limit -/
theorem clientIP_strict_partial (r : Req) (hmh : 1 ≤ r.maxHops) (tr : Bytes → Bool)
    (htr : ∀ items, Hdr.xff items ∈ r.hdrs → ∀ ip b, some (ip, b) ∈ items → tr ip = b)
    (hD : shadowed r = false) : strictOK r (tr (clientIP r)) = true := by
  unfold strictOK
  by_cases hc : (r.peerTrusted && r.hdrs.any (xffNamesUntrusted r.maxHops)) = true
  · simp only [hc, Bool.not_true, Bool.false_or, Bool.not_eq_true']
    have hpt : r.peerTrusted = true := by
      cases h : r.peerTrusted <;> simp [h] at hc ⊢
    have hspec := clientIP_meets_spec r hmh
    unfold specOK at hspec
    simp only [hpt, Bool.not_true, Bool.false_eq_true, if_false] at hspec
    unfold shadowed at hD
    simp only [hc, Bool.true_and] at hD
    cases hf : r.hdrs.find? hdrOffers with
    | none =>
      -- some header names an untrusted address, hence offers one
      exfalso
      simp only [Bool.and_eq_true, List.any_eq_true] at hc
      obtain ⟨_, h, hh, hn⟩ := hc
      have := List.find?_eq_none.mp hf h hh
      exact this (lemma_names_offers _ h hn)
    | some h0 =>
      simp only [hf, Bool.not_eq_eq_eq_not, Bool.not_false] at hD
      simp only [hf] at hspec
      cases h0 with
      | single v => simp [xffNamesUntrusted] at hD
      | xff items =>
        simp only [xffNamesUntrusted] at hD
        simp only [hD, if_true, Bool.and_eq_true] at hspec
        have hmem : clientIP r ∈ xffUntrusted items := by
          have := hspec.2
          simpa using this
        unfold xffUntrusted at hmem
        obtain ⟨it, hit, hm⟩ := List.mem_filterMap.mp hmem
        have hin : Hdr.xff items ∈ r.hdrs := List.mem_of_find?_eq_some hf
        match it, hm with
        | some (ip, false), hm =>
          simp only [Option.some.injEq] at hm
          rw [← hm]
          exact htr items hin ip false hit
  · simp only [Bool.not_eq_true] at hc
    simp [hc]

/-- K18c, the witness (confirmed on the real code): headers configured as [X-Real-IP, X-Forwarded-For], hop limit 2,
    trusted peer 10.0.0.1, `X-Real-IP: 10.0.0.2` (a trusted proxy), `X-Forwarded-For: 9.9.9.9, 10.0.0.2` — the answer
    is the trusted proxy 10.0.0.2 although X-Forwarded-For names the untrusted 9.9.9.9 within the hop limit. The
    documented header order is kept (`specOK`), the literal clause is not (`strictOK`). -/
theorem header_order_shadows_xff_witness :
    let r : Req := { maxHops := 2, peer := "10.0.0.1".toList, peerTrusted := true,
                     hdrs := [.single (some "10.0.0.2".toList),
                              .xff [some ("9.9.9.9".toList, false), some ("10.0.0.2".toList, true)]] }
    clientIP r = "10.0.0.2".toList ∧ specOK r (clientIP r) = true ∧ shadowed r = true ∧
    strictOK r true = false ∧
    -- with X-Forwarded-For first the same request resolves to the client
    clientIP { r with hdrs := r.hdrs.reverse } = "9.9.9.9".toList := by decide

end Rivaas.C18
