import Rivaas.Lemmas.LifecycleIndep
import Rivaas.Lemmas.ReloadMutex
import Rivaas.Model.LifecycleSkel
/-
C09 — Application lifecycle is ordered and shutdown is graceful. Property theorems.

The statement, clause by clause, for the model of the code as it is in /repo now (`current = repaired`,
after the fix commits for K09a–e), for *every* scenario: arbitrary lists of hooks of each kind, every
assignment of behaviours (ok / error / panic / blocks until the context ends / signal arrives during the
hook), listen faults, in-flight requests released at arbitrary points or never, arbitrary reload rounds
(programmatic or SIGHUP, failing, panicking, with the signal arriving inside), and both outcomes of
net/http's one-shot idle check. Helper lemmas live in `Lemmas/Lifecycle*.lean`.
-/
namespace Rivaas.C09
open Rivaas.Lifecycle Rivaas.Lifecycle.Spec

/-- the code in /repo carries all five repairs -/
theorem current_is_repaired : current = repaired := rfl

/-- **C09, main theorem.** For every scenario — arbitrary lists of hooks of each kind with arbitrary fault
    assignments, listen faults, in-flight requests with arbitrary release points, arbitrary reload rounds
    and signal positions — and either outcome of net/http's one-shot idle check, what the model of the
    repaired code does is in the lifecycle language. -/
theorem run_in_language (sc : Scenario) (race : Bool) : holds sc (run repaired sc race) = true := by
  have hout := startHooks_out sc.metrics 0 false sc.starts
  have hcan := startHooks_cancelled sc.metrics 0 false sc.starts
  unfold run runSegs
  simp only []
  cases hf : sc.starts.find? startFails with
  | some bb =>
    rw [hf] at hout
    have hbb : startFails bb = true := by have := List.find?_some hf; simpa using this
    have hcond : ((sc.starts.find? startFails).isNone && sc.listen == Listen.ok) = false := by simp [hf]
    cases bb with
    | ok => simp [startFails] at hbb
    | cancelOk => simp [startFails] at hbb
    | panic =>
      simp only at hout
      simp only [hout]
      exact lemma_failed sc false .panic sc.metrics true false hcond (by rw [hf])
    | err =>
      simp only at hout
      simp only [hout]
      exact lemma_failed sc false .errStartup (sc.metrics && !repaired.b) (!repaired.g) sc.tracing hcond
        (by rw [hf]; exact ⟨rfl, by simp [repaired], rfl⟩)
    | block =>
      simp only at hout
      simp only [hout]
      exact lemma_failed sc false .errStartup (sc.metrics && !repaired.b) (!repaired.g) sc.tracing hcond
        (by rw [hf]; exact ⟨rfl, by simp [repaired], rfl⟩)
  | none =>
    rw [hf] at hout
    simp only at hout
    simp only [hout]
    by_cases hl : sc.listen = Listen.ok
    · simp only [hl, bne_self_eq_false, Bool.false_eq_true, if_false]
      by_cases hc : (startHooks sc.metrics 0 false sc.starts).cancelled = true
      · -- the signal arrived during start-up
        simp only [hc, if_true]
        apply lemma_shutdown sc race false _ _ _ hf hl (lemma_naRounds sc)
        refine ⟨⟨false, rfl⟩, rfl, rfl, kindsIn_nil _, kindsIn_nil _, kindsIn_nil _, rfl, by simp [ids_nil], ?_,
          rfl, rfl, rfl, rfl⟩
        rcases hcan hc with h | h
        · cases h
        · simp only [Segs.before, List.append_nil]
          exact lemma_any_append_left _ _ h
      · -- the environment sends its requests, reloads, and then the signal
        simp only [hc, Bool.false_eq_true, if_false]
        obtain ⟨r', inv⟩ := LoopInv.rounds repaired sc.nReload _ 0 sc.rounds (LoopInv.init repaired)
        have hdead := inv.dead rfl
        simp only [hdead, Bool.false_eq_true, if_false]
        apply lemma_shutdown sc race true _ _ _ hf hl (inv.res rfl)
        have hpost : (roundsFrom repaired sc.nReload ⟨[], [], false, false, []⟩ 0 sc.rounds).post.all
            (isEnvReload sc) = true := by
          apply List.all_eq_true.mpr
          intro e he
          obtain ⟨r', rd', h1, h2, h3⟩ := roundsFrom_post_env repaired sc.nReload sc.rounds _ 0 sc.rounds rfl
            (by intro e he; cases he) e he
          simp [isEnvReload, h1, h2, h3]
        refine ⟨⟨false, rfl⟩, rfl, rfl, inv.preK, kindsIn_sigIf _ _ (by simp), inv.postK, hpost, inv.sorted, ?_,
          rfl, rfl, rfl, rfl⟩
        simp only [Segs.before, List.any_append, Bool.or_eq_true]
        cases hcc : (roundsFrom repaired sc.nReload ⟨[], [], false, false, []⟩ 0 sc.rounds).cancelled
        · right; simp [sigIf, isSig]
        · left; right; exact inv.sig hcc
    · have hcond : ((sc.starts.find? startFails).isNone && sc.listen == Listen.ok) = false := by
        simp [hf, hl]
      have hl' : (sc.listen != Listen.ok) = true := by simpa using hl
      simp only [hl', if_true]
      exact lemma_failed sc false .errListen (sc.metrics && !repaired.b) (repaired.a && !repaired.g) sc.tracing hcond
        (by rw [hf]; exact ⟨rfl, by simp [repaired], rfl⟩)


/-- the same for the code as it is now -/
theorem current_run_in_language (sc : Scenario) (race : Bool) : holds sc (run current sc race) = true :=
  run_in_language sc race

/-! ### the clauses of the statement, read off the main theorem -/

theorem lemma_unpack {sc : Scenario} {o : Obs} (h : holds sc o = true) :
    returnsOnce sc o.log = true ∧ startsOk sc o.log = true ∧ readiesOk sc o.log = true ∧ reloadsOk o = true ∧
    (if (sc.starts.find? startFails).isNone && sc.listen == Listen.ok then shutdownOk sc o
     else failedStartOk sc o (sc.starts.find? startFails)) = true := by
  unfold holds at h
  obtain ⟨h, h5⟩ := Bool.and_eq_true_iff.mp h
  obtain ⟨h, h4⟩ := Bool.and_eq_true_iff.mp h
  obtain ⟨h, h3⟩ := Bool.and_eq_true_iff.mp h
  obtain ⟨h1, h2⟩ := Bool.and_eq_true_iff.mp h
  exact ⟨h1, h2, h3, h4, h5⟩

theorem lemma_find_none {hs : List HB} (h : hs.any startFails = false) : hs.find? startFails = none := by
  apply List.find?_eq_none.mpr
  intro x hx
  have := List.any_eq_false.mp h x hx
  simpa using this

theorem lemma_lastPanic_none (hs : List HB) (i : Nat) (h : hs.all (· != .panic) = true) : lastPanic hs i = none := by
  induction hs generalizing i with
  | nil => rfl
  | cons b rest ih =>
    simp only [List.all_cons, Bool.and_eq_true, bne_iff_ne, ne_eq] at h
    simp only [lastPanic, ih (i + 1) h.2]
    have : (b == HB.panic) = false := by simpa using h.1
    simp [this]

/-- start-up succeeds and no OnShutdown hook panics: the whole shutdown sequence is demanded, and delivered -/
theorem lemma_tail {sc : Scenario} {o : Obs} (h : holds sc o = true) (hs : sc.starts.any startFails = false)
    (hl : sc.listen = Listen.ok) (hp : sc.shuts.all (· != .panic) = true) :
    shutdownOk sc o = true ∧ tailOk sc o = true := by
  obtain ⟨_, _, _, _, h5⟩ := lemma_unpack h
  have hc : ((sc.starts.find? startFails).isNone && sc.listen == Listen.ok) = true := by
    simp [lemma_find_none hs, hl]
  rw [hc] at h5
  simp only [if_true] at h5
  refine ⟨h5, ?_⟩
  simp only [shutdownOk, Bool.and_eq_true] at h5
  obtain ⟨_, h6⟩ := h5
  rw [lemma_lastPanic_none sc.shuts 0 hp] at h6
  cases hr : o.res <;> rw [hr] at h6 <;> simp at h6 <;> exact h6

/-- **OnStart hooks run sequentially, in registration order, and the first failure aborts start-up**:
    the OnStart events of the log are enter 0, leave 0, enter 1, leave 1, … up to and including the
    first hook that returns an error, panics, or is interrupted by the signal — and nothing after it. -/
theorem start_hooks_sequential_until_first_failure (sc : Scenario) (race : Bool) :
    (run repaired sc race).log.filterMap startTag = seqUp (runCount sc.starts) 0 := by
  obtain ⟨_, h2, _⟩ := lemma_unpack (run_in_language sc race)
  simp only [startsOk, Bool.and_eq_true, beq_iff_eq] at h2
  exact h2.1

/-- **… before the listener opens**: no OnStart hook finds the application serving. -/
theorem start_hooks_before_listener (sc : Scenario) (race : Bool) (i : Nat) (app met frozen : Bool)
    (h : Ev.startIn i app met frozen ∈ (run repaired sc race).log) : app = false := by
  obtain ⟨_, h2, _⟩ := lemma_unpack (run_in_language sc race)
  simp only [startsOk, Bool.and_eq_true] at h2
  have := List.all_eq_true.mp h2.2 _ h
  simpa [startProbeOk] using this

/-- **… the first failure aborts startup leaving nothing running**: when an OnStart hook fails or the
    listen fails, no OnReady hook runs, `Start` does not return nil, and — unless a panicking OnStart
    hook takes the process down — the server is not serving, the metrics server is closed again, the
    startup log buffer has been written out and the tracer has flushed (exactly once, before `Start`
    returns). -/
theorem failed_startup_clean (sc : Scenario) (race : Bool)
    (hf : sc.starts.any startFails = true ∨ sc.listen ≠ Listen.ok) :
    let o := run repaired sc race
    o.log.any isReady = false ∧ o.res ≠ .ok ∧
    (o.res ≠ .panic → o.finApp = false ∧ (o.finMet = false ∧ o.finHeld = false) ∧
      (sc.tracing = true → o.log.count .flush = 1 ∧ precedes isFlush isRet o.log = true)) := by
  intro o
  obtain ⟨_, _, _, _, h5⟩ := lemma_unpack (run_in_language sc race)
  have hc : ((sc.starts.find? startFails).isNone && sc.listen == Listen.ok) = false := by
    rcases hf with hf | hf
    · obtain ⟨x, hx, hp⟩ := List.any_eq_true.mp hf
      have : (sc.starts.find? startFails).isSome = true := List.find?_isSome.mpr ⟨x, hx, hp⟩
      cases hfd : sc.starts.find? startFails with
      | none => rw [hfd] at this; cases this
      | some _ => rfl
    · have : (sc.listen == Listen.ok) = false := by simpa using hf
      simp [this]
  rw [hc] at h5
  simp only [Bool.false_eq_true, if_false, failedStartOk, Bool.and_eq_true] at h5
  obtain ⟨h6, h7⟩ := h5
  have clean : (isError o.res && !o.finApp && telemetryClean sc o) = true →
      o.res ≠ .ok ∧ o.finApp = false ∧ (o.finMet = false ∧ o.finHeld = false) ∧
        (sc.tracing = true → o.log.count .flush = 1 ∧ precedes isFlush isRet o.log = true) := by
    intro h
    simp only [Bool.and_eq_true, beq_iff_eq, Bool.not_eq_true', telemetryClean, Bool.or_eq_true] at h
    obtain ⟨⟨h1, h2⟩, h3, h4⟩ := h
    refine ⟨?_, h2, h3, ?_⟩
    · intro hok; rw [hok] at h1; cases h1
    · intro ht
      rcases h4 with h4 | h4
      · rw [ht] at h4; cases h4
      · exact h4
  -- either the panic of an OnStart hook left Start, or the error path ran
  have alt : o.res = .panic ∨ (isError o.res && !o.finApp && telemetryClean sc o) = true := by
    cases hfd : sc.starts.find? startFails with
    | none => rw [hfd] at h7; right; exact h7
    | some bb =>
      rw [hfd] at h7
      cases bb with
      | panic =>
        simp only [Bool.or_eq_true, beq_iff_eq] at h7
        rcases h7 with h7 | h7
        · left; exact h7
        · right; exact h7
      | ok => right; exact h7
      | err => right; exact h7
      | block => right; exact h7
      | cancelOk => right; exact h7
  refine ⟨by simpa using h6, ?_, ?_⟩
  · rcases alt with h | h
    · intro hok; rw [hok] at h; cases h
    · exact (clean h).1
  · intro hnp
    rcases alt with h | h
    · exact absurd h hnp
    · exact (clean h).2

/-- **OnReady runs only once the server accepts connections**: every OnReady event was logged by a
    registered hook that found the application serving; no hook runs twice. -/
theorem ready_only_when_accepting (sc : Scenario) (race : Bool) :
    (∀ i app met frozen, Ev.ready i app met frozen ∈ (run repaired sc race).log →
      app = true ∧ i < sc.readies.length) ∧
    ((run repaired sc race).log.filterMap readyIdx).Nodup := by
  obtain ⟨_, _, h3, _⟩ := lemma_unpack (run_in_language sc race)
  simp only [readiesOk, Bool.and_eq_true, nodupNat_iff] at h3
  refine ⟨?_, h3.2⟩
  intro i app met frozen h
  have := List.all_eq_true.mp h3.1 _ h
  simpa [readyProbeOk] using this

/-- **On shutdown the OnShutdown hooks run in reverse registration order**, each exactly once: enter n-1,
    leave n-1, …, enter 0, leave 0 — while the server still serves and telemetry is still up, with a
    context that has not ended unless a hook registered later used up the budget, and never before the
    stop signal. -/
theorem shutdown_hooks_lifo (sc : Scenario) (race : Bool) (hs : sc.starts.any startFails = false)
    (hl : sc.listen = Listen.ok) (hp : sc.shuts.all (· != .panic) = true) :
    let o := run repaired sc race
    o.log.filterMap shutTag = seqDown sc.shuts.length 0 ∧
    o.log.all (shutProbeOk sc) = true ∧ guardedBy isSig isShut o.log = true := by
  intro o
  obtain ⟨h1, h2⟩ := lemma_tail (run_in_language sc race) hs hl hp
  simp only [shutdownOk, Bool.and_eq_true] at h1
  simp only [tailOk, Bool.and_eq_true, beq_iff_eq] at h2
  exact ⟨h2.1.1.1, h1.1.2, h1.1.1.1⟩

/-- **… then OnStop hooks run, each exactly once** — whether or not the drain timed out, whatever the
    hooks do (panics included) — when the server and telemetry are down. -/
theorem stop_hooks_exactly_once (sc : Scenario) (race : Bool) (hs : sc.starts.any startFails = false)
    (hl : sc.listen = Listen.ok) (hp : sc.shuts.all (· != .panic) = true) (i : Nat) (hi : i < sc.stops.length) :
    let o := run repaired sc race
    (o.log.filterMap stopTag).count (true, i) = 1 ∧ (o.log.filterMap stopTag).count (false, i) = 1 ∧
    o.log.all (stopProbeOk sc.stops.length) = true := by
  intro o
  obtain ⟨_, h2⟩ := lemma_tail (run_in_language sc race) hs hl hp
  simp only [tailOk, flushStopOk, Bool.and_eq_true] at h2
  obtain ⟨⟨_, ⟨⟨⟨_, h3⟩, h4⟩, _⟩, _⟩, _⟩ := h2
  simp only [eachOnce, List.all_eq_true, List.mem_range, Bool.and_eq_true, beq_iff_eq] at h3
  exact ⟨(h3 i hi).1, (h3 i hi).2, h4⟩

/-- **… OnShutdown hooks, then the drain, then the telemetry flush, then OnStop hooks, and Start returns
    only afterwards**: every OnShutdown event and every finishing request precedes the flush, every
    OnStop event and the return; the flush (exactly one when a tracer is configured) precedes every OnStop
    event and the return; every OnStop event precedes the return; after the return the server is not
    serving and the metrics server is closed. Drain timeout or not. -/
theorem drain_flush_stop_return_order (sc : Scenario) (race : Bool) (hs : sc.starts.any startFails = false)
    (hl : sc.listen = Listen.ok) (hp : sc.shuts.all (· != .panic) = true) :
    let o := run repaired sc race
    orderOk o.log = true ∧ (sc.tracing = true → o.log.count .flush = 1) ∧ o.finApp = false ∧ o.finMet = false ∧
    guardedBy isSig isRet o.log = true := by
  intro o
  obtain ⟨h1, h2⟩ := lemma_tail (run_in_language sc race) hs hl hp
  simp only [shutdownOk, Bool.and_eq_true] at h1
  simp only [tailOk, flushStopOk, Bool.and_eq_true, Bool.not_eq_true', Bool.or_eq_true, beq_iff_eq] at h2
  obtain ⟨⟨_, ⟨⟨⟨h3, _⟩, _⟩, h5⟩, h6⟩, h7⟩ := h2
  refine ⟨h7, ?_, h5, h6, h1.1.1.2⟩
  intro ht
  rcases h3 with h3 | h3
  · rw [ht] at h3; cases h3
  · exact h3

/-- **Every request accepted before the signal receives its complete response unless the shutdown
    timeout expires** — and the timeout expires only for a reason (a request that cannot finish, or an
    OnShutdown hook that used up the budget); no released request ever gets a broken response. -/
theorem requests_complete_unless_timeout (sc : Scenario) (race : Bool) (hs : sc.starts.any startFails = false)
    (hl : sc.listen = Listen.ok) (hp : sc.shuts.all (· != .panic) = true) :
    let o := run repaired sc race
    (o.res = .ok ∨ o.res = .errDrain) ∧ (o.res = .ok → allComplete o = true) ∧
    (o.res = .errDrain → timeoutLegit sc = true) ∧ (o.res = .ok → o.reqs.all (· != .incomplete) = true) := by
  intro o
  obtain ⟨h1, h2⟩ := lemma_tail (run_in_language sc race) hs hl hp
  simp only [tailOk, requestsOk, Bool.and_eq_true, Bool.or_eq_true, bne_iff_ne, ne_eq, beq_iff_eq] at h2
  obtain ⟨⟨⟨_, ⟨⟨h3, h4⟩, h5⟩, _⟩, _⟩, _⟩ := h2
  refine ⟨?_, ?_, ?_, ?_⟩
  · simp only [shutdownOk, Bool.and_eq_true] at h1
    obtain ⟨_, h6⟩ := h1
    rw [lemma_lastPanic_none sc.shuts 0 hp] at h6
    cases hr : o.res <;> rw [hr] at h6 <;> simp at h6 <;> simp
  · intro hr; rcases h4 with h4 | h4
    · exact absurd hr h4
    · exact h4
  · intro hr; rcases h3 with h3 | h3
    · exact absurd hr h3
    · exact h3
  · intro hr; rcases h5 with h5 | h5
    · rw [hr] at h5; cases h5
    · exact h5

/-- **Start returns only afterwards**: `Start` returns exactly once, and the only things that can follow
    in the log are hooks of reload calls the environment made itself (never of a reload the lifecycle
    started on SIGHUP: that is finished before the shutdown sequence begins). -/
theorem start_returns_last (sc : Scenario) (race : Bool) : returnsOnce sc (run repaired sc race).log = true :=
  (lemma_unpack (run_in_language sc race)).1

/-- **Reloads are serialised** (in the lifecycle model): the reload events of different rounds never
    interleave, and no `Reload` call panics into its caller. -/
theorem reload_rounds_never_interleave (sc : Scenario) (race : Bool) :
    noInterleave ((run repaired sc race).log.filterMap reloadRound) = true ∧
    (run repaired sc race).rounds.all (· != .panic) = true := by
  obtain ⟨_, _, _, h4, _⟩ := lemma_unpack (run_in_language sc race)
  simpa [reloadsOk] using h4

/-- **Reloads are serialised** (interleaving semantics): whatever the programs of the concurrent `Reload`
    calls and whatever the schedule, with `reloadMu` as the atomic region the emitted hook events of
    different calls never interleave. -/
theorem reload_mutex_serialises {α : Type} (progs : List (List α)) (sched : List Nat) :
    noInterleave ((ReloadMutex.exec progs sched).log.map (·.1)) = true :=
  ReloadMutex.Inv.serialised _ (ReloadMutex.Inv.exec progs sched)

/-- … and within its block every `Reload` call runs its hooks in their order: what call `t` has emitted is
    a prefix of its hook sequence, under every schedule. -/
theorem reload_mutex_program_order {α : Type} (progs : List (List α)) (sched : List Nat) (t : Nat) (p : List α)
    (hp : progs[t]? = some p) : ReloadMutex.emitted (ReloadMutex.exec progs sched) t <+: p :=
  ReloadMutex.emitted_prefix progs sched t p hp

/-- … and that is the mutex's doing: without it two calls interleave under the schedule 0 0 1 1 0 1 -/
theorem reload_without_mutex_interleaves :
    noInterleave ((ReloadMutex.execNoMutex [["a0", "a1"], ["b0", "b1"]] [0, 0, 1, 1, 0, 1]).log.map (·.1)) = false := by
  decide

/-- **"a failing or panicking reload or OnStop hook leaves the remaining sequence intact".**
    Replace the reload rounds of a scenario by any others (other hooks failing or panicking, none at all)
    and the behaviours of the OnStop hooks by any others: apart from the reload events themselves the
    log, the result of `Start`, the final probes and the client results are the same. -/
theorem reload_and_stop_faults_leave_sequence_intact (sc : Scenario) (rounds' : List Round) (stops' : List HB)
    (hlen : stops'.length = sc.stops.length) (race : Bool) :
    nonReload (run repaired { sc with rounds := rounds', stops := stops' } race) =
      nonReload (run repaired sc race) := by
  unfold nonReload run runSegs
  simp only []
  cases hout : (startHooks sc.metrics 0 false sc.starts).out with
  | panicked => simp only [Run.obs, naReqs]
  | failed => simp only [Run.obs, naReqs, abortObs]
  | done =>
    simp only []
    by_cases hl : (sc.listen != Listen.ok) = true
    · simp only [hl, if_true, Run.obs, naReqs, abortObs]
    · simp only [hl, Bool.false_eq_true, if_false]
      by_cases hc : (startHooks sc.metrics 0 false sc.starts).cancelled = true
      · simp only [hc, if_true]
        rw [lemma_filter_shutdownSeq _ _ _ _ _ _ (kindsIn_nil _), lemma_filter_shutdownSeq _ _ _ _ _ _ (kindsIn_nil _),
          lemma_tail_indep sc rounds' stops' hlen]
        simp only [shutdownSeq, Run.obs, lemma_tail_indep sc rounds' stops' hlen]
      · simp only [hc, Bool.false_eq_true, if_false]
        obtain ⟨r1, inv1⟩ := LoopInv.rounds repaired sc.nReload _ 0 rounds' (LoopInv.init repaired)
        obtain ⟨r2, inv2⟩ := LoopInv.rounds repaired sc.nReload _ 0 sc.rounds (LoopInv.init repaired)
        have hd1 := inv1.dead rfl
        have hd2 := inv2.dead rfl
        simp only [hd1, hd2, Bool.false_eq_true, if_false]
        rw [lemma_filter_shutdownSeq _ _ _ _ _ _ inv1.postK, lemma_filter_shutdownSeq _ _ _ _ _ _ inv2.postK,
          lemma_tail_indep sc rounds' stops' hlen]
        simp only [lemma_loop_rest sc rounds', lemma_loop_rest sc sc.rounds]
        simp only [shutdownSeq, Run.obs, lemma_tail_indep sc rounds' stops' hlen]


/-! ### the call order in the source: obligations on every path of the regenerated skeletons

The harness extracts the control-flow skeletons of `Start`, `StartTLS`, `StartMTLS` and `runServer` from
the Go source on every run; the driver evaluates `LifecycleSkel.check` on them. What a passed check
means for every valuation of the branch conditions: -/

section skeletons
open Rivaas.LifecycleSkel

/-- every execution is one of the enumerated paths -/
theorem exec_mem_outs (ρ : Nat → Bool) (s : Stmt) : exec ρ s ∈ outs s := by
  induction s with
  | call n q => simp [exec, outs]
  | ret ok => simp [exec, outs]
  | «try» c s t e ihs iht ihe =>
    simp only [exec, outs, List.mem_flatMap]
    refine ⟨exec ρ s, ihs, exec ρ t, iht, exec ρ e, ihe, ?_⟩
    cases ρ c <;> simp
  | tail n => simp [exec, outs]
  | goto l => simp [exec, outs]
  | skip => simp [exec, outs]
  | seq a b iha ihb =>
    simp only [exec, outs, List.mem_flatMap]
    refine ⟨exec ρ a, iha, ?_⟩
    by_cases h : ((exec ρ a).fin == End.fall) = true
    · simp only [h, if_true, List.mem_map]
      exact ⟨exec ρ b, ihb, rfl⟩
    · simp [h]
  | ite c t e iht ihe =>
    simp only [exec, outs, List.mem_append]
    by_cases h : ρ c = true
    · simp only [h, if_true]; exact Or.inl iht
    · simp only [h, Bool.false_eq_true, if_false]; exact Or.inr ihe
  | scope s ih =>
    simp only [exec, outs, List.mem_map]
    exact ⟨exec ρ s, ih, rfl⟩

/-- a check that holds on all enumerated paths holds for every valuation of the branch conditions -/
theorem onAll_sound (P : Out → Bool) (s : Stmt) (h : onAll P s = true) (ρ : Nat → Bool) :
    P (exec ρ s) = true :=
  List.all_eq_true.mp h _ (exec_mem_outs ρ s)



/-- after the label, on every path: the four steps of the shutdown sequence, each exactly once, in the
    order the lifecycle model follows, and only then the return — there is no early exit (K09c) -/
theorem skel_after_every_path (l : Name) (s : Stmt) (h : onAll (afterOk l) s = true) (ρ : Nat → Bool) :
    keep shutdownOrder (exec ρ s) = shutdownOrder ∧ ∃ ok, (exec ρ s).fin = .ret ok := by
  have := onAll_sound _ s h ρ
  simp only [afterOk, Bool.and_eq_true, Bool.or_eq_true, beq_iff_eq] at this
  obtain ⟨⟨_, h2⟩, h3⟩ := this
  refine ⟨?_, by rcases h2 with h2 | h2 <;> exact ⟨_, h2⟩⟩
  -- filtering with the smaller core is filtering the filtered list
  have hsub : keep shutdownOrder (exec ρ s) =
      (keep (nm "abortStartup" :: nm "Reload" :: nm "executeReadyHooks" :: nm "Listen" :: shutdownOrder)
        (exec ρ s)).filter (fun n => shutdownOrder.contains n) := by
    simp only [keep, List.filter_filter]
    congr 1
    funext n
    simp only [List.contains_eq_mem]
    by_cases hn : n ∈ shutdownOrder
    · have : n ∈ nm "abortStartup" :: nm "Reload" :: nm "executeReadyHooks" :: nm "Listen" :: shutdownOrder :=
        List.mem_cons_of_mem _ (List.mem_cons_of_mem _ (List.mem_cons_of_mem _ (List.mem_cons_of_mem _ hn)))
      simp [hn, this]
    · simp [hn]
  rw [hsub, h3]
  decide

/-- entry points, on every path: once `startObservability` has been called the path either tail-calls
    `runServer` after the whole prologue in order (and without `abortStartup`), or ends with
    `abortStartup; return` — there is no exit that leaves observability running (K09b) -/
theorem skel_entry_every_path (s : Stmt) (h : onAll entryOk s = true) (ρ : Nat → Bool)
    (hs : (names (exec ρ s)).contains (nm "startObservability") = true) :
    ((exec ρ s).fin = .tail (nm "runServer") ∧ keep (nm "abortStartup" :: prologue) (exec ρ s) = prologue) ∨
    ((∃ ok, (exec ρ s).fin = .ret ok) ∧ (names (exec ρ s)).getLast? = some (nm "abortStartup")) := by
  have := onAll_sound _ s h ρ
  simp only [entryOk, hs, if_true] at this
  cases hf : (exec ρ s).fin with
  | fall => rw [hf] at this; cases this
  | goto l => rw [hf] at this; cases this
  | tail n =>
    rw [hf] at this
    simp only [Bool.and_eq_true, beq_iff_eq] at this
    left; exact ⟨by rw [this.1], this.2⟩
  | ret ok =>
    rw [hf] at this
    simp only [Bool.and_eq_true, beq_iff_eq] at this
    right; exact ⟨⟨ok, rfl⟩, this.1.1⟩

/-- the event loop: an arm that returns has called `abortStartup` and nothing else of interest; an arm that
    falls through goes back into the loop having at most reloaded; the only other way out is the `goto`
    to the label after the loop — no arm "just returns" -/
theorem skel_arm_every_path (l : Name) (s : Stmt) (h : onAll (armOk l) s = true) (ρ : Nat → Bool) :
    match (exec ρ s).fin with
    | .ret _ => keep loopCore (exec ρ s) = [nm "abortStartup"]
    | .fall => keep loopCore (exec ρ s) = [nm "Reload"] ∨ keep loopCore (exec ρ s) = []
    | .goto l' => l' = l ∧ keep loopCore (exec ρ s) = []
    | .tail _ => False := by
  have := onAll_sound _ s h ρ
  simp only [armOk] at this
  cases hf : (exec ρ s).fin with
  | fall => rw [hf] at this; simpa using this
  | goto l' => rw [hf] at this; simpa using this
  | tail n => rw [hf] at this; cases this
  | ret ok => rw [hf] at this; simpa using this

/-! ### the skeletons of the source as it is now (what the harness extracts), and as it was shipped -/

def c (s : String) : Stmt := .call (nm s) []
def cq (s q : String) : Stmt := .call (nm s) (nm q)
def bail : Stmt := .seq (c "abortStartup") (.ret false)

def skStart : Stmt :=
  .seq (.seq (c "startObservability") (.ite 0 bail .skip))
    (.seq (.seq (c "executeStartHooks") (.ite 1 bail .skip))
      (.seq (c "registerOpenAPIEndpoints") (.seq (c "Freeze") (.tail (nm "runServer")))))

def skStartMTLS : Stmt := .seq (.seq (c "validate") (.ite 2 (.ret false) .skip)) skStart

def skStartTLS : Stmt :=
  .seq (.seq (c "startObservability") (.ite 0 bail .skip))
    (.seq (.seq (c "executeStartHooks") (.ite 1 bail .skip))
      (.seq (c "registerOpenAPIEndpoints") (.seq (c "Freeze")
        (.seq (c "LoadX509KeyPair") (.seq (.ite 2 bail .skip) (.tail (nm "runServer")))))))

def skPre : Stmt :=
  .seq (c "Listen") (.seq (.ite 0 bail .skip) (.seq (c "go") (.seq (cq "recv" "serverReady") (c "executeReadyHooks"))))

def skGo : Stmt :=
  .seq (c "printStartupBanner") (.seq (c "flushStartupLogs") (.seq (c "logStartupInfo")
    (.seq (cq "close" "serverReady") (.seq (cq "startFunc" "listener") (cq "Close" "listener")))))

def skAfter : Stmt :=
  .seq (cq "label" "shutdown") (.seq (c "executeShutdownHooks") (.seq (cq "Shutdown" "server")
    (.seq (c "shutdownObservability") (.seq (c "executeStopHooks") (.ret false)))))

def skNow : Skels :=
  { entries := [skStart, skStartTLS, skStartMTLS], pre := skPre, go := skGo,
    arms := [bail, c "Reload", .goto (nm "shutdown")], after := skAfter }

/-- the obligations are met by the source as it is now (the harness re-extracts and re-checks on every run) -/
theorem skel_now_ok : (check skNow).ok = true := by decide

/-- the shared prologue moved into a helper (`if err := a.prepare(ctx); err != nil { return err }`): the
    inlined callee's way of returning selects the branch, so the obligations are still met -/
def skStartRefactored : Stmt :=
  .seq (.try 0
      (.seq (.seq (c "startObservability") (.ite 1 bail .skip))
        (.seq (.seq (c "executeStartHooks") (.ite 2 bail .skip))
          (.seq (c "registerOpenAPIEndpoints") (.seq (c "Freeze") (.ret true)))))
      (.ret false) .skip)
    (.tail (nm "runServer"))

theorem skel_refactored_ok : onAll entryOk skStartRefactored = true := by decide

/-- as shipped: a failing OnStart hook returned without `abortStartup` (K09b) -/
def skStartAsShipped : Stmt :=
  .seq (.seq (c "startObservability") (.ite 0 (.ret false) .skip))
    (.seq (.seq (c "executeStartHooks") (.ite 1 (.ret false) .skip))
      (.seq (c "registerOpenAPIEndpoints") (.seq (c "Freeze") (.tail (nm "runServer")))))

/-- as shipped: `if err := server.Shutdown(ctx); err != nil { return … }` (K09c) -/
def skAfterAsShipped : Stmt :=
  .seq (cq "label" "shutdown") (.seq (c "executeShutdownHooks") (.seq (cq "Shutdown" "server")
    (.seq (.ite 0 (.ret false) .skip) (.seq (c "shutdownObservability") (.seq (c "executeStopHooks") (.ret true))))))

theorem skel_asis_rejected :
    onAll entryOk skStartAsShipped = false ∧ onAll (afterOk (nm "shutdown")) skAfterAsShipped = false ∧
    -- a `return` added to the SIGHUP arm of the event loop
    onAll (armOk (nm "shutdown")) (.seq (c "Reload") (.ite 0 (.ret false) .skip)) = false ∧
    -- OnReady dispatched before the listener is bound
    onAll preOk (.seq (c "go") (.seq (cq "recv" "serverReady") (.seq (c "executeReadyHooks") (c "Listen")))) = false := by
  decide


end skeletons

/-! ### non-vacuity: the hypotheses above are met by non-trivial scenarios, the conclusions say something -/

/-- three hooks of each kind, a failing and a panicking OnStop hook, an OnShutdown hook that holds on until the
    deadline, three requests in flight (released in a hook, during the drain, never), a panicking reload via
    SIGHUP and a failing programmatic one -/
def wFull : Scenario :=
  { metrics := true, tracing := true, listen := .ok, starts := [.ok, .cancelOk, .ok], readies := [.ok, .panic],
    nReload := 2, shuts := [.ok, .block, .ok], stops := [.ok, .panic, .ok],
    reqs := [.hook 2, .drain, .never],
    rounds := [⟨.hup, [.ok, .panic], none, false⟩, ⟨.prog, [.err], none, false⟩] }

/-- the same without the early signal, so that requests and reloads happen -/
def wFull2 : Scenario := { wFull with starts := [.ok, .ok] }

example : wFull2.starts.any startFails = false ∧ wFull2.listen = Listen.ok ∧
    wFull2.shuts.all (· != .panic) = true := by decide

example : (run repaired wFull2 false).log.filterMap shutTag =
    [(true, 2), (false, 2), (true, 1), (false, 1), (true, 0), (false, 0)] := by decide

example : (run repaired wFull2 false).res = .errDrain ∧ (run repaired wFull2 false).reqs = [.complete, .na, .na] ∧
    (run repaired wFull2 false).rounds = [.na, .err] := by decide

example : (run repaired wFull2 false).log.filterMap stopTag =
    [(true, 0), (false, 0), (true, 1), (false, 1), (true, 2), (false, 2)] := by decide

example : ((run repaired wFull2 false).log.filterMap reloadRound) = [0, 0, 0, 0, 1, 1] := by decide

/-- a failing start-up that is not vacuous: the third of four OnStart hooks fails, with telemetry on -/
def wFail : Scenario :=
  { metrics := true, tracing := true, listen := .ok, starts := [.ok, .ok, .err, .ok], readies := [.ok],
    nReload := 0, shuts := [.ok], stops := [.ok], reqs := [], rounds := [] }

example : wFail.starts.any startFails = true := by decide
example : (run repaired wFail false).log =
    [.startIn 0 false true false, .startOut 0, .startIn 1 false true false, .startOut 1,
     .startIn 2 false true false, .startOut 2,
     .flush, .ret] := by decide
example : (run repaired wFail false).res = .errStartup ∧ (run repaired wFail false).finMet = false ∧
    (run repaired wFail false).finHeld = false ∧ (run asShipped wFail false).finHeld = true := by decide

/-- the independence theorem is not vacuous: the reload rounds of `wFull2` do leave traces in the log -/
example : (run repaired wFull2 false).log ≠ (run repaired { wFull2 with rounds := [] } false).log := by decide
example : ((ReloadMutex.exec [["a0", "a1"], ["b0", "b1"]] [0, 0, 1, 1, 0, 1, 0, 0, 1, 1, 1, 1]).log.map (·.1)) =
    [0, 0, 1, 1] := by decide

/-! ### witnesses: the code as shipped breaks the oracle (K09a–e), the repaired code does not -/

/-- K09a: the port is taken; as shipped the OnReady hook has run although the listen failed -/
def wK09a : Scenario :=
  { metrics := true, tracing := false, listen := .busy, starts := [.ok], readies := [.ok], nReload := 0,
    shuts := [], stops := [.ok], reqs := [], rounds := [] }

/-- K09b: the second OnStart hook fails; as shipped the metrics server keeps running -/
def wK09b : Scenario :=
  { metrics := true, tracing := true, listen := .ok, starts := [.ok, .err], readies := [.ok], nReload := 0,
    shuts := [], stops := [.ok], reqs := [], rounds := [] }

/-- K09c: a request never finishes; as shipped the drain timeout skips flush and OnStop -/
def wK09c : Scenario :=
  { metrics := true, tracing := true, listen := .ok, starts := [], readies := [.ok], nReload := 0,
    shuts := [.ok, .ok], stops := [.ok], reqs := [.never], rounds := [] }

/-- K09d: an OnReload hook panics on SIGHUP; as shipped the panic unwinds Start -/
def wK09d : Scenario :=
  { metrics := false, tracing := false, listen := .ok, starts := [], readies := [], nReload := 1,
    shuts := [.ok], stops := [.ok], reqs := [], rounds := [⟨.hup, [.panic], none, false⟩] }

/-- K09e: an OnShutdown hook uses up the budget; as shipped telemetry is not flushed before OnStop -/
def wK09e : Scenario :=
  { metrics := false, tracing := true, listen := .ok, starts := [], readies := [], nReload := 0,
    shuts := [.block], stops := [.ok], reqs := [], rounds := [] }

theorem asis_ready_before_listen : holds wK09a (run asShipped wK09a false) = false := by decide
theorem asis_start_fail_leaks_metrics : holds wK09b (run asShipped wK09b false) = false := by decide
theorem asis_drain_timeout_skips_stop : holds wK09c (run asShipped wK09c false) = false := by decide
theorem asis_reload_panic_escapes : holds wK09d (run asShipped wK09d false) = false := by decide
theorem asis_expired_budget_skips_flush : holds wK09e (run asShipped wK09e false) = false := by decide

/-- K09g: a failing OnStart hook; as shipped the startup log buffer is never written out -/
def wK09g : Scenario :=
  { metrics := false, tracing := false, listen := .ok, starts := [.err], readies := [], nReload := 0,
    shuts := [], stops := [], reqs := [], rounds := [] }

theorem asis_failed_start_keeps_logs_buffered :
    holds wK09g (run asShipped wK09g false) = false ∧
    holds wK09g (run { repaired with g := false } wK09g false) = false ∧
    holds wK09g (run repaired wK09g false) = true := by decide

/-- K09f: StartTLS with a key pair that cannot be loaded; as shipped the OnReady hook has run -/
def wK09f : Scenario := { wK09a with listen := .cert }

theorem asis_tls_cert_after_ready :
    holds wK09f (run asShipped wK09f false) = false ∧ holds wK09f (run repaired wK09f false) = true := by decide

theorem repaired_witnesses :
    holds wK09a (run repaired wK09a false) = true ∧ holds wK09b (run repaired wK09b false) = true ∧
    holds wK09c (run repaired wK09c false) = true ∧ holds wK09d (run repaired wK09d false) = true ∧
    holds wK09e (run repaired wK09e false) = true ∧ holds wK09e (run repaired wK09e true) = true := by
  decide


end Rivaas.C09
