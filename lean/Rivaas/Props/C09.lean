import Rivaas.Spec.Lifecycle
import Rivaas.Model.Lifecycle
/-
C09 — Application lifecycle is ordered and shutdown is graceful. Property theorems.
-/
namespace Rivaas.C09
open Rivaas.Lifecycle

/-- the code in /repo carries all five repairs -/
theorem current_is_repaired : current = repaired := rfl

/-! ### witnesses: the code as shipped breaks the oracle (K09a–e), the repaired code does not -/

/-- K09a: the port is taken; as shipped the OnReady hook has run although the listen failed -/
def wK09a : Scenario :=
  { metrics := true, tracing := false, listen := .busy, starts := [.ok], readies := [.ok], nReload := 0,
    shuts := [], stops := [.ok], reqs := [], rounds := [] }

/-- K09b: the second OnStart hook fails; as shipped the metrics server keeps running -/
def wK09b : Scenario :=
  { metrics := true, tracing := true, listen := .ok, starts := [.ok, .err], readies := [.ok], nReload := 0,
    shuts := [], stops := [.ok], reqs := [], rounds := [] }

/-- K09c: a request never finishes; as shipped the drain timeout skips flush and OnStop -/
def wK09c : Scenario :=
  { metrics := true, tracing := true, listen := .ok, starts := [], readies := [.ok], nReload := 0,
    shuts := [.ok, .ok], stops := [.ok], reqs := [.never], rounds := [] }

/-- K09d: an OnReload hook panics on SIGHUP; as shipped the panic unwinds Start -/
def wK09d : Scenario :=
  { metrics := false, tracing := false, listen := .ok, starts := [], readies := [], nReload := 1,
    shuts := [.ok], stops := [.ok], reqs := [], rounds := [⟨.hup, [.panic], none, false⟩] }

/-- K09e: an OnShutdown hook uses up the budget; as shipped telemetry is not flushed before OnStop -/
def wK09e : Scenario :=
  { metrics := false, tracing := true, listen := .ok, starts := [], readies := [], nReload := 0,
    shuts := [.block], stops := [.ok], reqs := [], rounds := [] }

theorem asis_ready_before_listen : Spec.holds wK09a (run asShipped wK09a false) = false := by decide
theorem asis_start_fail_leaks_metrics : Spec.holds wK09b (run asShipped wK09b false) = false := by decide
theorem asis_drain_timeout_skips_stop : Spec.holds wK09c (run asShipped wK09c false) = false := by decide
theorem asis_reload_panic_escapes : Spec.holds wK09d (run asShipped wK09d false) = false := by decide
theorem asis_expired_budget_skips_flush : Spec.holds wK09e (run asShipped wK09e false) = false := by decide

theorem repaired_witnesses :
    Spec.holds wK09a (run repaired wK09a false) = true ∧ Spec.holds wK09b (run repaired wK09b false) = true ∧
    Spec.holds wK09c (run repaired wK09c false) = true ∧ Spec.holds wK09d (run repaired wK09d false) = true ∧
    Spec.holds wK09e (run repaired wK09e false) = true ∧ Spec.holds wK09e (run repaired wK09e true) = true := by
  decide

end Rivaas.C09
