/- C09 — property theorems (stub: not built yet) -/
