import Rivaas.Lemmas.PresenceExact
import Rivaas.Lemmas.PresenceLeaf
import Rivaas.Lemmas.PresenceErrors
import Rivaas.Model.PresenceResolve
/-
C05 — Validation is deterministic and partial validation follows presence.

Property theorems about the model of `validation/presence.go` and the error pipeline of
`validation/tags.go` (`Model/Presence.lean`) against the declarative oracle (`Spec/Presence.lean`).
Helper lemmas live in `Lemmas/Presence*.lean` and `Lemmas/BytesOrder.lean`. The model follows the
code after the `fix:` commits for K05, K05b, K05c, K05d, K05e, K05f; the behaviour as shipped is
kept in the `…AsIs` definitions with a `decide` witness each.
-/
namespace Rivaas.C05
open Rivaas.Presence

/-! ## 1. ComputePresence marks exactly the paths that occur -/

/-- the brute-force enumeration used by the driver's oracle is the declarative relation -/
theorem enum_iff_occurs (kvs : List (Bytes × Json)) (sp : SegPath) : sp ∈ enumObj kvs ↔ Occurs kvs sp :=
  ⟨enumObj_sound kvs sp, enum_complete⟩

theorem mem_presence (top : List (Bytes × Json)) (p : Path) : p ∈ presence top ↔ p ∈ marks top := by
  unfold presence; exact mem_canon

/-- every marked path occurs in the body — for every body, however deep -/
theorem presence_sound (top : List (Bytes × Json)) (p : Path) (h : p ∈ presence top) : OccursStr top p := by
  have h1 := markEntries_sub top 0 [] p ((mem_presence top p).mp h)
  simp only [List.mem_map] at h1
  obtain ⟨sp, hsp, rfl⟩ := h1
  exact ⟨sp, (enum_iff_occurs top sp).mp hsp, by simp [pref]⟩

/-- within the documented recursion limit the marked paths are exactly the occurring ones -/
theorem presence_exact (top : List (Bytes × Json)) (p : Path) (hd : depthObj top ≤ maxRecursionDepth) :
    p ∈ presence top ↔ OccursStr top p := by
  constructor
  · exact presence_sound top p
  · rintro ⟨sp, hsp, rfl⟩
    rw [mem_presence, marks, markEntries_eq top 0 [] (by omega)]
    exact List.mem_map.mpr ⟨sp, (enum_iff_occurs top sp).mpr hsp, by simp [pref]⟩

/-- the limit in the hypothesis of `presence_exact` is met by ordinary bodies… -/
example : depthObj [("user".toList, .obj [("name".toList, .leaf)]), ("user-id".toList, .leaf)]
    ≤ maxRecursionDepth := by decide
/-- …and the equivalence is not vacuous: `user.name` occurs and is marked, `name` neither -/
example : "user.name".toList ∈ presence [("user".toList, .obj [("name".toList, .leaf)]), ("user-id".toList, .leaf)] := by
  rw [mem_presence]; decide
example : "name".toList ∉ presence [("user".toList, .obj [("name".toList, .leaf)]), ("user-id".toList, .leaf)] := by
  rw [mem_presence]; decide

/-- the observed presence set is in canonical form: strictly ascending, no duplicates -/
theorem presence_canonical (top : List (Bytes × Json)) : (presence top).Pairwise ltB :=
  dedupAdj_strict (sortPaths_sorted _)

/-- Determinism of presence: the result depends only on *which paths occur*, not on the order in
    which any object's keys are visited (`Occurs` speaks about membership only). -/
theorem presence_depends_on_paths_only (t₁ t₂ : List (Bytes × Json))
    (h₁ : depthObj t₁ ≤ maxRecursionDepth) (h₂ : depthObj t₂ ≤ maxRecursionDepth)
    (h : ∀ p, OccursStr t₁ p ↔ OccursStr t₂ p) : presence t₁ = presence t₂ := by
  apply strict_ext (presence_canonical t₁) (presence_canonical t₂)
  intro p
  rw [presence_exact t₁ p h₁, presence_exact t₂ p h₂, h]

/-- Go visits the keys of the top-level map in an arbitrary order: any order gives the same set
    (no depth hypothesis needed) -/
theorem presence_perm (t₁ t₂ : List (Bytes × Json)) (h : t₁.Perm t₂) : presence t₁ = presence t₂ := by
  unfold presence
  apply canon_ext
  intro p
  unfold marks
  rw [markEntries_flatMap, markEntries_flatMap]
  exact (h.flatMap_right _).mem_iff

/-- shallow subset test used by the oracle -/
theorem lemma_subsetB {a b : List Path} : subsetB a b = true ↔ ∀ x ∈ a, x ∈ b := by
  simp [subsetB, List.all_eq_true]

/-- the model passes the presence oracle the driver evaluates on the implementation — all bodies -/
theorem presenceOK_model (top : List (Bytes × Json)) : presenceOK top (presence top) = true := by
  unfold presenceOK
  simp only [Bool.and_eq_true, Bool.or_eq_true, decide_eq_true_eq, lemma_subsetB]
  refine ⟨?_, ?_⟩
  · intro p hp
    obtain ⟨sp, hsp, rfl⟩ := presence_sound top p hp
    exact List.mem_map.mpr ⟨sp, (enum_iff_occurs top sp).mpr hsp, rfl⟩
  · by_cases hd : depthObj top > maxRecursionDepth
    · exact Or.inl hd
    · right
      intro p hp
      obtain ⟨sp, hsp, rfl⟩ := List.mem_map.mp hp
      exact (presence_exact top _ (by omega)).mpr ⟨sp, (enum_iff_occurs top sp).mp hsp, rfl⟩

/-- K05b, as shipped: under an empty top-level key the children lose their parent —
    `{"":{"a":1}}` marks a top-level `a` that does not occur, and the oracle rejects it -/
theorem presence_asis_witness :
    "a".toList ∈ presenceAsIs [([], .obj [("a".toList, .leaf)])] ∧
    ¬ OccursStr [([], .obj [("a".toList, .leaf)])] "a".toList ∧
    "a".toList ∉ presence [([], .obj [("a".toList, .leaf)])] := by
  refine ⟨by unfold presenceAsIs; rw [mem_canon]; decide, ?_, by rw [mem_presence]; decide⟩
  intro h
  have := (presence_exact [([], .obj [("a".toList, .leaf)])] "a".toList (by decide)).mpr h
  rw [mem_presence] at this
  revert this; decide

/-! ## 2. LeafPaths returns exactly the marked paths without a marked descendant -/

/-- for **every** path set (keys with characters below `.` included) -/
theorem leaf_fixed_correct (pm : List Path) (p : Path) : p ∈ leafPaths pm ↔ IsLeaf pm p := by
  unfold leafPaths; rw [mem_sortPaths]; exact mem_leafFilter pm p

/-- not vacuous: in the K05 body `user.name` and `user-id` are leaves, `user` is not -/
example : IsLeaf ["user".toList, "user-id".toList, "user.name".toList] "user.name".toList := by
  rw [← isLeafB_iff]; decide
example : ¬ IsLeaf ["user".toList, "user-id".toList, "user.name".toList] "user".toList := by
  rw [← isLeafB_iff]; decide

theorem leaf_sorted (pm : List Path) : (leafPaths pm).Pairwise (fun a b => leB a b = true) :=
  sortPaths_sorted _

/-- the keys of a map are distinct, so every leaf is returned once -/
theorem leaf_nodup (pm : List Path) (h : pm.Nodup) : (leafPaths pm).Nodup := by
  unfold leafPaths sortPaths
  exact (List.mergeSort_perm _ _).nodup_iff.mpr (h.filter _)

/-- map iteration order cannot change the result (the order of the leaves decides which errors
    survive the cap, so this is part of determinism) -/
theorem leaf_perm (pm₁ pm₂ : List Path) (h : pm₁.Perm pm₂) : leafPaths pm₁ = leafPaths pm₂ := by
  rw [leafPaths_eq_spec, leafPaths_eq_spec]
  exact sortPaths_perm (perm_leafFilter h)

theorem lemma_strictAsc {l : List Path} (h : l.Pairwise ltB) : strictAsc l = true := by
  induction l with
  | nil => simp [strictAsc]
  | cons a rest ih =>
    cases rest with
    | nil => simp [strictAsc]
    | cons b rest' =>
      have h1 := List.pairwise_cons.mp h
      have hab := h1.1 b (List.mem_cons_self ..)
      simp only [strictAsc, Bool.and_eq_true, bne_iff_ne, ne_eq]
      exact ⟨⟨hab.1, hab.2⟩, ih h1.2⟩

/-- a sorted list is a fixed point of the sort -/
theorem lemma_sortPaths_of_sorted {l : List Path} (h : l.Pairwise (fun a b => leB a b = true)) :
    sortPaths l = l :=
  (List.mergeSort_perm l leB).eq_of_pairwise (le := fun a b => leB a b = true)
    (fun a b _ _ h1 h2 => leB_antisymm a b h1 h2) (sortPaths_sorted l) h

/-- the model passes the leaf oracle the driver evaluates on the implementation -/
theorem leavesOK_model (pm : List Path) (h : pm.Nodup) : leavesOK pm (leafPaths pm) = true := by
  unfold leavesOK
  simp only [Bool.and_eq_true, List.all_eq_true]
  refine ⟨⟨?_, ?_⟩, ?_⟩
  · intro p hp
    exact (isLeafB_iff pm p).mpr ((leaf_fixed_correct pm p).mp hp)
  · intro p hp
    have := (List.mem_filter.mp hp)
    simp only [List.contains_iff_mem]
    exact (leaf_fixed_correct pm p).mpr ((isLeafB_iff pm p).mp this.2)
  · rw [lemma_sortPaths_of_sorted (leaf_sorted pm)]
    apply lemma_strictAsc
    have hs := leaf_sorted pm
    have hn := leaf_nodup pm h
    -- sorted ∧ nodup → strictly ascending
    generalize leafPaths pm = l at hs hn
    induction l with
    | nil => exact List.Pairwise.nil
    | cons a rest ih =>
      have h1 := List.pairwise_cons.mp hs
      have h2 := List.nodup_cons.mp hn
      exact List.pairwise_cons.mpr ⟨fun x hx => ⟨h1.1 x hx, fun e => h2.1 (e ▸ hx)⟩, ih h1.2 h2.2⟩

/-- K05, as shipped: comparing only neighbours in sorted order keeps `user` although `user.name`
    is present, because the sibling `user-id` sorts between them -/
theorem leaf_adjacent_witness :
    "user".toList ∈ leafPathsAsIs ["user".toList, "user-id".toList, "user.name".toList] ∧
    ¬ IsLeaf ["user".toList, "user-id".toList, "user.name".toList] "user".toList ∧
    "user".toList ∉ leafPaths ["user".toList, "user-id".toList, "user.name".toList] := by
  refine ⟨?_, by rw [← isLeafB_iff]; decide, ?_⟩
  · unfold leafPathsAsIs
    rw [lemma_sortPaths_of_sorted (by decide)]
    decide
  · rw [leaf_fixed_correct, ← isLeafB_iff]; decide

/-- what the driver evaluates: `validatePartial` is the loop over `leafPaths` by definition -/
theorem validatePartial_unfold (pm : List Path) (rules : List Rule) (o : Opts) :
    validatePartial pm rules o = partialFrom mkErr (leafPaths pm) (ownTags rules) o := rfl

/-! ## 3. partial validation reports an error iff the field is a present leaf that violates its own rule -/

theorem lemma_mem_groups (leaves : List Path) (own : Path → List Viol) (o : Opts) (e : FieldErr) :
    e ∈ (partialGroups mkErr leaves own o).flatten ↔
      ∃ p ∈ leaves.take (maxLeaves o), ∃ v ∈ own p, e = mkErr o p v := by
  simp only [partialGroups, List.mem_flatten, List.mem_map]
  constructor
  · rintro ⟨g, ⟨p, hp, rfl⟩, he⟩
    obtain ⟨v, hv, rfl⟩ := List.mem_map.mp he
    exact ⟨p, hp, v, hv, rfl⟩
  · rintro ⟨p, hp, v, hv, rfl⟩
    exact ⟨_, ⟨p, hp, rfl⟩, List.mem_map.mpr ⟨v, hv, rfl⟩⟩

theorem lemma_mem_take_flatten {α : Type} (groups : List (List α)) (k : Nat) (e : α)
    (h : e ∈ (groups.take k).flatten) : e ∈ groups.flatten := by
  simp only [List.mem_flatten] at h ⊢
  obtain ⟨g, hg, he⟩ := h
  exact ⟨g, List.mem_of_mem_take hg, he⟩

/-- what the loop returned is a prefix (in leaf order, then in the validator's order within a leaf) of the
    uncapped error list -/
theorem partial_prefix (pm : List Path) (rules : List Rule) (o : Opts) :
    ∃ k n, (fieldsOf (validatePartial pm rules o)).Perm
      (((partialGroups mkErr (leafPaths pm) (ownTags rules) o).take k).flatten.take n) := by
  obtain ⟨k, _, h1, _, _⟩ := capLoop_spec o.maxErrors (partialGroups mkErr (leafPaths pm) (ownTags rules) o) []
  have := partialFrom_fields mkErr (leafPaths pm) (ownTags rules) o
  unfold trimCap at this
  rw [h1, List.nil_append] at this
  by_cases hf : (capLoop o.maxErrors (partialGroups mkErr (leafPaths pm) (ownTags rules) o) []).2 = true
  · rw [if_pos hf] at this
    exact ⟨k, o.maxErrors, this⟩
  · rw [if_neg hf] at this
    exact ⟨k, _, by rw [List.take_length]; exact this⟩

/-- **soundness** — every reported error concerns a present leaf and is a violation of that
    leaf's own rule; in particular never an absent field -/
theorem partial_sound (pm : List Path) (rules : List Rule) (o : Opts) (e : FieldErr)
    (he : e ∈ fieldsOf (validatePartial pm rules o)) :
    IsLeaf pm e.path ∧ ∃ v ∈ ownTags rules e.path, e = mkErr o e.path v := by
  obtain ⟨k, n, hk⟩ := partial_prefix pm rules o
  have h1 := lemma_mem_take_flatten _ k e (List.mem_of_mem_take (hk.mem_iff.mp he))
  obtain ⟨p, hp, v, hv, rfl⟩ := (lemma_mem_groups _ _ _ _).mp h1
  have hpl : p ∈ leafPaths pm := List.mem_of_mem_take hp
  exact ⟨(leaf_fixed_correct pm p).mp hpl, v, hv, rfl⟩

theorem partial_never_absent (pm : List Path) (rules : List Rule) (o : Opts) (e : FieldErr)
    (he : e ∈ fieldsOf (validatePartial pm rules o)) : e.path ∈ pm :=
  (partial_sound pm rules o e he).1.1

/-- **completeness** — unless the result says `Truncated` (or the body has more leaves than the
    configured field limit), every violation of a present leaf's own rule is reported -/
theorem partial_complete (pm : List Path) (rules : List Rule) (o : Opts)
    (ht : truncOf (validatePartial pm rules o) = false) (hl : (leafPaths pm).length ≤ maxLeaves o)
    (p : Path) (hp : IsLeaf pm p) (v : Viol) (hv : v ∈ ownTags rules p) :
    mkErr o p v ∈ fieldsOf (validatePartial pm rules o) := by
  obtain ⟨k, _, h1, h2, _⟩ := capLoop_spec o.maxErrors (partialGroups mkErr (leafPaths pm) (ownTags rules) o) []
  have ht' : (capLoop o.maxErrors (partialGroups mkErr (leafPaths pm) (ownTags rules) o) []).2 = false := by
    rw [← partialFrom_trunc]; exact ht
  have hk := h2 ht'
  have hf := partialFrom_fields mkErr (leafPaths pm) (ownTags rules) o
  simp only [trimCap, ht', Bool.false_eq_true, if_false] at hf
  rw [h1, List.nil_append, hk, List.take_length] at hf
  apply hf.mem_iff.mpr
  apply (lemma_mem_groups _ _ _ _).mpr
  refine ⟨p, ?_, v, hv, rfl⟩
  rw [List.take_of_length_le hl]
  exact (leaf_fixed_correct pm p).mpr hp

theorem lemma_violations (rules : List Rule) (p : Path) :
    violations rules p = (ownTags rules p).map fun v => ⟨p, tagPrefix ++ v.tag, v.shows⟩ := by
  unfold violations ownTags ruleFor
  cases rules.find? (fun r => r.path == p) with
  | none => rfl
  | some r => by_cases h : r.resolves <;> simp [h]

/-- **the statement's iff** — for every path set, rule table, path and code -/
theorem partial_iff (pm : List Path) (rules : List Rule) (o : Opts)
    (ht : truncOf (validatePartial pm rules o) = false) (hl : (leafPaths pm).length ≤ maxLeaves o)
    (p : Path) (c : Bytes) :
    (∃ e ∈ fieldsOf (validatePartial pm rules o), e.path = p ∧ e.code = c) ↔ Expected pm rules p c := by
  unfold Expected
  rw [lemma_violations]
  constructor
  · rintro ⟨e, he, rfl, rfl⟩
    obtain ⟨hleaf, v, hv, hev⟩ := partial_sound pm rules o e he
    refine ⟨hleaf, ⟨e.path, tagPrefix ++ v.tag, v.shows⟩, List.mem_map.mpr ⟨v, hv, rfl⟩, ?_⟩
    rw [hev]; rfl
  · rintro ⟨hleaf, w, hw, rfl⟩
    obtain ⟨v, hv, rfl⟩ := List.mem_map.mp hw
    exact ⟨mkErr o p v, partial_complete pm rules o ht hl p hleaf v hv, rfl, rfl⟩

/-- non-vacuity of `partial_iff`: the K05 body with a rule on `user.name` that is violated and a
    rule on `user-id` that is not — hypotheses hold, the left side is inhabited -/
example :
    let pm := ["user".toList, "user-id".toList, "user.name".toList]
    let rules : List Rule := [⟨"user.name".toList, true, [⟨"min".toList, []⟩], false, false, true, some ["min".toList]⟩,
                             ⟨"user-id".toList, true, [], false, false, true, some []⟩]
    let o : Opts := ⟨0, 0, []⟩
    truncOf (validatePartial pm rules o) = false ∧ (leafPaths pm).length ≤ maxLeaves o ∧
    Expected pm rules "user.name".toList "tag.min".toList ∧ ¬ Expected pm rules "user-id".toList "tag.min".toList := by
  refine ⟨?_, ?_, ?_, ?_⟩
  · rw [validatePartial, partialFrom_trunc, capLoop_unlimited]
  · show (leafPaths _).length ≤ 10000
    rw [leafPaths, sortPaths_length]; decide
  · refine ⟨by rw [← isLeafB_iff]; decide, ?_⟩; decide
  · rintro ⟨_, h⟩; revert h; decide

/-! ## 4. capped at the configured maximum with Truncated set; ordered; redacted -/

/-- `Truncated` is set only at a positive maximum that has been reached -/
theorem truncated_only_when_full (pm : List Path) (rules : List Rule) (o : Opts)
    (ht : truncOf (validatePartial pm rules o) = true) :
    o.maxErrors > 0 ∧ (fieldsOf (validatePartial pm rules o)).length ≥ o.maxErrors := by
  obtain ⟨_, _, _, _, h3⟩ := capLoop_spec o.maxErrors (partialGroups mkErr (leafPaths pm) (ownTags rules) o) []
  rw [validatePartial, partialFrom_trunc] at ht
  have h := h3 ht
  have hc := (trimCap_capped o.maxErrors h.1 (partialGroups mkErr (leafPaths pm) (ownTags rules) o)).2.1 ht
  rw [validatePartial, (partialFrom_fields mkErr (leafPaths pm) (ownTags rules) o).length_eq, hc]
  exact ⟨h.1, Nat.le_refl _⟩

/-- **capped at the configured maximum** — for every rule table (a field may yield any number of errors, e.g. a
    `dive` rule failing on several elements: after the repair of K05l the list is cut): it never exceeds the
    maximum, is exactly full when `Truncated`, and below the maximum otherwise -/
theorem errors_capped (pm : List Path) (rules : List Rule) (o : Opts) (hm : o.maxErrors > 0) :
    (fieldsOf (validatePartial pm rules o)).length ≤ o.maxErrors ∧
    (truncOf (validatePartial pm rules o) = true → (fieldsOf (validatePartial pm rules o)).length = o.maxErrors) ∧
    (truncOf (validatePartial pm rules o) = false → (fieldsOf (validatePartial pm rules o)).length < o.maxErrors) := by
  have := trimCap_capped o.maxErrors hm (partialGroups mkErr (leafPaths pm) (ownTags rules) o)
  rw [validatePartial, partialFrom_trunc, (partialFrom_fields mkErr (leafPaths pm) (ownTags rules) o).length_eq]
  exact this

/-- the returned list is ordered by path, then code (`Error.Sort`) -/
theorem errors_sorted (pm : List Path) (rules : List Rule) (o : Opts) :
    (fieldsOf (validatePartial pm rules o)).Pairwise (fun a b => errLe a b = true) :=
  partialFrom_sorted _ _ _ _

/-- an error whose path the redactor covers never shows its value… -/
theorem redacted_absent (pm : List Path) (rules : List Rule) (o : Opts) (e : FieldErr)
    (he : e ∈ fieldsOf (validatePartial pm rules o)) (hr : e.path ∈ o.redacted) : e.hidden = true := by
  obtain ⟨_, v, _, hev⟩ := partial_sound pm rules o e he
  rw [hev]
  simp [mkErr, hr]

/-- …nor does an error on a struct, slice or map whose printed value would reveal a covered path -/
theorem redacted_nested_absent (pm : List Path) (rules : List Rule) (o : Opts) (e : FieldErr)
    (he : e ∈ fieldsOf (validatePartial pm rules o)) :
    ∃ v ∈ ownTags rules e.path, e = mkErr o e.path v ∧ ((∃ q ∈ v.shows, q ∈ o.redacted) → e.hidden = true) := by
  obtain ⟨_, v, hv, hev⟩ := partial_sound pm rules o e he
  refine ⟨v, hv, hev, ?_⟩
  rintro ⟨q, hq, hqr⟩
  rw [hev]
  simp only [mkErr, Bool.or_eq_true, List.any_eq_true, List.contains_iff_mem]
  exact Or.inr ⟨q, hq, hqr⟩

/-- **determinism** — the whole result is a function of the path *set*: no iteration order of the
    presence map can change the ordered error list, `Truncated`, or which errors survive the cap -/
theorem validate_perm (pm₁ pm₂ : List Path) (h : pm₁.Perm pm₂) (rules : List Rule) (o : Opts) :
    validatePartial pm₁ rules o = validatePartial pm₂ rules o := by
  unfold validatePartial; rw [leaf_perm pm₁ pm₂ h]

/-! ## 5. full validation: the same pipeline over the validator's own error list -/

theorem lemma_mem_fullGroups (errs : List (Path × Viol)) (o : Opts) (e : FieldErr) :
    e ∈ (fullGroups mkErr errs o).flatten ↔ ∃ pv ∈ errs, e = mkErr o pv.1 pv.2 := by
  simp only [fullGroups, List.mem_flatten, List.mem_map]
  constructor
  · rintro ⟨g, ⟨pv, hpv, rfl⟩, he⟩
    exact ⟨pv, hpv, by simpa using he⟩
  · rintro ⟨pv, hpv, rfl⟩
    exact ⟨_, ⟨pv, hpv, rfl⟩, by simp⟩

/-- every returned error is one the validator reported (path, code) with the redaction rule applied -/
theorem full_sound (errs : List (Path × Viol)) (o : Opts) (e : FieldErr)
    (he : e ∈ fieldsOf (validateFull errs o)) : ∃ pv ∈ errs, e = mkErr o pv.1 pv.2 := by
  obtain ⟨k, _, h1, _, _⟩ := capLoop_spec o.maxErrors (fullGroups mkErr errs o) []
  have hf := validateFull_fields mkErr errs o
  rw [h1, List.nil_append] at hf
  exact (lemma_mem_fullGroups errs o e).mp (lemma_mem_take_flatten _ k e (hf.mem_iff.mp he))

/-- nothing the validator reported is dropped unless `Truncated` is set -/
theorem full_complete (errs : List (Path × Viol)) (o : Opts) (ht : truncOf (validateFull errs o) = false)
    (pv : Path × Viol) (hpv : pv ∈ errs) : mkErr o pv.1 pv.2 ∈ fieldsOf (validateFull errs o) := by
  obtain ⟨k, _, h1, h2, _⟩ := capLoop_spec o.maxErrors (fullGroups mkErr errs o) []
  have ht' : (capLoop o.maxErrors (fullGroups mkErr errs o) []).2 = false := by
    rw [← validateFull_trunc]; exact ht
  have hf := validateFull_fields mkErr errs o
  rw [h1, List.nil_append, h2 ht', List.take_length] at hf
  exact hf.mem_iff.mpr ((lemma_mem_fullGroups errs o _).mpr ⟨pv, hpv, rfl⟩)

/-- full mode adds one error at a time, so the cap is exact without any hypothesis on the rules -/
theorem full_capped (errs : List (Path × Viol)) (o : Opts) (hm : o.maxErrors > 0) :
    (fieldsOf (validateFull errs o)).length ≤ o.maxErrors ∧
    (truncOf (validateFull errs o) = true → (fieldsOf (validateFull errs o)).length = o.maxErrors) ∧
    (truncOf (validateFull errs o) = false → (fieldsOf (validateFull errs o)).length < o.maxErrors) := by
  have hg : ∀ g ∈ fullGroups mkErr errs o, g.length ≤ 1 := by
    intro g hg
    simp only [fullGroups, List.mem_map] at hg
    obtain ⟨pv, _, rfl⟩ := hg
    simp
  have := capLoop_capped o.maxErrors hm _ hg [] (by simpa using hm)
  rw [validateFull, validateFull_trunc, (validateFull_fields mkErr errs o).length_eq]
  exact this

theorem full_truncated_only_when_full (errs : List (Path × Viol)) (o : Opts)
    (ht : truncOf (validateFull errs o) = true) :
    o.maxErrors > 0 ∧ (fieldsOf (validateFull errs o)).length ≥ o.maxErrors := by
  obtain ⟨_, _, _, _, h3⟩ := capLoop_spec o.maxErrors (fullGroups mkErr errs o) []
  rw [validateFull, validateFull_trunc] at ht
  have := h3 ht
  rw [validateFull, (validateFull_fields mkErr errs o).length_eq]
  exact this

theorem full_sorted (errs : List (Path × Viol)) (o : Opts) :
    (fieldsOf (validateFull errs o)).Pairwise (fun a b => errLe a b = true) :=
  validateFull_sorted _ _ _

theorem full_redacted_absent (errs : List (Path × Viol)) (o : Opts) (e : FieldErr)
    (he : e ∈ fieldsOf (validateFull errs o)) :
    ∃ pv ∈ errs, e = mkErr o pv.1 pv.2 ∧
      ((pv.1 ∈ o.redacted ∨ ∃ q ∈ pv.2.shows, q ∈ o.redacted) → e.hidden = true) := by
  obtain ⟨pv, hpv, rfl⟩ := full_sound errs o e he
  refine ⟨pv, hpv, rfl, ?_⟩
  intro h
  simp only [mkErr, Bool.or_eq_true, List.any_eq_true, List.contains_iff_mem]
  rcases h with h | ⟨q, hq, hqr⟩
  · exact Or.inl h
  · exact Or.inr ⟨q, hq, hqr⟩

/-! ## 5b. the model passes the very oracle the driver evaluates on the implementation -/

/-- sufficient conditions, in `Prop` form, for the Boolean oracle `errorsOK` -/
theorem lemma_errorsOK_of (want : List Want) (o : Opts) (single : Bool) (obs : Option Result)
    (h1 : ∀ e ∈ fieldsOf obs, ∃ w ∈ want, w.path = e.path ∧ w.code = e.code ∧
      (e.hidden = false → e.path ∉ o.redacted ∧ ¬ ∃ q ∈ w.shows, q ∈ o.redacted))
    (h2 : truncOf obs = false → ∀ w ∈ want, ∃ e ∈ fieldsOf obs, e.path = w.path ∧ e.code = w.code)
    (h3 : o.maxErrors > 0 → single = true → (fieldsOf obs).length ≤ o.maxErrors)
    (h4 : truncOf obs = true → o.maxErrors > 0 ∧ (fieldsOf obs).length ≥ o.maxErrors)
    (h5 : ∀ r, obs = some r → r.fields ≠ [])
    (h6 : (fieldsOf obs).Pairwise (fun a b => errLe a b = true)) :
    errorsOK want o single obs = true := by
  unfold errorsOK
  simp only [Bool.and_eq_true]
  refine ⟨⟨⟨⟨⟨⟨?c1, ?c2⟩, ?c3⟩, ?c4⟩, ?c5⟩, ?c6⟩, ?c7⟩
  case c1 =>
    simp only [List.all_eq_true, List.mem_map, List.contains_iff_mem]
    rintro pc ⟨e, he, rfl⟩
    obtain ⟨w, hw, hp, hc, _⟩ := h1 e he
    exact ⟨w, hw, by rw [hp, hc]⟩
  case c2 =>
    cases htr : truncOf obs with
    | false =>
      simp only [Bool.false_and, Bool.or_false, List.isEmpty_iff, List.filter_eq_nil_iff]
      intro pc hpc
      obtain ⟨w, hw, rfl⟩ := List.mem_map.mp hpc
      obtain ⟨e, he, hp, hc⟩ := h2 htr w hw
      intro hcon
      have : (w.path, w.code) ∈ (fieldsOf obs).map fun e => (e.path, e.code) :=
        List.mem_map.mpr ⟨e, he, by rw [hp, hc]⟩
      rw [← List.contains_iff_mem] at this
      rw [this] at hcon
      simp at hcon
    | true =>
      have := h4 htr
      simp [this.1, this.2]
  case c3 =>
    by_cases hm : o.maxErrors > 0
    · cases single with
      | false => simp
      | true => simp [hm, h3 hm rfl]
    · simp [hm]
  case c4 =>
    cases htr : truncOf obs with
    | false => simp
    | true => have := h4 htr; simp [this.1, this.2]
  case c5 =>
    cases obs with
    | none => rfl
    | some r => simpa [fieldsOf, List.isEmpty_iff] using h5 r rfl
  case c6 => exact errSorted_of_pairwise h6
  case c7 =>
    simp only [List.all_eq_true]
    intro e he
    obtain ⟨w, hw, hp, hc, hh⟩ := h1 e he
    cases hhid : e.hidden with
    | true => simp
    | false =>
      obtain ⟨hnr, hns⟩ := hh hhid
      simp only [Bool.false_or, Bool.not_eq_true', Bool.or_eq_false_iff, Bool.and_eq_false_iff]
      refine ⟨by simpa using hnr, ?_⟩
      right
      -- the want that produced `e` is among the matching ones and does not demand hiding
      simp only [List.all_eq_false]
      refine ⟨w, ?_, ?_⟩
      · simp [List.mem_filter, hw, hp, hc]
      · simp only [Bool.not_eq_true, List.any_eq_false, List.contains_iff_mem]
        intro q hq hqr
        exact hns ⟨q, hq, hqr⟩

/-- **partial validation, model ⊨ oracle**: for every presence set, rule table and option set the
    model's result passes `errorsOK` against the declaratively expected error list — the check the
    driver runs on what the real code returned -/
theorem errorsOK_model_partial (pm : List Path) (rules : List Rule) (o : Opts) (single : Bool) :
    errorsOK (expectedErrs pm rules o) o single (validatePartial pm rules o) = true := by
  have hexp : expectedErrs pm rules o =
      ((leafPaths pm).take (maxLeaves o)).flatMap fun p =>
        (ownTags rules p).map fun v => (⟨p, tagPrefix ++ v.tag, v.shows⟩ : Want) := by
    unfold expectedErrs
    rw [← leafPaths_eq_spec]
    congr 1
    funext p
    exact lemma_violations rules p
  have hmemL : ∀ e ∈ fieldsOf (validatePartial pm rules o),
      ∃ p ∈ (leafPaths pm).take (maxLeaves o), ∃ v ∈ ownTags rules p, e = mkErr o p v := by
    intro e he
    obtain ⟨k, n, hk⟩ := partial_prefix pm rules o
    exact (lemma_mem_groups _ _ _ _).mp (lemma_mem_take_flatten _ k e (List.mem_of_mem_take (hk.mem_iff.mp he)))
  apply lemma_errorsOK_of
  · intro e he
    obtain ⟨p, hp, v, hv, rfl⟩ := hmemL e he
    refine ⟨⟨p, tagPrefix ++ v.tag, v.shows⟩, ?_, rfl, rfl, ?_⟩
    · rw [hexp]; exact List.mem_flatMap.mpr ⟨p, hp, List.mem_map.mpr ⟨v, hv, rfl⟩⟩
    · intro hh
      simp only [mkErr, Bool.or_eq_false_iff, List.any_eq_false, List.contains_iff_mem] at hh
      refine ⟨by simpa [mkErr] using hh.1, ?_⟩
      rintro ⟨q, hq, hqr⟩
      exact hh.2 q hq hqr
  · intro ht w hw
    rw [hexp] at hw
    obtain ⟨p, hp, hw⟩ := List.mem_flatMap.mp hw
    obtain ⟨v, hv, rfl⟩ := List.mem_map.mp hw
    refine ⟨mkErr o p v, ?_, rfl, rfl⟩
    obtain ⟨k, _, h1, h2, _⟩ := capLoop_spec o.maxErrors (partialGroups mkErr (leafPaths pm) (ownTags rules) o) []
    have ht' : (capLoop o.maxErrors (partialGroups mkErr (leafPaths pm) (ownTags rules) o) []).2 = false := by
      rw [← partialFrom_trunc]; exact ht
    have hf := partialFrom_fields mkErr (leafPaths pm) (ownTags rules) o
    simp only [trimCap, ht', Bool.false_eq_true, if_false] at hf
    rw [h1, List.nil_append, h2 ht', List.take_length] at hf
    exact hf.mem_iff.mpr ((lemma_mem_groups _ _ _ _).mpr ⟨p, hp, v, hv, rfl⟩)
  · intro hm _
    exact (errors_capped pm rules o hm).1
  · exact truncated_only_when_full pm rules o
  · intro r hr
    exact partialFrom_some_nonempty _ _ _ _ r hr
  · exact errors_sorted pm rules o

/-- **full validation, model ⊨ oracle** -/
theorem errorsOK_model_full (errs : List (Path × Viol)) (o : Opts) (single : Bool) :
    errorsOK (errs.map fun pv => ⟨pv.1, tagPrefix ++ pv.2.tag, pv.2.shows⟩) o single (validateFull errs o) = true := by
  apply lemma_errorsOK_of
  · intro e he
    obtain ⟨pv, hpv, rfl⟩ := full_sound errs o e he
    refine ⟨⟨pv.1, tagPrefix ++ pv.2.tag, pv.2.shows⟩, List.mem_map.mpr ⟨pv, hpv, rfl⟩, rfl, rfl, ?_⟩
    intro hh
    simp only [mkErr, Bool.or_eq_false_iff, List.any_eq_false, List.contains_iff_mem] at hh
    refine ⟨by simpa [mkErr] using hh.1, ?_⟩
    rintro ⟨q, hq, hqr⟩
    exact hh.2 q hq hqr
  · intro ht w hw
    obtain ⟨pv, hpv, rfl⟩ := List.mem_map.mp hw
    exact ⟨mkErr o pv.1 pv.2, full_complete errs o ht pv hpv, rfl, rfl⟩
  · intro hm _
    exact (full_capped errs o hm).1
  · exact full_truncated_only_when_full errs o
  · intro r hr
    exact validateFull_some_nonempty _ _ _ r hr
  · exact full_sorted errs o

/-! ## 5c. several strategies (`WithRunAll`) and the interface strategy -/

/-- the interface strategy alone: what `Validate()` returned, cut to the maximum and sorted -/
theorem interface_capped (errs : List FieldErr) (o : Opts) :
    (fieldsOf (coerce errs o)).length ≤ o.maxErrors ∨ (fieldsOf (coerce errs o)).length = errs.length := by
  rw [(coerce_fields errs o).length_eq]
  by_cases h : o.maxErrors > 0 ∧ errs.length > o.maxErrors
  · rw [if_pos h]; exact Or.inl (List.length_take_le _ _)
  · rw [if_neg h]; exact Or.inr rfl

/-- **capped** — with several strategies the *combined* list stays within the maximum
    (after the repair of K05g), whatever the strategies returned -/
theorem runall_capped (parts : List (Option Result)) (o : Opts) (hm : o.maxErrors > 0) :
    (fieldsOf (validateAll parts o)).length ≤ o.maxErrors := by
  unfold validateAll
  rw [validateAll_eq_wrap, (wrap_fields _ _).length_eq]
  exact allLoop_capped o hm parts [] false (by simpa using hm)

theorem runall_sound (parts : List (Option Result)) (o : Opts) (e : FieldErr)
    (he : e ∈ fieldsOf (validateAll parts o)) : ∃ r, some r ∈ parts ∧ e ∈ r.fields := by
  unfold validateAll at he
  rw [validateAll_eq_wrap] at he
  rcases allLoop_sound true o parts [] false e ((wrap_fields _ _).mem_iff.mp he) with h | h
  · simp at h
  · exact h

theorem runall_sorted (parts : List (Option Result)) (o : Opts) :
    (fieldsOf (validateAll parts o)).Pairwise (fun a b => errLe a b = true) := by
  unfold validateAll; rw [validateAll_eq_wrap]; exact wrap_sorted _ _

/-- K05g, as shipped: each strategy capped only its own result — two errors from `Validate()` and
    three from the tags with `maxErrors = 3` gave five -/
theorem runall_asis_witness :
    let e : Nat → FieldErr := fun i => ⟨[Char.ofNat (97 + i)], [], false⟩
    let parts : List (Option Result) := [some ⟨[e 0, e 1], false⟩, some ⟨[e 2, e 3, e 4], true⟩]
    (allLoop false ⟨3, 0, []⟩ parts [] false).fields.length = 5 ∧
    (allLoop true ⟨3, 0, []⟩ parts [] false).fields.length = 3 := by
  decide

/-- **all strategies, model ⊨ oracle**: the interface errors (never covered by the redactor — they
    carry no value) followed by the tag errors, through `validateAll` -/
theorem errorsOK_model_runall (iface : List FieldErr) (errs : List (Path × Viol)) (o : Opts) (single : Bool)
    (hi : ∀ e ∈ iface, e.hidden = false ∧ e.path ∉ o.redacted) :
    errorsOK ((iface.map fun e => ⟨e.path, e.code, []⟩) ++
              (errs.map fun pv => ⟨pv.1, tagPrefix ++ pv.2.tag, pv.2.shows⟩)) o single
      (validateAll [coerce iface o, validateFull errs o] o) = true := by
  -- facts about the two parts
  have hparts : ∀ r, some r ∈ [coerce iface o, validateFull errs o] → r.truncated = true →
      o.maxErrors > 0 ∧ r.fields.length ≥ o.maxErrors := by
    intro r hr ht
    rcases List.mem_cons.mp hr with h0 | h0
    · have h1 : truncOf (coerce iface o) = true := by rw [← h0]; exact ht
      rw [coerce_trunc] at h1
      have h1 := of_decide_eq_true h1
      refine ⟨h1.1, ?_⟩
      have h2 : r.fields = fieldsOf (coerce iface o) := by rw [← h0]; rfl
      rw [h2, (coerce_fields iface o).length_eq, if_pos h1, List.length_take]
      omega
    · rcases List.mem_cons.mp h0 with h0 | h0
      · have h1 : truncOf (validateFull errs o) = true := by rw [← h0]; exact ht
        have h2 : r.fields = fieldsOf (validateFull errs o) := by rw [← h0]; rfl
        rw [h2]; exact full_truncated_only_when_full errs o h1
      · simp at h0
  have hwrap : validateAll [coerce iface o, validateFull errs o] o =
      wrap (allLoop true o [coerce iface o, validateFull errs o] [] false).fields
           (allLoop true o [coerce iface o, validateFull errs o] [] false).truncated := by
    unfold validateAll; exact validateAll_eq_wrap _ _ _
  have htr : truncOf (validateAll [coerce iface o, validateFull errs o] o) =
      (allLoop true o [coerce iface o, validateFull errs o] [] false).truncated := by
    rw [hwrap]
    apply wrap_trunc
    intro ht he
    have := allLoop_trunc o _ [] hparts ht
    rw [he] at this
    simp at this
    omega
  have hmem : ∀ e, e ∈ fieldsOf (validateAll [coerce iface o, validateFull errs o] o) ↔
      e ∈ (allLoop true o [coerce iface o, validateFull errs o] [] false).fields := by
    intro e; rw [hwrap]; exact (wrap_fields _ _).mem_iff
  -- membership in a part
  have hpart : ∀ r e, some r ∈ [coerce iface o, validateFull errs o] → e ∈ r.fields →
      (e ∈ iface) ∨ (∃ pv ∈ errs, e = mkErr o pv.1 pv.2) := by
    intro r e hr he
    rcases List.mem_cons.mp hr with h0 | h0
    · left
      have h2 : e ∈ fieldsOf (coerce iface o) := by rw [← h0]; exact he
      have := (coerce_fields iface o).mem_iff.mp h2
      by_cases h : o.maxErrors > 0 ∧ iface.length > o.maxErrors
      · rw [if_pos h] at this; exact List.mem_of_mem_take this
      · rw [if_neg h] at this; exact this
    · rcases List.mem_cons.mp h0 with h0 | h0
      · right
        have h2 : e ∈ fieldsOf (validateFull errs o) := by rw [← h0]; exact he
        exact full_sound errs o e h2
      · simp at h0
  apply lemma_errorsOK_of
  · intro e he
    obtain ⟨r, hr, her⟩ := runall_sound _ o e he
    rcases hpart r e hr her with h1 | ⟨pv, hpv, rfl⟩
    · refine ⟨⟨e.path, e.code, []⟩, List.mem_append_left _ (List.mem_map.mpr ⟨e, h1, rfl⟩), rfl, rfl, ?_⟩
      intro _
      exact ⟨(hi e h1).2, by simp⟩
    · refine ⟨⟨pv.1, tagPrefix ++ pv.2.tag, pv.2.shows⟩,
        List.mem_append_right _ (List.mem_map.mpr ⟨pv, hpv, rfl⟩), rfl, rfl, ?_⟩
      intro hh
      simp only [mkErr, Bool.or_eq_false_iff, List.any_eq_false, List.contains_iff_mem] at hh
      refine ⟨by simpa [mkErr] using hh.1, ?_⟩
      rintro ⟨q, hq, hqr⟩
      exact hh.2 q hq hqr
  · intro ht w hw
    rw [htr] at ht
    -- not truncated: the loop ran through, and no part was truncated on its own
    have hcomplete := allLoop_complete true o [coerce iface o, validateFull errs o] [] false ht
    have hpt : ∀ r, some r ∈ [coerce iface o, validateFull errs o] → r.truncated = false := by
      intro r hr
      cases hb : r.truncated with
      | false => rfl
      | true =>
        -- a truncated part fills the list, which stops the loop and sets Truncated
        have := allLoop_part_truncated true o _ [] false r hr (hparts r hr hb)
        rw [this] at ht
        exact absurd ht (by simp)
    rcases List.mem_append.mp hw with h1 | h1
    · obtain ⟨e, he, rfl⟩ := List.mem_map.mp h1
      refine ⟨e, ?_, rfl, rfl⟩
      rw [hmem]
      obtain ⟨r1, hc⟩ := coerce_isSome iface o (List.ne_nil_of_mem he)
      have hr1 : some r1 ∈ [coerce iface o, validateFull errs o] := by rw [hc]; simp
      have hnt := hpt r1 hr1
      apply hcomplete e
      refine Or.inr ⟨r1, hr1, ?_⟩
      have h2 : r1.fields = fieldsOf (coerce iface o) := by rw [hc]; rfl
      rw [h2]
      apply (coerce_fields iface o).mem_iff.mpr
      have h3 : truncOf (coerce iface o) = false := by rw [hc]; exact hnt
      rw [coerce_trunc] at h3
      have h3 := of_decide_eq_false h3
      rw [if_neg h3]; exact he
    · obtain ⟨pv, hpv, rfl⟩ := List.mem_map.mp h1
      refine ⟨mkErr o pv.1 pv.2, ?_, rfl, rfl⟩
      rw [hmem]
      -- the tags part is not nil (it has at least this error once it is known untruncated) …
      have hne : ∃ r2, validateFull errs o = some r2 := by
        rcases hopt : validateFull errs o with _ | r2
        · -- nil means: no errors at all, and then it is not truncated, hence complete — contradiction
          have hcomp := full_complete errs o (by rw [hopt]; rfl) pv hpv
          rw [hopt] at hcomp
          simp [fieldsOf] at hcomp
        · exact ⟨r2, rfl⟩
      obtain ⟨r2, hf⟩ := hne
      have hr2 : some r2 ∈ [coerce iface o, validateFull errs o] := by rw [hf]; simp
      have hnt := hpt r2 hr2
      apply hcomplete _
      refine Or.inr ⟨r2, hr2, ?_⟩
      have h2 : r2.fields = fieldsOf (validateFull errs o) := by rw [hf]; rfl
      rw [h2]
      apply full_complete errs o _ pv hpv
      rw [hf]; exact hnt
  · intro hm _
    exact runall_capped _ o hm
  · intro ht
    rw [htr] at ht
    have := allLoop_trunc o _ [] hparts ht
    refine ⟨this.1, ?_⟩
    rw [hwrap, (wrap_fields _ _).length_eq]
    exact this.2
  · intro r hr
    rw [hwrap] at hr
    exact wrap_some_nonempty _ _ r hr
  · exact runall_sorted _ o

/-! ## 6. the behaviour as shipped (witnesses of the repaired findings) -/

/-- K05c: `Tags []string validate:"min=2"` with `{"tags":["a","b"]}` — the element `tags.0` has no
    rule of its own (`resolves = false`), yet as shipped the loop checked it against the container's
    `min=2` and reported two errors; the repaired loop reports nothing, as the oracle demands -/
theorem element_rule_asis_witness :
    let pm := ["tags".toList, "tags.0".toList, "tags.1".toList]
    let leaves := ["tags.0".toList, "tags.1".toList]
    let rules : List Rule := [⟨"tags.0".toList, false, [], false, false, true, some ["min".toList]⟩,
                             ⟨"tags.1".toList, false, [], false, false, true, some ["min".toList]⟩]
    let o : Opts := ⟨0, 0, []⟩
    (partialLoopAsIs rules o leaves []).map (fun r => r.fields.map (·.path)) = some leaves ∧
    (partialLoop mkErr (ownTags rules) o leaves []).fields = [] ∧
    IsLeaf pm "tags.0".toList ∧ ¬ Expected pm rules "tags.0".toList "tag.min".toList := by
  refine ⟨by decide, by decide, by rw [← isLeafB_iff]; decide, ?_⟩
  rintro ⟨_, h⟩; revert h; decide

/-- K05c: with a `dive` tag the container's rule panicked on the element (`ctags = none`) -/
theorem element_rule_asis_panics :
    validatePartialAsIs (fun _ => ["dive.0".toList]) [] [⟨"dive.0".toList, true, [], false, false, true, none⟩] ⟨0, 0, []⟩ = none := by
  decide

/-- K05d: a struct field whose JSON name is a number did not resolve as shipped -/
theorem numeric_field_asis_witness :
    ownTagsNum [⟨"1".toList, true, [⟨"email".toList, ["1".toList]⟩], true, false, true, some ["email".toList]⟩] "1".toList = [] ∧
    ownTags [⟨"1".toList, true, [⟨"email".toList, ["1".toList]⟩], true, false, true, some ["email".toList]⟩] "1".toList ≠ [] := by
  decide

/-- K05h: a field promoted from an embedded struct (`type T struct { Base; … }`, body `{"id":"x"}`)
    did not resolve as shipped, so a present leaf violating its rule was not reported -/
theorem embedded_field_asis_witness :
    ownTagsEmb [⟨"id".toList, true, [⟨"min".toList, ["id".toList]⟩], false, true, true, some ["min".toList]⟩] "id".toList = [] ∧
    ownTags [⟨"id".toList, true, [⟨"min".toList, ["id".toList]⟩], false, true, true, some ["min".toList]⟩] "id".toList ≠ [] := by
  decide

/-- K05l, as shipped: a leaf that yields several errors (`dive,min=3` on three short elements) put all of them into
    the list although `WithMaxErrors(1)` was given; after the repair the list is cut to the maximum -/
theorem multi_error_leaf_asis_witness :
    let own : Path → List Viol := fun _ => [⟨"min".toList, []⟩, ⟨"min".toList, []⟩, ⟨"min".toList, []⟩]
    (partialLoopK05l mkErr own ⟨1, 0, []⟩ ["tags".toList] []).fields.length = 3 ∧
    (partialLoopK05l mkErr own ⟨1, 0, []⟩ ["tags".toList] []).truncated = true ∧
    (partialLoop mkErr own ⟨1, 0, []⟩ ["tags".toList] []).fields.length = 1 ∧
    (partialLoop mkErr own ⟨1, 0, []⟩ ["tags".toList] []).truncated = true := by
  decide

/-- K05m, as shipped: `struct { B string `json:"Base" validate:"min=3"`; Base }` — the embedded struct, entered into
    the field map under its Go name after `B`, took the entry `Base`: the body key `Base` (which encoding/json binds to
    `B`) resolved to nothing and the leaf was not validated; after the repair it resolves to `B` -/
theorem shadowed_by_embedded_asis_witness :
    let fields : List (FieldInfo × Shape) :=
      [(⟨"B".toList, "Base".toList, false, false, "min=3".toList⟩, .other),
       (⟨"Base".toList, [], true, true, []⟩, .struct [(⟨"ID".toList, "id".toList, false, false, []⟩, .other)])]
    fieldIndexAsIs fields "Base".toList = some 1 ∧
    fieldIndex fields "Base".toList = some 0 ∧
    ruleAt (.ptr (.struct fields)) "Base".toList = some ([0], "min=3".toList) := by
  decide

/-- K05f: as shipped only the error's own path was put to the redactor: an error on `kids` whose
    printed value reveals `kids.1.secret` was not hidden although the redactor covers that path -/
theorem nested_redaction_asis_witness :
    let o : Opts := ⟨0, 0, ["kids.1.secret".toList]⟩
    let v : Viol := ⟨"max".toList, ["kids".toList, "kids.0".toList, "kids.1".toList, "kids.1.secret".toList]⟩
    (mkErrAsIs o "kids".toList v).hidden = false ∧ (mkErr o "kids".toList v).hidden = true := by
  decide

/-! ## 8. path resolution inside the model (`resolvePath`, `promotedField`, `getJSONFieldName`, `elementTag`)

`validatePartialT` resolves every leaf itself over the shape of the value (`Model/PresenceResolve.lean`);
the rule table of the sections above is *derived* from it (`inducedRules`), so that every theorem about
`validatePartial` holds of `validatePartialT`, with "the field's own rule" now spelled out: the path resolves
(`ruleAt`) and `validator.Var` reports at the resolved location under the element tag. -/

/-- the rule table the resolving model induces on a list of paths -/
def inducedRules (root : Shape) (var : VarTable) (ps : List Path) : List Rule :=
  ps.map fun p => { path := p, resolves := true, tags := ownTagsT root var p, num := false, emb := false,
                    cresolves := false, ctags := some [] }

theorem lemma_ownTags_induced (root : Shape) (var : VarTable) (ps : List Path) (p : Path) (hp : p ∈ ps) :
    ownTags (inducedRules root var ps) p = ownTagsT root var p := by
  unfold ownTags ruleFor
  have hex : ∃ r ∈ inducedRules root var ps, (r.path == p) = true :=
    ⟨_, List.mem_map.mpr ⟨p, hp, rfl⟩, by simp⟩
  cases hf : (inducedRules root var ps).find? (fun r => r.path == p) with
  | none =>
    obtain ⟨r, hr, hk⟩ := hex
    have := List.find?_eq_none.mp hf r hr
    exact absurd hk this
  | some r =>
    have hm := List.mem_of_find?_eq_some hf
    have hk : r.path = p := by simpa using List.find?_some hf
    unfold inducedRules at hm
    obtain ⟨q, _, rfl⟩ := List.mem_map.mp hm
    simp only at hk
    subst hk
    simp

/-- the leaf loop consults the rule function at the listed leaves only -/
theorem lemma_partialLoop_congr (mk : Opts → Path → Viol → FieldErr) (own own' : Path → List Viol) (o : Opts) :
    ∀ (ls : List Path) (acc : List FieldErr), (∀ p ∈ ls, own p = own' p) →
      partialLoop mk own o ls acc = partialLoop mk own' o ls acc
  | [], _, _ => rfl
  | p :: rest, acc, h => by
    have hp : own p = own' p := h p (by simp)
    have ih := fun acc' => lemma_partialLoop_congr mk own own' o rest acc' (fun q hq => h q (by simp [hq]))
    simp only [partialLoop, hp, ih]

theorem lemma_partialFrom_congr (mk : Opts → Path → Viol → FieldErr) (own own' : Path → List Viol) (o : Opts)
    (leaves : List Path) (h : ∀ p ∈ leaves, own p = own' p) :
    partialFrom mk leaves own o = partialFrom mk leaves own' o := by
  unfold partialFrom
  rw [lemma_partialLoop_congr mk own own' o _ [] (fun p hp => h p (List.mem_of_mem_take hp))]

/-- what the driver evaluates in partial mode -/
theorem validatePartialT_unfold (pm : List Path) (root : Shape) (var : VarTable) (o : Opts) :
    validatePartialT pm root var o = partialFrom mkErr (leafPaths pm) (ownTagsT root var) o := rfl

/-- the resolving model *is* the table-driven model on the table it induces -/
theorem validatePartialT_eq (pm : List Path) (root : Shape) (var : VarTable) (o : Opts) :
    validatePartialT pm root var o = validatePartial pm (inducedRules root var (leafPaths pm)) o := by
  unfold validatePartialT validatePartial
  exact lemma_partialFrom_congr _ _ _ _ _ fun p hp => (lemma_ownTags_induced root var _ p hp).symm

/-- … and on any table that agrees with its resolution at the leaves (the harness computes such a table
    with a resolver of its own, independent of the code under test: the oracle's parameter) -/
theorem validatePartialT_of_agree (pm : List Path) (root : Shape) (var : VarTable) (rules : List Rule) (o : Opts)
    (h : ∀ p ∈ leafPaths pm, ownTags rules p = ownTagsT root var p) :
    validatePartialT pm root var o = validatePartial pm rules o := by
  unfold validatePartialT validatePartial
  exact lemma_partialFrom_congr _ _ _ _ _ fun p hp => (h p hp).symm

/-- **partial validation validates exactly the present leaves that resolve** — with the path resolution of
    the code inside the model: `(p, c)` is reported iff `p` is a present leaf, `resolvePath` finds a value for
    it that has a rule of its own (`ruleAt`: the field's `validate` tag, for an element what follows the
    matching `dive`), and `validator.Var` reports `c` for that value under that rule -/
theorem partialT_iff (pm : List Path) (root : Shape) (var : VarTable) (o : Opts)
    (ht : truncOf (validatePartialT pm root var o) = false) (hl : (leafPaths pm).length ≤ maxLeaves o)
    (p : Path) (c : Bytes) :
    (∃ e ∈ fieldsOf (validatePartialT pm root var o), e.path = p ∧ e.code = c) ↔
      IsLeaf pm p ∧ ∃ loc t, ruleAt root p = some (loc, t) ∧ ∃ v ∈ varLookup var loc t, c = tagPrefix ++ v.1 := by
  rw [validatePartialT_eq] at ht ⊢
  rw [partial_iff pm _ o ht hl p c]
  unfold Expected
  rw [lemma_violations]
  constructor
  · rintro ⟨hleaf, w, hw, rfl⟩
    refine ⟨hleaf, ?_⟩
    obtain ⟨v, hv, rfl⟩ := List.mem_map.mp hw
    rw [lemma_ownTags_induced root var _ p ((leaf_fixed_correct pm p).mpr hleaf)] at hv
    unfold ownTagsT at hv
    cases hr : ruleAt root p with
    | none => simp [hr] at hv
    | some lt =>
      obtain ⟨loc, t⟩ := lt
      simp only [hr, List.mem_map] at hv
      obtain ⟨v0, hv0, rfl⟩ := hv
      exact ⟨loc, t, rfl, v0, hv0, rfl⟩
  · rintro ⟨hleaf, loc, t, hr, v, hv, rfl⟩
    refine ⟨hleaf, ⟨p, tagPrefix ++ v.1, reveals (maxRecursionDepth + 1) p v.2⟩, ?_, rfl⟩
    apply List.mem_map.mpr
    refine ⟨{ tag := v.1, shows := reveals (maxRecursionDepth + 1) p v.2 }, ?_, rfl⟩
    rw [lemma_ownTags_induced root var _ p ((leaf_fixed_correct pm p).mpr hleaf)]
    unfold ownTagsT
    simp only [hr, List.mem_map]
    exact ⟨v, hv, rfl⟩

/-- never an absent field, never a non-leaf, never a path that does not resolve -/
theorem partialT_sound (pm : List Path) (root : Shape) (var : VarTable) (o : Opts) (e : FieldErr)
    (he : e ∈ fieldsOf (validatePartialT pm root var o)) :
    e.path ∈ pm ∧ IsLeaf pm e.path ∧ (ruleAt root e.path).isSome = true := by
  rw [validatePartialT_eq] at he
  obtain ⟨hleaf, v, hv, _⟩ := partial_sound pm _ o e he
  refine ⟨hleaf.1, hleaf, ?_⟩
  rw [lemma_ownTags_induced root var _ _ ((leaf_fixed_correct pm _).mpr hleaf)] at hv
  unfold ownTagsT at hv
  cases hr : ruleAt root e.path with
  | none => simp [hr] at hv
  | some _ => rfl

/-- capped, `Truncated` only when full — with the resolution inside, for every `Var` table (no single-error
    hypothesis: K05l repaired) -/
theorem partialT_capped (pm : List Path) (root : Shape) (var : VarTable) (o : Opts) (hm : o.maxErrors > 0) :
    (fieldsOf (validatePartialT pm root var o)).length ≤ o.maxErrors ∧
    (truncOf (validatePartialT pm root var o) = true → (fieldsOf (validatePartialT pm root var o)).length = o.maxErrors) := by
  rw [validatePartialT_eq]
  have := errors_capped pm (inducedRules root var (leafPaths pm)) o hm
  exact ⟨this.1, this.2.1⟩

theorem partialT_sorted (pm : List Path) (root : Shape) (var : VarTable) (o : Opts) :
    (fieldsOf (validatePartialT pm root var o)).Pairwise (fun a b => errLe a b = true) :=
  partialFrom_sorted _ _ _ _

/-- **determinism** with the resolution inside: the result is a function of the path set, the shape of the
    value and the validator's answers — no iteration order of the presence map (or of the cached field
    map: `fieldIndex` is the map's content, not its order) can change it -/
theorem partialT_perm (pm₁ pm₂ : List Path) (h : pm₁.Perm pm₂) (root : Shape) (var : VarTable) (o : Opts) :
    validatePartialT pm₁ root var o = validatePartialT pm₂ root var o := by
  unfold validatePartialT; rw [leaf_perm pm₁ pm₂ h]

/-- **model ⊨ the oracle the driver runs**, for the resolving model: whenever the independently computed
    rule table agrees with the model's resolution at the leaves -/
theorem errorsOK_model_partialT (pm : List Path) (root : Shape) (var : VarTable) (rules : List Rule) (o : Opts)
    (single : Bool) (hag : ∀ p ∈ leafPaths pm, ownTags rules p = ownTagsT root var p) :
    errorsOK (expectedErrs pm rules o) o single (validatePartialT pm root var o) = true := by
  rw [validatePartialT_of_agree pm root var rules o hag]
  exact errorsOK_model_partial pm rules o single

/-- non-vacuity of `errorsOK_model_partialT` / `validatePartialT_of_agree`: for every input there is a rule table that
    agrees with the model's resolution at the leaves — the one it induces -/
example (pm : List Path) (root : Shape) (var : VarTable) :
    ∀ p ∈ leafPaths pm, ownTags (inducedRules root var (leafPaths pm)) p = ownTagsT root var p :=
  fun p hp => lemma_ownTags_induced root var _ p hp

/-- non-vacuity of `partialT_iff`: without an error limit nothing is truncated, and a small body is within the
    default field limit -/
example (root : Shape) (var : VarTable) :
    let pm := ["id".toList, "tags".toList, "tags.1".toList]
    truncOf (validatePartialT pm root var ⟨0, 0, []⟩) = false ∧ (leafPaths pm).length ≤ maxLeaves ⟨0, 0, []⟩ := by
  refine ⟨?_, ?_⟩
  · rw [validatePartialT, partialFrom_trunc, capLoop_unlimited]
  · show (leafPaths _).length ≤ 10000
    rw [leafPaths, sortPaths_length]; decide

/-! ### the redaction walk -/

/-- **values of paths covered by the redactor never appear**: if the redactor covers any path the printed value
    reveals (the error's own path included), `coversValue` hides the value — for every value shape, however deep -/
theorem coversValue_of_reveals (red : Path → Bool) :
    ∀ (fuel : Nat) (p : Path) (s : Shape), (reveals fuel p s).any red = true → coversValue red fuel p s = true
  | 0, _, _, _ => rfl
  | fuel + 1, p, s, h => by
    simp only [reveals, List.any_cons, Bool.or_eq_true] at h
    simp only [coversValue, Bool.or_eq_true]
    rcases h with h | h
    · exact Or.inl h
    · right
      cases hd : valDeref s with
      | none => simp [hd] at h
      | some d =>
        cases d with
        | struct fields =>
          simp only [hd, List.any_eq_true, List.mem_flatMap] at h ⊢
          obtain ⟨q, ⟨x, hx, hq⟩, hr⟩ := h
          exact ⟨x, hx, coversValue_of_reveals red fuel _ _ (List.any_eq_true.mpr ⟨q, hq, hr⟩)⟩
        | seq items =>
          simp only [hd, List.any_eq_true, List.mem_flatMap] at h ⊢
          obtain ⟨q, ⟨x, hx, hq⟩, hr⟩ := h
          exact ⟨x, hx, coversValue_of_reveals red fuel _ _ (List.any_eq_true.mpr ⟨q, hq, hr⟩)⟩
        | map es =>
          simp only [hd, List.any_eq_true, List.mem_flatMap] at h ⊢
          obtain ⟨q, ⟨x, hx, hq⟩, hr⟩ := h
          exact ⟨x, hx, coversValue_of_reveals red fuel _ _ (List.any_eq_true.mpr ⟨q, hq, hr⟩)⟩
        | other => simp [hd] at h
        | nilPtr => simp [hd] at h
        | ptr _ => simp [hd] at h
        | iface _ => simp [hd] at h
        | nilIface => simp [hd] at h

/-- the value fits the walk's depth limit (`maxRecursionDepth`): no branch is cut -/
def fits : Nat → Shape → Bool
  | 0, _ => false
  | fuel + 1, s =>
    match valDeref s with
    | some (.struct fields) => (mappedFields fields).all fun (_, _, fs) => fits fuel fs
    | some (.seq items) => items.all (fits fuel)
    | some (.map es) => es.all fun (_, v) => fits fuel v
    | _ => true

/-- … and within the depth limit it hides nothing else: `coversValue` is exactly "the redactor covers a revealed
    path" (beyond the limit it hides, deliberately) -/
theorem coversValue_only_reveals (red : Path → Bool) :
    ∀ (fuel : Nat) (p : Path) (s : Shape), fits fuel s = true → coversValue red fuel p s = true →
      (reveals fuel p s).any red = true
  | 0, _, _, hf, _ => by simp [fits] at hf
  | fuel + 1, p, s, hf, h => by
    simp only [coversValue, Bool.or_eq_true] at h
    simp only [reveals, List.any_cons, Bool.or_eq_true]
    rcases h with h | h
    · exact Or.inl h
    · right
      cases hd : valDeref s with
      | none => simp [hd] at h
      | some d =>
        cases d with
        | struct fields =>
          simp only [fits, hd, List.all_eq_true] at hf
          simp only [hd, List.any_eq_true, List.mem_flatMap] at h ⊢
          obtain ⟨x, hx, hc⟩ := h
          obtain ⟨q, hq, hr⟩ := List.any_eq_true.mp (coversValue_only_reveals red fuel _ _ (hf x hx) hc)
          exact ⟨q, ⟨x, hx, hq⟩, hr⟩
        | seq items =>
          simp only [fits, hd, List.all_eq_true] at hf
          simp only [hd, List.any_eq_true, List.mem_flatMap] at h ⊢
          obtain ⟨x, hx, hc⟩ := h
          have hxi : x.1 ∈ items := (List.mem_zipIdx_iff_getElem?.mp hx) |> fun h' => List.mem_of_getElem? h'
          obtain ⟨q, hq, hr⟩ := List.any_eq_true.mp (coversValue_only_reveals red fuel _ _ (hf x.1 hxi) hc)
          exact ⟨q, ⟨x, hx, hq⟩, hr⟩
        | map es =>
          simp only [fits, hd, List.all_eq_true] at hf
          simp only [hd, List.any_eq_true, List.mem_flatMap] at h ⊢
          obtain ⟨x, hx, hc⟩ := h
          obtain ⟨q, hq, hr⟩ := List.any_eq_true.mp (coversValue_only_reveals red fuel _ _ (hf x hx) hc)
          exact ⟨q, ⟨x, hx, hq⟩, hr⟩
        | other => simp [hd] at h
        | nilPtr => simp [hd] at h
        | ptr _ => simp [hd] at h
        | iface _ => simp [hd] at h
        | nilIface => simp [hd] at h

/-- the error the table-driven model builds (`mkErr`, hidden iff a revealed path is covered) is the error the
    code builds with `coversValue`, for every value within the depth limit; beyond it the code hides anyway -/
theorem mkErr_is_coversValue (o : Opts) (p : Path) (tag : Bytes) (value : Shape)
    (hf : fits (maxRecursionDepth + 1) value = true) :
    mkErr o p ⟨tag, reveals (maxRecursionDepth + 1) p value⟩ = mkErrT o p tag value := by
  have hp : p ∈ reveals (maxRecursionDepth + 1) p value := by simp [reveals]
  have hiff : (reveals (maxRecursionDepth + 1) p value).any o.redacted.contains =
      coversValue o.redacted.contains (maxRecursionDepth + 1) p value := by
    cases hc : coversValue o.redacted.contains (maxRecursionDepth + 1) p value with
    | true => exact coversValue_only_reveals _ _ _ _ hf hc
    | false =>
      cases ha : (reveals (maxRecursionDepth + 1) p value).any o.redacted.contains with
      | false => rfl
      | true => rw [coversValue_of_reveals _ _ _ _ ha] at hc; cases hc
  simp only [mkErr, mkErrT, FieldErr.mk.injEq, true_and]
  rw [← hiff]
  cases hpc : o.redacted.contains p with
  | false => simp
  | true =>
    simp only [Bool.true_or]
    exact (List.any_eq_true.mpr ⟨p, hp, hpc⟩).symm

/-- in the resolving model a value the redactor covers — its own path or anything nested in it — is hidden -/
theorem partialT_redacted_absent (pm : List Path) (root : Shape) (var : VarTable) (o : Opts) (e : FieldErr)
    (he : e ∈ fieldsOf (validatePartialT pm root var o)) :
    ∃ loc t, ruleAt root e.path = some (loc, t) ∧ ∃ v ∈ varLookup var loc t,
      e.code = tagPrefix ++ v.1 ∧
      ((reveals (maxRecursionDepth + 1) e.path v.2).any o.redacted.contains = true → e.hidden = true) := by
  rw [validatePartialT_eq] at he
  obtain ⟨hleaf, v, hv, hev⟩ := partial_sound pm _ o e he
  rw [lemma_ownTags_induced root var _ _ ((leaf_fixed_correct pm _).mpr hleaf)] at hv
  unfold ownTagsT at hv
  cases hr : ruleAt root e.path with
  | none => simp [hr] at hv
  | some lt =>
    obtain ⟨loc, t⟩ := lt
    simp only [hr, List.mem_map] at hv
    obtain ⟨v0, hv0, rfl⟩ := hv
    refine ⟨loc, t, rfl, v0, hv0, by rw [hev]; rfl, ?_⟩
    intro hany
    rw [hev]
    simp only [mkErr, Bool.or_eq_true]
    exact Or.inr hany

-- a struct value with a covered field two levels down, behind a pointer and an interface slot
example :
    let v : Shape := .ptr (.struct [(⟨"Kids".toList, "kids".toList, false, false, []⟩,
      .seq [.other, .iface (.map [("secret".toList, .other)])])])
    coversValue (· == "u.kids.1.secret".toList) (maxRecursionDepth + 1) "u".toList v = true ∧
    coversValue (· == "u.kids.0.secret".toList) (maxRecursionDepth + 1) "u".toList v = false ∧
    reveals (maxRecursionDepth + 1) "u".toList v =
      ["u".toList, "u.kids".toList, "u.kids.0".toList, "u.kids.1".toList, "u.kids.1.secret".toList] := by
  decide

/-! ### what `resolvePath` resolves to -/

/-- `getJSONFieldName`: no tag, `json:"-"` and an options-only tag (`json:",omitempty"`, K05j) keep the Go
    name; `json:"-,"` names the field `-` (K05k); otherwise the text before the first comma -/
theorem jsonName_cases (f : FieldInfo) (opts name : Bytes) :
    (f.jsonTag = [] → jsonFieldName f = f.name) ∧
    (f.jsonTag = ['-'] → jsonFieldName f = f.name) ∧
    (f.jsonTag = ',' :: opts → jsonFieldName f = f.name) ∧
    (f.jsonTag = '-' :: ',' :: opts → jsonFieldName f = ['-']) ∧
    (f.jsonTag = name → name ≠ [] → name ≠ ['-'] → (∀ c ∈ name, c ≠ ',') → jsonFieldName f = name) := by
  refine ⟨?_, ?_, ?_, ?_, ?_⟩
  · intro h; simp [jsonFieldName, h]
  · intro h; simp [jsonFieldName, h]
  · intro h; simp [jsonFieldName, h, cutComma]
  · intro h
    simp only [jsonFieldName, h, cutComma]
    simp
  · intro h hne hnd hc
    have hcut : ∀ (l : Bytes), (∀ c ∈ l, c ≠ ',') → cutComma l = none := by
      intro l
      induction l with
      | nil => intro _; rfl
      | cons a r ih =>
        intro hl
        have ha : (a == ',') = false := by simpa using hl a (by simp)
        simp only [cutComma, ha, Bool.false_eq_true, if_false, ih (fun c hc => hl c (by simp [hc]))]
    subst h
    have h1 : f.jsonTag.isEmpty = false := by simpa using hne
    have h2 : (f.jsonTag == ['-']) = false := by simpa using hnd
    simp [jsonFieldName, h1, h2, hcut f.jsonTag hc]

/-- a field tagged `json:"-"` is never what a body key resolves to (K05k) -/
theorem lemma_fieldIndexFrom_maps (name : Bytes) : ∀ (fields : List (FieldInfo × Shape)) (i0 : Nat) (acc : Option Nat) (i : Nat),
    fieldIndexFrom name fields i0 acc = some i →
      acc = some i ∨ ∃ k, i = i0 + k ∧ ∃ fs, fields[k]? = some fs ∧ mapsTo fs.1 name = true
  | [], _, acc, i, h => by simp only [fieldIndexFrom] at h; exact Or.inl h
  | (f, s) :: rest, i0, acc, i, h => by
    simp only [fieldIndexFrom] at h
    rcases lemma_fieldIndexFrom_maps name rest (i0 + 1) _ i h with h1 | ⟨k, hi, fs, hfs, hm⟩
    · by_cases hm : mapsTo f name = true
      · simp only [hm, if_true, Option.some.injEq] at h1
        exact Or.inr ⟨0, by omega, (f, s), by simp, hm⟩
      · simp only [hm, Bool.false_eq_true, if_false] at h1
        exact Or.inl h1
    · exact Or.inr ⟨k + 1, by omega, fs, by simpa using hfs, hm⟩

theorem resolve_never_dash_field (fields : List (FieldInfo × Shape)) (name : Bytes) (i : Nat) (f : FieldInfo) (s : Shape)
    (h : directField fields name = some (i, f, s)) :
    f.jsonTag ≠ ['-'] ∧ jsonFieldName f = name ∧ isPromotedStruct f = false ∧ fields[i]? = some (f, s) := by
  unfold directField at h
  cases hfi : fieldIndex fields name with
  | none => simp [hfi] at h
  | some j =>
    simp only [hfi] at h
    cases hg : fields[j]? with
    | none => simp [hg] at h
    | some fs =>
      obtain ⟨f', s'⟩ := fs
      simp only [hg] at h
      by_cases hp : isPromotedStruct f' = true
      · simp [hp] at h
      · simp only [hp, Bool.false_eq_true, if_false, Option.some.injEq, Prod.mk.injEq] at h
        obtain ⟨rfl, rfl, rfl⟩ := h
        rcases lemma_fieldIndexFrom_maps name fields 0 none j hfi with h0 | ⟨k, hjk, fs, hfs, hm⟩
        · cases h0
        · have : k = j := by omega
          subst this
          rw [hg] at hfs
          cases hfs
          simp only [mapsTo, Bool.and_eq_true, bne_iff_ne, ne_eq, Bool.not_eq_true', beq_iff_eq] at hm
          exact ⟨hm.1.1.1, hm.2, by simpa using hp, hg⟩

/-- a field of the struct itself takes precedence over anything its embedded structs promote, and a numeric
    segment on a struct is a field *name* (K05d): `resolvePath` on a struct never consults `Atoi` -/
theorem resolve_direct_first (fields : List (FieldInfo × Shape)) (part : Bytes) (rest : List Bytes)
    (fld : Option FieldInfo) (d : Nat) (loc : Loc) (i : Nat) (f : FieldInfo) (s : Shape)
    (h : directField fields part = some (i, f, s)) :
    resolveFrom (part :: rest) (.struct fields) fld d loc = resolveFrom rest s (some f) 0 (loc ++ [i]) := by
  simp [resolveFrom, derefHard, h]

/-- a nil pointer on the way: the leaf is not validated -/
theorem resolve_nil_pointer (part : Bytes) (rest : List Bytes) (fld : Option FieldInfo) (d : Nat) (loc : Loc) :
    resolveFrom (part :: rest) .nilPtr fld d loc = none := by
  simp [resolveFrom, derefHard]

/-- on a slice or array a segment must be an index inside the bounds; the element keeps the container's
    field and is one `dive` level further in -/
theorem resolve_index (items : List Shape) (part : Bytes) (rest : List Bytes) (fld : Option FieldInfo) (d : Nat) (loc : Loc) :
    resolveFrom (part :: rest) (.seq items) fld d loc =
      match atoiIndex part with
      | some idx => (match items[idx]? with
        | some it => resolveFrom rest it fld (d + 1) (loc ++ [idx])
        | none => none)
      | none => none := by
  simp only [resolveFrom, derefHard]
  cases atoiIndex part with
  | none => rfl
  | some idx => cases items[idx]? <;> rfl

/-- anything else (a basic value, a map, an interface) has nothing below it that resolves -/
theorem resolve_other (part : Bytes) (rest : List Bytes) (fld : Option FieldInfo) (d : Nat) (loc : Loc) :
    resolveFrom (part :: rest) .other fld d loc = none := by
  simp [resolveFrom, derefHard]

/-- an element has no rule unless the container's tag has a `dive`: the container's own rules (K05c) never
    apply to it -/
theorem elementTag_needs_dive (tag : Bytes) (d : Nat) (h : afterDive tag = none) : elementTag tag (d + 1) = [] := by
  simp [elementTag, h]

theorem elementTag_zero (tag : Bytes) : elementTag tag 0 = tag := rfl

-- non-vacuity / worked instances: `type T struct { Base; Name string `json:"name" validate:"min=3"`; Tags []string
-- `json:"tags" validate:"max=2,dive,min=2"`; Skip string `json:"-" validate:"required"` }`, `type Base struct { ID
-- string `json:"id" validate:"required"` }`
def wBase : Shape := .struct [(⟨"ID".toList, "id".toList, false, false, "required".toList⟩, .other)]
def wT : Shape := .ptr (.struct [
  (⟨"Base".toList, [], true, true, []⟩, wBase),
  (⟨"Name".toList, "name".toList, false, false, "min=3".toList⟩, .other),
  (⟨"Tags".toList, "tags".toList, false, false, "max=2,dive,min=2".toList⟩, .seq [.other, .other]),
  (⟨"Skip".toList, "-".toList, false, false, "required".toList⟩, .other)])

example : ruleAt wT "name".toList = some ([1], "min=3".toList) := by decide
example : ruleAt wT "id".toList = some ([0, 0], "required".toList) := by decide          -- promoted (K05h)
example : ruleAt wT "tags".toList = some ([2], "max=2,dive,min=2".toList) := by decide
example : ruleAt wT "tags.1".toList = some ([2, 1], "min=2".toList) := by decide          -- what follows dive (K05c)
example : ruleAt wT "tags.2".toList = none := by decide                                    -- past the end
example : ruleAt wT "Skip".toList = none := by decide                                      -- json:"-" (K05k)
example : ruleAt wT "Base".toList = none := by decide                                      -- the embedded struct's own name
example : ruleAt wT "name.x".toList = none := by decide

def wVar : VarTable :=
  [([0, 0], "required".toList, [("required".toList, .other)]), ([2, 1], "min=2".toList, [("min".toList, .other)])]

example : ownTagsT wT wVar "id".toList = [⟨"required".toList, ["id".toList]⟩] := by decide
example : ownTagsT wT wVar "tags.1".toList = [⟨"min".toList, ["tags.1".toList]⟩] := by decide
example : ownTagsT wT wVar "tags".toList = [] := by decide
example : ownTagsT wT wVar "Skip".toList = [] := by decide

/-! ## 9. `Validator.Validate`: custom validator, `WithRunAll`, strategy selection -/

/-- a custom validator that returns an error ends the call: nothing else runs, its errors are cut and sorted -/
theorem custom_validator_first (errs : List FieldErr) (runAll : Bool) (st : Strat) (a : Applic) (r : StratRes) (o : Opts) :
    validateTop (some errs) runAll st a r o = coerce errs o := rfl

/-- the documented priority of `StrategyAuto`: interface, then tags, then JSON Schema; tags when nothing applies -/
theorem auto_priority (a : Applic) :
    (a.iface = true → determineStrategy a = .iface) ∧
    (a.iface = false → a.tags = true → determineStrategy a = .tags) ∧
    (a.iface = false → a.tags = false → a.schema = true → determineStrategy a = .schema) ∧
    (a.iface = false → a.tags = false → a.schema = false → determineStrategy a = .tags) := by
  obtain ⟨i, t, sc⟩ := a
  cases i <;> cases t <;> cases sc <;> simp [determineStrategy]

/-- an explicitly chosen strategy is run whether or not `isApplicable` would admit it; `StrategyAuto` runs the
    determined one -/
theorem strategy_dispatch (runAll : Bool) (st : Strat) (a : Applic) (r : StratRes) (o : Opts) (hr : runAll = false) :
    validateTop none runAll st a r o =
      (match st with
       | .auto => byStrategy (determineStrategy a) r
       | s => byStrategy s r) := by
  subst hr
  cases st <;> simp [validateTop]

/-- `WithRunAll` runs exactly the applicable strategies, interface first, then tags, then schema -/
theorem runall_parts (st : Strat) (a : Applic) (r : StratRes) (o : Opts) :
    validateTop none true st a r o = validateAll (applicableParts a r) o ∧
    (a = ⟨true, true, false⟩ → applicableParts a r = [r.iface, r.tags]) := by
  refine ⟨rfl, ?_⟩
  rintro rfl
  rfl

/-- whatever the configuration, the result of `Validate` is capped, provided every strategy caps its own result
    (which `errors_capped`, `full_capped`, `interface_capped` establish for tags and interface) -/
theorem top_capped (custom : Option (List FieldErr)) (runAll : Bool) (st : Strat) (a : Applic) (r : StratRes) (o : Opts)
    (hm : o.maxErrors > 0)
    (hi : (fieldsOf r.iface).length ≤ o.maxErrors) (ht : (fieldsOf r.tags).length ≤ o.maxErrors)
    (hs : (fieldsOf r.schema).length ≤ o.maxErrors) :
    (fieldsOf (validateTop custom runAll st a r o)).length ≤ o.maxErrors := by
  unfold validateTop
  cases custom with
  | some errs =>
    simp only
    rw [(coerce_fields errs o).length_eq]
    by_cases h : o.maxErrors > 0 ∧ errs.length > o.maxErrors
    · rw [if_pos h]; exact List.length_take_le _ _
    · rw [if_neg h]
      have : ¬ errs.length > o.maxErrors := fun h' => h ⟨hm, h'⟩
      omega
  | none =>
    simp only
    cases runAll with
    | true => simpa using runall_capped _ o hm
    | false =>
      simp only [Bool.false_eq_true, if_false]
      split <;> (cases determineStrategy a <;> cases st <;> simp_all [byStrategy])

-- non-vacuity: a type with a `Validate()` method and tags: Auto takes the interface, run-all takes both in order
example : determineStrategy ⟨true, true, false⟩ = .iface := by decide
example (i t : Option Result) (o : Opts) :
    validateTop none false .auto ⟨true, true, false⟩ ⟨i, t, none⟩ o = i := rfl
example (i t : Option Result) (o : Opts) :
    validateTop none false .tags ⟨true, true, false⟩ ⟨i, t, none⟩ o = t := rfl

/-! ## 10. the app layer: PATCH handlers get partial validation over the presence of the body they bound -/

/-- `Bind(out, WithPartial(), …)`, `BindPatch[T]`: partial validation over the presence map the context computed
    from the JSON body, whatever other (non-partial, non-presence) options come along -/
theorem app_partial_follows_body (pm : List Path) (vs : List VOpt) (hvs : ∀ v ∈ vs, v = VOpt.other) :
    bindMode [.part, .validation vs] (some pm) = some pm ∧ bindPatchMode [.validation vs] (some pm) = some pm := by
  have hfold : ∀ (c : VCfg), vs.foldl applyVOpt c = c := by
    induction vs with
    | nil => intro c; rfl
    | cons v rest ih =>
      intro c
      have hv : v = VOpt.other := hvs v (by simp)
      subst hv
      simpa [applyVOpt] using ih (fun w hw => hvs w (by simp [hw])) c
  constructor <;>
  · simp only [bindPatchMode, bindMode, mkBCfg, List.foldl, applyBOpt, validateInternalOpts, foldV, List.nil_append,
      List.cons_append, if_true, applyVOpt, hfold, tagsMode]

/-- partial mode asked for through the validation options (`WithValidationOptions(validation.WithPartial(true))`,
    or `BindOnly` + `Validate(validation.WithPartial(true))`) is partial validation over the same presence map -/
theorem app_partial_through_validation_options (pm : List Path) :
    bindMode [.validation [.part true]] (some pm) = some pm ∧
    validateMode [.part true] (some pm) = some pm := by
  constructor <;> rfl

/-- an explicit `app.WithPresence(pm')` takes the place of the computed map; a presence map given among the
    validation options comes last and wins over both -/
theorem app_explicit_presence_wins (pm pm' pm'' : List Path) :
    bindMode [.part, .presence pm'] (some pm) = some pm' ∧
    bindMode [.part, .presence pm', .validation [.presence pm'']] (some pm) = some pm'' := by
  constructor <;> rfl

/-- without `WithPartial` the body's presence map is handed over all the same but validation is full; and when no
    JSON body was bound there is no presence map: a partial request falls back to full validation (documented in
    `validateWithTags`: `cfg.partial && cfg.presence != nil`) -/
theorem app_full_otherwise (pm : List Path) :
    bindMode [] (some pm) = none ∧ bindMode [.part] none = none ∧ validateMode [] (some pm) = none := by
  refine ⟨rfl, rfl, rfl⟩

/-! ## 11. model ⊨ oracle for the remaining driver branches: interface-only mode and a custom validator's error -/

/-- **interface strategy alone / custom validator's error, model ⊨ oracle**: what a `Validate()` method or a custom
    validator returned (`errs`, which carry no value to hide), cut and sorted by `coerceToValidationErrors`, passes the
    oracle the driver runs (`want` = those errors) — for every list and option set -/
theorem errorsOK_model_interface (errs : List FieldErr) (o : Opts) (single : Bool)
    (hh : ∀ e ∈ errs, e.hidden = false → e.path ∉ o.redacted) :
    errorsOK (errs.map fun e => (⟨e.path, e.code, []⟩ : Want)) o single (coerce errs o) = true := by
  have hperm := coerce_fields errs o
  have hsub : ∀ e ∈ fieldsOf (coerce errs o), e ∈ errs := by
    intro e he
    have := hperm.mem_iff.mp he
    split at this
    · exact List.mem_of_mem_take this
    · exact this
  apply lemma_errorsOK_of
  · intro e he
    have hm := hsub e he
    refine ⟨⟨e.path, e.code, []⟩, List.mem_map.mpr ⟨e, hm, rfl⟩, rfl, rfl, ?_⟩
    intro hf
    exact ⟨hh e hm hf, by simp⟩
  · intro ht w hw
    obtain ⟨e, he, rfl⟩ := List.mem_map.mp hw
    rw [coerce_trunc] at ht
    have hc : ¬ (o.maxErrors > 0 ∧ errs.length > o.maxErrors) := by simpa using ht
    rw [if_neg hc] at hperm
    exact ⟨e, hperm.mem_iff.mpr he, rfl, rfl⟩
  · intro hm _
    rw [hperm.length_eq]
    by_cases hc : o.maxErrors > 0 ∧ errs.length > o.maxErrors
    · rw [if_pos hc]; exact List.length_take_le _ _
    · rw [if_neg hc]
      have : ¬ errs.length > o.maxErrors := fun h => hc ⟨hm, h⟩
      omega
  · intro ht
    rw [coerce_trunc] at ht
    have hc : o.maxErrors > 0 ∧ errs.length > o.maxErrors := by simpa using ht
    rw [hperm.length_eq, if_pos hc, List.length_take]
    exact ⟨hc.1, by omega⟩
  · intro r hr
    unfold coerce at hr
    cases errs with
    | nil => simp at hr
    | cons a rest =>
      simp only [List.isEmpty_cons, Bool.false_eq_true, if_false] at hr
      split at hr
      · rename_i hc
        cases hr
        intro he
        have := congrArg List.length he
        rw [(sortErrs_perm _).length_eq, List.length_take] at this
        simp only [List.length_cons, List.length_nil] at this
        omega
      · cases hr
        intro he
        have := congrArg List.length he
        rw [(sortErrs_perm _).length_eq] at this
        simp at this
  · exact coerce_sorted errs o

/-- the custom-validator branch and the interface-only branch of `Validate` reduce to it -/
theorem errorsOK_model_custom (errs : List FieldErr) (runAll : Bool) (st : Strat) (a : Applic) (r : StratRes) (o : Opts)
    (single : Bool) (hh : ∀ e ∈ errs, e.hidden = false → e.path ∉ o.redacted) :
    errorsOK (errs.map fun e => (⟨e.path, e.code, []⟩ : Want)) o single (validateTop (some errs) runAll st a r o) = true :=
  errorsOK_model_interface errs o single hh

end Rivaas.C05
