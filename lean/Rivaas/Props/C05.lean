/- C05 — property theorems (stub: not built yet) -/
