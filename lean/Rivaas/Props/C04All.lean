import Rivaas.Lemmas.BindAll
import Rivaas.Lemmas.BindAllSound
import Rivaas.Lemmas.BindAllMulti
import Rivaas.Spec.BindAll
import Rivaas.Spec.BindNestJSON
import Rivaas.Model.BindAllNestJSON
import Rivaas.Props.C04
import Rivaas.Props.C04Body
/-
C04 — binds that collect their errors (`WithAllErrors`). Property theorems over `Model/BindAll.lean`.
-/
namespace Rivaas.C04
open Rivaas Rivaas.Bind

/-- **Collecting and plain bind run the same steps up to the first error** — every type, source, option
    set and destination: a plain success is a collecting run without errors and with the same value, a
    plain error is the first error the collecting run reports (MultiError order = field order, nested
    errors under the nested field's name). -/
theorem bindAll_agrees (P : Params) (cfg : Cfg) (tag : Tag) (ty : Ty) (init : Val) (src : Src) :
    Agree (bind P cfg tag ty init src) (bindAll P cfg tag ty init src) :=
  lemma_agree_bind P cfg tag ty init src

theorem bindAll_no_error_iff (P : Params) (cfg : Cfg) (tag : Tag) (ty : Ty) (init : Val) (src : Src) (v : Val) :
    bindAll P cfg tag ty init src = .done v [] ↔ bind P cfg tag ty init src = .ok v := by
  have h := lemma_agree_bind P cfg tag ty init src
  constructor
  · intro ha
    cases hb : bind P cfg tag ty init src with
    | ok w => rw [hb] at h; have h' : bindAll P cfg tag ty init src = .done w [] := h; rw [ha] at h'; cases h'; rfl
    | panic => rw [hb] at h; have h' : bindAll P cfg tag ty init src = .panic := h; rw [ha] at h'; cases h'
    | err e =>
      rw [hb] at h
      have h' : bindAll P cfg tag ty init src = .panic ∨ ∃ v es, bindAll P cfg tag ty init src = .done v (e :: es) := h
      rcases h' with hp | ⟨w, es, hk⟩
      · rw [ha] at hp; cases hp
      · rw [ha] at hk; cases hk
  · intro hb
    rw [hb] at h
    exact h

theorem bindAll_first_error (P : Params) (cfg : Cfg) (tag : Tag) (ty : Ty) (init : Val) (src : Src) (v : Val) (e : Err) (es : List Err)
    (ha : bindAll P cfg tag ty init src = .done v (e :: es)) : bind P cfg tag ty init src = .err e := by
  have h := lemma_agree_bind P cfg tag ty init src
  cases hb : bind P cfg tag ty init src with
  | ok w => rw [hb] at h; have h' : bindAll P cfg tag ty init src = .done w [] := h; rw [ha] at h'; cases h'
  | panic => rw [hb] at h; have h' : bindAll P cfg tag ty init src = .panic := h; rw [ha] at h'; cases h'
  | err e' =>
    rw [hb] at h
    have h' : bindAll P cfg tag ty init src = .panic ∨ ∃ v es, bindAll P cfg tag ty init src = .done v (e' :: es) := h
    rcases h' with hp | ⟨w, es', hk⟩
    · rw [ha] at hp; cases hp
    · rw [ha] at hk; cases hk; rfl

/-- the same for several sources (Bind / BindTo with WithAllErrors): errors.Join keeps the order of the passes -/
theorem bindMultiAll_agrees (P : Params) (cfg : Cfg) (fs : List Fld) (init : Val) (srcs : List Src) :
    Agree (bindMulti P cfg fs init srcs) (bindMultiAll P cfg fs init srcs) :=
  lemma_agree_multi P cfg fs init srcs

/-- **A collecting bind that reports nothing meets the whole oracle**, and **the first error a collecting
    bind reports is one the statement allows** — both from `bind_meets_spec`. -/
theorem bindAll_clean_meets_spec (P : Params) (hP : FloatSane P) (cfg : Cfg) (tag : Tag) (fs : List Fld) (ivs : List Val)
    (src : Src) (hw : wts fs ivs = true) (hg : Spec.inGrammarFs fs = true) (hs : Spec.srcOK src = true) (v : Val)
    (ha : bindAll P cfg tag (.struct fs) (.struct ivs) src = .done v []) :
    Spec.specAll P cfg tag fs (.struct ivs) src (.done v []) = true := by
  have hb := (bindAll_no_error_iff P cfg tag (.struct fs) (.struct ivs) src v).mp ha
  have := bind_meets_spec P hP cfg tag fs ivs src hw hg hs
  rw [hb] at this
  simpa [Spec.specAll, toObs] using this

theorem bindAll_first_error_has_cause (P : Params) (hP : FloatSane P) (cfg : Cfg) (tag : Tag) (fs : List Fld) (ivs : List Val)
    (src : Src) (hw : wts fs ivs = true) (hg : Spec.inGrammarFs fs = true) (hs : Spec.srcOK src = true) (v : Val) (e : Err) (es : List Err)
    (ha : bindAll P cfg tag (.struct fs) (.struct ivs) src = .done v (e :: es)) :
    (Spec.causes P cfg tag fs (.struct ivs) src).contains e = true := by
  have hb := bindAll_first_error P cfg tag (.struct fs) (.struct ivs) src v e es ha
  have := bind_meets_spec P hP cfg tag fs ivs src hw hg hs
  rw [hb] at this
  simpa [Spec.specOK, toObs] using this

/-- an error the item-wise oracle admits at the top level is one of `Spec.causes` -/
theorem lemma_itemsErr_causes (P : Params) (cfg : Cfg) (tag : Tag) (fs : List Fld) (init : Val) (src : Src) (e : Err)
    (h : ItemsErr P cfg { src := src } 0 (Spec.itemsFs tag 0 fs) init e) :
    (Spec.causes P cfg tag fs init src).contains e = true := by
  simp only [Spec.causes, List.contains_iff_mem, List.mem_append, List.mem_flatMap, List.mem_map,
    List.mem_filter, Spec.leavesOf, Spec.nodesOf, List.mem_filterMap, Spec.items]
  rcases h with ⟨l, hl, c, hc, hh⟩ | ⟨n, hn, hd, he⟩
  · left
    refine ⟨l, ⟨.leaf l, hl, rfl⟩, c, ?_, hc.symm⟩
    rw [lemma_keyed_top] at hh
    rcases hh with h | ⟨h1, h2⟩
    · exact Or.inl h
    · right
      simp only [h1, if_true, List.mem_cons, List.mem_nil_iff, or_false]
      exact h2
  · right
    exact ⟨n, ⟨⟨.node n, hn, rfl⟩, by simpa using hd⟩, he.symm⟩

/-- **A collecting bind meets the whole collecting oracle** - every type of the grammar, tag, option set, well-typed
    destination and well-formed source: without an error the plain oracle holds on the value; otherwise every
    reported error is one the statement allows (it names a field whose own value or limit causes it, with that
    class), every reached, unambiguous leaf whose only admissible outcome is an error is named by a reported error,
    and so is every nested struct at the first depth beyond the limit; never a panic. -/
theorem bindAll_meets_spec (P : Params) (hP : FloatSane P) (cfg : Cfg) (tag : Tag) (fs : List Fld) (ivs : List Val)
    (src : Src) (hw : wts fs ivs = true) (hg : Spec.inGrammarFs fs = true) (hs : Spec.srcOK src = true) :
    Spec.specAll P cfg tag fs (.struct ivs) src (toObsAll (bindAll P cfg tag (.struct fs) (.struct ivs) src)) = true := by
  have hsp := lemma_bindAtAll_spec P cfg tag hP cfg.maxDepth 0 (by omega) fs ivs { src := src } hw hg hs
  cases hr : bindAtAll P cfg tag cfg.maxDepth fs (.struct ivs) { src := src } 0 with
  | panic => rw [hr] at hsp; exact absurd hsp (by simp)
  | done v es =>
    rw [hr] at hsp
    have hb : bindAll P cfg tag (.struct fs) (.struct ivs) src = .done v es := by simp only [bindAll, hr]
    rw [hb]
    cases es with
    | nil => exact bindAll_clean_meets_spec P hP cfg tag fs ivs src hw hg hs v hb
    | cons e0 es' =>
      obtain ⟨h1, h2, h3⟩ := hsp
      simp only [toObsAll, Spec.specAll, Bool.and_eq_true, List.all_eq_true, Bool.or_eq_true, Bool.not_eq_true',
        List.any_eq_true, beq_iff_eq, bne_iff_ne, ne_eq, Spec.leavesOf, Spec.nodesOf, List.mem_filterMap, Spec.items]
      refine ⟨⟨?_, ?_⟩, ?_⟩
      · intro e he
        exact lemma_itemsErr_causes P cfg tag fs _ src e (h1 e he)
      · rintro l ⟨x, hx, hxl⟩
        cases x with
        | node n => simp at hxl
        | frame f => simp at hxl
        | leaf l0 =>
          simp only [Option.some.injEq] at hxl
          subst hxl
          have := h2 l0 hx
          rw [lemma_keyed_top] at this
          rcases this with h | h | h | ⟨e, he, hn⟩
          · exact Or.inl (Or.inl (Or.inl h))
          · refine Or.inl (Or.inl (Or.inr ?_))
            simp only [Spec.leafReached, decide_eq_false_iff_not]
            omega
          · refine Or.inl (Or.inr ?_)
            cases hoks : (Spec.expect P cfg src (.struct ivs) l0).oks with
            | nil => exact absurd hoks h
            | cons _ _ => rfl
          · exact Or.inr ⟨e, he, hn⟩
      · rintro n ⟨x, hx, hxn⟩
        cases x with
        | leaf l => simp at hxn
        | frame f => simp at hxn
        | node n0 =>
          simp only [Option.some.injEq] at hxn
          subst hxn
          by_cases hd : n0.depth = cfg.maxDepth + 1
          · obtain ⟨e, he, hn⟩ := h3 n0 hx (by omega)
            exact Or.inr ⟨e, he, hn⟩
          · exact Or.inl hd

/-- the collecting bind returns a well-typed value of the destination type (a field that failed keeps its value) -/
theorem bindAll_preserves_type (P : Params) (cfg : Cfg) (tag : Tag) (fs : List Fld) (ivs : List Val) (src : Src) (v : Val)
    (es : List Err) (hw : wts fs ivs = true) (hg : Spec.inGrammarFs fs = true)
    (h : bindAll P cfg tag (.struct fs) (.struct ivs) src = .done v es) : ∃ rvs, v = .struct rvs ∧ wts fs rvs = true :=
  lemma_bindAll_typed P cfg tag fs ivs src v es hw hg h

/-- **A collecting bind from several sources meets its oracle** (Bind / BindTo with WithAllErrors, any list of
    sources): without an error the multi-source oracle holds on the value (last source holding the key, else default,
    else untouched); otherwise every reported error - of the defaults pass or of any source - is one the statement
    allows for that pass; never a panic. -/
theorem bindMultiAll_meets_spec (P : Params) (hP : FloatSane P) (cfg : Cfg) (fs : List Fld) (ivs : List Val)
    (srcs : List Src) (hw : wts fs ivs = true) (hg : Spec.inGrammarFs fs = true) (hs : ∀ s ∈ srcs, Spec.srcOK s = true) :
    Spec.specMultiAll P cfg fs (.struct ivs) srcs (toObsAll (bindMultiAll P cfg fs (.struct ivs) srcs)) = true := by
  have hag := bindMultiAll_agrees P cfg fs (.struct ivs) srcs
  have hplain := bindMulti_meets_spec P hP cfg fs ivs srcs hw hg hs
  cases hr : bindMultiAll P cfg fs (.struct ivs) srcs with
  | panic =>
    rw [lemma_bindMultiAll_phases] at hr
    by_cases he : srcs.isEmpty = true
    · simp [he] at hr
    · have he' : srcs.isEmpty = false := by simpa using he
      simp only [he', Bool.false_eq_true, if_false] at hr
      have := lemma_runAll P hP cfg fs hg (Spec.phasesOf fs srcs) (lemma_phases_srcOK fs srcs hs) ivs hw
      rw [hr] at this
      exact absurd this (by simp)
  | done v es =>
    cases es with
    | nil =>
      simp only [toObsAll, Spec.specMultiAll]
      rw [hr] at hag
      cases hb : bindMulti P cfg fs (.struct ivs) srcs with
      | ok w =>
        rw [hb] at hag hplain
        have h' : OutAll.done v [] = OutAll.done w [] := hag
        cases h'
        simpa [toObs] using hplain
      | panic => rw [hb] at hag; cases (hag : OutAll.done v [] = OutAll.panic)
      | err e =>
        rw [hb] at hag
        have h' : OutAll.done v [] = OutAll.panic ∨ ∃ v' es', OutAll.done v [] = OutAll.done v' (e :: es') := hag
        rcases h' with h | ⟨_, _, h⟩ <;> cases h
    | cons e0 es' =>
      simp only [toObsAll, Spec.specMultiAll, List.all_eq_true, Bool.or_eq_true, Bool.and_eq_true, beq_iff_eq]
      intro e he
      rw [lemma_bindMultiAll_phases] at hr
      by_cases hemp : srcs.isEmpty = true
      · simp only [hemp, if_true, OutAll.done.injEq] at hr
        rw [← hr.2] at he
        simp only [List.mem_singleton] at he
        exact Or.inl ⟨hemp, he⟩
      · have he' : srcs.isEmpty = false := by simpa using hemp
        simp only [he', Bool.false_eq_true, if_false] at hr
        have := lemma_runAll P hP cfg fs hg (Spec.phasesOf fs srcs) (lemma_phases_srcOK fs srcs hs) ivs hw
        rw [hr] at this
        obtain ⟨ph, hph, hpe⟩ := this.2 e he
        right
        simp only [List.contains_iff_mem, Spec.multiCauses, List.mem_flatMap]
        exact ⟨ph, hph, lemma_phase_err P cfg fs hg ph (.struct ivs) e hpe⟩

end Rivaas.C04

namespace Rivaas.C04
open Rivaas Rivaas.Bind

/-! ## the body model and the collecting model contain the proven multi-source model -/

theorem filterMap_src_map (srcs : List Src) : (srcs.map Step.src).filterMap Step.src? = srcs := by
  induction srcs with
  | nil => rfl
  | cons s r ih => simp [Step.src?, ih]

theorem runSteps_values (P : Params) (cfg : Cfg) (fs : List Fld) (vty : Ty) (init : Val) :
    ∀ (srcs : List Src) (cur : Val),
      runSteps P cfg fs vty init (srcs.map Step.src) cur = ofOutcome (bindPass P cfg fs (fun _ => vty) srcs cur)
  | [], cur => by simp [runSteps, bindPass, ofOutcome]
  | s :: rest, cur => by
    simp only [List.map, runSteps, bindPass]
    by_cases ht : hasTagFs s.kind fs = true
    · simp only [ht, if_true]
      cases bind P cfg s.kind vty cur s with
      | ok v => simpa using runSteps_values P cfg fs vty init rest v
      | err e => rfl
      | panic => rfl
    · simp only [ht, Bool.false_eq_true, if_false]
      exact runSteps_values P cfg fs vty init rest cur

/-- **Without a body source the body model is `bindMulti`** — the model `bindMulti_meets_spec` is about. -/
theorem bindSteps_values_only (P : Params) (cfg : Cfg) (fs : List Fld) (init : Val) (srcs : List Src) :
    bindSteps P cfg fs init (srcs.map Step.src) = ofOutcome (bindMulti P cfg fs init srcs) := by
  unfold bindSteps bindMulti
  simp only [filterMap_src_map]
  cases srcs with
  | nil => simp [ofOutcome]
  | cons s rest =>
    cases rest with
    | nil =>
      simp only [List.map, List.isEmpty_cons, Bool.false_eq_true, if_false, List.length_singleton, Nat.le_refl, if_true,
        beq_self_eq_true]
      exact runSteps_values P cfg fs (.struct fs) init [s] init
    | cons s2 rest2 =>
      have hlen : ¬ ((s :: s2 :: rest2).length ≤ 1) := by simp
      have hne : ((s :: s2 :: rest2).length == 1) = false := by simp
      simp only [List.isEmpty_cons, Bool.false_eq_true, if_false, hlen, hne]
      have hmap : (s :: s2 :: rest2).map Step.src = Step.src s :: Step.src s2 :: rest2.map Step.src := rfl
      cases hb : bindPass P cfg fs (fun _ => Ty.struct fs) ((s :: s2 :: rest2).map fun s => { s with kvs := [] }) init with
      | ok v =>
        simp only []
        have := runSteps_values P cfg fs (.struct (stripFs fs)) init (s :: s2 :: rest2) v
        simpa [hmap] using this
      | err e => rfl
      | panic => rfl

theorem bodiesOf_map_src (srcs : List Src) : Spec.bodiesOf (srcs.map Step.src) = [] := by
  induction srcs with
  | nil => rfl
  | cons s r ih => simpa [Spec.bodiesOf] using ih

theorem srcsOf_map_src (srcs : List Src) : Spec.srcsOf (srcs.map Step.src) = srcs := by
  induction srcs with
  | nil => rfl
  | cons s r ih => simp [Spec.srcsOf, ih]

/-- … and on value sources alone it meets the body oracle, which is then `Spec.specMulti` -/
theorem bindSteps_values_meets_spec (P : Params) (hP : FloatSane P) (cfg : Cfg) (fs : List Fld) (ivs : List Val)
    (srcs : List Src) (hw : wts fs ivs = true) (hg : Spec.inGrammarFs fs = true) (hs : ∀ s ∈ srcs, Spec.srcOK s = true) :
    Spec.specSteps P cfg fs (.struct ivs) (srcs.map Step.src)
      (toBObs (bindSteps P cfg fs (.struct ivs) (srcs.map Step.src))) = true := by
  rw [bindSteps_values_only]
  have h := bindMulti_meets_spec P hP cfg fs ivs srcs hw hg hs
  cases hb : bindMulti P cfg fs (.struct ivs) srcs with
  | ok v =>
    rw [hb] at h
    simpa [ofOutcome, toBObs, Spec.specSteps, bodiesOf_map_src, srcsOf_map_src, toObs] using h
  | err e =>
    rw [hb] at h
    simpa [ofOutcome, toBObs, Spec.specSteps, srcsOf_map_src, toObs] using h
  | panic =>
    rw [hb] at h
    simp [toObs, Spec.specMulti] at h

/-- **A form or multipart request: the form values are bound onto what the parameters left, and that second bind
    meets the plain oracle** (`bind_meets_spec` for the form tag, on the container `formSrc` names). -/
theorem app_form_meets_spec (P : Params) (hP : FloatSane P) (fs : List Fld) (ivs rvs : List Val) (h : Http) (strict : Bool)
    (st : CtxState) (hp : bindMulti P Cfg.default fs (.struct ivs) h.params = .ok (.struct rvs)) (hw : wts fs rvs = true)
    (hg : Spec.inGrammarFs fs = true) (hs : Spec.srcOK (formSrc h) = true) (hb : h.bodyTags = true)
    (hct : classifyCT h.ctype = .form ∨ classifyCT h.ctype = .multipart) :
    (appBind P fs (.struct ivs) h strict st).last = ofOutcome (bind P Cfg.default .form (.struct fs) (.struct rvs) (formSrc h)) ∧
    Spec.specOK P Cfg.default .form fs (.struct rvs) (formSrc h)
      (toObs (bind P Cfg.default .form (.struct fs) (.struct rvs) (formSrc h))) = true := by
  refine ⟨?_, bind_meets_spec P hP Cfg.default .form fs rvs (formSrc h) hw hg hs⟩
  rcases hct with hct | hct <;> simp [appBind, hp, hb, hct]

/-! ### the collecting body model on value sources alone is `bindMultiAll` -/

def toObsAllB : OutAllB → Spec.ObsAllB
  | .done v es => .done v es
  | .panic => .panic

def ofOutAll : OutAll → OutAllB
  | .done v es => .done v (es.map .bind)
  | .panic => .panic

theorem ofOutAll_prepend (es : List Err) (o : OutAll) : ofOutAll (o.prepend es) = (ofOutAll o).prepend (es.map .bind) := by
  cases o <;> simp [ofOutAll, OutAll.prepend, OutAllB.prepend]

theorem runStepsAll_values (P : Params) (cfg : Cfg) (fs : List Fld) (vty : Ty) (init : Val) :
    ∀ (srcs : List Src) (cur : Val),
      runStepsAll P cfg fs vty init (srcs.map Step.src) cur = ofOutAll (bindPassAll P cfg fs (fun _ => vty) srcs cur)
  | [], cur => by simp [runStepsAll, bindPassAll, ofOutAll]
  | s :: rest, cur => by
    simp only [List.map, runStepsAll, bindPassAll]
    by_cases ht : hasTagFs s.kind fs = true
    · simp only [ht, if_true]
      cases bindAll P cfg s.kind vty cur s with
      | done v es => simp only; rw [runStepsAll_values P cfg fs vty init rest v, ofOutAll_prepend]
      | panic => rfl
    · simp only [ht, Bool.false_eq_true, if_false]
      exact runStepsAll_values P cfg fs vty init rest cur

theorem bindStepsAll_values_only (P : Params) (cfg : Cfg) (fs : List Fld) (init : Val) (srcs : List Src) :
    bindStepsAll P cfg fs init (srcs.map Step.src) = ofOutAll (bindMultiAll P cfg fs init srcs) := by
  unfold bindStepsAll bindMultiAll
  simp only [filterMap_src_map]
  cases srcs with
  | nil => simp [ofOutAll]
  | cons s rest =>
    cases rest with
    | nil =>
      simp only [List.map, List.isEmpty_cons, Bool.false_eq_true, if_false, List.length_singleton, Nat.le_refl, if_true,
        beq_self_eq_true]
      exact runStepsAll_values P cfg fs (.struct fs) init [s] init
    | cons s2 rest2 =>
      have hlen : ¬ ((s :: s2 :: rest2).length ≤ 1) := by simp
      have hne : ((s :: s2 :: rest2).length == 1) = false := by simp
      simp only [List.isEmpty_cons, Bool.false_eq_true, if_false, hlen, hne]
      have hmap : (s :: s2 :: rest2).map Step.src = Step.src s :: Step.src s2 :: rest2.map Step.src := rfl
      cases hb : bindPassAll P cfg fs (fun _ => Ty.struct fs) ((s :: s2 :: rest2).map fun s => { s with kvs := [] }) init with
      | done v es =>
        simp only []
        have := runStepsAll_values P cfg fs (.struct (stripFs fs)) init (s :: s2 :: rest2) v
        have hemp : ((s :: s2 :: rest2).map Step.src).isEmpty = false := by simp
        rw [this, ofOutAll_prepend, hemp]
        simp
      | panic => simp [ofOutAll]

/-- … and on value sources alone the collecting body model meets the collecting body oracle -/
theorem bindStepsAll_values_meets_spec (P : Params) (hP : FloatSane P) (cfg : Cfg) (fs : List Fld) (ivs : List Val)
    (srcs : List Src) (hw : wts fs ivs = true) (hg : Spec.inGrammarFs fs = true) (hs : ∀ s ∈ srcs, Spec.srcOK s = true) :
    Spec.specStepsAll P cfg fs (.struct ivs) (srcs.map Step.src)
      (toObsAllB (bindStepsAll P cfg fs (.struct ivs) (srcs.map Step.src))) = true := by
  rw [bindStepsAll_values_only]
  have h := bindMultiAll_meets_spec P hP cfg fs ivs srcs hw hg hs
  cases hb : bindMultiAll P cfg fs (.struct ivs) srcs with
  | panic => rw [hb] at h; simp [toObsAll, Spec.specMultiAll] at h
  | done v es =>
    rw [hb] at h
    cases es with
    | nil =>
      have h' := bindSteps_values_meets_spec P hP cfg fs ivs srcs hw hg hs
      rw [bindSteps_values_only] at h'
      have hag := bindMultiAll_agrees P cfg fs (.struct ivs) srcs
      rw [hb] at hag
      cases hm : bindMulti P cfg fs (.struct ivs) srcs with
      | ok w =>
        rw [hm] at hag h'
        have hq : OutAll.done v [] = OutAll.done w [] := hag
        cases hq
        simpa [ofOutAll, toObsAllB, Spec.specStepsAll, ofOutcome, toBObs] using h'
      | panic => rw [hm] at hag; cases (hag : OutAll.done v [] = OutAll.panic)
      | err e =>
        rw [hm] at hag
        have hq : OutAll.done v [] = OutAll.panic ∨ ∃ v' es', OutAll.done v [] = OutAll.done v' (e :: es') := hag
        rcases hq with hq | ⟨_, _, hq⟩ <;> cases hq
    | cons e0 es' =>
      simp only [toObsAll, Spec.specMultiAll, List.all_eq_true] at h
      simp only [ofOutAll, toObsAllB, List.map_cons, Spec.specStepsAll, bodiesOf_map_src, srcsOf_map_src, List.all_nil,
        Bool.and_true, List.all_eq_true, List.mem_cons, List.mem_map]
      rintro e (rfl | ⟨e', he', rfl⟩)
      · have := h e0 (by simp)
        simpa using this
      · have := h e' (by simp [he'])
        simpa using this

/-- a handler that binds once a type without body tags: `bindMulti` over path, query, header, cookie -/
theorem appRun_no_body_tags (P : Params) (fs : List Fld) (init : Val) (h : Http) (strict : Bool) (hb : h.bodyTags = false) :
    appRun P fs init h [.bind strict] = ofOutcome (bindMulti P Cfg.default fs init h.params) := by
  simp only [appRun, List.foldl, appStep, appBind]
  cases bindMulti P Cfg.default fs init h.params with
  | ok v => simp [hb, ofOutcome]
  | err e => rfl
  | panic => rfl

end Rivaas.C04

namespace Rivaas.C04
open Rivaas Rivaas.Bind

/-! ## the nested-struct JSON shortcut -/

/-- **Where no string decodes as a nested struct, `bindJ` is `bind`** … -/
theorem bindJ_eq_bind (P : Params) (cfg : Cfg) (tag : Tag) (ty : Ty) (init : Val) (src : Src)
    (h : ∀ s, (P s).nj = none) : bindJ P cfg tag ty init src = bind P cfg tag ty init src := by
  unfold bindJ Rivaas.Bind.bind
  cases ty with
  | struct fs => rw [lemma_bindAtJ_eq P cfg tag h]
  | _ => rfl

/-- … and the shortcut oracle is the plain oracle -/
theorem specOKJ_eq_specOK (P : Params) (cfg : Cfg) (tag : Tag) (fs : List Fld) (init : Val) (s : Src) (o : Spec.Obs)
    (h : ∀ x, (P x).nj = none) : Spec.specOKJ P cfg tag fs init s o = Spec.specOK P cfg tag fs init s o := by
  have hall : (Spec.shortcuts P cfg tag fs s).all Option.isNone = true := by
    simp only [Spec.shortcuts, List.all_map, List.all_eq_true]
    intro f _
    simp only [Function.comp, Spec.shortcutAt, h]
    split
    · rfl
    · split
      · rfl
      · split
        · rfl
        · split <;> simp
  simp [Spec.specOKJ, hall]

/-- so `bind_meets_spec` carries over to every case without a shortcut -/
theorem bindJ_meets_spec_no_shortcut (P : Params) (hP : FloatSane P) (cfg : Cfg) (tag : Tag) (fs : List Fld) (ivs : List Val)
    (src : Src) (hw : wts fs ivs = true) (hg : Spec.inGrammarFs fs = true) (hs : Spec.srcOK src = true)
    (h : ∀ s, (P s).nj = none) :
    Spec.specOKJ P cfg tag fs (.struct ivs) src (toObs (bindJ P cfg tag (.struct fs) (.struct ivs) src)) = true := by
  rw [bindJ_eq_bind P cfg tag _ _ _ h, specOKJ_eq_specOK P cfg tag fs _ src _ h]
  exact bind_meets_spec P hP cfg tag fs ivs src hw hg hs

end Rivaas.C04

namespace Rivaas.C04
open Rivaas Rivaas.Bind

/-! ## `WithAllErrors` with a body source next to value sources: the reported errors -/

/-- what the standard library decodes into the destination is a well-typed value of the destination type
    (a property of the shipped parameter, checked by the driver on every case) -/
def DocTyped (fs : List Fld) (d : DocInfo) : Prop :=
  (∀ v, d.lax = .ok v → ∃ js, v = .struct js ∧ wts fs js = true) ∧
  (∀ v, d.strict = .ok v → ∃ js, v = .struct js ∧ wts fs js = true)

theorem mergeVals_wts : ∀ (fs : List Fld) (is js cs : List Val), wts fs js = true → wts fs cs = true →
    wts fs (mergeVals is js cs) = true
  | [], is, js, cs, hj, hc => by
    cases cs with
    | nil => cases is <;> cases js <;> simp [mergeVals, wts]
    | cons _ _ => simp [wts] at hc
  | (h, t) :: fs, is, js, cs, hj, hc => by
    cases cs with
    | nil => simp [wts] at hc
    | cons c cs' =>
      cases js with
      | nil => simp [wts] at hj
      | cons j js' =>
        simp only [wts, Bool.and_eq_true] at hj hc
        cases is with
        | nil => simp [mergeVals, wts, hc.1, hc.2]
        | cons i is' =>
          simp only [mergeVals, wts, Bool.and_eq_true]
          refine ⟨?_, mergeVals_wts fs is' js' cs' hj.2 hc.2⟩
          split
          · exact hc.1
          · exact hj.1

theorem decodeBody_typed (fs : List Fld) (r : BodyReq) (hd : DocTyped fs r.doc) (dv : Val) (h : decodeBody r = .ok dv) :
    ∃ js, dv = .struct js ∧ wts fs js = true := by
  unfold decodeBody at h
  simp only at h
  split at h
  · cases h
  · split at h
    · cases hl : r.doc.lax <;> simp [hl, Dec.out] at h
      exact hd.1 _ (by rw [hl, h])
    · cases hl : r.doc.lax <;> simp [hl, Dec.out] at h
      exact hd.1 _ (by rw [hl, h])
    · split at h
      · cases hl : r.doc.lax <;> simp [hl, Dec.out] at h
        exact hd.1 _ (by rw [hl, h])
      · cases h
    · cases hl : r.doc.strict <;> simp [hl, Dec.out] at h
      exact hd.2 _ (by rw [hl, h])

theorem mem_okVals : ∀ (l : List (Except BErr Val)) (w : Val), Except.ok w ∈ l → w ∈ Spec.okVals l
  | [], _, h => by cases h
  | a :: rest, w, h => by
    cases a with
    | ok u =>
      simp only [Spec.okVals, List.mem_cons] at h ⊢
      rcases h with h | h
      · left; cases h; rfl
      · right; exact mem_okVals rest w h
    | error e =>
      simp only [List.mem_cons, reduceCtorEq, false_or] at h
      simpa [Spec.okVals] using mem_okVals rest w h

theorem decodeBody_admissible (r : BodyReq) :
    (∀ e, decodeBody r = .error e → (Spec.admissible r).any (Spec.isErrWith e) = true) ∧
    (∀ dv, decodeBody r = .ok dv → (Spec.okVals (Spec.admissible r)) ≠ []) := by
  have h := body_meets_spec r
  unfold bindBody at h
  constructor
  · intro e he
    rw [he] at h
    simpa [toBObs, Spec.specBody] using h
  · intro dv hd
    rw [hd] at h
    simp only [toBObs, Spec.specBody, List.any_eq_true] at h
    obtain ⟨x, hx, hxv⟩ := h
    cases x with
    | error e => simp [Spec.isOkWith] at hxv
    | ok w =>
      intro hnil
      have := mem_okVals _ w hx
      rw [hnil] at this
      cases this

theorem dec_out_not_bind (d : Dec) (e' : Err) : d.out ≠ .error (.bind e') := by
  cases d <;> simp [Dec.out]

theorem decodeBody_not_bind (r : BodyReq) (e' : Err) : decodeBody r ≠ .error (.bind e') := by
  unfold decodeBody
  simp only
  split
  · simp
  · split
    · exact dec_out_not_bind _ _
    · exact dec_out_not_bind _ _
    · split
      · exact dec_out_not_bind _ _
      · simp
    · exact dec_out_not_bind _ _

/-- the errors a collecting run over value and body sources reports, step by step -/
theorem lemma_runStepsAll (P : Params) (hP : FloatSane P) (cfg : Cfg) (fs fs' : List Fld) (hg' : Spec.inGrammarFs fs' = true)
    (hwfs : ∀ vs, wts fs' vs = wts fs vs) (mk : Src → Spec.Phase) (hk : ∀ s, (mk s).src = s) (hfs : ∀ s, phaseFs fs (mk s) = fs')
    (ivs0 : List Val) (hw0 : wts fs ivs0 = true) :
    ∀ (steps : List Step), (∀ s ∈ Spec.srcsOf steps, Spec.srcOK s = true) → (∀ r ∈ Spec.bodiesOf steps, DocTyped fs r.doc) →
    ∀ cvs : List Val, wts fs cvs = true →
    match runStepsAll P cfg fs (.struct fs') (.struct ivs0) steps (.struct cvs) with
    | .done _ es =>
      (∀ e ∈ es, match e with
        | .bind e' => ∃ s ∈ Spec.srcsOf steps, Spec.mentionsFs s.kind fs = true ∧ PhaseErr P cfg fs (mk s) e'
        | e => ∃ r ∈ Spec.bodiesOf steps, decodeBody r = .error e) ∧
      (∀ r ∈ Spec.bodiesOf steps, (∃ dv, decodeBody r = .ok dv) ∨ ∃ e ∈ es, decodeBody r = .error e)
    | .panic => False
  | [], _, _, cvs, _ => by simp [runStepsAll, Spec.bodiesOf]
  | .src s :: rest, hs, hd, cvs, hw => by
    have ih := lemma_runStepsAll P hP cfg fs fs' hg' hwfs mk hk hfs ivs0 hw0 rest
      (fun x hx => hs x (by simp [Spec.srcsOf, hx])) (fun r hr => hd r (by simpa [Spec.bodiesOf] using hr))
    simp only [runStepsAll, lemma_hasTag_fs]
    by_cases ht : Spec.mentionsFs s.kind fs = true
    · simp only [ht, if_true]
      have hb := lemma_bindAll_errs P hP cfg s.kind fs' cvs s (by rw [hwfs]; exact hw) hg' (hs s (by simp [Spec.srcsOf]))
      cases hr : bindAll P cfg s.kind (.struct fs') (.struct cvs) s with
      | panic => rw [hr] at hb; exact hb
      | done v es =>
        rw [hr] at hb
        obtain ⟨rvs, hv, hwr⟩ := lemma_bindAll_typed P cfg s.kind fs' cvs s v es (by rw [hwfs]; exact hw) hg' hr
        subst hv
        have ih' := ih rvs (by rw [← hwfs]; exact hwr)
        simp only
        cases hrr : runStepsAll P cfg fs (.struct fs') (.struct ivs0) rest (.struct rvs) with
        | panic => rw [hrr] at ih'; exact ih'
        | done v2 es2 =>
          rw [hrr] at ih'
          simp only [OutAllB.prepend]
          obtain ⟨i1, i2⟩ := ih'
          refine ⟨?_, ?_⟩
          · intro e he
            rcases List.mem_append.1 he with he | he
            · simp only [List.mem_map] at he
              obtain ⟨e', he', rfl⟩ := he
              refine ⟨s, by simp [Spec.srcsOf], ht, ?_⟩
              exact ⟨cvs, by rw [hk, hfs]; exact hb e' he'⟩
            · have := i1 e he
              cases e with
              | bind e' =>
                obtain ⟨s', hs', hm, hp⟩ := this
                exact ⟨s', by simp [Spec.srcsOf, hs'], hm, hp⟩
              | decode => obtain ⟨r, hr', hx⟩ := this; exact ⟨r, by simpa [Spec.bodiesOf] using hr', hx⟩
              | unknown n => obtain ⟨r, hr', hx⟩ := this; exact ⟨r, by simpa [Spec.bodiesOf] using hr', hx⟩
              | read => obtain ⟨r, hr', hx⟩ := this; exact ⟨r, by simpa [Spec.bodiesOf] using hr', hx⟩
              | ctype => obtain ⟨r, hr', hx⟩ := this; exact ⟨r, by simpa [Spec.bodiesOf] using hr', hx⟩
              | nobody => obtain ⟨r, hr', hx⟩ := this; exact ⟨r, by simpa [Spec.bodiesOf] using hr', hx⟩
          · intro r hr'
            rcases i2 r (by simpa [Spec.bodiesOf] using hr') with h | ⟨e, he, hx⟩
            · exact Or.inl h
            · exact Or.inr ⟨e, List.mem_append.2 (Or.inr he), hx⟩
    · have ht' : Spec.mentionsFs s.kind fs = false := by simpa using ht
      simp only [ht', Bool.false_eq_true, if_false]
      have ih' := ih cvs hw
      cases hrr : runStepsAll P cfg fs (.struct fs') (.struct ivs0) rest (.struct cvs) with
      | panic => rw [hrr] at ih'; exact ih'
      | done v2 es2 =>
        rw [hrr] at ih'
        obtain ⟨i1, i2⟩ := ih'
        refine ⟨?_, fun r hr' => i2 r (by simpa [Spec.bodiesOf] using hr')⟩
        intro e he
        have := i1 e he
        cases e with
        | bind e' =>
          obtain ⟨s', hs', hm, hp⟩ := this
          exact ⟨s', by simp [Spec.srcsOf, hs'], hm, hp⟩
        | decode => obtain ⟨r, hr', hx⟩ := this; exact ⟨r, by simpa [Spec.bodiesOf] using hr', hx⟩
        | unknown n => obtain ⟨r, hr', hx⟩ := this; exact ⟨r, by simpa [Spec.bodiesOf] using hr', hx⟩
        | read => obtain ⟨r, hr', hx⟩ := this; exact ⟨r, by simpa [Spec.bodiesOf] using hr', hx⟩
        | ctype => obtain ⟨r, hr', hx⟩ := this; exact ⟨r, by simpa [Spec.bodiesOf] using hr', hx⟩
        | nobody => obtain ⟨r, hr', hx⟩ := this; exact ⟨r, by simpa [Spec.bodiesOf] using hr', hx⟩
  | .body r :: rest, hs, hd, cvs, hw => by
    have ih := lemma_runStepsAll P hP cfg fs fs' hg' hwfs mk hk hfs ivs0 hw0 rest
      (fun x hx => hs x (by simpa [Spec.srcsOf] using hx)) (fun r' hr => hd r' (by simp [Spec.bodiesOf, hr]))
    simp only [runStepsAll]
    cases hdec : decodeBody r with
    | ok dv =>
      obtain ⟨js, hjs, hwj⟩ := decodeBody_typed fs r (hd r (by simp [Spec.bodiesOf])) dv hdec
      subst hjs
      have hm : wts fs (mergeVals ivs0 js cvs) = true := mergeVals_wts fs ivs0 js cvs hwj hw
      have ih' := ih (mergeVals ivs0 js cvs) hm
      simp only [mergeDec]
      cases hrr : runStepsAll P cfg fs (.struct fs') (.struct ivs0) rest (.struct (mergeVals ivs0 js cvs)) with
      | panic => rw [hrr] at ih'; exact ih'
      | done v2 es2 =>
        rw [hrr] at ih'
        obtain ⟨i1, i2⟩ := ih'
        refine ⟨?_, ?_⟩
        · intro e he
          have := i1 e he
          cases e with
          | bind e' =>
            obtain ⟨s', hs', hm', hp⟩ := this
            exact ⟨s', by simpa [Spec.srcsOf] using hs', hm', hp⟩
          | decode => obtain ⟨r', hr', hx⟩ := this; exact ⟨r', by simp [Spec.bodiesOf, hr'], hx⟩
          | unknown n => obtain ⟨r', hr', hx⟩ := this; exact ⟨r', by simp [Spec.bodiesOf, hr'], hx⟩
          | read => obtain ⟨r', hr', hx⟩ := this; exact ⟨r', by simp [Spec.bodiesOf, hr'], hx⟩
          | ctype => obtain ⟨r', hr', hx⟩ := this; exact ⟨r', by simp [Spec.bodiesOf, hr'], hx⟩
          | nobody => obtain ⟨r', hr', hx⟩ := this; exact ⟨r', by simp [Spec.bodiesOf, hr'], hx⟩
        · intro r' hr'
          simp only [Spec.bodiesOf, List.mem_cons] at hr'
          rcases hr' with rfl | hr'
          · exact Or.inl ⟨_, hdec⟩
          · exact i2 r' hr'
    | error e0 =>
      have ih' := ih cvs hw
      simp only
      cases hrr : runStepsAll P cfg fs (.struct fs') (.struct ivs0) rest (.struct cvs) with
      | panic => rw [hrr] at ih'; exact ih'
      | done v2 es2 =>
        rw [hrr] at ih'
        obtain ⟨i1, i2⟩ := ih'
        simp only [OutAllB.prepend, List.singleton_append]
        refine ⟨?_, ?_⟩
        · intro e he
          simp only [List.mem_cons] at he
          rcases he with rfl | he
          · have hne : ∀ e', e ≠ BErr.bind e' := by
              intro e' heq
              subst heq
              exact decodeBody_not_bind r e' hdec
            cases e with
            | bind e' => exact absurd rfl (hne e')
            | decode => exact ⟨r, by simp [Spec.bodiesOf], hdec⟩
            | unknown n => exact ⟨r, by simp [Spec.bodiesOf], hdec⟩
            | read => exact ⟨r, by simp [Spec.bodiesOf], hdec⟩
            | ctype => exact ⟨r, by simp [Spec.bodiesOf], hdec⟩
            | nobody => exact ⟨r, by simp [Spec.bodiesOf], hdec⟩
          · have := i1 e he
            cases e with
            | bind e' =>
              obtain ⟨s', hs', hm', hp⟩ := this
              exact ⟨s', by simpa [Spec.srcsOf] using hs', hm', hp⟩
            | decode => obtain ⟨r', hr', hx⟩ := this; exact ⟨r', by simp [Spec.bodiesOf, hr'], hx⟩
            | unknown n => obtain ⟨r', hr', hx⟩ := this; exact ⟨r', by simp [Spec.bodiesOf, hr'], hx⟩
            | read => obtain ⟨r', hr', hx⟩ := this; exact ⟨r', by simp [Spec.bodiesOf, hr'], hx⟩
            | ctype => obtain ⟨r', hr', hx⟩ := this; exact ⟨r', by simp [Spec.bodiesOf, hr'], hx⟩
            | nobody => obtain ⟨r', hr', hx⟩ := this; exact ⟨r', by simp [Spec.bodiesOf, hr'], hx⟩
        · intro r' hr'
          simp only [Spec.bodiesOf, List.mem_cons] at hr'
          rcases hr' with rfl | hr'
          · exact Or.inr ⟨e0, by simp, hdec⟩
          · rcases i2 r' hr' with h | ⟨e, he, hx⟩
            · exact Or.inl h
            · exact Or.inr ⟨e, by simp [he], hx⟩

theorem filterMap_src_eq_srcsOf : ∀ steps : List Step, steps.filterMap Step.src? = Spec.srcsOf steps
  | [] => rfl
  | .src s :: rest => by simp [Step.src?, Spec.srcsOf, filterMap_src_eq_srcsOf rest]
  | .body r :: rest => by
    have := filterMap_src_eq_srcsOf rest
    simp only [List.filterMap_cons, Step.src?, Spec.srcsOf]
    exact this

/-- what `lemma_runStepsAll` says about a list of errors, as the Booleans of `Spec.specStepsAll` -/
theorem stepsAll_bool (P : Params) (cfg : Cfg) (fs : List Fld) (hg : Spec.inGrammarFs fs = true) (init : Val) (steps : List Step)
    (errs : List BErr)
    (h1 : ∀ e ∈ errs, match e with
      | .bind e' => ∃ ph ∈ Spec.phasesOf fs (Spec.srcsOf steps), PhaseErr P cfg fs ph e'
      | e => ∃ r ∈ Spec.bodiesOf steps, decodeBody r = .error e)
    (h2 : ∀ r ∈ Spec.bodiesOf steps, (∃ dv, decodeBody r = .ok dv) ∨ ∃ e ∈ errs, decodeBody r = .error e) :
    ((errs.all fun e => match e with
      | .bind e' => (steps.isEmpty && e' == Err.conv) || (Spec.multiCauses P cfg fs init (Spec.srcsOf steps)).contains e'
      | e => (Spec.bodiesOf steps).any fun r => (Spec.admissible r).any (Spec.isErrWith e)) &&
    ((Spec.bodiesOf steps).all fun r =>
      !(Spec.okVals (Spec.admissible r)).isEmpty || errs.any (fun e => (Spec.admissible r).any (Spec.isErrWith e)))) = true := by
  simp only [Bool.and_eq_true, List.all_eq_true]
  refine ⟨?_, ?_⟩
  · intro e he
    have := h1 e he
    cases e with
    | bind e' =>
      obtain ⟨ph, hph, hpe⟩ := this
      simp only [Bool.or_eq_true]
      right
      simp only [List.contains_iff_mem, Spec.multiCauses, List.mem_flatMap]
      exact ⟨ph, hph, lemma_phase_err P cfg fs hg ph init e' hpe⟩
    | decode => obtain ⟨r, hr, hx⟩ := this; exact List.any_eq_true.2 ⟨r, hr, (decodeBody_admissible r).1 _ hx⟩
    | unknown n => obtain ⟨r, hr, hx⟩ := this; exact List.any_eq_true.2 ⟨r, hr, (decodeBody_admissible r).1 _ hx⟩
    | read => obtain ⟨r, hr, hx⟩ := this; exact List.any_eq_true.2 ⟨r, hr, (decodeBody_admissible r).1 _ hx⟩
    | ctype => obtain ⟨r, hr, hx⟩ := this; exact List.any_eq_true.2 ⟨r, hr, (decodeBody_admissible r).1 _ hx⟩
    | nobody => obtain ⟨r, hr, hx⟩ := this; exact List.any_eq_true.2 ⟨r, hr, (decodeBody_admissible r).1 _ hx⟩
  · intro r hr
    simp only [Bool.or_eq_true, Bool.not_eq_true', List.any_eq_true]
    rcases h2 r hr with ⟨dv, hdv⟩ | ⟨e, he, hx⟩
    · left
      cases hok : Spec.okVals (Spec.admissible r) with
      | nil => exact absurd hok ((decodeBody_admissible r).2 dv hdv)
      | cons _ _ => rfl
    · exact Or.inr ⟨e, he, List.any_eq_true.1 ((decodeBody_admissible r).1 _ hx)⟩

/-- **`WithAllErrors` with body sources next to value sources: the reported errors meet the collecting oracle** - every
    error of a value source has a cause in its own pass, every body error is one the oracle admits for that body
    source, and a body source that can only fail is reported; never a panic. (The *value* of a mixed bind - with or
    without errors - rests on the disjointness of body and value fields, which the driver checks per case.)
    Hypothesis on the shipped parameter: what encoding/json / encoding/xml decode is a well-typed value of the
    destination type (`DocTyped`). -/
theorem bindStepsAll_errors_meet_spec (P : Params) (hP : FloatSane P) (cfg : Cfg) (fs : List Fld) (ivs : List Val)
    (steps : List Step) (hw : wts fs ivs = true) (hg : Spec.inGrammarFs fs = true)
    (hs : ∀ s ∈ Spec.srcsOf steps, Spec.srcOK s = true) (hd : ∀ r ∈ Spec.bodiesOf steps, DocTyped fs r.doc) :
    match bindStepsAll P cfg fs (.struct ivs) steps with
    | .done v (e0 :: es) => Spec.specStepsAll P cfg fs (.struct ivs) steps (.done v (e0 :: es)) = true
    | .done _ [] => True
    | .panic => False := by
  unfold bindStepsAll
  simp only [filterMap_src_eq_srcsOf]
  by_cases hemp : steps.isEmpty = true
  · simp only [hemp, if_true]
    have : steps = [] := by simpa using hemp
    subst this
    simp [Spec.specStepsAll, Spec.bodiesOf]
  · have hemp' : steps.isEmpty = false := by simpa using hemp
    simp only [hemp', Bool.false_eq_true, if_false]
    by_cases h1 : (Spec.srcsOf steps).length ≤ 1
    · simp only [h1, if_true]
      have hrun := lemma_runStepsAll P hP cfg fs fs hg (fun _ => rfl)
        (fun s => { src := s, defaultsOnly := false, noDefaults := false }) (fun _ => rfl) (fun _ => by simp [phaseFs])
        ivs hw steps hs hd ivs hw
      cases hr : runStepsAll P cfg fs (.struct fs) (.struct ivs) steps (.struct ivs) with
      | panic => rw [hr] at hrun; exact hrun
      | done v errs =>
        rw [hr] at hrun
        cases errs with
        | nil => trivial
        | cons e0 es =>
          simp only [Spec.specStepsAll]
          apply stepsAll_bool P cfg fs hg (.struct ivs) steps (e0 :: es) ?_ hrun.2
          intro e he
          have := hrun.1 e he
          cases e with
          | bind e' =>
            obtain ⟨s, hsm, hm, hp⟩ := this
            refine ⟨_, ?_, hp⟩
            have hlen : (Spec.srcsOf steps).length = 1 := by
              cases hl : Spec.srcsOf steps with
              | nil => rw [hl] at hsm; cases hsm
              | cons a r =>
                rw [hl] at h1
                cases r with
                | nil => rfl
                | cons _ _ => simp at h1
            simp only [Spec.phasesOf, hlen, beq_self_eq_true, if_true, List.mem_map, List.mem_filter]
            exact ⟨s, ⟨hsm, hm⟩, rfl⟩
          | decode => exact this
          | unknown n => exact this
          | read => exact this
          | ctype => exact this
          | nobody => exact this
    · simp only [h1, if_false]
      have hne : ((Spec.srcsOf steps).length == 1) = false := by
        cases hl : (Spec.srcsOf steps).length with
        | zero => simp [hl] at h1
        | succ n => cases n with
          | zero => simp [hl] at h1
          | succ m => simp
      -- the defaults pass over the emptied value sources
      have hA := lemma_bindPassAll_phases P cfg fs fs
        (fun s => { src := { s with kvs := [] }, defaultsOnly := true, noDefaults := false })
        (fun _ => rfl) (fun _ => by simp [phaseFs]) (Spec.srcsOf steps) (.struct ivs) (fun s => { s with kvs := [] })
        (fun _ => rfl) (fun _ => rfl)
      rw [hA]
      have hsrcA : ∀ ph ∈ ((Spec.srcsOf steps).filter (fun s => Spec.mentionsFs s.kind fs)).map
          (fun s => ({ src := { s with kvs := [] }, defaultsOnly := true, noDefaults := false } : Spec.Phase)),
          Spec.srcOK ph.src = true := by
        intro ph hph
        simp only [List.mem_map] at hph
        obtain ⟨s, _, rfl⟩ := hph
        simp only [Spec.srcOK, List.all_nil, Bool.true_and]
        cases s.kind <;> rfl
      have hrunA := lemma_runAll P hP cfg fs hg _ hsrcA ivs hw
      cases hrA : runPhasesAll P cfg fs (((Spec.srcsOf steps).filter (fun s => Spec.mentionsFs s.kind fs)).map
          (fun s => ({ src := { s with kvs := [] }, defaultsOnly := true, noDefaults := false } : Spec.Phase))) (.struct ivs) with
      | panic => rw [hrA] at hrunA; exact hrunA
      | done v1 es1 =>
        rw [hrA] at hrunA
        obtain ⟨⟨rvs, hv1, hwr⟩, hA1⟩ := hrunA
        subst hv1
        simp only
        have hrun := lemma_runStepsAll P hP cfg fs (stripFs fs) (by rw [lemma_strip_grammarFs']; exact hg)
          (fun vs => lemma_strip_wts' fs vs)
          (fun s => { src := s, defaultsOnly := false, noDefaults := true }) (fun _ => rfl) (fun _ => by simp [phaseFs])
          ivs hw steps hs hd rvs hwr
        cases hr : runStepsAll P cfg fs (.struct (stripFs fs)) (.struct ivs) steps (.struct rvs) with
        | panic => rw [hr] at hrun; exact hrun
        | done v errs =>
          rw [hr] at hrun
          simp only [OutAllB.prepend]
          cases hall : es1.map BErr.bind ++ errs with
          | nil => trivial
          | cons e0 es =>
            simp only [Spec.specStepsAll]
            rw [← hall]
            apply stepsAll_bool P cfg fs hg (.struct ivs) steps _ ?_ ?_
            · intro e he
              rcases List.mem_append.1 he with he | he
              · simp only [List.mem_map] at he
                obtain ⟨e', he', rfl⟩ := he
                obtain ⟨ph, hph, hpe⟩ := hA1 e' he'
                refine ⟨ph, ?_, hpe⟩
                simp only [Spec.phasesOf, hne, Bool.false_eq_true, if_false, List.mem_append]
                exact Or.inl hph
              · have := hrun.1 e he
                cases e with
                | bind e' =>
                  obtain ⟨s, hsm, hm, hp⟩ := this
                  refine ⟨_, ?_, hp⟩
                  simp only [Spec.phasesOf, hne, Bool.false_eq_true, if_false, List.mem_append, List.mem_map, List.mem_filter]
                  exact Or.inr ⟨s, ⟨hsm, hm⟩, rfl⟩
                | decode => exact this
                | unknown n => exact this
                | read => exact this
                | ctype => exact this
                | nobody => exact this
            · intro r hr'
              rcases hrun.2 r hr' with h | ⟨e, he, hx⟩
              · exact Or.inl h
              · exact Or.inr ⟨e, List.mem_append.2 (Or.inr he), hx⟩

/-! ## the depth limit and the nested-struct JSON shortcut (K04k) -/

/-- **The depth test comes before the shortcut**: a nested struct field beyond the depth limit is the depth error
    naming the field, whatever its own key holds - also a JSON value the decoder would accept (after the fix for K04k;
    `model_depth_check` is the same statement for the plain step). -/
theorem bindJ_depth_check_first (P : Params) (cfg : Cfg) (nest : Nest) (g : Getter) (depth : Nat) (f : FieldInfo) (cur : Val)
    (hm : isMapTy f.ty = false) (hs : isStructTy f.ty = true) (hd : cfg.maxDepth < depth + 1) :
    fieldActionJ P cfg nest g depth f cur = .inr (.err (.bind f.name .depth)) := by
  unfold fieldActionJ
  simp only [hm, hs, hd, decide_true, Bool.not_true, Bool.and_false, Bool.false_eq_true, if_false]
  simp [fieldAction, hm, hs, hd]

/-- … and in the collecting bind -/
theorem bindAllJ_depth_check_first (P : Params) (cfg : Cfg) (nest : NestAll) (g : Getter) (depth : Nat) (f : FieldInfo) (cur : Val)
    (hm : isMapTy f.ty = false) (hs : isStructTy f.ty = true) (hd : cfg.maxDepth < depth + 1) :
    fieldActionAllJ P cfg nest g depth f cur = .skip [.bind f.name .depth] := by
  unfold fieldActionAllJ
  simp only [hm, hs, hd, decide_true, Bool.not_true, Bool.and_false, Bool.false_eq_true, if_false]
  simp [fieldActionAll, hm, hs, hd]

def k04kP : Params := fun s => if s == B "{\"X\":1}" then { nj := some (.struct [.int 1]) } else {}
def k04kCfg : Cfg := { Cfg.default with maxDepth := 0 }
def k04kField : FieldInfo :=
  { index := [0], name := B "N", tagName := B "n", aliases := [],
    ty := .struct [({ name := B "X", exported := true, anon := false, tags := [B "x"], dflt := [] }, .prim (.int 0))],
    dflt := [], typedDefault := none }
def k04kGetter : Getter := { src := { kind := .query, kvs := [(B "n", [B "{\"X\":1}"])] } }
def isBoundOne : Val ⊕ Stop → Bool
  | .inl (.struct [.int 1]) => true
  | _ => false
def isDepthErr : Val ⊕ Stop → Bool
  | .inr (.err (.bind _ .depth)) => true
  | _ => false

/-- as shipped (K04k): with `WithMaxDepth(0)` a nested struct whose own key held a JSON value was bound at depth 1;
    after the fix it is the depth error -/
theorem shortcut_depth_asis_witness :
    isBoundOne (fieldActionJAsIs k04kP k04kCfg (fun _ _ _ _ => .err .depth) k04kGetter 0 k04kField (.struct [.int 0])) = true ∧
    isDepthErr (fieldActionJ k04kP k04kCfg (fun _ _ _ _ => .err .depth) k04kGetter 0 k04kField (.struct [.int 0])) = true := by
  decide

/-! ## the nested-struct JSON shortcut in a collecting bind -/

theorem bindAllJ_eq_bindAll (P : Params) (cfg : Cfg) (tag : Tag) (ty : Ty) (init : Val) (src : Src)
    (h : ∀ s, (P s).nj = none) : bindAllJ P cfg tag ty init src = bindAll P cfg tag ty init src := by
  unfold bindAllJ bindAll
  cases ty with
  | struct fs => rw [lemma_bindAtAllJ_eq P cfg tag h]
  | _ => rfl

theorem specAllJ_eq_specAll (P : Params) (cfg : Cfg) (tag : Tag) (fs : List Fld) (init : Val) (s : Src) (o : Spec.ObsAll)
    (h : ∀ x, (P x).nj = none) : Spec.specAllJ P cfg tag fs init s o = Spec.specAll P cfg tag fs init s o := by
  have hall : (Spec.shortcuts P cfg tag fs s).all Option.isNone = true := by
    simp only [Spec.shortcuts, List.all_map, List.all_eq_true]
    intro f _
    simp only [Function.comp, Spec.shortcutAt, h]
    split
    · rfl
    · split
      · rfl
      · split
        · rfl
        · split <;> simp
  simp [Spec.specAllJ, hall]

/-- `bindAll_meets_spec` carries over to every collecting case without a shortcut -/
theorem bindAllJ_meets_spec_no_shortcut (P : Params) (hP : FloatSane P) (cfg : Cfg) (tag : Tag) (fs : List Fld) (ivs : List Val)
    (src : Src) (hw : wts fs ivs = true) (hg : Spec.inGrammarFs fs = true) (hs : Spec.srcOK src = true)
    (h : ∀ s, (P s).nj = none) :
    Spec.specAllJ P cfg tag fs (.struct ivs) src (toObsAll (bindAllJ P cfg tag (.struct fs) (.struct ivs) src)) = true := by
  rw [bindAllJ_eq_bindAll P cfg tag _ _ _ h, specAllJ_eq_specAll P cfg tag fs _ src _ h]
  exact bindAll_meets_spec P hP cfg tag fs ivs src hw hg hs

end Rivaas.C04
