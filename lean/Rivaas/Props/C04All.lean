import Rivaas.Lemmas.BindAll
import Rivaas.Spec.BindAll
import Rivaas.Props.C04
/-
C04 — binds that collect their errors (`WithAllErrors`). Property theorems over `Model/BindAll.lean`.
-/
namespace Rivaas.C04
open Rivaas Rivaas.Bind

/-- **Collecting and plain bind run the same steps up to the first error** — every type, source, option
    set and destination: a plain success is a collecting run without errors and with the same value, a
    plain error is the first error the collecting run reports (MultiError order = field order, nested
    errors under the nested field's name). -/
theorem bindAll_agrees (P : Params) (cfg : Cfg) (tag : Tag) (ty : Ty) (init : Val) (src : Src) :
    Agree (bind P cfg tag ty init src) (bindAll P cfg tag ty init src) :=
  lemma_agree_bind P cfg tag ty init src

theorem bindAll_no_error_iff (P : Params) (cfg : Cfg) (tag : Tag) (ty : Ty) (init : Val) (src : Src) (v : Val) :
    bindAll P cfg tag ty init src = .done v [] ↔ bind P cfg tag ty init src = .ok v := by
  have h := lemma_agree_bind P cfg tag ty init src
  constructor
  · intro ha
    cases hb : bind P cfg tag ty init src with
    | ok w => rw [hb] at h; have h' : bindAll P cfg tag ty init src = .done w [] := h; rw [ha] at h'; cases h'; rfl
    | panic => rw [hb] at h; have h' : bindAll P cfg tag ty init src = .panic := h; rw [ha] at h'; cases h'
    | err e =>
      rw [hb] at h
      have h' : bindAll P cfg tag ty init src = .panic ∨ ∃ v es, bindAll P cfg tag ty init src = .done v (e :: es) := h
      rcases h' with hp | ⟨w, es, hk⟩
      · rw [ha] at hp; cases hp
      · rw [ha] at hk; cases hk
  · intro hb
    rw [hb] at h
    exact h

theorem bindAll_first_error (P : Params) (cfg : Cfg) (tag : Tag) (ty : Ty) (init : Val) (src : Src) (v : Val) (e : Err) (es : List Err)
    (ha : bindAll P cfg tag ty init src = .done v (e :: es)) : bind P cfg tag ty init src = .err e := by
  have h := lemma_agree_bind P cfg tag ty init src
  cases hb : bind P cfg tag ty init src with
  | ok w => rw [hb] at h; have h' : bindAll P cfg tag ty init src = .done w [] := h; rw [ha] at h'; cases h'
  | panic => rw [hb] at h; have h' : bindAll P cfg tag ty init src = .panic := h; rw [ha] at h'; cases h'
  | err e' =>
    rw [hb] at h
    have h' : bindAll P cfg tag ty init src = .panic ∨ ∃ v es, bindAll P cfg tag ty init src = .done v (e' :: es) := h
    rcases h' with hp | ⟨w, es', hk⟩
    · rw [ha] at hp; cases hp
    · rw [ha] at hk; cases hk; rfl

/-- the same for several sources (Bind / BindTo with WithAllErrors): errors.Join keeps the order of the passes -/
theorem bindMultiAll_agrees (P : Params) (cfg : Cfg) (fs : List Fld) (init : Val) (srcs : List Src) :
    Agree (bindMulti P cfg fs init srcs) (bindMultiAll P cfg fs init srcs) :=
  lemma_agree_multi P cfg fs init srcs

/-- **A collecting bind that reports nothing meets the whole oracle**, and **the first error a collecting
    bind reports is one the statement allows** — both from `bind_meets_spec`. -/
theorem bindAll_clean_meets_spec (P : Params) (hP : FloatSane P) (cfg : Cfg) (tag : Tag) (fs : List Fld) (ivs : List Val)
    (src : Src) (hw : wts fs ivs = true) (hg : Spec.inGrammarFs fs = true) (hs : Spec.srcOK src = true) (v : Val)
    (ha : bindAll P cfg tag (.struct fs) (.struct ivs) src = .done v []) :
    Spec.specAll P cfg tag fs (.struct ivs) src (.done v []) = true := by
  have hb := (bindAll_no_error_iff P cfg tag (.struct fs) (.struct ivs) src v).mp ha
  have := bind_meets_spec P hP cfg tag fs ivs src hw hg hs
  rw [hb] at this
  simpa [Spec.specAll, toObs] using this

theorem bindAll_first_error_has_cause (P : Params) (hP : FloatSane P) (cfg : Cfg) (tag : Tag) (fs : List Fld) (ivs : List Val)
    (src : Src) (hw : wts fs ivs = true) (hg : Spec.inGrammarFs fs = true) (hs : Spec.srcOK src = true) (v : Val) (e : Err) (es : List Err)
    (ha : bindAll P cfg tag (.struct fs) (.struct ivs) src = .done v (e :: es)) :
    (Spec.causes P cfg tag fs (.struct ivs) src).contains e = true := by
  have hb := bindAll_first_error P cfg tag (.struct fs) (.struct ivs) src v e es ha
  have := bind_meets_spec P hP cfg tag fs ivs src hw hg hs
  rw [hb] at this
  simpa [Spec.specOK, toObs] using this

end Rivaas.C04
