import Rivaas.Lemmas.BindAll
import Rivaas.Lemmas.BindAllSound
import Rivaas.Lemmas.BindAllMulti
import Rivaas.Spec.BindAll
import Rivaas.Spec.BindNestJSON
import Rivaas.Props.C04
import Rivaas.Props.C04Body
/-
C04 — binds that collect their errors (`WithAllErrors`). Property theorems over `Model/BindAll.lean`.
-/
namespace Rivaas.C04
open Rivaas Rivaas.Bind

/-- **Collecting and plain bind run the same steps up to the first error** — every type, source, option
    set and destination: a plain success is a collecting run without errors and with the same value, a
    plain error is the first error the collecting run reports (MultiError order = field order, nested
    errors under the nested field's name). -/
theorem bindAll_agrees (P : Params) (cfg : Cfg) (tag : Tag) (ty : Ty) (init : Val) (src : Src) :
    Agree (bind P cfg tag ty init src) (bindAll P cfg tag ty init src) :=
  lemma_agree_bind P cfg tag ty init src

theorem bindAll_no_error_iff (P : Params) (cfg : Cfg) (tag : Tag) (ty : Ty) (init : Val) (src : Src) (v : Val) :
    bindAll P cfg tag ty init src = .done v [] ↔ bind P cfg tag ty init src = .ok v := by
  have h := lemma_agree_bind P cfg tag ty init src
  constructor
  · intro ha
    cases hb : bind P cfg tag ty init src with
    | ok w => rw [hb] at h; have h' : bindAll P cfg tag ty init src = .done w [] := h; rw [ha] at h'; cases h'; rfl
    | panic => rw [hb] at h; have h' : bindAll P cfg tag ty init src = .panic := h; rw [ha] at h'; cases h'
    | err e =>
      rw [hb] at h
      have h' : bindAll P cfg tag ty init src = .panic ∨ ∃ v es, bindAll P cfg tag ty init src = .done v (e :: es) := h
      rcases h' with hp | ⟨w, es, hk⟩
      · rw [ha] at hp; cases hp
      · rw [ha] at hk; cases hk
  · intro hb
    rw [hb] at h
    exact h

theorem bindAll_first_error (P : Params) (cfg : Cfg) (tag : Tag) (ty : Ty) (init : Val) (src : Src) (v : Val) (e : Err) (es : List Err)
    (ha : bindAll P cfg tag ty init src = .done v (e :: es)) : bind P cfg tag ty init src = .err e := by
  have h := lemma_agree_bind P cfg tag ty init src
  cases hb : bind P cfg tag ty init src with
  | ok w => rw [hb] at h; have h' : bindAll P cfg tag ty init src = .done w [] := h; rw [ha] at h'; cases h'
  | panic => rw [hb] at h; have h' : bindAll P cfg tag ty init src = .panic := h; rw [ha] at h'; cases h'
  | err e' =>
    rw [hb] at h
    have h' : bindAll P cfg tag ty init src = .panic ∨ ∃ v es, bindAll P cfg tag ty init src = .done v (e' :: es) := h
    rcases h' with hp | ⟨w, es', hk⟩
    · rw [ha] at hp; cases hp
    · rw [ha] at hk; cases hk; rfl

/-- the same for several sources (Bind / BindTo with WithAllErrors): errors.Join keeps the order of the passes -/
theorem bindMultiAll_agrees (P : Params) (cfg : Cfg) (fs : List Fld) (init : Val) (srcs : List Src) :
    Agree (bindMulti P cfg fs init srcs) (bindMultiAll P cfg fs init srcs) :=
  lemma_agree_multi P cfg fs init srcs

/-- **A collecting bind that reports nothing meets the whole oracle**, and **the first error a collecting
    bind reports is one the statement allows** — both from `bind_meets_spec`. -/
theorem bindAll_clean_meets_spec (P : Params) (hP : FloatSane P) (cfg : Cfg) (tag : Tag) (fs : List Fld) (ivs : List Val)
    (src : Src) (hw : wts fs ivs = true) (hg : Spec.inGrammarFs fs = true) (hs : Spec.srcOK src = true) (v : Val)
    (ha : bindAll P cfg tag (.struct fs) (.struct ivs) src = .done v []) :
    Spec.specAll P cfg tag fs (.struct ivs) src (.done v []) = true := by
  have hb := (bindAll_no_error_iff P cfg tag (.struct fs) (.struct ivs) src v).mp ha
  have := bind_meets_spec P hP cfg tag fs ivs src hw hg hs
  rw [hb] at this
  simpa [Spec.specAll, toObs] using this

theorem bindAll_first_error_has_cause (P : Params) (hP : FloatSane P) (cfg : Cfg) (tag : Tag) (fs : List Fld) (ivs : List Val)
    (src : Src) (hw : wts fs ivs = true) (hg : Spec.inGrammarFs fs = true) (hs : Spec.srcOK src = true) (v : Val) (e : Err) (es : List Err)
    (ha : bindAll P cfg tag (.struct fs) (.struct ivs) src = .done v (e :: es)) :
    (Spec.causes P cfg tag fs (.struct ivs) src).contains e = true := by
  have hb := bindAll_first_error P cfg tag (.struct fs) (.struct ivs) src v e es ha
  have := bind_meets_spec P hP cfg tag fs ivs src hw hg hs
  rw [hb] at this
  simpa [Spec.specOK, toObs] using this

/-- an error the item-wise oracle admits at the top level is one of `Spec.causes` -/
theorem lemma_itemsErr_causes (P : Params) (cfg : Cfg) (tag : Tag) (fs : List Fld) (init : Val) (src : Src) (e : Err)
    (h : ItemsErr P cfg { src := src } 0 (Spec.itemsFs tag 0 fs) init e) :
    (Spec.causes P cfg tag fs init src).contains e = true := by
  simp only [Spec.causes, List.contains_iff_mem, List.mem_append, List.mem_flatMap, List.mem_map,
    List.mem_filter, Spec.leavesOf, Spec.nodesOf, List.mem_filterMap, Spec.items]
  rcases h with ⟨l, hl, c, hc, hh⟩ | ⟨n, hn, hd, he⟩
  · left
    refine ⟨l, ⟨.leaf l, hl, rfl⟩, c, ?_, hc.symm⟩
    rw [lemma_keyed_top] at hh
    rcases hh with h | ⟨h1, h2⟩
    · exact Or.inl h
    · right
      simp only [h1, if_true, List.mem_cons, List.mem_nil_iff, or_false]
      exact h2
  · right
    exact ⟨n, ⟨⟨.node n, hn, rfl⟩, by simpa using hd⟩, he.symm⟩

/-- **A collecting bind meets the whole collecting oracle** - every type of the grammar, tag, option set, well-typed
    destination and well-formed source: without an error the plain oracle holds on the value; otherwise every
    reported error is one the statement allows (it names a field whose own value or limit causes it, with that
    class), every reached, unambiguous leaf whose only admissible outcome is an error is named by a reported error,
    and so is every nested struct at the first depth beyond the limit; never a panic. -/
theorem bindAll_meets_spec (P : Params) (hP : FloatSane P) (cfg : Cfg) (tag : Tag) (fs : List Fld) (ivs : List Val)
    (src : Src) (hw : wts fs ivs = true) (hg : Spec.inGrammarFs fs = true) (hs : Spec.srcOK src = true) :
    Spec.specAll P cfg tag fs (.struct ivs) src (toObsAll (bindAll P cfg tag (.struct fs) (.struct ivs) src)) = true := by
  have hsp := lemma_bindAtAll_spec P cfg tag hP cfg.maxDepth 0 (by omega) fs ivs { src := src } hw hg hs
  cases hr : bindAtAll P cfg tag cfg.maxDepth fs (.struct ivs) { src := src } 0 with
  | panic => rw [hr] at hsp; exact absurd hsp (by simp)
  | done v es =>
    rw [hr] at hsp
    have hb : bindAll P cfg tag (.struct fs) (.struct ivs) src = .done v es := by simp only [bindAll, hr]
    rw [hb]
    cases es with
    | nil => exact bindAll_clean_meets_spec P hP cfg tag fs ivs src hw hg hs v hb
    | cons e0 es' =>
      obtain ⟨h1, h2, h3⟩ := hsp
      simp only [toObsAll, Spec.specAll, Bool.and_eq_true, List.all_eq_true, Bool.or_eq_true, Bool.not_eq_true',
        List.any_eq_true, beq_iff_eq, bne_iff_ne, ne_eq, Spec.leavesOf, Spec.nodesOf, List.mem_filterMap, Spec.items]
      refine ⟨⟨?_, ?_⟩, ?_⟩
      · intro e he
        exact lemma_itemsErr_causes P cfg tag fs _ src e (h1 e he)
      · rintro l ⟨x, hx, hxl⟩
        cases x with
        | node n => simp at hxl
        | frame f => simp at hxl
        | leaf l0 =>
          simp only [Option.some.injEq] at hxl
          subst hxl
          have := h2 l0 hx
          rw [lemma_keyed_top] at this
          rcases this with h | h | h | ⟨e, he, hn⟩
          · exact Or.inl (Or.inl (Or.inl h))
          · refine Or.inl (Or.inl (Or.inr ?_))
            simp only [Spec.leafReached, decide_eq_false_iff_not]
            omega
          · refine Or.inl (Or.inr ?_)
            cases hoks : (Spec.expect P cfg src (.struct ivs) l0).oks with
            | nil => exact absurd hoks h
            | cons _ _ => rfl
          · exact Or.inr ⟨e, he, hn⟩
      · rintro n ⟨x, hx, hxn⟩
        cases x with
        | leaf l => simp at hxn
        | frame f => simp at hxn
        | node n0 =>
          simp only [Option.some.injEq] at hxn
          subst hxn
          by_cases hd : n0.depth = cfg.maxDepth + 1
          · obtain ⟨e, he, hn⟩ := h3 n0 hx (by omega)
            exact Or.inr ⟨e, he, hn⟩
          · exact Or.inl hd

/-- the collecting bind returns a well-typed value of the destination type (a field that failed keeps its value) -/
theorem bindAll_preserves_type (P : Params) (cfg : Cfg) (tag : Tag) (fs : List Fld) (ivs : List Val) (src : Src) (v : Val)
    (es : List Err) (hw : wts fs ivs = true) (hg : Spec.inGrammarFs fs = true)
    (h : bindAll P cfg tag (.struct fs) (.struct ivs) src = .done v es) : ∃ rvs, v = .struct rvs ∧ wts fs rvs = true :=
  lemma_bindAll_typed P cfg tag fs ivs src v es hw hg h

/-- **A collecting bind from several sources meets its oracle** (Bind / BindTo with WithAllErrors, any list of
    sources): without an error the multi-source oracle holds on the value (last source holding the key, else default,
    else untouched); otherwise every reported error - of the defaults pass or of any source - is one the statement
    allows for that pass; never a panic. -/
theorem bindMultiAll_meets_spec (P : Params) (hP : FloatSane P) (cfg : Cfg) (fs : List Fld) (ivs : List Val)
    (srcs : List Src) (hw : wts fs ivs = true) (hg : Spec.inGrammarFs fs = true) (hs : ∀ s ∈ srcs, Spec.srcOK s = true) :
    Spec.specMultiAll P cfg fs (.struct ivs) srcs (toObsAll (bindMultiAll P cfg fs (.struct ivs) srcs)) = true := by
  have hag := bindMultiAll_agrees P cfg fs (.struct ivs) srcs
  have hplain := bindMulti_meets_spec P hP cfg fs ivs srcs hw hg hs
  cases hr : bindMultiAll P cfg fs (.struct ivs) srcs with
  | panic =>
    rw [lemma_bindMultiAll_phases] at hr
    by_cases he : srcs.isEmpty = true
    · simp [he] at hr
    · have he' : srcs.isEmpty = false := by simpa using he
      simp only [he', Bool.false_eq_true, if_false] at hr
      have := lemma_runAll P hP cfg fs hg (Spec.phasesOf fs srcs) (lemma_phases_srcOK fs srcs hs) ivs hw
      rw [hr] at this
      exact absurd this (by simp)
  | done v es =>
    cases es with
    | nil =>
      simp only [toObsAll, Spec.specMultiAll]
      rw [hr] at hag
      cases hb : bindMulti P cfg fs (.struct ivs) srcs with
      | ok w =>
        rw [hb] at hag hplain
        have h' : OutAll.done v [] = OutAll.done w [] := hag
        cases h'
        simpa [toObs] using hplain
      | panic => rw [hb] at hag; cases (hag : OutAll.done v [] = OutAll.panic)
      | err e =>
        rw [hb] at hag
        have h' : OutAll.done v [] = OutAll.panic ∨ ∃ v' es', OutAll.done v [] = OutAll.done v' (e :: es') := hag
        rcases h' with h | ⟨_, _, h⟩ <;> cases h
    | cons e0 es' =>
      simp only [toObsAll, Spec.specMultiAll, List.all_eq_true, Bool.or_eq_true, Bool.and_eq_true, beq_iff_eq]
      intro e he
      rw [lemma_bindMultiAll_phases] at hr
      by_cases hemp : srcs.isEmpty = true
      · simp only [hemp, if_true, OutAll.done.injEq] at hr
        rw [← hr.2] at he
        simp only [List.mem_singleton] at he
        exact Or.inl ⟨hemp, he⟩
      · have he' : srcs.isEmpty = false := by simpa using hemp
        simp only [he', Bool.false_eq_true, if_false] at hr
        have := lemma_runAll P hP cfg fs hg (Spec.phasesOf fs srcs) (lemma_phases_srcOK fs srcs hs) ivs hw
        rw [hr] at this
        obtain ⟨ph, hph, hpe⟩ := this e he
        right
        simp only [List.contains_iff_mem, Spec.multiCauses, List.mem_flatMap]
        exact ⟨ph, hph, lemma_phase_err P cfg fs hg ph (.struct ivs) e hpe⟩

end Rivaas.C04

namespace Rivaas.C04
open Rivaas Rivaas.Bind

/-! ## the body model and the collecting model contain the proven multi-source model -/

theorem filterMap_src_map (srcs : List Src) : (srcs.map Step.src).filterMap Step.src? = srcs := by
  induction srcs with
  | nil => rfl
  | cons s r ih => simp [Step.src?, ih]

theorem runSteps_values (P : Params) (cfg : Cfg) (fs : List Fld) (vty : Ty) (init : Val) :
    ∀ (srcs : List Src) (cur : Val),
      runSteps P cfg fs vty init (srcs.map Step.src) cur = ofOutcome (bindPass P cfg fs (fun _ => vty) srcs cur)
  | [], cur => by simp [runSteps, bindPass, ofOutcome]
  | s :: rest, cur => by
    simp only [List.map, runSteps, bindPass]
    by_cases ht : hasTagFs s.kind fs = true
    · simp only [ht, if_true]
      cases bind P cfg s.kind vty cur s with
      | ok v => simpa using runSteps_values P cfg fs vty init rest v
      | err e => rfl
      | panic => rfl
    · simp only [ht, Bool.false_eq_true, if_false]
      exact runSteps_values P cfg fs vty init rest cur

/-- **Without a body source the body model is `bindMulti`** — the model `bindMulti_meets_spec` is about. -/
theorem bindSteps_values_only (P : Params) (cfg : Cfg) (fs : List Fld) (init : Val) (srcs : List Src) :
    bindSteps P cfg fs init (srcs.map Step.src) = ofOutcome (bindMulti P cfg fs init srcs) := by
  unfold bindSteps bindMulti
  simp only [filterMap_src_map]
  cases srcs with
  | nil => simp [ofOutcome]
  | cons s rest =>
    cases rest with
    | nil =>
      simp only [List.map, List.isEmpty_cons, Bool.false_eq_true, if_false, List.length_singleton, Nat.le_refl, if_true,
        beq_self_eq_true]
      exact runSteps_values P cfg fs (.struct fs) init [s] init
    | cons s2 rest2 =>
      have hlen : ¬ ((s :: s2 :: rest2).length ≤ 1) := by simp
      have hne : ((s :: s2 :: rest2).length == 1) = false := by simp
      simp only [List.isEmpty_cons, Bool.false_eq_true, if_false, hlen, hne]
      have hmap : (s :: s2 :: rest2).map Step.src = Step.src s :: Step.src s2 :: rest2.map Step.src := rfl
      cases hb : bindPass P cfg fs (fun _ => Ty.struct fs) ((s :: s2 :: rest2).map fun s => { s with kvs := [] }) init with
      | ok v =>
        simp only []
        have := runSteps_values P cfg fs (.struct (stripFs fs)) init (s :: s2 :: rest2) v
        simpa [hmap] using this
      | err e => rfl
      | panic => rfl

theorem bodiesOf_map_src (srcs : List Src) : Spec.bodiesOf (srcs.map Step.src) = [] := by
  induction srcs with
  | nil => rfl
  | cons s r ih => simpa [Spec.bodiesOf] using ih

theorem srcsOf_map_src (srcs : List Src) : Spec.srcsOf (srcs.map Step.src) = srcs := by
  induction srcs with
  | nil => rfl
  | cons s r ih => simp [Spec.srcsOf, ih]

/-- … and on value sources alone it meets the body oracle, which is then `Spec.specMulti` -/
theorem bindSteps_values_meets_spec (P : Params) (hP : FloatSane P) (cfg : Cfg) (fs : List Fld) (ivs : List Val)
    (srcs : List Src) (hw : wts fs ivs = true) (hg : Spec.inGrammarFs fs = true) (hs : ∀ s ∈ srcs, Spec.srcOK s = true) :
    Spec.specSteps P cfg fs (.struct ivs) (srcs.map Step.src)
      (toBObs (bindSteps P cfg fs (.struct ivs) (srcs.map Step.src))) = true := by
  rw [bindSteps_values_only]
  have h := bindMulti_meets_spec P hP cfg fs ivs srcs hw hg hs
  cases hb : bindMulti P cfg fs (.struct ivs) srcs with
  | ok v =>
    rw [hb] at h
    simpa [ofOutcome, toBObs, Spec.specSteps, bodiesOf_map_src, srcsOf_map_src, toObs] using h
  | err e =>
    rw [hb] at h
    simpa [ofOutcome, toBObs, Spec.specSteps, srcsOf_map_src, toObs] using h
  | panic =>
    rw [hb] at h
    simp [toObs, Spec.specMulti] at h

/-- **A form or multipart request: the form values are bound onto what the parameters left, and that second bind
    meets the plain oracle** (`bind_meets_spec` for the form tag, on the container `formSrc` names). -/
theorem app_form_meets_spec (P : Params) (hP : FloatSane P) (fs : List Fld) (ivs rvs : List Val) (h : Http) (strict : Bool)
    (st : CtxState) (hp : bindMulti P Cfg.default fs (.struct ivs) h.params = .ok (.struct rvs)) (hw : wts fs rvs = true)
    (hg : Spec.inGrammarFs fs = true) (hs : Spec.srcOK (formSrc h) = true) (hb : h.bodyTags = true)
    (hct : classifyCT h.ctype = .form ∨ classifyCT h.ctype = .multipart) :
    (appBind P fs (.struct ivs) h strict st).last = ofOutcome (bind P Cfg.default .form (.struct fs) (.struct rvs) (formSrc h)) ∧
    Spec.specOK P Cfg.default .form fs (.struct rvs) (formSrc h)
      (toObs (bind P Cfg.default .form (.struct fs) (.struct rvs) (formSrc h))) = true := by
  refine ⟨?_, bind_meets_spec P hP Cfg.default .form fs rvs (formSrc h) hw hg hs⟩
  rcases hct with hct | hct <;> simp [appBind, hp, hb, hct]

/-! ### the collecting body model on value sources alone is `bindMultiAll` -/

def toObsAllB : OutAllB → Spec.ObsAllB
  | .done v es => .done v es
  | .panic => .panic

def ofOutAll : OutAll → OutAllB
  | .done v es => .done v (es.map .bind)
  | .panic => .panic

theorem ofOutAll_prepend (es : List Err) (o : OutAll) : ofOutAll (o.prepend es) = (ofOutAll o).prepend (es.map .bind) := by
  cases o <;> simp [ofOutAll, OutAll.prepend, OutAllB.prepend]

theorem runStepsAll_values (P : Params) (cfg : Cfg) (fs : List Fld) (vty : Ty) (init : Val) :
    ∀ (srcs : List Src) (cur : Val),
      runStepsAll P cfg fs vty init (srcs.map Step.src) cur = ofOutAll (bindPassAll P cfg fs (fun _ => vty) srcs cur)
  | [], cur => by simp [runStepsAll, bindPassAll, ofOutAll]
  | s :: rest, cur => by
    simp only [List.map, runStepsAll, bindPassAll]
    by_cases ht : hasTagFs s.kind fs = true
    · simp only [ht, if_true]
      cases bindAll P cfg s.kind vty cur s with
      | done v es => simp only; rw [runStepsAll_values P cfg fs vty init rest v, ofOutAll_prepend]
      | panic => rfl
    · simp only [ht, Bool.false_eq_true, if_false]
      exact runStepsAll_values P cfg fs vty init rest cur

theorem bindStepsAll_values_only (P : Params) (cfg : Cfg) (fs : List Fld) (init : Val) (srcs : List Src) :
    bindStepsAll P cfg fs init (srcs.map Step.src) = ofOutAll (bindMultiAll P cfg fs init srcs) := by
  unfold bindStepsAll bindMultiAll
  simp only [filterMap_src_map]
  cases srcs with
  | nil => simp [ofOutAll]
  | cons s rest =>
    cases rest with
    | nil =>
      simp only [List.map, List.isEmpty_cons, Bool.false_eq_true, if_false, List.length_singleton, Nat.le_refl, if_true,
        beq_self_eq_true]
      exact runStepsAll_values P cfg fs (.struct fs) init [s] init
    | cons s2 rest2 =>
      have hlen : ¬ ((s :: s2 :: rest2).length ≤ 1) := by simp
      have hne : ((s :: s2 :: rest2).length == 1) = false := by simp
      simp only [List.isEmpty_cons, Bool.false_eq_true, if_false, hlen, hne]
      have hmap : (s :: s2 :: rest2).map Step.src = Step.src s :: Step.src s2 :: rest2.map Step.src := rfl
      cases hb : bindPassAll P cfg fs (fun _ => Ty.struct fs) ((s :: s2 :: rest2).map fun s => { s with kvs := [] }) init with
      | done v es =>
        simp only []
        have := runStepsAll_values P cfg fs (.struct (stripFs fs)) init (s :: s2 :: rest2) v
        have hemp : ((s :: s2 :: rest2).map Step.src).isEmpty = false := by simp
        rw [this, ofOutAll_prepend, hemp]
        simp
      | panic => simp [ofOutAll]

/-- … and on value sources alone the collecting body model meets the collecting body oracle -/
theorem bindStepsAll_values_meets_spec (P : Params) (hP : FloatSane P) (cfg : Cfg) (fs : List Fld) (ivs : List Val)
    (srcs : List Src) (hw : wts fs ivs = true) (hg : Spec.inGrammarFs fs = true) (hs : ∀ s ∈ srcs, Spec.srcOK s = true) :
    Spec.specStepsAll P cfg fs (.struct ivs) (srcs.map Step.src)
      (toObsAllB (bindStepsAll P cfg fs (.struct ivs) (srcs.map Step.src))) = true := by
  rw [bindStepsAll_values_only]
  have h := bindMultiAll_meets_spec P hP cfg fs ivs srcs hw hg hs
  cases hb : bindMultiAll P cfg fs (.struct ivs) srcs with
  | panic => rw [hb] at h; simp [toObsAll, Spec.specMultiAll] at h
  | done v es =>
    rw [hb] at h
    cases es with
    | nil =>
      have h' := bindSteps_values_meets_spec P hP cfg fs ivs srcs hw hg hs
      rw [bindSteps_values_only] at h'
      have hag := bindMultiAll_agrees P cfg fs (.struct ivs) srcs
      rw [hb] at hag
      cases hm : bindMulti P cfg fs (.struct ivs) srcs with
      | ok w =>
        rw [hm] at hag h'
        have hq : OutAll.done v [] = OutAll.done w [] := hag
        cases hq
        simpa [ofOutAll, toObsAllB, Spec.specStepsAll, ofOutcome, toBObs] using h'
      | panic => rw [hm] at hag; cases (hag : OutAll.done v [] = OutAll.panic)
      | err e =>
        rw [hm] at hag
        have hq : OutAll.done v [] = OutAll.panic ∨ ∃ v' es', OutAll.done v [] = OutAll.done v' (e :: es') := hag
        rcases hq with hq | ⟨_, _, hq⟩ <;> cases hq
    | cons e0 es' =>
      simp only [toObsAll, Spec.specMultiAll, List.all_eq_true] at h
      simp only [ofOutAll, toObsAllB, List.map_cons, Spec.specStepsAll, bodiesOf_map_src, srcsOf_map_src, List.all_nil,
        Bool.and_true, List.all_eq_true, List.mem_cons, List.mem_map]
      rintro e (rfl | ⟨e', he', rfl⟩)
      · have := h e0 (by simp)
        simpa using this
      · have := h e' (by simp [he'])
        simpa using this

/-- a handler that binds once a type without body tags: `bindMulti` over path, query, header, cookie -/
theorem appRun_no_body_tags (P : Params) (fs : List Fld) (init : Val) (h : Http) (strict : Bool) (hb : h.bodyTags = false) :
    appRun P fs init h [.bind strict] = ofOutcome (bindMulti P Cfg.default fs init h.params) := by
  simp only [appRun, List.foldl, appStep, appBind]
  cases bindMulti P Cfg.default fs init h.params with
  | ok v => simp [hb, ofOutcome]
  | err e => rfl
  | panic => rfl

end Rivaas.C04

namespace Rivaas.C04
open Rivaas Rivaas.Bind

/-! ## the nested-struct JSON shortcut -/

/-- **Where no string decodes as a nested struct, `bindJ` is `bind`** … -/
theorem bindJ_eq_bind (P : Params) (cfg : Cfg) (tag : Tag) (ty : Ty) (init : Val) (src : Src)
    (h : ∀ s, (P s).nj = none) : bindJ P cfg tag ty init src = bind P cfg tag ty init src := by
  unfold bindJ Rivaas.Bind.bind
  cases ty with
  | struct fs => rw [lemma_bindAtJ_eq P cfg tag h]
  | _ => rfl

/-- … and the shortcut oracle is the plain oracle -/
theorem specOKJ_eq_specOK (P : Params) (cfg : Cfg) (tag : Tag) (fs : List Fld) (init : Val) (s : Src) (o : Spec.Obs)
    (h : ∀ x, (P x).nj = none) : Spec.specOKJ P cfg tag fs init s o = Spec.specOK P cfg tag fs init s o := by
  have hall : (Spec.shortcuts P tag fs s).all Option.isNone = true := by
    simp only [Spec.shortcuts, List.all_map, List.all_eq_true]
    intro f _
    simp only [Function.comp, Spec.shortcutAt, h]
    split
    · rfl
    · split
      · rfl
      · split
        · rfl
        · split <;> simp
  simp [Spec.specOKJ, hall]

/-- so `bind_meets_spec` carries over to every case without a shortcut -/
theorem bindJ_meets_spec_no_shortcut (P : Params) (hP : FloatSane P) (cfg : Cfg) (tag : Tag) (fs : List Fld) (ivs : List Val)
    (src : Src) (hw : wts fs ivs = true) (hg : Spec.inGrammarFs fs = true) (hs : Spec.srcOK src = true)
    (h : ∀ s, (P s).nj = none) :
    Spec.specOKJ P cfg tag fs (.struct ivs) src (toObs (bindJ P cfg tag (.struct fs) (.struct ivs) src)) = true := by
  rw [bindJ_eq_bind P cfg tag _ _ _ h, specOKJ_eq_specOK P cfg tag fs _ src _ h]
  exact bind_meets_spec P hP cfg tag fs ivs src hw hg hs

end Rivaas.C04
