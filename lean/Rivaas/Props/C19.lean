import Rivaas.Model.Accept
import Rivaas.Model.Render
import Rivaas.Model.Headers
import Rivaas.Spec.Accept
import Rivaas.Spec.Render
/-
C19 — Context helpers compute what they document, for every input and call history.
Property theorems (helper lemmas are named `lemma_*`). Models: Model/Accept, Model/Render,
Model/Headers (the code after the C19 `fix:` commits; `…AsIs` = as shipped, for the witnesses).
-/
namespace Rivaas.C19
open Rivaas

/-! ## 1. Negotiation is a pure function of (header, offers), over every call history -/

/-- the cache, when filled, holds the parse of the header it is keyed on -/
def CacheOK (pf : Accept.PF) (ctx : Accept.Ctx) : Prop :=
  ∀ specs, ctx.cachedSpecs = some specs → specs = Accept.parseAccept pf ctx.cachedHeader

theorem lemma_step_pure (pf : Accept.PF) (ctx : Accept.Ctx) (c : Accept.Call) (h : CacheOK pf ctx) :
    (Accept.step pf ctx c).2 = Accept.answer pf c ∧ CacheOK pf (Accept.step pf ctx c).1 := by
  unfold Accept.step Accept.answer
  cases hk : c.kind <;> simp only []
  · -- Accepts
    by_cases ho : c.offers.isEmpty = true
    · simp [ho, h]
    · by_cases hh : c.header.isEmpty = true
      · simp [ho, hh, h]
      · simp only [ho, hh, if_false, Bool.false_eq_true]
        by_cases heq : ctx.cachedHeader = c.header
        · simp only [heq, beq_self_eq_true, if_true]
          cases hs : ctx.cachedSpecs with
          | none =>
            refine ⟨by first | rfl | trivial, ?_⟩
            intro specs hsp
            simp at hsp
            exact hsp.symm
          | some specs =>
            have := h specs hs
            simp only []
            refine ⟨?_, h⟩
            rw [this, heq]
        · have hne : (ctx.cachedHeader == c.header) = false := by simpa using heq
          simp only [hne, Bool.false_eq_true, if_false]
          refine ⟨by first | rfl | trivial, ?_⟩
          intro specs hsp
          simp at hsp
          exact hsp.symm
  all_goals
    by_cases hh : c.header.isEmpty = true
    · simp [hh, h]
    · simp only [hh, if_false, Bool.false_eq_true]
      refine ⟨by first | rfl | trivial, ?_⟩
      intro specs hsp
      exact h specs hsp

/-- **negotiation_pure.** Whatever calls were made before on the same context — any mix of the four
    helpers, any header values, any arena contents — every answer is `answer (header, offers)`. -/
theorem negotiation_pure (pf : Accept.PF) (ctx : Accept.Ctx) (h : CacheOK pf ctx) (calls : List Accept.Call) :
    Accept.run pf ctx calls = calls.map (Accept.answer pf) := by
  induction calls generalizing ctx with
  | nil => rfl
  | cons c cs ih =>
    have hs := lemma_step_pure pf ctx c h
    simp only [Accept.run, List.map_cons]
    rw [hs.1, ih _ hs.2]

/-- a fresh request context satisfies the cache invariant, whatever the pooled arena holds -/
theorem fresh_cacheOK (pf : Accept.PF) (arena : List Accept.ASpec) :
    CacheOK pf { cachedHeader := [], cachedSpecs := none, arena := arena } := by
  intro specs h; simp at h

/-- repeated or interleaved calls give the same answers: a call's answer does not depend on where in
    the history it stands -/
theorem negotiation_history_independent (pf : Accept.PF) (arena : List Accept.ASpec)
    (before : List Accept.Call) (c : Accept.Call) (after : List Accept.Call) :
    (Accept.run pf { cachedHeader := [], cachedSpecs := none, arena := arena } (before ++ c :: after))[before.length]? =
      some (Accept.answer pf c) := by
  rw [negotiation_pure pf _ (fresh_cacheOK pf arena)]
  simp

-- non-vacuity: the invariant holds on a context whose cache is filled, and the history matters as shipped
example : CacheOK (fun _ => none) (Accept.step (fun _ => none) Accept.Ctx.fresh
    { kind := .accept, header := Accept.bs "text/html", offers := [Accept.bs "html"] }).1 :=
  (lemma_step_pure _ _ _ (fresh_cacheOK _ _)).2

def k19aCalls : List Accept.Call :=
  [ { kind := .accept, header := Accept.bs "text/html, application/json;q=0.9", offers := [Accept.bs "html"] },
    { kind := .encoding, header := Accept.bs "gzip", offers := [Accept.bs "gzip"] },
    { kind := .accept, header := Accept.bs "text/html, application/json;q=0.9", offers := [Accept.bs "html"] } ]

/-- K19a as shipped: Accepts ; AcceptsEncodings ; Accepts answers "html" then "" -/
theorem negotiation_asis_witness :
    Accept.runAsIs (fun _ => none) Accept.CtxAsIs.fresh k19aCalls = [Accept.bs "html", Accept.bs "gzip", []] ∧
    Accept.run (fun _ => none) Accept.Ctx.fresh k19aCalls = [Accept.bs "html", Accept.bs "gzip", Accept.bs "html"] := by
  decide

end Rivaas.C19
