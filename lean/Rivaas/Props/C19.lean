/- C19 — property theorems (stub: not built yet) -/
