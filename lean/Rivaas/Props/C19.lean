import Rivaas.Lemmas.C19Accept
import Rivaas.Lemmas.C19Render
import Rivaas.Model.Headers
/-
C19 — Context helpers compute what they document, for every input and call history.

Property theorems only; the helper lemmas are in Lemmas/C19Accept.lean and Lemmas/C19Render.lean
(header-setter lemmas, being short, sit next to their theorem). Models: Model/Accept, Model/Render,
Model/Headers — the code after the eight C19 `fix:` commits; `…AsIs` definitions are the code as shipped
and carry the `decide` witnesses. Oracles: Spec/Accept (RFC 9110 token-level grammar, quality = q of the
most specific matching range, a relation), Spec/Render (fmt fragment, JSON lexing to UTF-16 units).
-/
set_option linter.unusedSimpArgs false
namespace Rivaas.C19
open Rivaas

/-! ## 1. Negotiation is a pure function of (header, offers), over every call history -/

/-- the cache, when filled, holds the parse of the header it is keyed on -/
def CacheOK (pf : Accept.PF) (ctx : Accept.Ctx) : Prop :=
  ∀ specs, ctx.cachedSpecs = some specs → specs = Accept.parseAccept pf ctx.cachedHeader

theorem lemma_step_pure (pf : Accept.PF) (ctx : Accept.Ctx) (c : Accept.Call) (h : CacheOK pf ctx) :
    (Accept.step pf ctx c).2 = Accept.answer pf c ∧ CacheOK pf (Accept.step pf ctx c).1 := by
  unfold Accept.step Accept.answer
  cases hk : c.kind <;> simp only []
  · -- Accepts
    by_cases ho : c.offers.isEmpty = true
    · simp [ho, h]
    · by_cases hh : c.header.isEmpty = true
      · simp [ho, hh, h]
      · simp only [ho, hh, if_false, Bool.false_eq_true]
        by_cases heq : ctx.cachedHeader = c.header
        · simp only [heq, beq_self_eq_true, if_true]
          cases hs : ctx.cachedSpecs with
          | none =>
            refine ⟨by first | rfl | trivial, ?_⟩
            intro specs hsp
            simp at hsp
            exact hsp.symm
          | some specs =>
            have := h specs hs
            simp only []
            refine ⟨?_, h⟩
            rw [this, heq]
        · have hne : (ctx.cachedHeader == c.header) = false := by simpa using heq
          simp only [hne, Bool.false_eq_true, if_false]
          refine ⟨by first | rfl | trivial, ?_⟩
          intro specs hsp
          simp at hsp
          exact hsp.symm
  all_goals
    by_cases hh : c.header.isEmpty = true
    · simp [hh, h]
    · simp only [hh, if_false, Bool.false_eq_true]
      refine ⟨by first | rfl | trivial, ?_⟩
      intro specs hsp
      exact h specs hsp

/-- **negotiation_pure.** Whatever calls were made before on the same context — any mix of the four
    helpers, any header values, any arena contents — every answer is `answer (header, offers)`. -/
theorem negotiation_pure (pf : Accept.PF) (ctx : Accept.Ctx) (h : CacheOK pf ctx) (calls : List Accept.Call) :
    Accept.run pf ctx calls = calls.map (Accept.answer pf) := by
  induction calls generalizing ctx with
  | nil => rfl
  | cons c cs ih =>
    have hs := lemma_step_pure pf ctx c h
    simp only [Accept.run, List.map_cons]
    rw [hs.1, ih _ hs.2]

/-- a fresh request context satisfies the cache invariant, whatever the pooled arena holds -/
theorem fresh_cacheOK (pf : Accept.PF) (arena : List Accept.ASpec) :
    CacheOK pf { cachedHeader := [], cachedSpecs := none, arena := arena } := by
  intro specs h; simp at h

/-- repeated or interleaved calls give the same answers: a call's answer does not depend on where in
    the history it stands -/
theorem negotiation_history_independent (pf : Accept.PF) (arena : List Accept.ASpec)
    (before : List Accept.Call) (c : Accept.Call) (after : List Accept.Call) :
    (Accept.run pf { cachedHeader := [], cachedSpecs := none, arena := arena } (before ++ c :: after))[before.length]? =
      some (Accept.answer pf c) := by
  rw [negotiation_pure pf _ (fresh_cacheOK pf arena)]
  simp

-- non-vacuity: the invariant holds on a context whose cache is filled, and the history matters as shipped
example : CacheOK (fun _ => none) (Accept.step (fun _ => none) Accept.Ctx.fresh
    { kind := .accept, header := Accept.bs "text/html", offers := [Accept.bs "html"] }).1 :=
  (lemma_step_pure _ _ _ (fresh_cacheOK _ _)).2

def k19aCalls : List Accept.Call :=
  [ { kind := .accept, header := Accept.bs "text/html, application/json;q=0.9", offers := [Accept.bs "html"] },
    { kind := .encoding, header := Accept.bs "gzip", offers := [Accept.bs "gzip"] },
    { kind := .accept, header := Accept.bs "text/html, application/json;q=0.9", offers := [Accept.bs "html"] } ]

/-- K19a as shipped: Accepts ; AcceptsEncodings ; Accepts answers "html" then "" -/
theorem negotiation_asis_witness :
    Accept.runAsIs (fun _ => none) Accept.CtxAsIs.fresh k19aCalls = [Accept.bs "html", Accept.bs "gzip", []] ∧
    Accept.run (fun _ => none) Accept.Ctx.fresh k19aCalls = [Accept.bs "html", Accept.bs "gzip", Accept.bs "html"] := by
  decide



/-! ## 2. Negotiation: never a q=0 offer, an acceptable offer of highest quality -/

section Negotiation
open Rivaas.Accept

/-- **parseQuality_correct.** The integer q-value parser agrees with the RFC 9110 `qvalue` grammar on
    every string, except that it rejects the two forms with a bare trailing point (`0.`, `1.`), which
    the grammar admits and the code hands to the `ParseFloat` fallback (`PFContract`). Proved by case
    analysis on the at most five cells with the characters symbolic. -/
theorem parseQuality_correct (s : Bytes) :
    Accept.parseQuality s = (if s = ['0', '.'] ∨ s = ['1', '.'] then none else AcceptSpec.qvalue s) :=
  lemma_parseQuality s

example : Accept.parseQuality (bs "0.85") = some 850 ∧ AcceptSpec.qvalue (bs "0.85") = some 850 := by decide

/-- **parseAccept_correct.** On every header inside the RFC 9110 grammar the character-level parser
    (index loops, manual trimming, first-`;`/first-`=` scans, integer q parser with float fallback)
    yields exactly the oracle's ranges, in order, with the same weights. -/
theorem parseAccept_correct (pf : PF) (hpf : PFContract pf) (media : Bool) (header : Bytes) (rs : List AcceptSpec.Range)
    (h : AcceptSpec.ranges media header = some rs) : parseAccept pf header = rs.map toA :=
  lemma_parseAccept pf hpf media header rs h

/-- **answer_wellFormed.** Every answer is one of the offers or empty — for every header string. -/
theorem answer_wellFormed (pf : PF) (c : Call) : AcceptSpec.wellFormedAnswer c.offers (answer pf c) = true :=
  lemma_answer_wf pf c

/-- **negotiation_meets_spec.** For every header string, offer list and kind of call, the answer satisfies
    the oracle the driver evaluates on the real code: it is an offer or empty; and when the header is
    inside the RFC 9110 grammar and the offers are well formed, it is an offer of maximal strictly
    positive quality — quality of an offer = q of the most specific matching range — or empty when no
    offer has positive quality. -/
theorem negotiation_meets_spec (pf : PF) (hpf : PFContract pf) (c : Call) :
    AcceptSpec.negotiationOK (c.kind == Kind.accept) c.header c.offers (answer pf c) = true :=
  lemma_negotiation_meets_spec pf hpf c

/-- the same for every call of every history on one context (purity + oracle) -/
theorem history_meets_spec (pf : PF) (hpf : PFContract pf) (arena : List ASpec) (calls : List Call) :
    run pf { cachedHeader := [], cachedSpecs := none, arena := arena } calls = calls.map (answer pf) ∧
    ∀ c ∈ calls, AcceptSpec.negotiationOK (c.kind == Kind.accept) c.header c.offers (answer pf c) = true :=
  ⟨negotiation_pure pf _ (fresh_cacheOK pf arena) calls, fun c _ => negotiation_meets_spec pf hpf c⟩

/-- **never_q0.** On a grammatical header, an offer all of whose most specific matching ranges carry q=0
    (the client excluded it) — or that no range matches — is never the answer: the answer's best
    reading has strictly positive quality. -/
theorem never_q0 (pf : PF) (hpf : PFContract pf) (c : Call) (rs : List AcceptSpec.Range)
    (hr : AcceptSpec.ranges (c.kind == Kind.accept) c.header = some rs) (hrs : rs ≠ [])
    (hoff : ∀ o ∈ c.offers, offerOK (c.kind == Kind.accept) o = true) (hans : answer pf c ≠ []) :
    AcceptSpec.qmax (spOf (c.kind == Kind.accept) (answer pf c)) rs > 0 := by
  have hne : c.offers ≠ [] := by
    intro e
    have := answer_wellFormed pf c
    simp [AcceptSpec.wellFormedAnswer, e] at this
    exact hans this
  rcases lemma_rel pf hpf c rs hr hrs hne hoff with ⟨h, _⟩ | ⟨_, _, h, _⟩
  · exact absurd h hans
  · exact h

/-- **returns_max_quality.** On a grammatical header the answer is an offer at least as good as every
    other offer (any tie-break; on an ambiguous header, under some reading), and it is empty only when
    no offer has positive quality. -/
theorem returns_max_quality (pf : PF) (hpf : PFContract pf) (c : Call) (rs : List AcceptSpec.Range)
    (hr : AcceptSpec.ranges (c.kind == Kind.accept) c.header = some rs) (hrs : rs ≠ []) (hne : c.offers ≠ [])
    (hoff : ∀ o ∈ c.offers, offerOK (c.kind == Kind.accept) o = true) :
    (answer pf c = [] → ∀ o ∈ c.offers, AcceptSpec.qmin (spOf (c.kind == Kind.accept) o) rs = 0) ∧
    (answer pf c ≠ [] → answer pf c ∈ c.offers ∧
      ∀ o ∈ c.offers, AcceptSpec.qmin (spOf (c.kind == Kind.accept) o) rs ≤
        AcceptSpec.qmax (spOf (c.kind == Kind.accept) (answer pf c)) rs) := by
  rcases lemma_rel pf hpf c rs hr hrs hne hoff with ⟨h, h0⟩ | ⟨h, hm, _, hall⟩
  · exact ⟨fun _ => h0, fun hn => absurd h hn⟩
  · exact ⟨fun he => absurd he h, fun _ => ⟨hm, hall⟩⟩

-- non-vacuity: a grammatical header with an exclusion, well-formed offers, and the answer
def exPF : PF := fun raw => if raw = ['0', '.'] then some 0 else if raw = ['1', '.'] then some 1000000 else none
example : PFContract exPF := ⟨by decide, by decide⟩
example : AcceptSpec.ranges true (bs "text/html;q=0, */*;q=0.5") =
    some [{ value := bs "text/html", q := 0 }, { value := bs "*/*", q := 500 }] := by decide
example : offerOK true (bs "html") = true ∧ offerOK true (bs "json") = true := by decide
example : answer exPF ⟨.accept, bs "text/html;q=0, */*;q=0.5", [bs "html", bs "json"]⟩ = bs "json" := by decide
example : AcceptSpec.qmax (spOf true (bs "html")) [{ value := bs "text/html", q := 0 }, { value := bs "*/*", q := 500 }] = 0 := by decide
example : AcceptSpec.ranges false (bs "gzip ;Q=0 , *;q=0.") = some [{ value := bs "gzip", q := 0 }, { value := bs "*", q := 0 }] := by decide

/-- K19b, K19e, K19f, K19g as shipped (`decide` on the as-is model; each is replayed on the real code by
    corpus/C19): q=0 not excluded, the most specific range not deciding, a lone quote panicking, upper-case
    Q ignored, the blank before `;` kept in the value -/
theorem never_q0_asis_witness :
    acceptHeaderMatchAsIs (parseAccept exPF (bs "gzip;q=0")) [bs "gzip"] = bs "gzip" ∧
    acceptsWithAsIs (parseAccept exPF (bs "text/html;q=0, */*")) [bs "html", bs "json"] = bs "html" ∧
    acceptHeaderMatchAsIs (parseAccept exPF (bs "*;q=0.1, gzip")) [bs "br", bs "gzip"] = bs "br" ∧
    parseAcceptAsIs exPF (bs "gzip;q=\"") = none ∧
    (parseAcceptAsIs exPF (bs "gzip;Q=0")).map (acceptHeaderMatchAsIs · [bs "gzip"]) = some (bs "gzip") ∧
    (parseAcceptAsIs exPF (bs "gzip ;q=0, *")).map (acceptHeaderMatchAsIs · [bs "gzip"]) = some (bs "gzip") ∧
    AcceptSpec.negotiationOK false (bs "gzip;q=0") [bs "gzip"] (bs "gzip") = false ∧
    AcceptSpec.negotiationOK true (bs "text/html;q=0, */*") [bs "html", bs "json"] (bs "html") = false ∧
    answer exPF ⟨.encoding, bs "gzip;q=0", [bs "gzip"]⟩ = [] ∧
    answer exPF ⟨.accept, bs "text/html;q=0, */*", [bs "html", bs "json"]⟩ = bs "json" ∧
    answer exPF ⟨.encoding, bs "gzip ;q=0, *", [bs "gzip"]⟩ = [] := by decide


end Negotiation

/-! ## 3. Stringf = fmt.Sprintf -/

section Stringf

/-- **fast_path_sound.** The fast path is taken only for one string operand and a format that is
    `pre ++ "%s" ++ post` with no other `%` anywhere; the body it writes is `pre ++ v ++ post`. -/
theorem fast_path_sound (format : Bytes) (args : List Render.Arg) (body : Bytes)
    (h : Render.fastPath format args = some body) :
    ∃ pre post v, format = pre ++ '%' :: 's' :: post ∧ '%' ∉ pre ∧ '%' ∉ post ∧
      args = [.str v] ∧ body = pre ++ v ++ post :=
  lemma_fast_path_sound format args body h

/-- **stringf_eq_sprintf.** Whenever the fast path writes the body itself, the body is what fmt.Sprintf
    (reference semantics of the `%s`/`%%` fragment) produces; otherwise Stringf hands the arguments to
    fmt.Fprintf. Hence the body equals fmt.Sprintf for every format and argument list. -/
theorem stringf_eq_sprintf (format : Bytes) (args : List Render.Arg) (sprintf : Bytes)
    (hfmt : ∀ x, RenderSpec.sprintfRef format (args.map toSpecArg) = some x → sprintf = x) :
    (∀ body, Render.fastPath format args = some body → RenderSpec.sprintfRef format (args.map toSpecArg) = some body) ∧
    Render.stringfBody format args sprintf = sprintf := by
  have key : ∀ body, Render.fastPath format args = some body →
      RenderSpec.sprintfRef format (args.map toSpecArg) = some body := by
    intro body hb
    obtain ⟨pre, post, v, hf, hpre, hpost, ha, hbody⟩ := lemma_fast_path_sound format args body hb
    subst ha hf hbody
    simp only [List.map_cons, List.map_nil, toSpecArg]
    rw [lemma_sprintfRef_lit pre _ _ hpre]
    rw [lemma_sprintfRef_pcts, lemma_sprintfRef_nopct post hpost]
    simp
  refine ⟨key, ?_⟩
  unfold Render.stringfBody
  cases hb : Render.fastPath format args with
  | none => rfl
  | some body => exact (hfmt body (key body hb)).symm

-- non-vacuity
example : Render.fastPath "User: %s!".toList [.str "bob".toList] = some "User: bob!".toList := by decide
example : RenderSpec.sprintfRef "User: %s!".toList [.str "bob".toList] = some "User: bob!".toList := by decide

/-- K19c as shipped: `Stringf("%s %%", "x")` wrote `x %%` where fmt.Sprintf gives `x %`; `"100%%s"`
    took the fast path although its `%s` is the tail of `%%` followed by `s` -/
theorem fast_path_asis_witness :
    Render.fastPathAsIs "%s %%".toList [.str "x".toList] = some "x %%".toList ∧
    RenderSpec.sprintfRef "%s %%".toList [.str "x".toList] = some "x %".toList ∧
    Render.fastPath "%s %%".toList [.str "x".toList] = none ∧
    Render.fastPathAsIs "100%%s".toList [.str "x".toList] = some "100%x".toList ∧
    Render.fastPath "100%%s".toList [.str "x".toList] = none := by decide


/-- the Write calls of Stringf, concatenated, are its body -/
theorem stringf_writes_concat (format : Bytes) (args : List Render.Arg) (sprintf : Bytes) :
    (Render.stringfWrites format args sprintf).flatten = Render.stringfBody format args sprintf := by
  unfold Render.stringfWrites Render.stringfBody Render.fastPath
  match args with
  | [] => simp
  | [.other] => simp
  | [.str v] =>
    simp only []
    cases Render.cutPctS format with
    | none => simp
    | some pp =>
      obtain ⟨pre, post⟩ := pp
      simp only []
      split
      · simp
      · cases pre <;> cases v <;> cases post <;> simp [List.filter_cons]
  | _ :: _ :: _ => simp

/-- **stringf_success_exact.** On a response writer that fails at any Write (or never), whenever Stringf
    reports success the bytes delivered are exactly its documented body — nothing of a failed attempt,
    nothing twice. -/
theorem stringf_success_exact (k : Nat) (format : Bytes) (args : List Render.Arg) (sprintf : Bytes)
    (h : (Render.stringfOnFlaky k format args sprintf).1 = true) :
    (Render.stringfOnFlaky k format args sprintf).2 = Render.stringfBody format args sprintf := by
  unfold Render.stringfOnFlaky at h ⊢
  simp only [] at h ⊢
  split at h
  · simp at h
  · rename_i hc
    simp only [hc, if_false, Bool.false_eq_true]
    exact stringf_writes_concat format args sprintf

example : Render.stringfOnFlaky 0 "a%sb".toList [.str "x".toList] "axb".toList = (true, "axb".toList) := by decide
example : Render.stringfOnFlaky 2 "a%sb".toList [.str "x".toList] "axb".toList = (false, "a".toList) := by decide

/-- K19i as shipped: the second of the three fast-path writes fails once; Stringf reports success and
    the client has `a` followed by the whole response -/
theorem stringf_flaky_asis_witness :
    Render.stringfOnFlakyAsIs 2 "a%sb".toList [.str "x".toList] "axb".toList = (true, "aaxb".toList) ∧
    Render.stringfBody "a%sb".toList [.str "x".toList] "axb".toList = "axb".toList := by decide

end Stringf

/-! ## 4. ASCIIJSON: pure ASCII, decodes to the same value -/

section Escaper
open Rivaas.Render Rivaas.RenderSpec

/-- **ascii_pure.** Whatever bytes encoding/json produced, every byte ASCIIJSON writes is below 128. -/
theorem ascii_pure (l : List Nat) : ∀ b ∈ escape l, b < 128 := lemma_escapeF_ascii _ l

theorem ascii_pure_spec (l : List Nat) : isASCII (escape l) = true := by
  simp only [isASCII, List.all_eq_true, decide_eq_true_eq]
  exact ascii_pure l

/-- **surrogate_roundtrip.** For every astral code point the pair written by ASCIIJSON is a high and a
    low surrogate, is the UTF-16 encoding of the code point, and a decoder's `combine` gives it back. -/
theorem surrogate_roundtrip (r : Nat) (h1 : 0x10000 ≤ r) (h2 : r ≤ 0x10FFFF) :
    combine (hiSur r) (loSur r) = r ∧ 0xD800 ≤ hiSur r ∧ hiSur r ≤ 0xDBFF ∧ 0xDC00 ≤ loSur r ∧ loSur r ≤ 0xDFFF ∧
      utf16 r = [hiSur r, loSur r] := lemma_surrogate r h1 h2

example : hiSur 0x1F600 = 0xD83D ∧ loSur 0x1F600 = 0xDE00 := by decide

/-- **escape_decodes_same.** If a JSON text lexes (escapes well formed, every non-ASCII byte part of
    well-formed UTF-8 — what encoding/json emits), the ASCIIJSON text lexes to the same sequence of
    UTF-16 code units: a decoder sees the same strings, keys and tokens. -/
theorem escape_decodes_same (l : List Nat) (us : List Nat) (h : units l = some us) : units (escape l) = some us :=
  lemma_escape_decodes_same l us h

/-- on well-formed UTF-8 the hand-written `decodeRuneInJSON` is the RFC 3629 decoder -/
theorem decodeRune_valid (b : Nat) (rest : List Nat) (r n : Nat) (h : utf8Head (b :: rest) = some (r, n)) :
    decodeRune (b :: rest) = (r, n) :=
  (lemma_decode_valid b rest r n h).1

/-- every variant other than ASCIIJSON writes exactly the documented bytes around what encoding/json
    returned (prefix + JSON for SecureJSON, callback(JSON) for JSONP), and ASCIIJSON's body is ASCII -/
theorem json_variants_exact (variant : Nat) (extra : Option Bytes) (enc : Bytes) :
    (variant ≠ 4 → jsonBody variant extra enc = exactBody variant extra enc) ∧
    (jsonCType variant = contentTypeOf variant) ∧
    (variant = 4 → isASCII ((jsonBody variant extra enc).map (·.toNat)) = true) := by
  refine ⟨?_, ?_, ?_⟩
  · intro hv
    match variant, hv with
    | 0, _ => rfl
    | 1, _ => rfl
    | 2, _ => rfl
    | 3, _ =>
      cases extra with
      | none => rfl
      | some x => cases x <;> rfl
    | 5, _ =>
      cases extra with
      | none => rfl
      | some x => cases x <;> rfl
    | n + 6, _ => rfl
  · unfold jsonCType contentTypeOf; rfl
  · intro hv
    subst hv
    have hb : jsonBody 4 extra enc = ofNats (escape (toNats enc)) := rfl
    rw [hb]
    have hchar : ∀ n, n < 128 → (Char.ofNat n).toNat = n := by decide
    unfold isASCII ofNats
    rw [List.all_eq_true]
    intro x hx
    simp only [List.mem_map] at hx
    obtain ⟨c, ⟨b, hb', rfl⟩, rfl⟩ := hx
    have hlt := ascii_pure _ b hb'
    rw [hchar b hlt]
    simpa using hlt

-- non-vacuity: a JSON text with a BMP and an astral character lexes, and so does its escaped form
example : units [34, 0xC3, 0xA9, 0xF0, 0x9F, 0x98, 0x80, 92, 110, 34] = some [34, 0xE9, 0xD83D, 0xDE00, 10, 34] := by decide
example : escape [0xC3, 0xA9, 0xF0, 0x9F, 0x98, 0x80] = toNats "\\u00e9\\ud83d\\ude00".toList := by decide
example : units (escape [34, 0xC3, 0xA9, 0xF0, 0x9F, 0x98, 0x80, 92, 110, 34]) = some [34, 0xE9, 0xD83D, 0xDE00, 10, 34] := by decide


end Escaper

/-! ## 4b. Format: the negotiated representation, rendered as documented -/

section Format
open Rivaas.Render Rivaas.RenderSpec

theorem lemma_formatShape (f : String) (ans : Bytes) (code : Nat) (vtext : Bytes) (encOK : Bool) (enc : Bytes)
    (hf : (f = "json" ∧ ans = bstr "json") ∨ (f = "html" ∧ ans = bstr "html") ∨ (f = "xml" ∧ ans = bstr "xml") ∨
          (f = "txt" ∧ (ans = bstr "txt" ∨ ans = [])) ) :
    formatShape f code vtext encOK enc
      ((formatResponse ans code vtext encOK enc).map fun r => (r.1, r.2.1, r.2.2, true)) = true := by
  rcases hf with ⟨rfl, rfl⟩ | ⟨rfl, rfl⟩ | ⟨rfl, rfl⟩ | ⟨rfl, h⟩
  · cases encOK <;> simp [formatShape, formatResponse, bstr, jsonCType] <;> decide
  · simp [formatShape, formatResponse, bstr]
  · simp [formatShape, formatResponse, bstr]
  · rcases h with rfl | rfl <;> simp [formatShape, formatResponse, bstr] <;> decide

/-- **format_meets_spec.** For every Accept header string, value and status, `Format` answers with the
    documented rendering (JSON / `<p>…</p>` / the XML document / plain text) of a representation that the
    negotiation oracle admits for that header over json, html, xml, txt — never one the client excluded
    with q=0, one of highest quality; plain text when nothing is acceptable. -/
theorem format_meets_spec (pf : Accept.PF) (hpf : PFContract pf) (header : Bytes) (code : Nat) (vtext : Bytes)
    (encOK : Bool) (enc : Bytes) :
    formatOK (AcceptSpec.negotiationOK true header formatOffers) code vtext encOK enc
      ((formatResponse (Accept.answer pf ⟨.accept, header, formatOffers⟩) code vtext encOK enc).map
        fun r => (r.1, r.2.1, r.2.2, true)) = true := by
  have hspec := negotiation_meets_spec pf hpf ⟨.accept, header, formatOffers⟩
  have hwf := answer_wellFormed pf ⟨.accept, header, formatOffers⟩
  simp only [beq_self_eq_true] at hspec
  generalize Accept.answer pf ⟨.accept, header, formatOffers⟩ = ans at hspec hwf
  have hcases : ans = [] ∨ ans = bstr "json" ∨ ans = bstr "html" ∨ ans = bstr "xml" ∨ ans = bstr "txt" := by
    simp only [AcceptSpec.wellFormedAnswer, Bool.or_eq_true, List.isEmpty_iff, formatOffers, List.contains_eq_mem,
      List.mem_cons, List.not_mem_nil, or_false, decide_eq_true_eq] at hwf
    rcases hwf with h | h | h | h | h
    · exact Or.inl h
    · exact Or.inr (Or.inl h)
    · exact Or.inr (Or.inr (Or.inl h))
    · exact Or.inr (Or.inr (Or.inr (Or.inl h)))
    · exact Or.inr (Or.inr (Or.inr (Or.inr h)))
  unfold formatOK
  rw [List.any_eq_true]
  rcases hcases with rfl | rfl | rfl | rfl | rfl
  · exact ⟨"", by simp, by rw [Bool.and_eq_true]; exact ⟨hspec, lemma_formatShape "txt" _ _ _ _ _ (by simp)⟩⟩
  · exact ⟨"json", by simp, by rw [Bool.and_eq_true]; exact ⟨hspec, lemma_formatShape "json" _ _ _ _ _ (by simp)⟩⟩
  · exact ⟨"html", by simp, by rw [Bool.and_eq_true]; exact ⟨hspec, lemma_formatShape "html" _ _ _ _ _ (by simp)⟩⟩
  · exact ⟨"xml", by simp, by rw [Bool.and_eq_true]; exact ⟨hspec, lemma_formatShape "xml" _ _ _ _ _ (by simp)⟩⟩
  · exact ⟨"txt", by simp, by rw [Bool.and_eq_true]; exact ⟨hspec, lemma_formatShape "txt" _ _ _ _ _ (by simp)⟩⟩

-- non-vacuity: html is excluded, xml is the best remaining representation
example : formatResponse (Accept.answer exPF ⟨.accept, Accept.bs "text/html;q=0, application/xml;q=0.3", formatOffers⟩)
    201 "u".toList true "\"u\"\n".toList =
    some (201, "application/xml".toList, "<?xml version=\"1.0\"?>\n<response>u</response>".toList) := by decide

end Format

/-! ## 5. Header setters never emit CR or LF -/

section HeaderSetters
open Rivaas.Headers

/-- a header value without CR and LF (the model's predicate and the oracle's agree) -/
def VClean (v : Bytes) : Prop := ∀ c ∈ v, isCRLF c = false
def Clean (m : HMap) : Prop := ∀ p ∈ m, ∀ v ∈ p.2, VClean v

theorem lemma_vclean_spec (v : Bytes) : VClean v ↔ RenderSpec.noCRLF v = true := by
  unfold VClean RenderSpec.noCRLF isCRLF
  simp only [List.all_eq_true]
  constructor
  · intro h c hc; have := h c hc; simp_all
  · intro h c hc; have := h c hc; simp_all

theorem lemma_sanitize (v : Bytes) : VClean (sanitize v) := by
  intro c hc
  simp [sanitize, List.mem_filter] at hc
  simp [hc.2]

theorem lemma_hset (m : HMap) (k v : Bytes) (hm : Clean m) (hv : VClean v) : Clean (hset m k v) := by
  intro p hp w hw
  simp only [hset, List.mem_cons, List.mem_filter] at hp
  rcases hp with rfl | hp
  · simp at hw; subst hw; exact hv
  · exact hm p hp.1 w hw

theorem lemma_lookup_mem (m : HMap) (k : Bytes) (vs : List Bytes) (h : m.lookup k = some vs) : (k, vs) ∈ m := by
  induction m with
  | nil => simp [List.lookup] at h
  | cons p r ih =>
    obtain ⟨a, b⟩ := p
    simp only [List.lookup] at h
    split at h
    · rename_i heq
      simp at heq h
      subst h; subst heq; simp
    · exact List.mem_cons_of_mem _ (ih h)

theorem lemma_hvals (m : HMap) (k : Bytes) (hm : Clean m) : ∀ v ∈ hvals m k, VClean v := by
  intro v hv
  unfold hvals at hv
  cases h : m.lookup k with
  | none => simp [h] at hv
  | some vs =>
    simp [h] at hv
    exact hm _ (lemma_lookup_mem m k vs h) v hv

theorem lemma_hadd (m : HMap) (k v : Bytes) (hm : Clean m) (hv : VClean v) : Clean (hadd m k v) := by
  intro p hp w hw
  simp only [hadd, List.mem_cons, List.mem_filter] at hp
  rcases hp with rfl | hp
  · simp only [List.mem_append, List.mem_singleton] at hw
    rcases hw with hw | rfl
    · exact lemma_hvals m k hm w hw
    · exact hv
  · exact hm p hp.1 w hw

theorem lemma_header (m : HMap) (k v : Bytes) (hm : Clean m) : Clean (header m k v) :=
  lemma_hset m k _ hm (lemma_sanitize v)

theorem lemma_fold_header (m : HMap) (k : Bytes) (vs : List Bytes) (hm : Clean m) :
    Clean (vs.foldl (fun m v => header m k v) m) := by
  induction vs generalizing m with
  | nil => exact hm
  | cons v rest ih => exact ih _ (lemma_header m k v hm)

/-- what the external parameters must satisfy: `http.SetCookie` writes a sanitised cookie line -/
def OpOK : Op → Prop
  | .setCookie s => VClean s
  | _ => True

theorem lemma_apply (m : HMap) (op : Op) (hm : Clean m) (hop : OpOK op) : Clean (apply m op) := by
  cases op <;> simp only [apply]
  · exact lemma_header _ _ _ hm
  · unfold appendHeader; simp only []; split <;> exact lemma_header _ _ _ hm
  · exact lemma_header _ _ _ hm
  · unfold link appendHeader; simp only []; split <;> exact lemma_header _ _ _ hm
  · exact lemma_header _ _ _ hm
  · unfold contentType; split <;> exact lemma_header _ _ _ hm
  · exact lemma_header _ _ _ hm
  · exact lemma_header _ _ _ (lemma_header _ _ _ hm)
  · unfold setCookie; split
    · exact hm
    · exact lemma_hadd _ _ _ hm hop
  · exact lemma_header _ _ _ hm
  · unfold reader; simp only []; split <;> first | exact lemma_header _ _ _ hm | exact lemma_header _ _ _ (lemma_header _ _ _ hm)
  · unfold failHeaders
    exact lemma_header _ _ _ (lemma_fold_header _ _ _ hm)

/-- **no_crlf.** After any script of setter calls (Header, AppendHeader, Vary, Link, Redirect/Location,
    ContentType, Download, MethodNotAllowed, SetCookie, Data, DataFromReader) on a response whose
    headers were clean, no header value contains CR or LF — whatever bytes the arguments contain. -/
theorem no_crlf (m : HMap) (ops : List Op) (hm : Clean m) (hops : ∀ op ∈ ops, OpOK op) :
    ∀ k, ∀ v ∈ hvals (run m ops) k, RenderSpec.noCRLF v = true := by
  have h : Clean (run m ops) := by
    induction ops generalizing m with
    | nil => exact hm
    | cons op rest ih =>
      simp only [run, List.foldl_cons]
      exact ih _ (lemma_apply m op hm (hops op (by simp))) (fun o ho => hops o (by simp [ho]))
  intro k v hv
  exact (lemma_vclean_spec v).1 (lemma_hvals _ k h v hv)

/-- the same after every prefix of the script: nothing unclean is ever visible in between -/
theorem no_crlf_every_prefix (ops : List Op) (n : Nat) (hops : ∀ op ∈ ops, OpOK op) :
    ∀ k, ∀ v ∈ hvals (run [] (ops.take n)) k, RenderSpec.noCRLF v = true :=
  no_crlf [] (ops.take n) (by intro p hp; simp at hp) (fun o ho => hops o (List.mem_of_mem_take ho))

-- non-vacuity: a script with CR/LF in every argument, and its (clean) result
example : hvals (run [] [.append "X-A".toList "a".toList, .append "X-A".toList "b\r\nSet-Cookie: e=1".toList,
                         .vary ["Accept\r\nX: y".toList]]) "X-A".toList = ["a, bSet-Cookie: e=1".toList] := by decide

/-- K19d / K19h as shipped: the second AppendHeader, Vary, Data and DataFromReader kept CR LF -/
theorem no_crlf_asis_witness :
    hvals (applyAsIs (applyAsIs [] (.append "X-A".toList "a".toList)) (.append "X-A".toList "b\r\nc".toList)) "X-A".toList
      = ["a, b\r\nc".toList] ∧
    hvals (applyAsIs [] (.vary ["Accept\r\nX: y".toList])) "Vary".toList = ["Accept\r\nX: y".toList] ∧
    hvals (applyAsIs [] (.data "a/b\r\nc".toList)) "Content-Type".toList = ["a/b\r\nc".toList] ∧
    hvals (apply (apply [] (.append "X-A".toList "a".toList)) (.append "X-A".toList "b\r\nc".toList)) "X-A".toList
      = ["a, bc".toList] := by decide


end HeaderSetters

end Rivaas.C19
