/- C08 — Observability lifecycle is exactly-once with bounded labels: theorems about the model of
   ServeHTTP (`Model/Serve.lean`) against the oracle (`Spec/Obs.lean`). The obligations on the
   *regenerated* skeleton of the real code are in `Tie/C08.lean`. -/
import Rivaas.Spec.Obs

namespace Rivaas.C08
open Rivaas.Serve Rivaas.Obs

/-- the lookups return registered routes (C01/C11/C13 are about that); the static table is keyed by the path -/
def RoutesIn (f : Facts) (pats : List Bytes) : Prop :=
  (∀ rt, f.lookupStatic = some rt → rt.pattern ∈ pats) ∧
  (∀ rt, f.matchDynamic = some rt → rt.pattern ∈ pats) ∧
  (∀ rt, f.treeStatic = some rt → f.path ∈ pats) ∧
  (∀ rt, f.treeRoute = some rt → rt.pattern ∈ pats) ∧
  (∀ rt, f.vCache = some rt → rt.pattern ∈ pats) ∧
  (∀ rt, f.vRoute = some rt → rt.pattern ∈ pats)

/-- what a faithful wrapper lets the end callback read (see `status_size_truthful` below) -/
def seen (f : Facts) (o : Out) : Seen :=
  ⟨o.log, o.status, o.size, if f.obs && f.live then some (o.status, o.size) else none⟩

def isHandler : MEv → Bool | .handler .. => true | _ => false

theorem lemma_chainLog_handlers (rt : Route) (c v : Bytes) (p : Prog) : ∀ e ∈ chainLog rt c v p, isHandler e = true := by
  intro e he
  unfold chainLog at he
  cases p <;> simp [Prog.resp] at he <;> (try rcases he with rfl | rfl) <;> (try subst he) <;> rfl

theorem lemma_notFound_handlers (f : Facts) (p : Prog) (l : Option Bytes) :
    (∀ e ∈ (notFound f p l).hs, isHandler e = true) ∧ (notFound f p l).label = l := by
  unfold notFound
  split
  · simp
  · split
    · simp [isHandler]
    · simp

/-- where a matched route and its label come from -/
def Src (f : Facts) (rt : Route) (l : Bytes) : Prop :=
  (l = rt.pattern ∧ (f.lookupStatic = some rt ∨ f.matchDynamic = some rt ∨ f.treeRoute = some rt ∨
      f.vCache = some rt ∨ f.vRoute = some rt)) ∨
  (l = f.path ∧ f.treeStatic = some rt)

theorem lemma_q1 (f : Facts) (rt : Route) (h : f.q1 = some rt) : f.lookupStatic = some rt := by
  unfold Facts.q1 at h; split at h <;> (try split at h) <;> simp_all
theorem lemma_q2 (f : Facts) (rt : Route) (h : f.q2 = some rt) : f.matchDynamic = some rt := by
  unfold Facts.q2 at h; split at h <;> simp_all
theorem lemma_q3 (f : Facts) (rt : Route) (h : f.q3 = some rt) : f.treeStatic = some rt := by
  unfold Facts.q3 at h; split at h <;> (try split at h) <;> simp_all
theorem lemma_q4 (f : Facts) (rt : Route) (h : f.q4 = some rt) : f.treeRoute = some rt := by
  unfold Facts.q4 at h; split at h <;> simp_all

/-- the three kinds of exit of the dispatch -/
def Exit (a : Bool) (f : Facts) (p : Prog) (d : Disp) : Prop :=
  (∃ rt c v l pre, d = matched rt c v l p pre ∧ Src f rt l ∧ (pre = [] ∨ pre = [ROp.lifecycle])) ∨
  (∃ rt, d = gone a f rt ∧ (f.vCache = some rt ∨ f.vRoute = some rt)) ∨
  (∃ lab, d = notFound f p lab ∧ (lab = some sNotFound ∨ (a = true ∧ lab = none)))

theorem lemma_versioned_cases (a : Bool) (f : Facts) (p : Prog) : Exit a f p (versioned a f p) := by
  unfold versioned
  cases hc : f.vCache with
  | some rt =>
    simp only
    split
    · exact Or.inr (Or.inl ⟨rt, rfl, Or.inl hc⟩)
    · exact Or.inl ⟨rt, _, _, _, _, rfl, Or.inl ⟨rfl, Or.inr (Or.inr (Or.inr (Or.inl hc)))⟩, by split <;> simp⟩
  | none =>
    simp only
    cases hr : f.vRoute with
    | none =>
      simp only
      refine Or.inr (Or.inr ⟨_, rfl, ?_⟩)
      cases a <;> simp
    | some rt =>
      simp only
      split
      · exact Or.inr (Or.inl ⟨rt, rfl, Or.inr hr⟩)
      · exact Or.inl ⟨rt, _, _, _, _, rfl, Or.inl ⟨rfl, Or.inr (Or.inr (Or.inr (Or.inr hr)))⟩, by split <;> simp⟩

theorem lemma_dispatch_cases (a : Bool) (f : Facts) (p : Prog) : Exit a f p (dispatch a f p) := by
  unfold dispatch
  cases h1 : f.q1 with
  | some rt => exact Or.inl ⟨rt, _, _, _, _, rfl, Or.inl ⟨rfl, Or.inl (lemma_q1 f rt h1)⟩, Or.inl rfl⟩
  | none =>
  simp only
  cases h2 : f.q2 with
  | some rt => exact Or.inl ⟨rt, _, _, _, _, rfl, Or.inl ⟨rfl, Or.inr (Or.inl (lemma_q2 f rt h2))⟩, Or.inl rfl⟩
  | none =>
  simp only
  cases h3 : f.q3 with
  | some rt => exact Or.inl ⟨rt, _, _, _, _, rfl, Or.inr ⟨rfl, lemma_q3 f rt h3⟩, Or.inl rfl⟩
  | none =>
  simp only
  cases h4 : f.q4 with
  | some rt => exact Or.inl ⟨rt, _, _, _, _, rfl, Or.inl ⟨rfl, Or.inr (Or.inr (Or.inl (lemma_q4 f rt h4)))⟩, Or.inl rfl⟩
  | none =>
  simp only
  split
  · exact lemma_versioned_cases a f p
  · exact Or.inr (Or.inr ⟨_, rfl, Or.inl rfl⟩)

/-- the exits of the model: router-level response operations per dispatch path -/
def modelExits : List (List ROp) :=
  [[.next], [.lifecycle, .next], [.lifecycle, .writeHeader, .writeBody], [.methodNotAllowed], [.noRoute], [.notFound]]

theorem lemma_dispatch_ops (a : Bool) (f : Facts) (p : Prog) : (dispatch a f p).ops ∈ modelExits := by
  rcases lemma_dispatch_cases a f p with ⟨rt, c, v, l, pre, hd, _, hpre⟩ | ⟨rt, hd, _⟩ | ⟨lab, hd, _⟩
  · rw [hd]; rcases hpre with rfl | rfl <;> simp [matched, modelExits]
  · rw [hd]; simp [gone, modelExits]
  · rw [hd]; unfold notFound; split
    · simp [modelExits]
    · split <;> simp [modelExits]

/-- every dispatch path logs handler events only -/
theorem lemma_dispatch_handlers (a : Bool) (f : Facts) (p : Prog) : ∀ e ∈ (dispatch a f p).hs, isHandler e = true := by
  rcases lemma_dispatch_cases a f p with ⟨rt, c, v, l, pre, hd, _, _⟩ | ⟨rt, hd, _⟩ | ⟨lab, hd, _⟩
  · rw [hd]; exact lemma_chainLog_handlers _ _ _ _
  · rw [hd]; simp [gone]
  · rw [hd]; exact (lemma_notFound_handlers _ _ _).1

/-- after the fix every dispatch path reaches an end callback -/
theorem lemma_dispatch_label_some (f : Facts) (p : Prog) : ∃ l, (dispatch false f p).label = some l := by
  rcases lemma_dispatch_cases false f p with ⟨rt, c, v, l, pre, hd, _, _⟩ | ⟨rt, hd, _⟩ | ⟨lab, hd, hl⟩
  · rw [hd]; exact ⟨l, rfl⟩
  · rw [hd]; exact ⟨rt.pattern, by simp [gone]⟩
  · rw [hd, (lemma_notFound_handlers _ _ _).2]
    rcases hl with rfl | ⟨h, _⟩
    · exact ⟨_, rfl⟩
    · cases h

/-- … with a bounded label -/
theorem lemma_dispatch_label (f : Facts) (p : Prog) (pats : List Bytes) (h : RoutesIn f pats) :
    ∃ l, (dispatch false f p).label = some l ∧ labelOK pats l = true := by
  obtain ⟨h1, h2, h3, h4, h5, h6⟩ := h
  have hs : labelOK pats sNotFound = true := by
    have : sNotFound ∈ sentinels := by decide
    simp [labelOK, this]
  have hm : ∀ l, l ∈ pats → labelOK pats l = true := by intro l hl; simp [labelOK, hl]
  rcases lemma_dispatch_cases false f p with ⟨rt, c, v, l, pre, hd, hsrc, _⟩ | ⟨rt, hd, hsrc⟩ | ⟨lab, hd, hl⟩
  · rw [hd]
    refine ⟨l, rfl, hm l ?_⟩
    rcases hsrc with ⟨hl, hs1 | hs2 | hs3 | hs4 | hs5⟩ | ⟨hl, hs6⟩
    · rw [hl]; exact h1 _ hs1
    · rw [hl]; exact h2 _ hs2
    · rw [hl]; exact h4 _ hs3
    · rw [hl]; exact h5 _ hs4
    · rw [hl]; exact h6 _ hs5
    · rw [hl]; exact h3 _ hs6
  · rw [hd]
    refine ⟨rt.pattern, by simp [gone], hm _ ?_⟩
    rcases hsrc with h | h
    · exact h5 _ h
    · exact h6 _ h
  · rw [hd, (lemma_notFound_handlers _ _ _).2]
    rcases hl with rfl | ⟨h, _⟩
    · exact ⟨_, rfl, hs⟩
    · cases h

theorem lemma_getLast {α : Type} (a x : α) (hs : List α) : (a :: (hs ++ [x])).getLast? = some x := by
  induction hs generalizing a with
  | nil => rfl
  | cons b r ih => rw [List.cons_append, List.getLast?_cons_cons]; exact ih b

theorem lemma_filter_handlers (hs : List MEv) (h : ∀ e ∈ hs, isHandler e = true) :
    hs.filter Obs.isStart = [] ∧ hs.filter Obs.isWrap = [] ∧ hs.filter Obs.isEnd = [] ∧
    hs.all (fun e => !Obs.isStart e && !Obs.isWrap e && !Obs.isEnd e) = true := by
  refine ⟨?_, ?_, ?_, ?_⟩
  · rw [List.filter_eq_nil_iff]; intro e he; have := h e he; cases e <;> simp_all [isHandler, Obs.isStart]
  · rw [List.filter_eq_nil_iff]; intro e he; have := h e he; cases e <;> simp_all [isHandler, Obs.isWrap]
  · rw [List.filter_eq_nil_iff]; intro e he; have := h e he; cases e <;> simp_all [isHandler, Obs.isEnd]
  · rw [List.all_eq_true]; intro e he; have := h e he; cases e <;> simp_all [isHandler, Obs.isStart, Obs.isWrap, Obs.isEnd]

/-- **Main theorem (model level).** For every answer of the lookups (every configuration: compilation on/off,
    versioning on/off, sunset, NoRoute set or not; every request class) and every handler program, the
    repaired ServeHTTP satisfies the whole per-request oracle: callbacks only when a recorder is installed, exactly
    one start first, no wrap/end for an excluded request, otherwise exactly one wrap right after the start and
    exactly one end callback, last, with a registered pattern or a sentinel as label, on the wrapped writer. -/
theorem serve_meets_spec (f : Facts) (p : Prog) (pats : List Bytes) (h : RoutesIn f pats) :
    specOK f.obs f.live pats (seen f (serve f p)) = true := by
  obtain ⟨l, hl, hlab⟩ := lemma_dispatch_label f p pats h
  have hh := lemma_dispatch_handlers false f p
  obtain ⟨f1, f2, f3, f4⟩ := lemma_filter_handlers _ hh
  have hall : ∀ q : MEv → Bool, (∀ e, isHandler e = true → q e = true) → (dispatch false f p).hs.all q = true := by
    intro q hq; rw [List.all_eq_true]; intro e he; exact hq e (hh e he)
  unfold specOK seen serve serveWith
  simp only [hl, endG, pre]
  cases hobs : f.obs <;> cases hlive : f.live
  · simpa using f4
  · simpa using f4
  · simp [Obs.isStart, Obs.isWrap, Obs.isEnd, List.filter_cons, f1]
    intro e he; have := hh e he; cases e <;> simp_all [isHandler]
  · simp [Obs.isStart, Obs.isWrap, Obs.isEnd, List.filter_append, f1, f2, f3, List.filter_cons, hlab,
      lemma_getLast]

/-- `#OnRequestEnd == #OnRequestStart(state != nil)`, per request -/
theorem end_count_eq_live_starts (f : Facts) (p : Prog) :
    ((serve f p).log.filter Obs.isEnd).length = ((serve f p).log.filter (· == MEv.start true)).length := by
  have hh := lemma_dispatch_handlers false f p
  obtain ⟨_, _, f3, _⟩ := lemma_filter_handlers _ hh
  have f5 : (dispatch false f p).hs.filter (· == MEv.start true) = [] := by
    rw [List.filter_eq_nil_iff]; intro e he; have := hh e he; cases e <;> simp_all [isHandler]
  obtain ⟨l, hl⟩ := lemma_dispatch_label_some f p
  unfold serve serveWith
  simp only [hl, endG, pre]
  cases hobs : f.obs <;> cases hlive : f.live <;>
    simp [Obs.isEnd, List.filter_append, f3, f5, List.filter_cons]

/-- **Gauge and spans over histories.** Whatever sequence of requests was served (any configurations, any
    classes), a recorder that opens a span and increments the active-requests counter when a request starts with
    a state and closes/decrements in the end callback is balanced when the server is idle. -/
theorem gauge_zero_spans_balanced (hist : List (Facts × Prog)) :
    (hist.foldl (fun t (fp : Facts × Prog) => t.run (serve fp.1 fp.2).log) ({} : Tele)).quiescent = true := by
  have step : ∀ (t : Tele) (f : Facts) (p : Prog), t.quiescent = true → (t.run (serve f p).log).quiescent = true := by
    intro t f p ht
    have hh := lemma_dispatch_handlers false f p
    have hrun : ∀ (hs : List MEv) (t : Tele), (∀ e ∈ hs, isHandler e = true) → t.run hs = t := by
      intro hs
      induction hs with
      | nil => intro t _; rfl
      | cons e r ih =>
        intro t h
        have he := h e (by simp)
        have : t.step e = t := by cases e <;> simp_all [isHandler, Tele.step]
        simp only [Tele.run, List.foldl_cons, this]
        exact ih t (fun e' he' => h e' (by simp [he']))
    obtain ⟨l, hl⟩ := lemma_dispatch_label_some f p
    unfold serve serveWith
    simp only [hl, endG, pre]
    have happ : ∀ (a b : List MEv) (t : Tele), t.run (a ++ b) = (t.run a).run b := by
      intro a b t; simp [Tele.run, List.foldl_append]
    rw [happ, happ, hrun _ _ hh]
    simp only [Tele.quiescent, Bool.and_eq_true, beq_iff_eq] at ht ⊢
    cases hobs : f.obs <;> cases hlive : f.live <;>
      simp [Tele.run, Tele.step, ht.1, ht.2]
  generalize hq : ({} : Tele) = t0
  have h0 : t0.quiescent = true := by subst hq; rfl
  clear hq
  induction hist generalizing t0 with
  | nil => exact h0
  | cons fp rest ih =>
    simp only [List.foldl_cons]
    exact ih _ (step t0 fp.1 fp.2 h0)

/-! ### the shipped code (before commit 91ac4e5): finding K08 -/

/-- the requests on which the shipped code differs: nothing in the main tree, a version tree selected, and
    either no route in it or a version past its sunset date -/
def D_K08 (f : Facts) : Bool :=
  f.q1.isNone && f.q2.isNone && f.q3.isNone && f.q4.isNone && f.versionEngine && f.vcTree &&
  ((f.vCache.isNone && f.vRoute.isNone) || f.sunset)

/-- outside the K08 class the shipped code and the repaired code behave the same -/
theorem asIs_partial (f : Facts) (p : Prog) (h : D_K08 f = false) : serveAsIs f p = serve f p := by
  unfold serveAsIs serve serveWith
  have : dispatch true f p = dispatch false f p := by
    unfold dispatch versioned gone
    unfold D_K08 at h
    cases h1 : f.q1 <;> cases h2 : f.q2 <;> cases h3 : f.q3 <;> cases h4 : f.q4 <;> simp only <;>
    cases hv : f.versionEngine <;> cases ht : f.vcTree <;> cases hc : f.vCache <;> cases hr : f.vRoute <;>
    cases hs : f.sunset <;> simp_all
  rw [this]

def fVerMiss : Facts :=
  { obs := true, live := true, useCompiled := false, hasStatic := false, lookupStatic := none,
    matchDynamic := none, tree := true, treeCompiled := false, treeStatic := none, treeRoute := none,
    versionEngine := true, vcTree := true, version := "v1".toList, vCache := none, vRoute := none, sunset := false,
    allowed := false, noRoute := false, detected := "v1".toList, path := "/vmiss".toList }

def fSunsetStatic : Facts :=
  { fVerMiss with version := "v0".toList, vCache := some ⟨24, "/vs".toList⟩, sunset := true, path := "/vs".toList }
def fSunsetParam : Facts :=
  { fVerMiss with version := "v0".toList, vRoute := some ⟨25, "/vd/:id".toList⟩, sunset := true, path := "/vd/7".toList }

/-- non-vacuity of `RoutesIn` (hypothesis of `serve_meets_spec`): the three K08 requests satisfy it -/
example : RoutesIn fVerMiss ["/vs".toList] ∧ RoutesIn fSunsetStatic ["/vs".toList] ∧ RoutesIn fSunsetParam ["/vd/:id".toList] := by
  simp [RoutesIn, fVerMiss, fSunsetStatic, fSunsetParam]

/-- K08 witnesses (replayed on the implementation: corpus/C08/k08.case): start without end on the three exits -/
theorem asIs_witness_not_found : specOK true true ["/vs".toList] (seen fVerMiss (serveAsIs fVerMiss (.explicit 200 5))) = false := by decide
theorem asIs_witness_sunset_static : specOK true true ["/vs".toList] (seen fSunsetStatic (serveAsIs fSunsetStatic (.explicit 200 5))) = false := by decide
theorem asIs_witness_sunset_param : specOK true true ["/vd/:id".toList] (seen fSunsetParam (serveAsIs fSunsetParam (.explicit 200 5))) = false := by decide
/-- …and the gauge drifts: after the three witnesses one span per request is still open -/
theorem asIs_gauge_drifts :
    ([fVerMiss, fSunsetStatic, fSunsetParam].foldl (fun t f => t.run (serveAsIs f (.explicit 200 5)).log) ({} : Tele)).active = 3 := by decide

/-! ### the wrapper reports what the client received -/

theorem lemma_rw_inv (ops : List WOp) (rw : RW)
    (hinv : (rw.written = false → rw.under = {} ∧ rw.size = 0 ∧ rw.statusCode = 0) ∧
            (rw.written = true → rw.under.status = some rw.StatusCode ∧ rw.statusCode ≠ 0) ∧
            rw.under.size = rw.size)
    (hvalid : ∀ c, WOp.header c ∈ ops → c ≠ 0) :
    ((rw.run ops).written = false → (rw.run ops).under = {} ∧ (rw.run ops).size = 0 ∧ (rw.run ops).statusCode = 0) ∧
    ((rw.run ops).written = true → (rw.run ops).under.status = some (rw.run ops).StatusCode ∧ (rw.run ops).statusCode ≠ 0) ∧
    (rw.run ops).under.size = (rw.run ops).size := by
  induction ops generalizing rw with
  | nil => exact hinv
  | cons op rest ih =>
    simp only [RW.run, List.foldl_cons]
    apply ih
    · obtain ⟨h1, h2, h3⟩ := hinv
      cases op with
      | header c =>
        have hc : c ≠ 0 := hvalid c (by simp)
        cases hw : rw.written
        · obtain ⟨hu, hs, hz⟩ := h1 hw
          by_cases hi : isInfo c = true
          · simp [RW.step, hw, hu, hs, hz, Wire.step, hi]
          · simp [RW.step, hw, hu, hs, Wire.step, RW.StatusCode, hc, hi]
        · have : rw.step (.header c) = rw := by simp [RW.step, hw]
          rw [this]; exact ⟨h1, h2, h3⟩
      | write n =>
        cases hw : rw.written
        · obtain ⟨hu, hs, _⟩ := h1 hw
          simp [RW.step, hw, hu, hs, Wire.step, RW.StatusCode]
        · obtain ⟨hst, hne⟩ := h2 hw
          simp [RW.step, hw, Wire.step, hst, h3, RW.StatusCode, hne] at *
      | flush =>
        cases hw : rw.written
        · obtain ⟨hu, hs, hz⟩ := h1 hw
          simp [RW.step, hw, hu, hs, hz, Wire.step, RW.StatusCode]
        · obtain ⟨hst, hne⟩ := h2 hw
          simp [RW.step, hw, Wire.step, hst, h3, RW.StatusCode, hne] at *
      | readFrom n =>
        cases hw : rw.written
        · obtain ⟨hu, hs, hz⟩ := h1 hw
          simp [RW.step, hw, hu, hs, hz, Wire.step, RW.StatusCode]
        · obtain ⟨hst, hne⟩ := h2 hw
          simp [RW.step, hw, Wire.step, hst, h3, RW.StatusCode, hne] at *
    · intro c hc; exact hvalid c (by simp [hc])

/-- **status and size truthful**: for every sequence of WriteHeader/Write calls with valid status codes (net/http
    panics on code 0) the wrapper's StatusCode()/Size() equal the status and the number of body bytes the client
    received — first WriteHeader wins, implicit 200 on a bare Write, 200 and 0 bytes when nothing is written -/
theorem status_size_truthful (ops : List WOp) (hvalid : ∀ c, WOp.header c ∈ ops → c ≠ 0) :
    (({} : RW).run ops).StatusCode = (({} : RW).run ops).under.clientStatus ∧
    (({} : RW).run ops).size = (({} : RW).run ops).under.size := by
  obtain ⟨h1, h2, h3⟩ := lemma_rw_inv ops {} ⟨by simp, by simp, by rfl⟩ hvalid
  refine ⟨?_, h3.symm⟩
  cases hw : (({} : RW).run ops).written
  · obtain ⟨hu, _, hz⟩ := h1 hw
    simp [RW.StatusCode, hz, hu, Wire.clientStatus]
  · obtain ⟨hst, _⟩ := h2 hw
    simp [Wire.clientStatus, hst]

/-- informational responses included: 103 Early Hints, then the final status -/
example : (({} : RW).run [.header 103, .header 404, .write 4]).StatusCode = 404 ∧
    (({} : RW).run [.header 103, .header 404, .write 4]).under.clientStatus = 404 := by decide

/-- K08g, as shipped: the wrapper took the 103 for the final status and swallowed the 404 — it recorded 103, and the
    client received 200 (the implied status of the first Write) instead of 404 -/
theorem asIs_k08g_informational :
    (({} : RW).runAsIs [.header 103, .header 404, .write 4]).StatusCode = 103 ∧
    (({} : RW).runAsIs [.header 103, .header 404, .write 4]).under.clientStatus = 200 ∧
    (({} : RW).run [.header 103, .header 404, .write 4]).under.clientStatus = 404 := by decide

/-- K08h, as shipped: Flush committed an implied 200 underneath, the wrapper did not notice and recorded the 500 of a
    later WriteHeader that never reached the client -/
theorem asIs_k08h_flush :
    (({} : RW).runAsIs [.flush, .header 500, .write 4]).StatusCode = 500 ∧
    (({} : RW).runAsIs [.flush, .header 500, .write 4]).under.clientStatus = 200 ∧
    (({} : RW).run [.flush, .header 500, .write 4]).StatusCode = 200 := by decide

/-! ### the probe programs: what the model says the client receives IS what the wrapper records

`Prog.resp` (used by `dispatch` for the status / size of a matched route) is not an independent assumption: it is what
net/http's writer (`Wire`) shows after the program's writer operations, and — by `status_size_truthful` — what the
wrapper `RW` reports to the end callback. (Review item C08-1.) -/

/-- a final, valid status code: not 0 (net/http panics) and not informational -/
def finalCode (c : Nat) : Prop := c ≠ 0 ∧ isInfo c = false

/-- the status codes a program passes to WriteHeader are final and valid -/
def progValid : Prog → Prop
  | .explicit st _ | .twice st _ | .abort st _ | .copy st _ => finalCode st
  | .flushed st _ => st ≠ 0
  | _ => True

theorem lemma_valid_ops (p : Prog) (hv : progValid p) : ∀ c, WOp.header c ∈ p.ops → c ≠ 0 := by
  intro c hc
  cases p with
  | explicit st n => simp only [progValid, finalCode] at hv; simp [Prog.ops] at hc; subst hc; exact hv.1
  | twice st n =>
    simp only [progValid, finalCode] at hv; simp [Prog.ops] at hc
    rcases hc with rfl | rfl
    · exact hv.1
    · decide
  | abort st n => simp only [progValid, finalCode] at hv; simp [Prog.ops] at hc; subst hc; exact hv.1
  | copy st n => simp only [progValid, finalCode] at hv; simp [Prog.ops] at hc; subst hc; exact hv.1
  | flushed st n => simp only [progValid] at hv; simp [Prog.ops] at hc; subst hc; exact hv
  | panics n => simp [Prog.ops] at hc; subst hc; decide
  | silent => simp [Prog.ops] at hc
  | writeOnly n => simp [Prog.ops] at hc
  | copyOnly n => simp [Prog.ops] at hc

/-- what the client receives after the program's writer operations is `Prog.resp` -/
theorem prog_resp_is_wire (p : Prog) (hv : progValid p) :
    (p.ops.foldl Wire.step {}).clientStatus = p.resp.1 ∧ (p.ops.foldl Wire.step {}).size = p.resp.2.1 := by
  have h5 : isInfo 500 = false := by decide
  cases p with
  | explicit st n =>
    simp only [progValid, finalCode] at hv
    simp [Prog.ops, Prog.resp, Wire.step, Wire.clientStatus, hv.2]
  | twice st n =>
    simp only [progValid, finalCode] at hv
    simp [Prog.ops, Prog.resp, Wire.step, Wire.clientStatus, hv.2, h5]
  | abort st n =>
    simp only [progValid, finalCode] at hv
    simp [Prog.ops, Prog.resp, Wire.step, Wire.clientStatus, hv.2]
  | copy st n =>
    simp only [progValid, finalCode] at hv
    simp [Prog.ops, Prog.resp, Wire.step, Wire.clientStatus, hv.2]
  | flushed st n =>
    by_cases hi : isInfo st = true <;> simp [Prog.ops, Prog.resp, Wire.step, Wire.clientStatus, hi]
  | panics n => simp [Prog.ops, Prog.resp, Wire.step, Wire.clientStatus, h5]
  | silent => simp [Prog.ops, Prog.resp, Wire.clientStatus]
  | writeOnly n => simp [Prog.ops, Prog.resp, Wire.step, Wire.clientStatus]
  | copyOnly n => simp [Prog.ops, Prog.resp, Wire.step, Wire.clientStatus]

/-- **recorded = received for every probe program**: the status and size the wrapper hands to the end callback after
    the program ran are what the client received, and both are `Prog.resp` — the status / size of the model's `Out` for
    a matched route -/
theorem prog_recorded_is_received (p : Prog) (hv : progValid p) :
    (({} : RW).run p.ops).StatusCode = p.resp.1 ∧ (({} : RW).run p.ops).size = p.resp.2.1 ∧
    (({} : RW).run p.ops).under.clientStatus = p.resp.1 ∧ (({} : RW).run p.ops).under.size = p.resp.2.1 := by
  obtain ⟨h1, h2⟩ := status_size_truthful p.ops (lemma_valid_ops p hv)
  have h5 : isInfo 500 = false := by decide
  have hu : (({} : RW).run p.ops).under.clientStatus = p.resp.1 ∧ (({} : RW).run p.ops).under.size = p.resp.2.1 := by
    cases p with
    | explicit st n =>
      simp only [progValid, finalCode] at hv
      simp [Prog.ops, Prog.resp, RW.run, RW.step, Wire.step, Wire.clientStatus, hv.2]
    | twice st n =>
      simp only [progValid, finalCode] at hv
      simp [Prog.ops, Prog.resp, RW.run, RW.step, Wire.step, Wire.clientStatus, hv.2]
    | abort st n =>
      simp only [progValid, finalCode] at hv
      simp [Prog.ops, Prog.resp, RW.run, RW.step, Wire.step, Wire.clientStatus, hv.2]
    | copy st n =>
      simp only [progValid, finalCode] at hv
      simp [Prog.ops, Prog.resp, RW.run, RW.step, Wire.step, Wire.clientStatus, hv.2]
    | flushed st n => simp [Prog.ops, Prog.resp, RW.run, RW.step, Wire.step, Wire.clientStatus]
    | panics n => simp [Prog.ops, Prog.resp, RW.run, RW.step, Wire.step, Wire.clientStatus, h5]
    | silent => simp [Prog.ops, Prog.resp, RW.run, Wire.clientStatus]
    | writeOnly n => simp [Prog.ops, Prog.resp, RW.run, RW.step, Wire.step, Wire.clientStatus]
    | copyOnly n => simp [Prog.ops, Prog.resp, RW.run, RW.step, Wire.step, Wire.clientStatus]
  exact ⟨h1.trans hu.1, h2.trans hu.2, hu.1, hu.2⟩

/-- the status / size the model's dispatch reports for a matched route ARE what the wrapper records after the route's
    program (so the `recd` component of `seen` is the wrapper's reading, not an independent stipulation) -/
theorem matched_status_is_recorded (rt : Route) (c v l : Bytes) (p : Prog) (pre : List ROp) (hv : progValid p) :
    (matched rt c v l p pre).status = (({} : RW).run p.ops).StatusCode ∧
    (matched rt c v l p pre).size = (({} : RW).run p.ops).size := by
  obtain ⟨h1, h2, _, _⟩ := prog_recorded_is_received p hv
  exact ⟨h1.symm, h2.symm⟩

/-- every exit of the dispatch answers like some valid writer program: the matched route's (or the NoRoute handler's)
    own program, or the router's responders `WriteHeader(404|405|410); Write(body)` -/
theorem lemma_notFound_prog (f : Facts) (p : Prog) (l : Option Bytes) (hv : progValid p) :
    ∃ q : Prog, progValid q ∧ (notFound f p l).status = q.resp.1 ∧ (notFound f p l).size = q.resp.2.1 := by
  unfold notFound
  split
  · exact ⟨.explicit 405 "Method Not Allowed\n".length, by simp [progValid, finalCode, isInfo], rfl, rfl⟩
  · split
    · exact ⟨p, hv, rfl, rfl⟩
    · exact ⟨.explicit 404 "Not Found\n".length, by simp [progValid, finalCode, isInfo], rfl, rfl⟩

theorem lemma_versioned_prog (f : Facts) (p : Prog) (hv : progValid p) :
    ∃ q : Prog, progValid q ∧ (versioned false f p).status = q.resp.1 ∧ (versioned false f p).size = q.resp.2.1 := by
  have hg : ∀ rt, ∃ q : Prog, progValid q ∧ (gone false f rt).status = q.resp.1 ∧ (gone false f rt).size = q.resp.2.1 :=
    fun rt => ⟨.explicit 410 (sunsetBody f.version), by simp [progValid, finalCode, isInfo], rfl, rfl⟩
  unfold versioned
  split
  · split
    · exact hg _
    · exact ⟨p, hv, rfl, rfl⟩
  · split
    · exact lemma_notFound_prog f p _ hv
    · split
      · exact hg _
      · exact ⟨p, hv, rfl, rfl⟩

/-- **recorded = received on every exit of the dispatch**: whatever path the request takes, the status / size the model
    reports are those of a valid writer program, hence (by `prog_recorded_is_received`) exactly what the wrapper reads
    for the end callback and what net/http sent -/
theorem dispatch_status_is_recorded (f : Facts) (p : Prog) (hv : progValid p) :
    ∃ q : Prog, progValid q ∧
      (dispatch false f p).status = (({} : RW).run q.ops).StatusCode ∧ (dispatch false f p).size = (({} : RW).run q.ops).size ∧
      (dispatch false f p).status = (({} : RW).run q.ops).under.clientStatus ∧
      (dispatch false f p).size = (({} : RW).run q.ops).under.size := by
  have key : ∃ q : Prog, progValid q ∧ (dispatch false f p).status = q.resp.1 ∧ (dispatch false f p).size = q.resp.2.1 := by
    unfold dispatch
    split
    · exact ⟨p, hv, rfl, rfl⟩
    · split
      · exact ⟨p, hv, rfl, rfl⟩
      · split
        · exact ⟨p, hv, rfl, rfl⟩
        · split
          · exact ⟨p, hv, rfl, rfl⟩
          · split
            · exact lemma_versioned_prog f p hv
            · exact lemma_notFound_prog f p _ hv
  obtain ⟨q, hq, h1, h2⟩ := key
  obtain ⟨r1, r2, r3, r4⟩ := prog_recorded_is_received q hq
  exact ⟨q, hq, h1.trans r1.symm, h2.trans r2.symm, h1.trans r3.symm, h2.trans r4.symm⟩

example : progValid (Prog.twice 201 17) ∧ progValid (Prog.flushed 500 4) ∧ progValid Prog.silent := by
  refine ⟨by simp [progValid, finalCode, isInfo], by simp [progValid], by simp [progValid]⟩

/-- non-vacuity: the probe programs are valid op sequences and exercise every branch of the wrapper -/
example : (({} : RW).run (Prog.twice 201 17).ops).StatusCode = 201 ∧ (({} : RW).run (Prog.twice 201 17).ops).size = 17 := by decide
example : (({} : RW).run Prog.silent.ops).StatusCode = 200 := by decide

end Rivaas.C08
