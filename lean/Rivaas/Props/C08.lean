/- C08 — property theorems (stub: not built yet) -/
