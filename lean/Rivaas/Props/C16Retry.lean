import Rivaas.Props.C16
/-
C16, sliding window: the truthful `Retry-After` lifted from one entry (`window_retry_truthful`) to whole traces —
any number of keys, requests of other keys in between — and with it the complete window oracle for a store with the
one-call interface (`window_meets_spec_atomic`, no exclusion left for that kind of store).
-/
namespace Rivaas.C16
open Rivaas.RateLimit

/-- entries are not ahead of any of the requests still to be served -/
def NotAhead (W : Nat) (st : WinStore) (l : List WinReq) : Prop :=
  ∀ k w, st.lookup k = some w → ∀ q ∈ l, w.ws ≤ windowStart W q.now

/-- the store after serving a list of requests one after the other -/
def storeAfter (cfg : WinCfg) (txt : Bytes) (st : WinStore) (l : List WinReq) : WinStore :=
  l.foldl (fun s q => (serve1 cfg txt s q).1) st

theorem lemma_serve1_store (cfg : WinCfg) (txt : Bytes) (st : WinStore) (q : WinReq) :
    (serve1 cfg txt st q).1 = st.set q.key (incr cfg.W (some (getCounts cfg.W (st.lookup q.key) q.now)) q.now) := rfl

/-- serving a request keeps the entries behind the clock of the requests that follow -/
theorem lemma_notAhead_step (cfg : WinCfg) (txt : Bytes) (st : WinStore) (q : WinReq) (rest : List WinReq)
    (hsorted : (q :: rest).Pairwise (fun a b => a.now ≤ b.now)) (hna : NotAhead cfg.W st (q :: rest)) :
    NotAhead cfg.W (serve1 cfg txt st q).1 rest := by
  obtain ⟨hq_le, _⟩ := List.pairwise_cons.mp hsorted
  obtain ⟨hws, _⟩ := lemma_getCounts cfg.W (st.lookup q.key) q.now (fun w hw => hna q.key w hw q (List.mem_cons_self ..))
  intro k w hl q' hq'
  rw [lemma_serve1_store] at hl
  by_cases hk : k = q.key
  · subst hk
    rw [lemma_wlookup_set_self] at hl
    simp only [Option.some.injEq] at hl
    rw [lemma_incr_same cfg.W _ q.now hws] at hl
    rw [← hl]
    show (getCounts cfg.W (st.lookup q.key) q.now).ws ≤ _
    rw [hws]
    exact lemma_windowStart_mono _ _ _ (hq_le q' hq')
  · rw [lemma_wlookup_set_other _ _ _ _ hk] at hl
    exact hna k w hl q' (List.mem_cons_of_mem _ hq')

theorem lemma_notAhead_after (cfg : WinCfg) (txt : Bytes) (l rest : List WinReq) (st : WinStore)
    (hsorted : (l ++ rest).Pairwise (fun a b => a.now ≤ b.now)) (hna : NotAhead cfg.W st (l ++ rest)) :
    NotAhead cfg.W (storeAfter cfg txt st l) rest := by
  induction l generalizing st with
  | nil => exact hna
  | cons q l ih =>
    simp only [storeAfter, List.foldl_cons]
    exact ih _ (List.pairwise_cons.mp hsorted).2 (lemma_notAhead_step cfg txt st q (l ++ rest) hsorted hna)

/-- requests of other keys leave a key's entry alone -/
theorem lemma_frame (cfg : WinCfg) (txt : Bytes) (k : Bytes) (mid : List WinReq) (st : WinStore)
    (hmid : ∀ q ∈ mid, q.key ≠ k) : (storeAfter cfg txt st mid).lookup k = st.lookup k := by
  induction mid generalizing st with
  | nil => rfl
  | cons q mid ih =>
    simp only [storeAfter, List.foldl_cons]
    have := ih (serve1 cfg txt st q).1 (fun x hx => hmid x (List.mem_cons_of_mem _ hx))
    simp only [storeAfter] at this
    rw [this, lemma_serve1_store]
    exact lemma_wlookup_set_other _ _ _ _ (fun h => hmid q (List.mem_cons_self ..) h.symm)

/-- an answer carries `Retry-After: R` only if the request was rejected, and then `R` is `retryAfter` -/
theorem lemma_retryAfter_some (cfg : WinCfg) (txt : Bytes) (d : Decision) (R : Nat)
    (h : (winAnswer cfg txt d).retryAfter = some R) : cfg.limit ≤ d.usage ∧ R = d.retry := by
  unfold winAnswer at h
  by_cases hge : d.usage ≥ cfg.limit
  · refine ⟨hge, ?_⟩
    simp only [hge, if_true] at h
    cases hc : cfg.hasCallback <;> cases he : cfg.enforce <;> simp [hc, he] at h
    exact h.symm
  · simp [hge] at h

theorem lemma_ran_of_lt (cfg : WinCfg) (txt : Bytes) (d : Decision) (h : d.usage < cfg.limit) :
    (winAnswer cfg txt d).ran = true := by
  unfold winAnswer
  have : ¬ d.usage ≥ cfg.limit := by omega
  simp [this]

/-- **a retry after `Retry-After` seconds is admitted, inside a trace**: request `qi` is rejected with
    `Retry-After: R`; requests of other keys follow; the key's next request `qj`, at least `R` seconds later, runs -/
theorem lemma_retry_in_run (cfg : WinCfg) (txt : Bytes) (hW : 1 ≤ cfg.W) (hL : 1 ≤ cfg.limit)
    (st : WinStore) (qi : WinReq) (mid : List WinReq) (qj : WinReq)
    (hkey : qj.key = qi.key) (hmid : ∀ q ∈ mid, q.key ≠ qi.key)
    (hna : NotAhead cfg.W st [qi])
    (R : Nat) (hR : (serve1 cfg txt st qi).2.retryAfter = some R) (hlate : qi.now + R * nsPerSec ≤ qj.now) :
    (serve1 cfg txt (storeAfter cfg txt (serve1 cfg txt st qi).1 mid) qj).2.ran = true := by
  obtain ⟨hrej, hRr⟩ := lemma_retryAfter_some cfg txt _ R hR
  have hl : (storeAfter cfg txt (serve1 cfg txt st qi).1 mid).lookup qj.key =
      some (incr cfg.W (some (getCounts cfg.W (st.lookup qi.key) qi.now)) qi.now) := by
    rw [hkey, lemma_frame cfg txt qi.key mid _ hmid, lemma_serve1_store, lemma_wlookup_set_self]
  show (winAnswer cfg txt (decide_ cfg.limit cfg.W (getCounts cfg.W _ qj.now) qj.now)).ran = true
  rw [hl]
  apply lemma_ran_of_lt
  apply window_retry_truthful cfg hW hL (st.lookup qi.key) qi.now qj.now
  · intro w hw; exact hna qi.key w hw qi (List.mem_cons_self ..)
  · exact hrej
  · rw [← hRr]; exact hlate

/-! ### the oracle's `retryOK` on a whole run -/

theorem lemma_runSeq_append (cfg : WinCfg) (txt : Bytes) (l1 l2 : List (Nat × WinReq)) (st : WinStore) :
    runSeq cfg txt st (l1 ++ l2) =
      runSeq cfg txt st l1 ++ runSeq cfg txt (storeAfter cfg txt st (l1.map (·.2))) l2 := by
  induction l1 generalizing st with
  | nil => rfl
  | cons x l1 ih =>
    simp only [List.cons_append, runSeq, List.map_cons, storeAfter, List.foldl_cons]
    rw [ih]; rfl

theorem lemma_lookup_runSeq_notin (cfg : WinCfg) (txt : Bytes) (l : List (Nat × WinReq)) (st : WinStore) (i : Nat)
    (h : ∀ x ∈ l, x.1 ≠ i) : (runSeq cfg txt st l).lookup i = none := by
  induction l generalizing st with
  | nil => rfl
  | cons x l ih =>
    have hx : (i == x.1) = false := by
      have := h x (List.mem_cons_self ..)
      simp only [beq_eq_false_iff_ne, ne_eq]; exact fun e => this e.symm
    simp only [runSeq, List.lookup_cons, hx]
    exact ih _ (fun y hy => h y (List.mem_cons_of_mem _ hy))

theorem lemma_lookup_append_notin {β} (a b : List (Nat × β)) (i : Nat) (h : a.lookup i = none) :
    (a ++ b).lookup i = b.lookup i := by
  induction a with
  | nil => rfl
  | cons x a ih =>
    obtain ⟨k, v⟩ := x
    simp only [List.cons_append, List.lookup_cons] at h ⊢
    cases hx : (i == k) with
    | true => rw [hx] at h; simp at h
    | false => rw [hx] at h; simp only at h ⊢; exact ih h

theorem lemma_storeAfter_append (cfg : WinCfg) (txt : Bytes) (st : WinStore) (a b : List WinReq) :
    storeAfter cfg txt st (a ++ b) = storeAfter cfg txt (storeAfter cfg txt st a) b := by
  simp [storeAfter, List.foldl_append]

/-- the answer the oracle finds for index `i`: that of its first service -/
theorem lemma_lookup_runSeq (cfg : WinCfg) (txt : Bytes) (st : WinStore) (pre rest : List (Nat × WinReq)) (i : Nat)
    (q : WinReq) (hpre : ∀ x ∈ pre, x.1 ≠ i) :
    (runSeq cfg txt st (pre ++ (i, q) :: rest)).lookup i =
      some (serve1 cfg txt (storeAfter cfg txt st (pre.map (·.2))) q).2 := by
  rw [lemma_runSeq_append, lemma_lookup_append_notin _ _ _ (lemma_lookup_runSeq_notin cfg txt pre st i hpre)]
  simp [runSeq]

/-- a marked retry `(i, j)`: in the order of service, request `i`, then only requests of other keys, then `j` — the
    same key — and the indices before them are other requests -/
structure RetryPair (served : List (Nat × WinReq)) (i j : Nat) : Prop where
  split : ∃ pre qi mid qj post, served = pre ++ (i, qi) :: mid ++ (j, qj) :: post ∧
      (∀ x ∈ pre, x.1 ≠ i ∧ x.1 ≠ j) ∧ (∀ x ∈ mid, x.1 ≠ j ∧ x.2.key ≠ qi.key) ∧ i ≠ j ∧ qj.key = qi.key

/-- **`retryOK` holds on every run over an atomic store** (clock non-decreasing in service order, `limit ≥ 1`,
    window ≥ 1 s): whenever a request was answered 429 with `Retry-After: R` and the key's next request comes at
    least `R` seconds later, that request reaches the handler -/
theorem window_retry_ok (cfg : WinCfg) (txt : Bytes) (reqs : List WinReq) (served : List (Nat × WinReq))
    (hW : 1 ≤ cfg.W) (hL : 1 ≤ cfg.limit)
    (hreq : ∀ x ∈ served, reqs[x.1]? = some x.2)
    (hsorted : (served.map (·.2)).Pairwise (fun a b => a.now ≤ b.now))
    (retries : List (Nat × Nat)) (hret : ∀ ij ∈ retries, RetryPair served ij.1 ij.2) :
    retryOK reqs (runSeq cfg txt [] served) retries = true := by
  unfold retryOK
  rw [List.all_eq_true]
  intro ij hij
  obtain ⟨pre, qi, mid, qj, post, hs, hpre, hmid, hne, hkey⟩ := (hret ij hij).split
  have hqi : reqs[ij.1]? = some qi := hreq (ij.1, qi) (by rw [hs]; simp)
  have hqj : reqs[ij.2]? = some qj := hreq (ij.2, qj) (by rw [hs]; simp)
  -- the two answers
  generalize hstPre : storeAfter cfg txt [] (pre.map (·.2)) = stPre
  have hli : (runSeq cfg txt [] served).lookup ij.1 = some (serve1 cfg txt stPre qi).2 := by
    rw [hs, List.append_assoc, List.cons_append, lemma_lookup_runSeq cfg txt [] pre _ ij.1 qi (fun x hx => (hpre x hx).1), hstPre]
  have hlj : (runSeq cfg txt [] served).lookup ij.2 =
      some (serve1 cfg txt (storeAfter cfg txt (serve1 cfg txt stPre qi).1 (mid.map (·.2))) qj).2 := by
    rw [hs, lemma_lookup_runSeq cfg txt [] _ post ij.2 qj (by
      intro x hx
      rcases List.mem_append.mp hx with hx | hx
      · exact (hpre x hx).2
      · rcases List.mem_cons.mp hx with hx | hx
        · rw [hx]; exact hne
        · exact (hmid x hx).1)]
    simp only [List.map_append, List.map_cons, lemma_storeAfter_append, hstPre]
    rfl
  -- entries are behind the clock when `qi` is served
  have hna1 : NotAhead cfg.W stPre [qi] := by
    have hsorted' : (pre.map (·.2) ++ qi :: (mid.map (·.2) ++ qj :: post.map (·.2))).Pairwise (fun a b => a.now ≤ b.now) := by
      have := hsorted; rw [hs] at this; simpa using this
    have hna0 : NotAhead cfg.W ([] : WinStore) (pre.map (·.2) ++ qi :: (mid.map (·.2) ++ qj :: post.map (·.2))) := by
      intro k w h; simp at h
    have hna := lemma_notAhead_after cfg txt (pre.map (·.2)) _ [] hsorted' hna0
    rw [hstPre] at hna
    intro k w hl q hq
    simp only [List.mem_singleton] at hq
    subst hq
    exact hna k w hl q (List.mem_cons_self ..)
  have hrun := lemma_retry_in_run cfg txt hW hL stPre qi (mid.map (·.2)) qj hkey
    (by intro q hq; obtain ⟨x, hx, rfl⟩ := List.mem_map.mp hq; exact (hmid x hx).2) hna1
  generalize (serve1 cfg txt stPre qi).2 = A at hli hrun
  generalize (serve1 cfg txt (storeAfter cfg txt (serve1 cfg txt stPre qi).1 (mid.map (·.2))) qj).2 = B at hlj hrun
  rw [hli, hlj, hqi, hqj]
  simp only
  cases hR : A.retryAfter with
  | none => rfl
  | some R =>
    simp only
    by_cases hlate : qj.now ≥ qi.now + R * nsPerSec
    · simp only [hlate, decide_true, if_true]
      exact hrun R hR hlate
    · simp [hlate]

/-- **the whole sliding-window oracle over a store with the one-call interface** — every schedule (any
    interleaving of the requests' steps), any keys and windows, marked retries included: per key and window at
    most `limit` requests reach the handler, a 429 carries `Retry-After` and its handler does not run, and a retry
    at least `Retry-After` seconds later (the key's next request) is admitted. Nothing is excluded for this kind of
    store; the clock readings are non-decreasing in the order in which the store serves the calls. -/
theorem window_meets_spec_atomic (cfg : WinCfg) (txt : Bytes) (reqs : List WinReq) (sched : List Op)
    (retries : List (Nat × Nat)) (hW : 1 ≤ cfg.W) (hL : 1 ≤ cfg.limit) (ha : cfg.atomic = true)
    (hsorted : ((servedOf reqs sched).map (·.2)).Pairwise (fun a b => a.now ≤ b.now))
    (hret : ∀ ij ∈ retries, RetryPair (servedOf reqs sched) ij.1 ij.2) :
    (windowBoundOK cfg reqs (runWin cfg txt reqs sched) && retryOK reqs (runWin cfg txt reqs sched) retries &&
      rejectOK (runWin cfg txt reqs sched)) = true := by
  have hrun : runWin cfg txt reqs sched = runSeq cfg txt [] (servedOf reqs sched) := by
    unfold runWin
    rw [lemma_atomic_fold cfg txt reqs ha]
    simp
  rw [window_atomic_bound cfg txt reqs sched hW ha hsorted, window_reject_has_retry_after]
  rw [hrun, window_retry_ok cfg txt reqs _ hW hL (lemma_served_mem reqs sched) hsorted retries hret]
  rfl

/-- non-vacuity: limit 2, window 2 s, key `a` rejected at its third request, a request of key `b` in between, the
    retry 3 s later — a `RetryPair`, and the retry is admitted -/
example :
    let cfg : WinCfg := { limit := 2, W := 2, headers := true, enforce := true, hasCallback := false, atomic := true }
    let reqs : List WinReq := [{ key := ['a'], now := 10100000000 }, { key := ['a'], now := 10101000000 },
                               { key := ['a'], now := 10102000000 }, { key := ['b'], now := 11000000000 },
                               { key := ['a'], now := 13102000000 }]
    let sched := [Op.get 0, Op.get 1, Op.inc 0, Op.get 2, Op.inc 2, Op.inc 1, Op.get 3, Op.get 4, Op.inc 4, Op.inc 3]
    (runWin cfg [] reqs sched).map (fun a => (a.1, a.2.status, a.2.retryAfter)) =
      [(0, 200, none), (1, 200, none), (2, 429, some 3), (3, 200, none), (4, 200, none)] ∧
    retryOK reqs (runWin cfg [] reqs sched) [(2, 4)] = true := by decide

/-! ### scripted counts: the advertised wait against the declarative estimate, for ANY counts and window length -/

/-- **the middleware's `Retry-After` is truthful against the oracle's own estimate** — any counts (however large),
    any window length ≥ 1 s, `limit ≥ 1`, a store that reports the window the request falls into: if the request is
    answered `Retry-After: R`, then `R` seconds later the sliding estimate (this request counted, no other traffic)
    is strictly below the limit. This is the predicate the driver evaluates on the real code for scripted-count
    cases (`scriptedRetryOK`). -/
theorem scripted_retry_truthful (cfg : WinCfg) (txt : Bytes) (hW : 1 ≤ cfg.W) (hL : 1 ≤ cfg.limit)
    (cur prev ws now : Nat) (h0 : ws * nsPerSec ≤ now) (h1 : now < (ws + cfg.W) * nsPerSec) :
    scriptedRetryOK cfg.limit cfg.W cur prev ws now
      (winAnswer cfg txt (decide_ cfg.limit cfg.W { cur := cur, prev := prev, ws := ws } now)) = true := by
  unfold scriptedRetryOK
  cases hR : (winAnswer cfg txt (decide_ cfg.limit cfg.W { cur := cur, prev := prev, ws := ws } now)).retryAfter with
  | none => rfl
  | some R =>
    obtain ⟨hrej, hRr⟩ := lemma_retryAfter_some cfg txt _ R hR
    simp only [decide_eq_true_eq]
    have hns : (1 : Nat) ≤ nsPerSec := by unfold nsPerSec; omega
    have hWn : 1 ≤ cfg.W * nsPerSec := Nat.mul_pos hW hns
    simp only [decide_, retryAfter, elapsedNs] at hrej hRr
    rw [Nat.le_div_iff_mul_le hWn] at hrej
    have hlate : now + ((if cfg.limit = 0 then 2 * (cfg.W * nsPerSec) - min (now - ws * nsPerSec) (cfg.W * nsPerSec)
        else if cur + 1 < cfg.limit then
          (if 0 < prev then cfg.W * nsPerSec * (prev - (cfg.limit - (cur + 1))) / prev - min (now - ws * nsPerSec) (cfg.W * nsPerSec) else 0)
        else cfg.W * nsPerSec - min (now - ws * nsPerSec) (cfg.W * nsPerSec) + cfg.W * nsPerSec * (cur + 1 - cfg.limit) / (cur + 1)) / nsPerSec + 1) * nsPerSec
        ≤ now + R * nsPerSec := by rw [hRr]; exact Nat.le_refl _
    have hreg := lemma_retry_regime cfg.limit (cfg.W * nsPerSec) (cur + 1) prev _ now (now + R * nsPerSec) hL hlate
    clear hlate hRr hR
    rw [Nat.add_mul] at h1
    unfold estimateNum
    simp only
    have e2 : (ws + 2 * cfg.W) * nsPerSec = ws * nsPerSec + 2 * (cfg.W * nsPerSec) := by
      rw [Nat.add_mul, Nat.mul_assoc]
    have e1 : (ws + cfg.W) * nsPerSec = ws * nsPerSec + cfg.W * nsPerSec := Nat.add_mul ..
    rw [e1, e2]
    generalize cfg.W * nsPerSec = Wn at *
    generalize ws * nsPerSec = x at *
    generalize now + R * nsPerSec = t' at *
    have hel : min (now - x) Wn = now - x := Nat.min_eq_left (by omega)
    rw [hel] at hreg hrej
    rcases hreg with ⟨hcl, hp0⟩ | ⟨hcl, hp, X, hX, hlt⟩ | ⟨hcl, Y, hY, hlt⟩
    · exfalso
      rw [hp0, Nat.zero_mul, Nat.add_zero] at hrej
      have := Nat.le_of_mul_le_mul_right hrej hWn
      omega
    · clear hrej
      by_cases hA : t' < x + Wn
      · simp only [hA, if_true]
        apply lemma_retry_same Wn (cur + 1) prev cfg.limit (t' - x) hcl (by omega)
        exact Nat.lt_of_lt_of_le hX (Nat.mul_le_mul_left _ (by omega))
      · simp only [hA, if_false]
        by_cases hB : t' < x + 2 * Wn
        · simp only [hB, if_true]
          calc (cur + 1) * (Wn - (t' - (x + Wn))) ≤ (cur + 1) * Wn := Nat.mul_le_mul_left _ (Nat.sub_le _ _)
            _ < cfg.limit * Wn := Nat.mul_lt_mul_of_pos_right hcl hWn
        · simp only [hB, if_false]
          exact Nat.mul_pos hL hWn
    · clear hrej
      have hA : ¬ t' < x + Wn := by omega
      simp only [hA, if_false]
      by_cases hB : t' < x + 2 * Wn
      · simp only [hB, if_true]
        apply lemma_retry_next Wn (cur + 1) cfg.limit (t' - (x + Wn)) hL hWn (by omega)
        exact Nat.lt_of_lt_of_le hY (Nat.mul_le_mul_left _ (by omega))
      · simp only [hB, if_false]
        exact Nat.mul_pos hL hWn

/-- non-vacuity, with numbers no real-time test reaches: a 30-day window, a million requests carried over — the
    advertised wait is 1 296 001 s (15 days), and it is truthful; a wait of 4731 s (what an overflowing
    `window*num/den` yields) is not -/
example :
    let cfg : WinCfg := { limit := 500000, W := 2592000, headers := true, enforce := true, hasCallback := false, atomic := true }
    let now := 2592000 * 700 * nsPerSec + 1000
    (winAnswer cfg [] (decide_ cfg.limit cfg.W { cur := 0, prev := 1000000, ws := 2592000 * 700 } now)).retryAfter = some 1296003 ∧
    scriptedRetryOK cfg.limit cfg.W 0 1000000 (2592000 * 700) now
      { status := 429, ran := false, limit := none, remaining := none, reset := none, retryAfter := some 4731 } = false := by
  decide

/-! ### the sliding-window store's cleanup loop is unobservable -/

/-- **an entry the cleanup loop drops answers every later call like no entry at all** (window ≥ 1 s, any counts):
    for every call at or after the sweep, `GetCounts`, `Incr` and `IncrAndGetCounts` report and store the same with
    the entry as without it — the entry's window is at least two windows back, so nothing of it is carried over.
    (True since fix 4e746c8: as shipped a roll carried the old count over however long the entry had been idle.) -/
theorem window_cleanup_unobservable (W : Nat) (hW : 1 ≤ W) (w : Win) (nowSec t : Nat)
    (hdrop : dropsWin W nowSec w = true) (ht : nowSec * nsPerSec ≤ t) :
    getCounts W (some w) t = getCounts W none t ∧ incr W (some w) t = incr W none t := by
  have hnext := lemma_ws_next W t hW
  unfold dropsWin at hdrop
  simp only [Bool.and_eq_true, decide_eq_true_eq] at hdrop
  have hns : (1 : Nat) ≤ nsPerSec := by unfold nsPerSec; omega
  have h2 : (w.ws + 2 * W) * nsPerSec ≤ t := Nat.le_trans (Nat.mul_le_mul_right _ hdrop.2) ht
  have hgap : w.ws + W < windowStart W t := by
    have : (w.ws + 2 * W) * nsPerSec < (windowStart W t + W) * nsPerSec := Nat.lt_of_le_of_lt h2 hnext
    have := Nat.lt_of_mul_lt_mul_right this
    omega
  have hroll : w.ws < windowStart W t := by omega
  unfold getCounts incr carried
  simp only [hroll, hgap, if_true, and_self]

/-- as shipped (before the idle-gap test) the sweep WAS observable: it made the store forget a count that a roll
    would have carried over — limit 2, window 2 s, an entry with 5 counted requests dropped after 3 hours -/
example :
    dropsWin 2 20000 { cur := 5, prev := 0, ws := 10 } = true ∧
    (getCountsAsIs 2 (some { cur := 5, prev := 0, ws := 10 }) (20000 * nsPerSec)).prev = 5 ∧
    (getCounts 2 (some { cur := 5, prev := 0, ws := 10 }) (20000 * nsPerSec)).prev = 0 ∧
    (getCounts 2 none (20000 * nsPerSec)).prev = 0 := by decide

/-! ### sliding window: keys do not influence each other -/

/-- the answers of a list of requests served one after the other -/
def answersOf (cfg : WinCfg) (txt : Bytes) : WinStore → List WinReq → List WinObs
  | _, [] => []
  | st, q :: rest => (serve1 cfg txt st q).2 :: answersOf cfg txt (serve1 cfg txt st q).1 rest

/-- requests of one key only look at (and leave) that key's entry -/
theorem lemma_answers_agree (cfg : WinCfg) (txt : Bytes) (k : Bytes) (l : List WinReq) (st1 st2 : WinStore)
    (hl : ∀ q ∈ l, q.key = k) (hst : st1.lookup k = st2.lookup k) :
    answersOf cfg txt st1 l = answersOf cfg txt st2 l := by
  induction l generalizing st1 st2 with
  | nil => rfl
  | cons q rest ih =>
    have hq : q.key = k := hl q (List.mem_cons_self ..)
    have ha : (serve1 cfg txt st1 q).2 = (serve1 cfg txt st2 q).2 := by
      show winAnswer cfg txt (decide_ cfg.limit cfg.W (getCounts cfg.W (st1.lookup q.key) q.now) q.now) =
           winAnswer cfg txt (decide_ cfg.limit cfg.W (getCounts cfg.W (st2.lookup q.key) q.now) q.now)
      rw [hq, hst]
    have hs : ((serve1 cfg txt st1 q).1).lookup k = ((serve1 cfg txt st2 q).1).lookup k := by
      rw [lemma_serve1_store, lemma_serve1_store, hq, lemma_wlookup_set_self, lemma_wlookup_set_self, hst]
    simp only [answersOf, ha]
    rw [ih _ _ (fun x hx => hl x (List.mem_cons_of_mem _ hx)) hs]

/-- **sliding window, keys are independent** (store with the one-call interface, any clock): in a trace over any
    number of keys, the answers to the requests of key `k` are exactly the answers the same requests get when they
    are served alone — the traffic of other keys changes nothing, neither verdicts nor header values -/
theorem window_keys_independent (cfg : WinCfg) (txt : Bytes) (k : Bytes) (l : List WinReq) (st : WinStore) :
    ((l.zip (answersOf cfg txt st l)).filter (fun p => p.1.key == k)).map (·.2) =
      answersOf cfg txt st (l.filter (fun q => q.key == k)) := by
  induction l generalizing st with
  | nil => rfl
  | cons q rest ih =>
    simp only [answersOf, List.zip_cons_cons, List.filter_cons]
    by_cases hk : q.key = k
    · have hb : (q.key == k) = true := by simp [hk]
      simp only [hb, if_true, List.map_cons, answersOf]
      rw [ih]
    · have hb : (q.key == k) = false := by simp [hk]
      simp only [hb, Bool.false_eq_true, if_false]
      rw [ih]
      apply lemma_answers_agree cfg txt k
      · intro x hx
        have := (List.mem_filter.mp hx).2
        simpa using this
      · rw [lemma_serve1_store]
        exact lemma_wlookup_set_other _ _ _ _ (fun h => hk h.symm)

/-- non-vacuity: key `a` (limit 1) is rejected at its second request whether or not key `b` is busy in between -/
example :
    let cfg : WinCfg := { limit := 1, W := 3600, headers := true, enforce := true, hasCallback := false, atomic := true }
    let a1 : WinReq := { key := ['a'], now := 7200000000007 }
    let b1 : WinReq := { key := ['b'], now := 7200000000008 }
    let a2 : WinReq := { key := ['a'], now := 7200000000009 }
    (answersOf cfg [] [] [a1, b1, b1, a2]).map (·.status) = [200, 200, 429, 429] ∧
    (answersOf cfg [] [] [a1, a2]).map (·.status) = [200, 429] := by decide

/-! ### `ratelimit.New`: the configuration is always positive -/

theorem lemma_fold_positive (opts : List Int) (c : Int) (hc : 1 ≤ c) : 1 ≤ opts.foldl applyPositive c := by
  induction opts generalizing c with
  | nil => exact hc
  | cons o rest ih =>
    simp only [List.foldl_cons]
    apply ih
    unfold applyPositive
    split <;> omega

/-- **whatever options `New` is given** (none, several, zero or negative values), the bucket is built with
    rate ≥ 1 and burst ≥ 1 — the hypotheses of `retry_after_truthful` / `bucket_meets_spec` hold for every limiter
    `New` can return -/
theorem new_config_positive (rateOpts burstOpts : List Int) :
    1 ≤ (newConfig rateOpts burstOpts).1 ∧ 1 ≤ (newConfig rateOpts burstOpts).2 :=
  ⟨lemma_fold_positive rateOpts 100 (by omega), lemma_fold_positive burstOpts 20 (by omega)⟩

example : newConfig [] [] = (100, 20) ∧ newConfig [50, 0, -3] [10, -1] = (50, 10) ∧ newConfig [0] [7, 9] = (100, 9) := by decide

end Rivaas.C16
