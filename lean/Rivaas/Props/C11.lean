import Rivaas.Model.Compiler
import Rivaas.Spec.CompiledClass
/-
C11 — Route compilation is a transparent optimisation.
(first stage: bloom filter has no false negatives; the engine theorems follow)
-/
namespace Rivaas.C11
open Rivaas.Route Rivaas.Radix Rivaas.Compiler

theorem lemma_add_keeps (b : Bloom) (h p : Nat) (hp : p ∈ b.bits) : p ∈ (b.add h).bits := by
  simp [Bloom.add, hp]

/-- adding keys one after the other (`Add` in a loop) -/
def addAll (b : Bloom) : List Nat → Bloom
  | [] => b
  | h :: hs => addAll (b.add h) hs

theorem lemma_addAll_keeps (b : Bloom) (hs : List Nat) (p : Nat) (hp : p ∈ b.bits) : p ∈ (addAll b hs).bits := by
  induction hs generalizing b with
  | nil => exact hp
  | cons x xs ih => exact ih _ (lemma_add_keeps b x p hp)

theorem lemma_addAll_params (b : Bloom) (hs : List Nat) :
    (addAll b hs).size = b.size ∧ (addAll b hs).seeds = b.seeds := by
  induction hs generalizing b with
  | nil => exact ⟨rfl, rfl⟩
  | cons x xs ih => exact ⟨(ih (b.add x)).1, (ih (b.add x)).2⟩

/-- No false negatives: a key that was added tests positive — for every filter size (1..4096 and
beyond, 0 included), every number of hash functions, every set of keys and every hash value. -/
theorem bloom_no_false_negative (b : Bloom) (hs : List Nat) (h : Nat) (hh : h ∈ hs) :
    (addAll b hs).test h = true := by
  induction hs generalizing b with
  | nil => simp at hh
  | cons y ys ih =>
    simp only [List.mem_cons] at hh
    rcases hh with rfl | hh
    · obtain ⟨hsz, hsd⟩ := lemma_addAll_params (b.add h) ys
      simp only [Bloom.test, List.all_eq_true, List.contains_eq_mem, decide_eq_true_eq, addAll, hsd]
      intro s hs'
      apply lemma_addAll_keeps
      have : (addAll (b.add h) ys).pos h s = b.pos h s := by
        simp only [Bloom.pos, hsz]; rfl
      rw [this]
      simp only [Bloom.add, List.mem_append, List.mem_map]
      left; exact ⟨s, by simpa [Bloom.add] using hs', rfl⟩
    · exact ih (b.add y) hh

example : (addAll (Bloom.new 1 8) [12345, 99]).test 99 = true := by decide

end Rivaas.C11
