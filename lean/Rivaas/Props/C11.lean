import Rivaas.Lemmas.CompilerStage1
/-
C11 — Route compilation is a transparent optimisation.

Model   : Model/Compiler.lean (`serveCompiled`, `serveVersioned`, `serveWith`: compiled static table with
          bloom filter, specificity-sorted dynamic list with first-segment index, `matchAndExtract`,
          per-tree tables, version cache) on top of Model/Radix.lean (the tree engine)
Oracle  : the tree engine itself (`serve`), both engines built from the same registration script
Classes : Spec/CompiledClass.lean (`dOrder1` K11a, `normal` K11e; K11d and K11f were repaired) and the
          tree-side class of C01 (K01c `overwrite`: `dSameShape1`, `dReplaced1`)

`hash` (FNV-1a in the code) is an arbitrary function; the theorems state as a hypothesis that it
separates the keys in play.
-/
namespace Rivaas.C11
open Rivaas.Route Rivaas.Radix Rivaas.Compiler Rivaas.Match Rivaas.MatchL Rivaas.RadixL Rivaas.CompilerL Rivaas.C01

/-! ### bloom filter -/

/-- adding keys one after the other (`Add` in a loop) -/
def addAll (b : Bloom) : List Nat → Bloom
  | [] => b
  | h :: hs => addAll (b.add h) hs

theorem lemma_addAll_has (b : Bloom) (hs : List Nat) (h : Nat) (hb : Bloom.has b h) : Bloom.has (addAll b hs) h := by
  induction hs generalizing b with
  | nil => exact hb
  | cons x xs ih => exact ih _ (Bloom.has_add_mono b h x hb)

/-- **No false negatives**: a key that was added tests positive — for every filter size (1..4096 and
beyond, 0 included), every number of hash functions, every set of keys and every hash value. -/
theorem bloom_no_false_negative (b : Bloom) (hs : List Nat) (h : Nat) (hh : h ∈ hs) :
    (addAll b hs).test h = true := by
  apply Bloom.test_of_has
  induction hs generalizing b with
  | nil => simp at hh
  | cons y ys ih =>
    simp only [List.mem_cons] at hh
    rcases hh with rfl | hh
    · exact lemma_addAll_has _ ys h (Bloom.has_add_self b h)
    · exact ih (b.add y) hh

example : (addAll (Bloom.new 1 8) [12345, 99]).test 99 = true := by decide

/-! ### from the driver's Boolean side conditions to the hypotheses of the lemmas -/

theorem lemma_good (script : List Reg) (R : List Route) (hR : specRoutes script = some R) (hN : normal R = true)
    (hstd : ∀ g ∈ script, g.method ∈ stdMethods) : StatR R ∧ GoodR R := by
  have hNR := lemma_normalR R hN
  have hall : ∀ r ∈ R, NormalPat r.text r.pat ∧ r.method ∈ stdMethods ∧
      parsePattern r.text = some r.pat := by
    intro r hr
    have hn := (hNR r hr).1
    refine ⟨hn, ?_, ?_⟩
    · obtain ⟨g, hg, hgm⟩ := lemma_methods script 0 R hR r hr
      rw [hgm]; exact hstd g hg
    · simp only [normal, List.all_eq_true] at hN
      have := hN r hr
      simp only [normalRoute, Bool.and_eq_true, decide_eq_true_eq] at this
      exact this.1
  exact ⟨hall, fun r hr => (hall r hr).1⟩

/-- the texts the hash has to separate for one request: the request's own keys and every registered
(method, pattern) and pattern -/
def hashKeys (R : List Route) (req : Req) : List Bytes :=
  (req.method ++ req.path) :: req.path :: ((R.map fun r => r.method ++ r.text) ++ R.map (·.text))

theorem lemma_inj1 (hash : Bytes → Nat) (R : List Route) (req : Req) (h : InjOn hash (hashKeys R req)) :
    InjOn hash ((req.method ++ req.path) :: R.map fun r => r.method ++ r.text) := by
  intro a ha b hb hab
  apply h a _ b _ hab
  · simp only [hashKeys, List.mem_cons, List.mem_append] at ha ⊢
    rcases ha with ha | ha
    · left; exact ha
    · right; right; left; exact ha
  · simp only [hashKeys, List.mem_cons, List.mem_append] at hb ⊢
    rcases hb with hb | hb
    · left; exact hb
    · right; right; left; exact hb

theorem lemma_inj2 (hash : Bytes → Nat) (R : List Route) (req : Req) (h : InjOn hash (hashKeys R req)) :
    InjOn hash (req.path :: R.map (·.text)) := by
  intro a ha b hb hab
  apply h a _ b _ hab
  · simp only [hashKeys, List.mem_cons, List.mem_append] at ha ⊢
    rcases ha with ha | ha
    · right; left; exact ha
    · right; right; right; exact ha
  · simp only [hashKeys, List.mem_cons, List.mem_append] at hb ⊢
    rcases hb with hb | hb
    · right; left; exact hb
    · right; right; right; exact hb

/-! ### the engines -/

/-- **C11, main tree.** For every script of the vocabulary, every constraint table, every bloom filter
size and number of hash functions, and every request whose path starts with `/` (empty and trailing
segments included): unless the request is in one of the recorded classes, the engine with route
compilation answers exactly like the plain tree engine — same status, same handler, same route pattern,
same parameter bindings, same `Allow`. The order of the compiled candidate list, the first-segment index
and the ten-route thresholds do not enter. -/
theorem compiled_eq_tree_partial (hash : Bytes → Nat) (sat : Nat → Bytes → Bool) (o : Opts) (noRoute : Bool)
    (script : List Reg) (R : List Route) (hR : specRoutes script = some R) (hN : normal R = true)
    (hstd : ∀ g ∈ script, g.method ∈ stdMethods)
    (req : Req) (hp : req.path.head? = some '/') (hmeth : '/' ∉ req.method)
    (hinj : InjOn hash (hashKeys R req))
    (hNm : dSameShape1 sat R req.method (cutAny req.path) = false)
    (hOw : dReplaced1 sat R req.method (cutAny req.path) = false)
    (hO : dOrder1 sat R req.method (cutAny req.path) = false) :
    serveCompiled hash sat o script noRoute req = serve sat (build noRoute script) req := by
  obtain ⟨hStat, hGood⟩ := lemma_good script R hR hN hstd
  unfold serveCompiled
  simp only
  cases h1 : (rcBuild hash script).lookupStatic hash req.method req.path with
  | some cr =>
    exact stage1_eq hash sat noRoute script R hR hN hStat hstd req hp hmeth (lemma_inj1 hash R req hinj) hOw cr h1
  | none =>
    simp only
    cases h2 : (rcBuild hash script).matchDynamic sat req.method req.path with
    | some res =>
      obtain ⟨cr, e⟩ := res
      exact stage2_eq hash sat noRoute script R hR hN hGood hstd req hp hNm hOw hO cr e h2
    | none =>
      simp only
      unfold serve
      by_cases hm : req.method ∈ stdMethods
      · rw [treeOf_build noRoute script R hR req.method hm]
        by_cases hf : R.filter (·.method = req.method) = []
        · simp [hf]
        · simp only [hf, if_false]
          exact stage3_eq hash sat R (fun r hr => hGood r hr) req.method o.size o.k req (build noRoute script)
            (lemma_inj2 hash R req hinj)
      · have : treeOf (build noRoute script) req.method = none := by simp [treeOf, hm]
        rw [this]

/-- **C11, version tree.** Inside a version tree the answer does not depend on the options: `serveVersioned`
never reads `o.compiled` (as serve.go: the version cache is used whatever the flag says), so what is proved is
independence of the bloom configuration (size, number of hash functions) for every placement of `Warmup()`.
No recorded class is needed (`order`, `overwrite`), but the route set is assumed `normal` (vocabulary, declared
constraint names) and the hash separating the keys in play. That the version cache answers like the version
tree's walk is not a theorem (the main-tree analogue is `stage1_eq` / `stage3_eq`): correspondence only. -/
theorem versioned_eq (hash : Bytes → Nat) (sat : Nat → Bytes → Bool) (o o' : Opts) (hw : o.warmAt = o'.warmAt) (noRoute : Bool)
    (script : List Reg) (R : List Route) (hR : specRoutes script = some R) (hN : normal R = true)
    (hstd : ∀ g ∈ script, g.method ∈ stdMethods) (req : Req) (hinj : InjOn hash (hashKeys R req)) :
    serveVersioned hash sat o script noRoute req = serveVersioned hash sat o' script noRoute req := by
  have hNR := lemma_normalR R hN
  apply versioned_transparent hash sat o o' hw noRoute script R hR (fun r hr => (hNR r hr).1) _ req
    (lemma_inj2 hash R req hinj)
  intro r hr
  obtain ⟨g, hg, hgm⟩ := lemma_methods script 0 R hR r hr
  rw [hgm]; exact hstd g hg

/-- **C11, as the harness observes it**: the engine selected by any options against the plain engine
in the same placement (main tree or version tree). -/
theorem C11_partial (hash : Bytes → Nat) (sat : Nat → Bytes → Bool) (o : Opts) (noRoute : Bool)
    (script : List Reg) (R : List Route) (hR : specRoutes script = some R) (hN : normal R = true)
    (hstd : ∀ g ∈ script, g.method ∈ stdMethods)
    (req : Req) (hp : req.path.head? = some '/') (hmeth : '/' ∉ req.method)
    (hinj : InjOn hash (hashKeys R req))
    (hNm : dSameShape1 sat R req.method (cutAny req.path) = false)
    (hOw : dReplaced1 sat R req.method (cutAny req.path) = false)
    (hO : dOrder1 sat R req.method (cutAny req.path) = false) :
    serveWith hash sat o script noRoute req =
      serveWith hash sat { compiled := false, bloomSize := 0, bloomK := 0, versioned := o.versioned, warmAt := o.warmAt } script noRoute req := by
  unfold serveWith
  by_cases hv : o.versioned = true
  · simp only [hv, if_true]
    exact versioned_eq hash sat o { compiled := false, bloomSize := 0, bloomK := 0, versioned := true, warmAt := o.warmAt } rfl noRoute script R hR hN hstd req hinj
  · simp only [hv, Bool.false_eq_true, if_false]
    by_cases hc : o.compiled = true
    · simp only [hc, if_true]
      exact compiled_eq_tree_partial hash sat o noRoute script R hR hN hstd req hp hmeth hinj hNm hOw hO
    · simp [hc]

/-- **Every difference between the two engines is classified**: where the driver prints `-` the
engines agree. -/
theorem classify11_dash (hash : Bytes → Nat) (sat : Nat → Bytes → Bool) (o : Opts) (noRoute : Bool)
    (script : List Reg) (R : List Route) (hR : specRoutes script = some R)
    (hstd : ∀ g ∈ script, g.method ∈ stdMethods)
    (req : Req) (hp : req.path.head? = some '/') (hmeth : '/' ∉ req.method)
    (hinj : InjOn hash (hashKeys R req))
    (hcls : classify11 sat R req (cutAny req.path) = "-") :
    serveWith hash sat o script noRoute req =
      serveWith hash sat { compiled := false, bloomSize := 0, bloomK := 0, versioned := o.versioned, warmAt := o.warmAt } script noRoute req := by
  unfold classify11 at hcls
  simp only at hcls
  cases hN : normal R with
  | false => simp [hN] at hcls
  | true =>
    cases hNm : dSameShape1 sat R req.method (cutAny req.path) with
    | true => simp [hN, hNm] at hcls
    | false =>
      cases hOw : dReplaced1 sat R req.method (cutAny req.path) with
      | true => simp [hN, hNm, hOw] at hcls
      | false =>
        cases hO : dOrder1 sat R req.method (cutAny req.path) with
        | true => simp [hN, hNm, hOw, hO] at hcls
        | false =>
          exact C11_partial hash sat o noRoute script R hR hN hstd req hp hmeth hinj hNm hOw hO

/-! ### witnesses of the recorded findings (replayed on the implementation: corpus/C11) and of the
repaired ones -/

def B (s : String) : Bytes := s.toList
def G : Bytes := B "GET"
def anySat : Nat → Bytes → Bool := fun _ _ => true
def reg (m p : String) (cons : List (Bytes × Nat) := []) : Reg := ⟨B m, [], B p, cons, none⟩
/-- a hash that separates all byte strings (base-257 reading) -/
def polyHash (bs : Bytes) : Nat := bs.foldl (fun h c => h * 257 + c.toNat + 1) 0
def onOpts : Opts := ⟨true, 0, 0, false, none⟩

/-- K11a — the compiled matcher scans by number of static segments, then registration order -/
def k11aScript : List Reg := [reg "GET" "/:kind/list", reg "GET" "/users/:id"]
def k11aReq : Req := ⟨G, B "/users/list", [B "kind", B "id"]⟩

theorem K11a_witness : ∃ R, specRoutes k11aScript = some R ∧
    (serveCompiled polyHash anySat onOpts k11aScript false k11aReq).ran = some 0 ∧
    (serve anySat (build false k11aScript) k11aReq).ran = some 1 ∧
    classify11 anySat R k11aReq (cutAny k11aReq.path) = "order" :=
  ⟨_, rfl, by decide, by decide, by decide⟩

/-- K11b (repaired in dc644f8) — as shipped, the two-segment fast path accepted an empty parameter -/
theorem K11b_asIs_witness :
    (matchAndExtractGen true anySat (compileRoute G (B "/users/:id") [] 0) (B "/users/") []).1 = true ∧
    (matchAndExtractGen false anySat (compileRoute G (B "/users/:id") [] 0) (B "/users/") []).1 = false ∧
    (serve anySat (build false [reg "GET" "/users/:id"]) ⟨G, B "/users/", []⟩).status = 404 :=
  ⟨by decide, by decide, by decide⟩

/-- K11c (repaired in 1f65990) — a nine-parameter route: nine writes, eight inline slots. As shipped
`paramCount` was set to 9 and `Param` indexed past the array; now eight slots and one map entry. -/
def k11cRoute : CRoute := compileRoute G (B "/:p1/:p2/:p3/:p4/:p5/:p6/:p7/:p8/:p9") [] 0

theorem K11c_witness :
    k11cRoute.params.length = 9 ∧
    (matchAndExtract anySat k11cRoute (B "/1/2/3/4/5/6/7/8/9") []).1 = true ∧
    (matchAndExtract anySat k11cRoute (B "/1/2/3/4/5/6/7/8/9") []).2.slots.length = 8 ∧
    (matchAndExtract anySat k11cRoute (B "/1/2/3/4/5/6/7/8/9") []).2.over = [(B "p9", B "9")] :=
  ⟨by decide, by decide, by decide, by decide⟩

/-- K11d (repaired in 6caf0d2) — as shipped only the first constraint of a parameter was compiled:
constraint 0 accepts everything, constraint 1 nothing -/
def k11dSat : Nat → Bytes → Bool := fun cid _ => cid == 0
def k11dCons : List (Bytes × Nat) := [(B "id", 0), (B "id", 1)]

theorem K11d_asIs_witness :
    (matchAndExtract k11dSat (compileRouteGen false true G (B "/u/:id") k11dCons 0) (B "/u/07") []).1 = true ∧
    (matchAndExtract k11dSat (compileRoute G (B "/u/:id") k11dCons 0) (B "/u/07") []).1 = false ∧
    (serve k11dSat (build false [reg "GET" "/u/:id" k11dCons]) ⟨G, B "/u/07", []⟩).status = 404 :=
  ⟨by decide, by decide, by decide⟩

/-- K11e — a constraint on a name the pattern does not declare -/
def k11eScript : List Reg := [reg "GET" "/u/:id" [(B "uid", 0)]]
def k11eReq : Req := ⟨G, B "/u/7", [B "id"]⟩

theorem K11e_witness : ∃ R, specRoutes k11eScript = some R ∧
    (serveCompiled polyHash anySat onOpts k11eScript false k11eReq).ran = some 0 ∧
    (serve anySat (build false k11eScript) k11eReq).status = 404 ∧
    classify11 anySat R k11eReq (cutAny k11eReq.path) = "undeclared" :=
  ⟨_, rfl, by decide, by decide, by decide⟩

/-- K11f (repaired in 59d7821) — as shipped `CompileRoute` trimmed white space from the pattern, the
tree registers it as written -/
theorem K11f_asIs_witness :
    (compileRouteGen true false G (B "/a/:x ") [] 0).pattern = B "/a/:x" ∧
    (compileRoute G (B "/a/:x ") [] 0).pattern = B "/a/:x " ∧
    (serve anySat (build false [reg "GET" "/a/:x "]) ⟨G, B "/a/1", [B "x "]⟩).pattern = B "/a/:x " ∧
    (serveCompiled polyHash anySat onOpts [reg "GET" "/a/:x "] false ⟨G, B "/a/1", [B "x "]⟩).lookups = [(B "x ", B "1")] :=
  ⟨by decide, by decide, by decide, by decide⟩

/-! ### non-vacuity -/

def exSat : Nat → Bytes → Bool := fun _ v => v == B "42"
def exScript : List Reg :=
  [reg "GET" "/users/:id" [(B "id", 0)], reg "GET" "/users/list", reg "GET" "/health", reg "POST" "/users/:id",
   reg "GET" "/files/*", reg "GET" "/"]
def exReq : Req := ⟨G, B "/users/42", [B "id"]⟩
def exOpts : Opts := ⟨true, 7, 5, false, none⟩

/-- the hypotheses of `compiled_eq_tree_partial` hold for a script with a constrained parameter route,
static siblings, a second method, a wildcard and the root, a 7-bit bloom filter with 5 hash functions,
and a hash that separates the keys; the compiled dynamic stage is the one that answers -/
example : ∃ R, specRoutes exScript = some R ∧ normal R = true ∧
    (∀ g ∈ exScript, g.method ∈ stdMethods) ∧ exReq.path.head? = some '/' ∧ '/' ∉ exReq.method ∧
    dSameShape1 exSat R exReq.method (cutAny exReq.path) = false ∧
    dReplaced1 exSat R exReq.method (cutAny exReq.path) = false ∧ dOrder1 exSat R exReq.method (cutAny exReq.path) = false ∧
    InjOn polyHash (hashKeys R exReq) ∧
    ((rcBuild polyHash exScript).matchDynamic exSat exReq.method exReq.path).isSome = true ∧
    (serveCompiled polyHash exSat exOpts exScript false exReq).lookups = [(B "id", B "42")] :=
  ⟨_, rfl, by decide, by decide, by decide, by decide, by decide, by decide, by decide,
   by unfold InjOn; decide, by decide, by decide⟩

/-- the placement of the explicit `Warmup()` is part of the versioned engine: the version cache keeps the
static routes as they were at warm-up (registered before it: answered from the cache, handler 0; the
re-registration after it only reaches the tree), while a route registered after warm-up is served by the tree -/
example :
    (serveVersioned polyHash anySat ⟨true, 0, 0, true, some 1⟩ [reg "GET" "/a", reg "GET" "/a", reg "GET" "/b/:x"] false ⟨G, B "/a", []⟩).ran = some 0 ∧
    (serveVersioned polyHash anySat ⟨true, 0, 0, true, none⟩ [reg "GET" "/a", reg "GET" "/a", reg "GET" "/b/:x"] false ⟨G, B "/a", []⟩).ran = some 1 ∧
    (serveVersioned polyHash anySat ⟨true, 0, 0, true, some 1⟩ [reg "GET" "/a", reg "GET" "/a", reg "GET" "/b/:x"] false ⟨G, B "/b/7", []⟩).ran = some 2 := by
  decide

end Rivaas.C11
