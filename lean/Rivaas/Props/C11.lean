/- C11 — property theorems (stub: not built yet) -/
