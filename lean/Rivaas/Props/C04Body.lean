import Rivaas.Model.BindBody
import Rivaas.Spec.BindBody
import Rivaas.Lemmas.BindVal
import Rivaas.Lemmas.BindConv
/-
C04 — the body side of binding (JSON / XML entry points, body sources of Bind / BindTo,
app.Context.Bind) and registered converters. Property theorems over `Model/BindBody.lean`.
-/
namespace Rivaas.C04
open Rivaas Rivaas.Bind

def toBObs : BOut → Spec.BObs
  | .ok v => .ok v
  | .err e => .err e
  | .panic => .panic

/-- **Reader and byte entry points agree.** A reader that ends with EOF is bound exactly as the byte
    slice of what it delivers — for JSON under every unknown-field policy, and for XML. -/
theorem body_reader_eq_bytes (r : BodyReq) (h : r.readFails = 0) :
    decodeBody { r with reader := true } = decodeBody { r with reader := false } := by
  simp [decodeBody, h]

theorem isOkWith_self (v : Val) : Spec.isOkWith v (.ok v) = true := by
  simp [Spec.isOkWith]

theorem isErrWith_self (e : BErr) : Spec.isErrWith e (.error e) = true := by
  simp [Spec.isErrWith]

theorem any_of_mem {α} (p : α → Bool) (x : α) (xs : List α) (hx : x ∈ xs) (hp : p x = true) : xs.any p = true :=
  List.any_eq_true.mpr ⟨x, hx, hp⟩

/-- the policy part of `decodeBody` (no reader involved) -/
def byPolicy (r : BodyReq) : Except BErr Val :=
  match r.fmt, r.policy with
  | .xml, _ => r.doc.lax.out
  | .json, .ignore => r.doc.lax.out
  | .json, .warn => if r.doc.object then r.doc.lax.out else .error .decode
  | .json, .error => r.doc.strict.out

theorem dec_out_eq (d : Dec) : d.out = Spec.decOut d := by cases d <;> rfl

theorem byPolicy_admissible (r : BodyReq) (hr : r.reader = false ∨ r.readFails ≠ 1) :
    byPolicy r ∈ Spec.admissible r := by
  have hmem : byPolicy r ∈ (match r.fmt, r.policy with
      | .json, .error => [Spec.decOut r.doc.strict]
      | .json, .warn => if r.doc.object then [Spec.decOut r.doc.lax] else [Spec.decOut r.doc.lax, .error .decode]
      | _, _ => [Spec.decOut r.doc.lax] : List (Except BErr Val)) := by
    unfold byPolicy
    cases r.fmt <;> cases r.policy <;> simp [dec_out_eq]
    all_goals (cases r.doc.object <;> simp)
  unfold Spec.admissible
  simp only []
  by_cases h0 : (!r.reader || r.readFails == 0) = true
  · simp only [h0, if_true]; exact hmem
  · simp only [h0, Bool.false_eq_true, if_false]
    have h1 : (r.readFails == 1) = false := by
      cases hr with
      | inl h => simp [h] at h0
      | inr h => simpa using h
    simp only [h1, Bool.false_eq_true, if_false]
    exact List.mem_cons_of_mem _ hmem

/-- **The body entry points meet the oracle.** What JSON / JSONTo / JSONReader / JSONReaderTo / XML… and
    the Binder's forms return for a document — under every policy, for a reader that works, fails inside
    the document or fails after it — is an outcome `Spec.specBody` admits: the decoder's value of *this*
    document, an UnknownFieldError exactly when the strict decoder reports one, the reader's error
    when the document did not arrive. -/
theorem body_meets_spec (r : BodyReq) : Spec.specBody r (toBObs (bindBody r)) = true := by
  have key : decodeBody r ∈ Spec.admissible r := by
    unfold decodeBody
    simp only []
    by_cases hc : (r.reader && (r.readFails == 1 || (r.readFails == 2 && (r.fmt == .json && r.policy != .ignore)))) = true
    · simp only [hc, if_true]
      have hrd : r.reader = true := by
        cases h : r.reader <;> simp [h] at hc ⊢
      unfold Spec.admissible
      simp only []
      have h0 : (!r.reader || r.readFails == 0) = false := by
        simp only [hrd, Bool.not_true, Bool.false_or]
        cases h1 : (r.readFails == 1)
        · simp [hrd, h1] at hc
          have : r.readFails = 2 := hc.1
          simp [this]
        · have : r.readFails = 1 := by simpa using h1
          simp [this]
      simp only [h0, Bool.false_eq_true, if_false]
      split <;> simp
    · have hbp : (match r.fmt, r.policy with
          | .xml, _ => r.doc.lax.out
          | .json, .ignore => r.doc.lax.out
          | .json, .warn => if r.doc.object then r.doc.lax.out else .error .decode
          | .json, .error => r.doc.strict.out) = byPolicy r := rfl
      simp only [hc, Bool.false_eq_true, if_false]
      apply byPolicy_admissible
      by_cases hrd : r.reader = true
      · right
        intro h1
        simp [hrd, h1] at hc
      · left; simpa using hrd
  unfold bindBody
  cases hd : decodeBody r with
  | ok dv =>
    simp only [toBObs, Spec.specBody]
    exact any_of_mem _ _ _ (hd ▸ key) (isOkWith_self dv)
  | error e =>
    simp only [toBObs, Spec.specBody]
    exact any_of_mem _ _ _ (hd ▸ key) (isErrWith_self e)

/-- **Strict mode.** Under `UnknownError` (WithStrictJSON, app.WithStrict) a JSON document with a field
    the destination does not have is refused with that field's name, whatever else the document holds. -/
theorem body_strict_rejects_unknown (r : BodyReq) (n : Bytes) (hf : r.fmt = .json) (hp : r.policy = .error)
    (hs : r.doc.strict = .unknown n) (hr : r.reader = false ∨ r.readFails = 0) :
    decodeBody r = .error (.unknown n) := by
  unfold decodeBody
  cases hr with
  | inl h => simp [h, hf, hp, hs, Dec.out]
  | inr h => simp [h, hf, hp, hs, Dec.out]

/-- a single body source binds what the decoder returns and nothing else -/
theorem bindSteps_body_only (P : Params) (cfg : Cfg) (fs : List Fld) (init : Val) (r : BodyReq) :
    bindSteps P cfg fs init [.body r] =
      match decodeBody r with
      | .ok dv => .ok (mergeDec init dv init)
      | .error e => .err e := by
  simp only [bindSteps, List.filterMap, Step.src?, List.isEmpty_cons, Bool.false_eq_true, if_false, List.length_nil,
    Nat.zero_le, if_true, runSteps]
  cases decodeBody r <;> rfl

theorem mergeVals_self : ∀ (is js : List Val), is.length = js.length → mergeVals is js is = js
  | [], [], _ => rfl
  | i :: is, j :: js, h => by
    have hl : is.length = js.length := by simpa using h
    simp only [mergeVals, mergeVals_self is js hl]
    by_cases hji : j = i
    · simp [hji]
    · have : (j == i) = false := by simpa using hji
      simp [this]
  | [], _ :: _, h => by simp at h
  | _ :: _, [], h => by simp at h

/-- **The Content-Type dispatch** reads the media type only: case, surrounding blanks and parameters do
    not matter; an absent Content-Type means JSON; anything else is refused rather than guessed. -/
theorem classifyCT_examples :
    classifyCT (B "application/json") = .json ∧
    classifyCT (B "application/json; charset=utf-8") = .json ∧
    classifyCT (B "APPLICATION/JSON") = .json ∧
    classifyCT (B " application/json ;x=y") = .json ∧
    classifyCT (B "") = .json ∧
    classifyCT (B "application/merge-patch+json") = .json ∧
    classifyCT (B "application/x-www-form-urlencoded") = .form ∧
    classifyCT (B "Application/X-WWW-Form-Urlencoded; charset=UTF-8") = .form ∧
    classifyCT (B "text/plain") = .other ∧
    classifyCT (B "application/jsonx") = .other ∧
    classifyCT (B "application/xml") = .other := by decide

/-- the request a context's bind decodes: document `d` of the case under the bind's policy -/
def appReq (h : Http) (strict : Bool) (d : Nat) : BodyReq :=
  { fmt := .json, policy := if strict then .error else .ignore, reader := false, readFails := 0, doc := h.docs.getD d default }

/-- **A context remembers the body it has read.** A bind on a context that has read document `d` decodes
    `d` again, whatever the request body holds now … -/
theorem app_bind_remembers (P : Params) (fs : List Fld) (init v : Val) (h : Http) (strict : Bool) (st : CtxState) (c d : Nat)
    (hp : bindMulti P Cfg.default fs init h.params = .ok v) (hb : h.bodyTags = true) (hct : classifyCT h.ctype = .json)
    (hcur : st.cur = some c) (hcache : st.cached = some d) :
    (appBind P fs init h strict st).last =
      match decodeBody (appReq h strict d) with
      | .ok dv => .ok (mergeDec init dv v)
      | .error e => .err e := by
  simp only [appBind, hp, hb, hct, hcur, hcache, Option.getD_some, Bool.not_true, Bool.false_eq_true, if_false, appReq]
  cases decodeBody _ <;> rfl

/-- … **and `ResetBinding` makes it forget**: the next bind decodes the body the request holds at that
    moment (the document a handler or an earlier hook put there), not the one read before. -/
theorem app_reset_then_bind (P : Params) (fs : List Fld) (init v : Val) (h : Http) (strict : Bool) (st : CtxState) (c : Nat)
    (hp : bindMulti P Cfg.default fs init h.params = .ok v) (hb : h.bodyTags = true) (hct : classifyCT h.ctype = .json)
    (hcur : st.cur = some c) :
    (appBind P fs init h strict (appStep P fs init h st .reset)).last =
      match decodeBody (appReq h strict c) with
      | .ok dv => .ok (mergeDec init dv v)
      | .error e => .err e := by
  simp only [appStep, appBind, hp, hb, hct, hcur, Option.getD_none, Bool.not_true, Bool.false_eq_true, if_false, appReq]
  cases decodeBody _ <;> rfl

/-- a Content-Type that is neither JSON nor a form is refused, never guessed -/
theorem app_unsupported_ctype (P : Params) (fs : List Fld) (init v : Val) (h : Http) (strict : Bool) (st : CtxState)
    (hp : bindMulti P Cfg.default fs init h.params = .ok v) (hb : h.bodyTags = true) (hct : classifyCT h.ctype = .other) :
    (appBind P fs init h strict st).last = .err .ctype := by
  simp [appBind, hp, hb, hct]

/-- **bindForm binds from the container its own test of the raw header selects**: `MultipartForm.Value` - the
    fields of the multipart body alone - exactly when the raw Content-Type starts with `multipart/form-data`,
    `Request.Form` otherwise (also for a multipart type written in another case, which the dispatch accepts). -/
theorem app_form_source (h : Http) :
    (hasPrefix h.ctype (B "multipart/form-data") = true → formSrc h = h.mform.getD { kind := .form, kvs := [] }) ∧
    (hasPrefix h.ctype (B "multipart/form-data") = false → formSrc h = h.form) := by
  constructor <;> intro hp <;> simp [formSrc, hp]

theorem app_form_source_examples :
    (formSrc { ctype := B "multipart/form-data; boundary=x", params := [], form := { kind := .form, kvs := [(B "a", [B "url", B "body"])] },
               mform := some { kind := .form, kvs := [(B "a", [B "body"])] }, docs := [], bodyTags := true }).kvs = [(B "a", [B "body"])] ∧
    (formSrc { ctype := B "Multipart/Form-Data; boundary=x", params := [], form := { kind := .form, kvs := [(B "a", [B "url"])] },
               mform := none, docs := [], bodyTags := true }).kvs = [(B "a", [B "url"])] ∧
    classifyCT (B "multipart/form-data; boundary=x") = .multipart ∧ classifyCT (B "Multipart/Form-Data; boundary=x") = .multipart := by
  decide

/-! ## registered converters -/

/-- **A registered converter decides alone.** For a leaf type with a converter in force (the Binder's,
    or the per-call one that replaces it) the bound value is the converter's result and its refusal is
    the bind's refusal; the built-in parsing of that type plays no part. Leaf types without a converter
    are converted as before (`conv_meets_denote` covers both). -/
theorem converter_decides (P : Params) (cfg : Cfg) (k c : Nat) (s : Bytes) (h : cfg.convs.lookup k = some c) :
    convPrim P cfg (.opq k) s = ((P s).c.lookup c).map .time := by
  simp [convPrim, h]

theorem converter_decides_time (P : Params) (cfg : Cfg) (c : Nat) (s : Bytes) (h : cfg.convs.lookup timeKey = some c) :
    convPrim P cfg .time s = ((P s).c.lookup c).map .time := by
  simp [convPrim, h]

/-- defaults computed once per type are converted without any converter (parseStructType uses the default
    configuration): the built-in parsing -/
theorem default_cfg_has_no_converter (P : Params) (k : Nat) (s : Bytes) :
    convPrim P Cfg.default (.opq k) s = ((P s).o.lookup k).map .time := by
  simp [convPrim, Cfg.default]

end Rivaas.C04
