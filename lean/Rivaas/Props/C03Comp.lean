import Rivaas.Props.C03
import Rivaas.Props.C03Conc
/-
C03, composition (review item C03-1): `fresh_view` is about histories of ATOMIC serves, `interleaving_exclusive` about
ids without fields. Here the two are put together: the objects of the interleaved system carry the fields of
router.Context (`store`), a borrow gets an object, PREPARES it (the steps of its serve path, `covers`), lets handlers
change it arbitrarily, and hands it back through `reset` — interleaved in any way with any number of other borrows, with
any choice of pooled or new objects by sync.Pool. Theorem `interleaved_fresh_view`: the view every handler starts with
equals the view on a brand-new context prepared the same way.
-/
namespace Rivaas.C03
open Rivaas.Pool

inductive CEv
  | get (pick : Option Nat)
  | prepare (steps : List Step)          -- the serve path's preparation; the first handler then looks at the context
  | dirty (f : Ctx → Ctx)                -- handlers change any field in any way
  | release                              -- reset + Put
  | drop                                 -- panic exit without a deferred release

structure CAct where
  b : Nat
  ev : CEv

structure CSys where
  base : Sys := {}
  store : Nat → Ctx := fun _ => brandNew       -- the fields of every object
  pending : List Nat := []                     -- borrows that got an object and have not prepared / changed it yet
  views : List (View × View) := []             -- (what the first handler saw, what it would see on a brand-new context)

def setStore (st : Nat → Ctx) (o : Nat) (c : Ctx) : Nat → Ctx := fun x => if x = o then c else st x

def CSys.step (s : CSys) (a : CAct) : Option CSys :=
  match a.ev with
  | .get pick =>
    match s.base.step ⟨a.b, .get pick⟩ with
    | some b' => some { s with base := b', pending := a.b :: s.pending }
    | none => none
  | .prepare steps =>
    if !(s.pending.contains a.b) || !(covers {} steps) then none else
    match holderOf s.base.held a.b, s.base.step ⟨a.b, .touch⟩ with
    | some o, some b' =>
      some { base := b', store := setStore s.store o (prepare steps (s.store o)), pending := s.pending.filter (· != a.b),
             views := s.views ++ [(view (prepare steps (s.store o)), view (prepare steps brandNew))] }
    | _, _ => none
  | .dirty f =>
    if s.pending.contains a.b then none else
    match holderOf s.base.held a.b, s.base.step ⟨a.b, .touch⟩ with
    | some o, some b' => some { s with base := b', store := setStore s.store o (f (s.store o)) }
    | _, _ => none
  | .release =>
    match holderOf s.base.held a.b, s.base.step ⟨a.b, .release⟩ with
    | some o, some b' =>
      some { s with base := b', store := setStore s.store o (reset (s.store o)), pending := s.pending.filter (· != a.b) }
    | _, _ => none
  | .drop =>
    match s.base.step ⟨a.b, .drop⟩ with
    | some b' => some { s with base := b', pending := s.pending.filter (· != a.b) }
    | none => none

def CSys.run (s : CSys) : List CAct → Option CSys
  | [] => some s
  | a :: rest => (s.step a).bind fun s' => s'.run rest

structure CInv (s : CSys) : Prop where
  own : OwnInv s.base
  freeClean : ∀ o ∈ s.base.free, Clean (s.store o)
  newClean : ∀ o, s.base.fresh ≤ o → s.store o = brandNew
  pendClean : ∀ b ∈ s.pending, ∃ o, holderOf s.base.held b = some o ∧ Clean (s.store o)
  viewsOK : ∀ v ∈ s.views, v.1 = v.2

/-! effects of the base steps on `held`, `free`, `fresh` -/

theorem lemma_touch_effect (s s' : Sys) (b : Nat) (h : s.step ⟨b, .touch⟩ = some s') :
    s'.held = s.held ∧ s'.free = s.free ∧ s'.fresh = s.fresh := by
  unfold Sys.step at h
  simp only at h
  split at h
  · cases h
  · cases hh : holderOf s.held b with
    | none => simp [hh] at h
    | some o => simp only [hh, Option.some.injEq] at h; subst h; exact ⟨rfl, rfl, rfl⟩

theorem lemma_release_effect (s s' : Sys) (b o : Nat) (ho : holderOf s.held b = some o) (h : s.step ⟨b, .release⟩ = some s') :
    s'.held = s.held.filter (·.1 != b) ∧ s'.free = o :: s.free ∧ s'.fresh = s.fresh := by
  unfold Sys.step at h
  simp only at h
  split at h
  · cases h
  · simp only [ho, Option.some.injEq] at h; subst h; exact ⟨rfl, rfl, rfl⟩

theorem lemma_drop_effect (s s' : Sys) (b : Nat) (h : s.step ⟨b, .drop⟩ = some s') :
    s'.held = s.held.filter (·.1 != b) ∧ s'.free = s.free ∧ s'.fresh = s.fresh := by
  unfold Sys.step at h
  simp only at h
  split at h
  · cases h
  · simp only [Option.some.injEq] at h; subst h; exact ⟨rfl, rfl, rfl⟩

theorem lemma_get_effect (s s' : Sys) (b : Nat) (pick : Option Nat) (h : s.step ⟨b, .get pick⟩ = some s') :
    ∃ o, s'.held = (b, o) :: s.held ∧
      ((o ∈ s.free ∧ (∀ x ∈ s'.free, x ∈ s.free) ∧ s'.fresh = s.fresh) ∨
       (o = s.fresh ∧ s'.free = s.free ∧ s'.fresh = s.fresh + 1)) := by
  unfold Sys.step at h
  simp only at h
  split at h
  · cases h
  · simp only [Option.some.injEq] at h
    cases hp : pick.bind (fun i => s.free[i]?.map fun o => (o, i)) with
    | none =>
      simp only [hp] at h; subst h
      exact ⟨s.fresh, rfl, Or.inr ⟨rfl, rfl, rfl⟩⟩
    | some oi =>
      obtain ⟨o, i⟩ := oi
      simp only [hp] at h; subst h
      have hoi : s.free[i]? = some o := by
        cases pick with
        | none => simp at hp
        | some j =>
          simp only [Option.bind_some, Option.map_eq_some_iff, Prod.mk.injEq] at hp
          obtain ⟨o', ho', rfl, rfl⟩ := hp
          exact ho'
      exact ⟨o, rfl, Or.inl ⟨List.mem_of_getElem? hoi, fun x hx => List.mem_of_mem_eraseIdx hx, rfl⟩⟩

theorem lemma_holderOf_cons_ne (held : List (Nat × Nat)) (b b' o : Nat) (h : b' ≠ b) :
    holderOf ((b, o) :: held) b' = holderOf held b' := by
  unfold holderOf
  have : ((b, o).1 == b') = false := by simpa using fun he => h he.symm
  simp [this]

theorem lemma_holderOf_filter_ne (held : List (Nat × Nat)) (b b' : Nat) (h : b' ≠ b) :
    holderOf (held.filter (·.1 != b)) b' = holderOf held b' := by
  unfold holderOf
  rw [List.find?_filter]
  have hp : (fun a : Nat × Nat => decide ((a.1 != b) = true ∧ (a.1 == b') = true)) = (fun a => a.1 == b') := by
    funext a
    by_cases h1 : a.1 = b'
    · have h2 : a.1 ≠ b := by rw [h1]; exact h
      simp [h1, h]
    · simp [h1]
  rw [hp]

/-- another borrow's object is a different object -/
theorem lemma_other_object (s : Sys) (h : OwnInv s) (b b' o o' : Nat) (hb : holderOf s.held b = some o)
    (hb' : holderOf s.held b' = some o') (hne : b' ≠ b) : o' ≠ o := by
  intro he
  subst he
  have h1 := lemma_holderOf hb
  have h2 := lemma_holderOf hb'
  have := lemma_pair_eq s.held h.heldO (b, o') (b', o') h1 h2 rfl
  simp only [Prod.mk.injEq] at this
  exact hne this.1.symm

theorem lemma_setStore_ne (st : Nat → Ctx) (o x : Nat) (c : Ctx) (h : x ≠ o) : setStore st o c x = st x := by
  simp [setStore, h]

/-- writing to the object a borrow holds keeps everything the invariant says about OTHER objects -/
theorem lemma_write_own (s : CSys) (h : CInv s) (b o : Nat) (c : Ctx) (ho : holderOf s.base.held b = some o) :
    (∀ x ∈ s.base.free, Clean (setStore s.store o c x)) ∧
    (∀ x, s.base.fresh ≤ x → setStore s.store o c x = brandNew) ∧
    (∀ b' ∈ s.pending.filter (· != b), ∃ o', holderOf s.base.held b' = some o' ∧ Clean (setStore s.store o c o')) := by
  have hm := lemma_holderOf ho
  have hmem : o ∈ s.base.held.map (·.2) := by simp only [List.mem_map]; exact ⟨(b, o), hm, rfl⟩
  refine ⟨?_, ?_, ?_⟩
  · intro x hx
    have : x ≠ o := fun he => h.own.disj x hx (he ▸ hmem)
    rw [lemma_setStore_ne _ _ _ _ this]; exact h.freeClean x hx
  · intro x hx
    have : x ≠ o := by
      have := h.own.bound.2 (b, o) hm
      simp only at this
      omega
    rw [lemma_setStore_ne _ _ _ _ this]; exact h.newClean x hx
  · intro b' hb'
    simp only [List.mem_filter, bne_iff_ne, ne_eq] at hb'
    obtain ⟨o', ho', hc⟩ := h.pendClean b' hb'.1
    refine ⟨o', ho', ?_⟩
    rw [lemma_setStore_ne _ _ _ _ (lemma_other_object s.base h.own b b' o o' ho ho' hb'.2)]
    exact hc

theorem cinv_step (s s' : CSys) (a : CAct) (h : CInv s) (hs : s.step a = some s') : CInv s' := by
  unfold CSys.step at hs
  cases hev : a.ev with
  | get pick =>
    simp only [hev] at hs
    cases hb : s.base.step ⟨a.b, .get pick⟩ with
    | none => simp [hb] at hs
    | some b' =>
      simp only [hb, Option.some.injEq] at hs
      subst hs
      have hown := inv_step s.base b' ⟨a.b, .get pick⟩ h.own hb
      obtain ⟨o, hheld, hcase⟩ := lemma_get_effect s.base b' a.b pick hb
      have hnb : a.b ∉ s.base.held.map (·.1) := by
        have := hown.heldB
        rw [hheld] at this
        simp only [List.map_cons, List.nodup_cons] at this
        exact this.1
      have hoClean : Clean (s.store o) := by
        rcases hcase with ⟨hof, _, _⟩ | ⟨hof, _, _⟩
        · exact h.freeClean o hof
        · rw [h.newClean o (by omega)]; exact brandNew_clean
      refine ⟨hown, ?_, ?_, ?_, h.viewsOK⟩
      · intro x hx
        rcases hcase with ⟨_, hsub, _⟩ | ⟨_, hfree, _⟩
        · exact h.freeClean x (hsub x hx)
        · rw [hfree] at hx; exact h.freeClean x hx
      · intro x hx
        rcases hcase with ⟨_, _, hf⟩ | ⟨_, _, hf⟩
        · rw [hf] at hx; exact h.newClean x hx
        · rw [hf] at hx; exact h.newClean x (by omega)
      · intro b hbm
        simp only [List.mem_cons] at hbm
        rcases hbm with rfl | hbm
        · refine ⟨o, ?_, hoClean⟩
          rw [hheld]; simp [holderOf]
        · obtain ⟨o', ho', hc⟩ := h.pendClean b hbm
          have hne : b ≠ a.b := by
            intro he
            apply hnb
            have := lemma_holderOf ho'
            simp only [List.mem_map]
            exact ⟨(b, o'), this, he⟩
          exact ⟨o', by rw [hheld, lemma_holderOf_cons_ne _ _ _ _ hne]; exact ho', hc⟩
  | prepare steps =>
    simp only [hev] at hs
    split at hs
    · cases hs
    · rename_i hcond
      simp only [Bool.or_eq_true, Bool.not_eq_true', not_or, Bool.not_eq_false] at hcond
      obtain ⟨hpend, hcov⟩ := hcond
      have hpm : a.b ∈ s.pending := by simpa using hpend
      cases ho : holderOf s.base.held a.b with
      | none => simp [ho] at hs
      | some o =>
        cases hb : s.base.step ⟨a.b, .touch⟩ with
        | none => simp [ho, hb] at hs
        | some b' =>
          simp only [ho, hb, Option.some.injEq] at hs
          subst hs
          have hown := inv_step s.base b' ⟨a.b, .touch⟩ h.own hb
          obtain ⟨hh, hf, hfr⟩ := lemma_touch_effect s.base b' a.b hb
          obtain ⟨w1, w2, w3⟩ := lemma_write_own s h a.b o (prepare steps (s.store o)) ho
          obtain ⟨o2, ho2, hc2⟩ := h.pendClean a.b hpm
          have : o2 = o := by rw [ho] at ho2; exact (Option.some.inj ho2).symm
          subst this
          refine ⟨hown, by rw [hf]; exact w1, by rw [hfr]; exact w2, by rw [hh]; exact w3, ?_⟩
          intro v hv
          simp only [List.mem_append, List.mem_singleton] at hv
          rcases hv with hv | rfl
          · exact h.viewsOK v hv
          · exact prepare_fresh steps {} (s.store o2) brandNew hc2 hcov
  | dirty f =>
    simp only [hev] at hs
    split at hs
    · cases hs
    · rename_i hnp
      cases ho : holderOf s.base.held a.b with
      | none => simp [ho] at hs
      | some o =>
        cases hb : s.base.step ⟨a.b, .touch⟩ with
        | none => simp [ho, hb] at hs
        | some b' =>
          simp only [ho, hb, Option.some.injEq] at hs
          subst hs
          have hown := inv_step s.base b' ⟨a.b, .touch⟩ h.own hb
          obtain ⟨hh, hf, hfr⟩ := lemma_touch_effect s.base b' a.b hb
          obtain ⟨w1, w2, w3⟩ := lemma_write_own s h a.b o (f (s.store o)) ho
          refine ⟨hown, by rw [hf]; exact w1, by rw [hfr]; exact w2, ?_, h.viewsOK⟩
          intro b hbm
          have hne : b ≠ a.b := by
            intro he; subst he
            exact hnp (by simpa using hbm)
          rw [hh]
          exact w3 b (by simp only [List.mem_filter, bne_iff_ne, ne_eq]; exact ⟨hbm, hne⟩)
  | release =>
    simp only [hev] at hs
    cases ho : holderOf s.base.held a.b with
    | none => simp [ho] at hs
    | some o =>
      cases hb : s.base.step ⟨a.b, .release⟩ with
      | none => simp [ho, hb] at hs
      | some b' =>
        simp only [ho, hb, Option.some.injEq] at hs
        subst hs
        have hown := inv_step s.base b' ⟨a.b, .release⟩ h.own hb
        obtain ⟨hh, hf, hfr⟩ := lemma_release_effect s.base b' a.b o ho hb
        obtain ⟨w1, w2, w3⟩ := lemma_write_own s h a.b o (reset (s.store o)) ho
        refine ⟨hown, ?_, by rw [hfr]; exact w2, ?_, h.viewsOK⟩
        · intro x hx
          rw [hf] at hx
          simp only [List.mem_cons] at hx
          rcases hx with rfl | hx
          · simp only [setStore, if_true]; exact reset_clean _
          · exact w1 x hx
        · intro b hbm
          obtain ⟨o', ho', hc⟩ := w3 b hbm
          have hne : b ≠ a.b := by
            simp only [List.mem_filter, bne_iff_ne, ne_eq] at hbm; exact hbm.2
          exact ⟨o', by rw [hh, lemma_holderOf_filter_ne _ _ _ hne]; exact ho', hc⟩
  | drop =>
    simp only [hev] at hs
    cases hb : s.base.step ⟨a.b, .drop⟩ with
    | none => simp [hb] at hs
    | some b' =>
      simp only [hb, Option.some.injEq] at hs
      subst hs
      have hown := inv_step s.base b' ⟨a.b, .drop⟩ h.own hb
      obtain ⟨hh, hf, hfr⟩ := lemma_drop_effect s.base b' a.b hb
      refine ⟨hown, by rw [hf]; exact h.freeClean, by rw [hfr]; exact h.newClean, ?_, h.viewsOK⟩
      intro b hbm
      simp only [List.mem_filter, bne_iff_ne, ne_eq] at hbm
      obtain ⟨o', ho', hc⟩ := h.pendClean b hbm.1
      exact ⟨o', by rw [hh, lemma_holderOf_filter_ne _ _ _ hbm.2]; exact ho', hc⟩

theorem cinv_init : CInv {} :=
  ⟨lemma_inv_init, by intro o ho; simp at ho, by intro o _; rfl, by intro b hb; simp at hb, by intro v hv; simp at hv⟩

theorem cinv_run (acts : List CAct) : ∀ (s s' : CSys), CInv s → s.run acts = some s' → CInv s' := by
  induction acts with
  | nil => intro s s' h hr; simp only [CSys.run, Option.some.injEq] at hr; subst hr; exact h
  | cons a rest ih =>
    intro s s' h hr
    simp only [CSys.run] at hr
    cases hs : s.step a with
    | none => simp [hs] at hr
    | some s1 =>
      simp only [hs, Option.bind_some] at hr
      exact ih s1 s' (cinv_step s s1 a h hs) hr

/-- **however requests are interleaved, a handler observes only the state of its own request**: in every interleaving
    of borrows (get, prepare with `covers`, arbitrary changes by handlers, release through reset — or a drop), with any
    choice of pooled or new objects by sync.Pool, the view every first handler had equals the view on a brand-new
    context prepared by the same serve path; and every object in the pool is clean. -/
theorem interleaved_fresh_view (acts : List CAct) (s : CSys) (h : CSys.run {} acts = some s) :
    (∀ v ∈ s.views, v.1 = v.2) ∧ (∀ o ∈ s.base.free, Clean (s.store o)) := by
  have hi := cinv_run acts {} s cinv_init h
  exact ⟨hi.viewsOK, hi.freeClean⟩

/-- non-vacuity: two requests in flight at once; the second one gets the object the first released, after a handler
    that dirtied everything -/
example : ∃ s, CSys.run {} [⟨1, .get none⟩, ⟨2, .get none⟩, ⟨1, .prepare (stepsTree 1 "42".toList)⟩,
    ⟨2, .prepare (stepsStatic 2)⟩, ⟨1, .dirty dirtyAll⟩, ⟨1, .release⟩, ⟨3, .get (some 0)⟩,
    ⟨3, .prepare (stepsTree 3 "7".toList)⟩, ⟨2, .dirty dirtyAll⟩, ⟨2, .release⟩, ⟨3, .release⟩] = some s ∧ s.views.length = 3 := by
  refine ⟨_, rfl, rfl⟩

end Rivaas.C03
