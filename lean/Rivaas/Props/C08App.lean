import Rivaas.Model.ObsApp
import Rivaas.Spec.Obs
/-
C08, app layer: the recorder implementations on top of the router's callbacks (Model/ObsApp.lean).

The router-level theorems (Tie.C08.serve_shape_paths, C08.serve_meets_spec) say that OnRequestStart / OnRequestEnd are
paired and that the label is bounded. Here: what the app recorder and the standalone metrics / tracing middlewares make
of it — for every stack of layers, every history of requests: every started span is ended, every series of the
active-requests gauge is back at zero, and (app recorder) the recorded status / size / route are what the client
received and the label the router reported.
-/
namespace Rivaas.C08
open Rivaas.ObsApp

def wReqD : Req := ⟨"GET".toList, "/x".toList, false, 503, 5, "/x".toList⟩

/-- started − ended, gauge series: what must be unchanged by a complete request -/
def bal (t : Tele) : Int × Int × Int := ((t.started : Int) - t.ended, t.gauge0, t.gaugeA)

theorem lemma_bal_start_finish (t : Tele) (n : Bytes) (st : Nat) :
    bal (t.spanStart.spanFinish n st) = bal t := by
  simp [bal, Tele.spanStart, Tele.spanFinish]; omega

theorem lemma_bal_begin_finish (t : Tele) (a : Bool) (r : Bytes) (st sz : Nat) :
    bal ((t.begin).finish fixed a r st sz) = bal t := by
  simp [bal, Tele.begin, Tele.finish, fixed]

/-- bal of a Tele only depends on the four counters -/
theorem lemma_bal_congr_finish (t u : Tele) (h : bal t = bal u) (n : Bytes) (st : Nat) :
    bal (t.spanFinish n st) = ((bal u).1 - 1, (bal u).2.1, (bal u).2.2) := by
  simp only [bal, Prod.mk.injEq] at h
  simp only [bal, Tele.spanFinish, Prod.mk.injEq]
  refine ⟨?_, h.2.1, h.2.2⟩
  have := h.1
  push_cast
  omega

theorem lemma_bal_congr_mfinish (t u : Tele) (h : bal t = bal u) (a : Bool) (r : Bytes) (st sz : Nat) :
    bal (t.finish fixed a r st sz) = ((bal u).1, (bal u).2.1 - 1, (bal u).2.2) := by
  simp only [bal, Prod.mk.injEq] at h
  simp only [bal, Tele.finish, fixed, Bool.false_and, Bool.false_eq_true, if_false, Prod.mk.injEq]
  exact ⟨h.1, by rw [h.2.1], h.2.2⟩

theorem lemma_runTerm_bal (term : Term) (w : WKind) (q : Req) (s : World) :
    bal (runTerm fixed term w q s).mw = bal s.mw ∧ bal (runTerm fixed term w q s).app = bal s.app := by
  cases term with
  | mux => simp [runTerm]
  | app =>
    simp only [runTerm]
    split
    · simp
    · refine ⟨rfl, ?_⟩
      simp [bal, Tele.begin, Tele.finish, Tele.spanStart, Tele.spanFinish, fixed]
      omega

/-- THE balance invariant: one complete request through any stack leaves, in both provider pairs, the number of open
    spans and every series of the active-requests gauge where they were. -/
theorem run_balanced (term : Term) (stack : List Layer) :
    ∀ (w : WKind) (q : Req) (s : World),
      bal (run fixed term stack w q s).mw = bal s.mw ∧ bal (run fixed term stack w q s).app = bal s.app := by
  induction stack with
  | nil => intro w q s; simpa [run] using lemma_runTerm_bal term w q s
  | cons l rest ih =>
    intro w q s
    cases l with
    | foreign e => simpa [run] using ih _ q s
    | tracing =>
      simp only [run]
      split
      · exact ih w q s
      · split
        · have h := ih w q { s with mw := s.mw.spanStart }
          refine ⟨?_, h.2⟩
          rw [lemma_bal_congr_finish _ _ h.1]
          simp [bal, Tele.spanStart]
          omega
        · have h := ih .mw q { s with mw := s.mw.spanStart }
          refine ⟨?_, h.2⟩
          rw [lemma_bal_congr_finish _ _ h.1]
          simp [bal, Tele.spanStart]
          omega
    | metrics =>
      simp only [run]
      split
      · exact ih w q s
      · split
        · have h := ih w q { s with mw := s.mw.begin }
          refine ⟨?_, h.2⟩
          have hk : fixed.k08c = false := rfl
          simp only [hk, Bool.false_eq_true, if_false]
          rw [lemma_bal_congr_mfinish _ _ h.1]
          simp [bal, Tele.begin]
        · have h := ih .mw q { s with mw := s.mw.begin }
          refine ⟨?_, h.2⟩
          rw [lemma_bal_congr_mfinish _ _ h.1]
          simp [bal, Tele.begin]

theorem runAll_balanced (term : Term) (stack : List Layer) (reqs : List Req) :
    ∀ s : World, bal (runAll fixed term stack reqs s).mw = bal s.mw ∧ bal (runAll fixed term stack reqs s).app = bal s.app := by
  induction reqs with
  | nil => intro s; simp [runAll]
  | cons q rest ih =>
    intro s
    have h1 := run_balanced term stack .raw q s
    have h2 := ih (run fixed term stack .raw q s)
    simp only [runAll, List.foldl_cons] at h2 ⊢
    exact ⟨h2.1.trans h1.1, h2.2.trans h1.2⟩

theorem lemma_quiescent_of_bal (t : Tele) (h : bal t = (0, 0, 0)) : t.quiescent = true := by
  simp only [bal, Prod.mk.injEq] at h
  simp only [Tele.quiescent, Bool.and_eq_true, beq_iff_eq]
  refine ⟨⟨?_, h.2.1⟩, h.2.2⟩
  have := h.1
  omega

/-- **Every started span is ended and the active-requests gauge returns to zero when the server is idle** — for the
    standalone middlewares and for the app recorder, for every stack of layers, either bottom, every history. -/
theorem stack_quiescent (term : Term) (stack : List Layer) (reqs : List Req) :
    (runAll fixed term stack reqs).mw.quiescent = true ∧ (runAll fixed term stack reqs).app.quiescent = true := by
  have h := runAll_balanced term stack reqs {}
  exact ⟨lemma_quiescent_of_bal _ (by rw [h.1]; rfl), lemma_quiescent_of_bal _ (by rw [h.2]; rfl)⟩

-- non-vacuity: a stack with every kind of layer, the app at the bottom, a failing and an excluded request
example : (runAll fixed .app [.tracing, .metrics, .foreign true]
    [⟨"GET".toList, "/a".toList, false, 500, 7, "/a".toList⟩, ⟨"GET".toList, "/healthz".toList, true, 200, 2, "/healthz".toList⟩]).mw.started = 1 := by
  decide

/-! ### the app recorder records what the client received, under the label the router reported -/

/-- no layer of the stack hides status and size behind a marked writer that exposes nothing (a foreign wrapper that
    claims `IsObservabilityWrapped` without being readable makes every layer below it blind — outside the statement) -/
def readable : List Layer → Bool
  | [] => true
  | .foreign e :: rest => e && readable rest
  | _ :: rest => readable rest

/-- the writer that reaches the bottom of a readable stack is never blind -/
theorem lemma_run_app_row (stack : List Layer) :
    ∀ (w : WKind) (q : Req) (s : World), readable stack = true → w ≠ .blind → q.excluded = false →
      (run fixed .app stack w q s).app.rows = addRow s.app.rows (routeAttr q.label) q.status q.size ∧
      (run fixed .app stack w q s).app.spans = s.app.spans ++ [(spanName q.method (routeAttr q.label), errOf q.status)] := by
  induction stack with
  | nil =>
    intro w q s _ hw hx
    cases w <;> simp_all [run, runTerm, appInfo, fixed, Tele.finish, Tele.spanFinish, Tele.spanStart, Tele.begin]
  | cons l rest ih =>
    intro w q s hr hw hx
    cases l with
    | foreign e =>
      simp only [readable, Bool.and_eq_true] at hr
      simp only [run, hr.1, if_true]
      exact ih .info64 q s hr.2 (by simp) hx
    | tracing =>
      simp only [readable] at hr
      simp only [run, hx, Bool.false_eq_true, if_false]
      split
      · exact ih w q _ hr hw hx
      · exact ih .mw q _ hr (by simp) hx
    | metrics =>
      simp only [readable] at hr
      simp only [run, hx, Bool.false_eq_true, if_false]
      split
      · have hk : fixed.k08c = false := rfl
        simp only [hk, Bool.false_eq_true, if_false]
        exact ih w q _ hr hw hx
      · exact ih .mw q _ hr (by simp) hx

/-- **The status and size the app recorder records equal what the client received; the route it reports is the label
    of the router's end callback (or the `_unmatched` sentinel for the empty one)** — whatever standalone layers are
    stacked in front of the app. -/
theorem app_records_truthfully (stack : List Layer) (q : Req) (s : World)
    (hr : readable stack = true) (hx : q.excluded = false) :
    (run fixed .app stack .raw q s).app.rows = addRow s.app.rows (routeAttr q.label) q.status q.size ∧
    (run fixed .app stack .raw q s).app.spans = s.app.spans ++ [(spanName q.method (routeAttr q.label), errOf q.status)] :=
  lemma_run_app_row stack .raw q s hr (by simp) hx

example : readable [.tracing, .metrics, .foreign true] = true := by decide

/-- an excluded request leaves the app's telemetry untouched -/
theorem app_excluded_silent (stack : List Layer) :
    ∀ (w : WKind) (q : Req) (s : World), q.excluded = true → (run fixed .app stack w q s).app = s.app := by
  induction stack with
  | nil => intro w q s hx; simp [run, runTerm, hx]
  | cons l rest ih =>
    intro w q s hx
    cases l with
    | foreign e => simpa [run] using ih _ q s hx
    | tracing => simpa [run, hx] using ih w q s hx
    | metrics => simpa [run, hx] using ih w q s hx

/-- bounded labels: the route attribute / span name of the app recorder is built from the router's label only -/
theorem app_route_bounded (patterns : List Bytes) (l : Bytes) (h : Obs.labelOK patterns l = true) :
    Obs.labelOK patterns (routeAttr l) = true := by
  unfold routeAttr
  split
  · simp [Obs.labelOK, Obs.sentinels]
  · exact h

/-! ### late-initialised provider -/

theorem lemma_serveDeferred_gauge (b : Bool) (q : Req) (d : Deferred) :
    (serveDeferred b q d).tele.gauge0 = d.tele.gauge0 ∧ (serveDeferred b q d).tele.gaugeA = d.tele.gaugeA := by
  unfold serveDeferred
  cases d.started <;> simp [Tele.begin, Tele.finish, fixed]

/-- a request that began before the provider was started is neither counted in nor counted out: the gauge is at zero
    after every history, wherever the start happens -/
theorem deferred_quiescent (startAt : Nat) (reqs : List Req) :
    ∀ (i : Nat) (d : Deferred), (runDeferred startAt i reqs d).tele.gauge0 = d.tele.gauge0 ∧
      (runDeferred startAt i reqs d).tele.gaugeA = d.tele.gaugeA := by
  induction reqs with
  | nil => intro i d; simp [runDeferred]
  | cons q rest ih =>
    intro i d
    simp only [runDeferred]
    have h1 := ih (i + 1) (serveDeferred (i == startAt) q d)
    have h2 := lemma_serveDeferred_gauge (i == startAt) q d
    exact ⟨h1.1.trans h2.1, h1.2.trans h2.2⟩

example : (runDeferred 1 0 [wReqD, wReqD, wReqD, wReqD] {}).tele.rows = [⟨"/x".toList, 503, 2, 10⟩] := by decide

/-! ### the as-shipped code (before the fixes): `decide` witnesses -/

def wReq : Req := ⟨"GET".toList, "/x".toList, false, 503, 5, "/x".toList⟩

/-- K08c: tracing.Middleware(metrics.Middleware(mux)) — the metrics middleware began the request and returned without
    finishing it: after three requests the idle server shows three active requests -/
theorem asIs_k08c_gauge_leaks :
    (runAll { k08c := true } .mux [.tracing, .metrics] [wReq, wReq, wReq]).mw.gauge0 = 3 ∧
    (runAll fixed .mux [.tracing, .metrics] [wReq, wReq, wReq]).mw.gauge0 = 0 := by decide

/-- K08d: metrics.Middleware(mux) — the increment went to the series without attributes, the decrement to the series
    of the attributes added in between: no series is at zero on the idle server -/
theorem asIs_k08d_series_drift :
    (runAll { k08d := true } .mux [.metrics] [wReq, wReq]).mw.gauge0 = 2 ∧
    (runAll { k08d := true } .mux [.metrics] [wReq, wReq]).mw.gaugeA = -2 ∧
    (runAll fixed .mux [.metrics] [wReq, wReq]).mw.quiescent = true := by decide

/-- K08f: tracing.Middleware(app) — the app recorder found a marked writer, did not wrap, and could not read it (Size()
    is an int there): a 503 with 5 bytes was recorded as 200 with 0 bytes -/
theorem asIs_k08f_app_records_200 :
    (runAll { k08f := true } .app [.tracing] [wReq]).app.rows = [⟨"/x".toList, 200, 1, 0⟩] ∧
    (runAll fixed .app [.tracing] [wReq]).app.rows = [⟨"/x".toList, 503, 1, 5⟩] := by decide

/-- the as-shipped flags only matter on the inputs of the three findings: with a raw writer at every layer and no
    attributes added (no standalone layer at all) as-shipped = fixed -/
theorem asIs_app_alone_eq (fl : Flags) (q : Req) (s : World) :
    run fl .app [] .raw q s = run fixed .app [] .raw q s := by
  simp [run, runTerm, appInfo, Tele.finish, fixed]

end Rivaas.C08
