/- C15 — property theorems (stub: not built yet) -/
