import Rivaas.Lemmas.C15Trailer
import Rivaas.Lemmas.C15Accept
/-
C15 — Response compression is transparent.

Model: `Model/HttpBase` (net/http's response writer), `Model/Compress` (the middleware as it is
now), `Model/CompressAsIs` (as it was shipped).  Oracle: `Spec/Compress`.  The coupling relation
and its preservation lemmas are in `Lemmas/C15*.lean`; this file holds the property theorems,
each with an example showing that its hypotheses are met by a non-trivial input.

All statements quantify over every sniffing function `sn` (http.DetectContentType is a parameter),
every configuration, request path, Accept-Encoding string and handler program.
-/
namespace Rivaas.C15
open Rivaas.Http Rivaas.Compress Rivaas.CompressSpec

/-! ### the main theorem -/

theorem lemma_runWith_eq (sn : Sniff) (cfg : Cfg) (path ae : Bytes) (h0 : Hdrs) (ops : List Op) :
    runWith sn cfg path ae h0 ops =
      if (active cfg path ae h0).isEmpty then
        { panicked := (runPlain sn h0 ops).1.panicked, resp := (runPlain sn h0 ops).1.resp,
          decoded := some (runPlain sn h0 ops).1.resp.body, outs := (runPlain sn h0 ops).2 }
      else respOf sn (finalCW sn cfg (active cfg path ae h0) h0 ops).1 (finalCW sn cfg (active cfg path ae h0) h0 ops).2 := by
  unfold runWith respOf
  rfl

theorem lemma_safe_true (os : List Op) (h : os.any isPanicOp = false) : Safe true os := by
  induction os with
  | nil => trivial
  | cons o os ih =>
    simp only [List.any_cons, Bool.or_eq_false_iff] at h
    refine ⟨fun e => ?_, ?_⟩
    · rw [e] at h; simp [isPanicOp] at h
    · simpa using ih h.2

theorem lemma_safe_of_not_midstream (ops : List Op) (h : panicMidstream ops = false) : Safe false ops := by
  induction ops with
  | nil => trivial
  | cons o os ih =>
    cases o with
    | setH k vs => exact ⟨fun _ => rfl, by simpa [isBodyOp, panicMidstream] using ih (by simpa [panicMidstream] using h)⟩
    | delH k => exact ⟨fun _ => rfl, by simpa [isBodyOp, panicMidstream] using ih (by simpa [panicMidstream] using h)⟩
    | writeHeader c => exact ⟨fun _ => rfl, by simpa [isBodyOp, panicMidstream] using ih (by simpa [panicMidstream] using h)⟩
    | panic => exact ⟨fun _ => rfl, by simpa [isBodyOp, panicMidstream] using ih (by simpa [panicMidstream] using h)⟩
    | write d =>
      refine ⟨fun e => Op.noConfusion e, ?_⟩
      simp only [panicMidstream] at h
      simpa [isBodyOp] using lemma_safe_true os h
    | copy cs =>
      refine ⟨fun e => Op.noConfusion e, ?_⟩
      simp only [panicMidstream] at h
      simpa [isBodyOp] using lemma_safe_true os h
    | flush =>
      refine ⟨fun e => Op.noConfusion e, ?_⟩
      simp only [panicMidstream] at h
      simpa [isBodyOp] using lemma_safe_true os h

/-- **C15, with the one recorded exclusion (K15m).**  For every sniffing function, configuration,
    path, Accept-Encoding and handler program with acceptable status codes in which no panic
    follows a body operation, the exchange with the middleware is transparent: no panic, same
    status, same headers apart from Content-Encoding / Content-Length / Vary, the body decodes to
    the plain body, every Write / io.Copy returns what the bare writer returns, and the
    Content-Encoding is the plain one or the encoding chosen for the request. -/
theorem transparent_partial (sn : Sniff) (cfg : Cfg) (path ae : Bytes) (h0 : Hdrs) (ops : List Op)
    (hv : ∀ o ∈ ops, OpValid o) (hD : panicMidstream ops = false) :
    Transparent (active cfg path ae h0) (runWith sn cfg path ae h0 ops) (runPlain sn h0 ops) := by
  rw [lemma_runWith_eq]
  by_cases ha : (active cfg path ae h0).isEmpty = true
  · simp only [ha, if_true]
    exact ⟨rfl, rfl, fun _ _ _ _ => rfl, rfl, rfl, Or.inl rfl⟩
  · simp only [ha]
    have henc : active cfg path ae h0 ≠ [] := by
      intro e; rw [e] at ha; exact ha rfl
    have hs := lemma_safe_of_not_midstream ops hD
    obtain ⟨⟨seen', hinv⟩, houts⟩ := lemma_fold sn ops false _ _ hv hs (lemma_init sn cfg _ h0 henc)
    have he := lemma_runOps_enc sn ops ({ base := { live := h0 }, thr := cfg.minSize, enc := active cfg path ae h0, exclCT := cfg.exclCT } : CW)
    have := lemma_close_transparent sn seen' _ _ (runOps (plainStep sn) { live := h0 } ops).2 hinv
    rw [he] at this
    unfold finalCW runPlain
    simp only
    rw [houts]
    exact this

/-- **C15 on the statement's own domain** (programs of header operations, WriteHeader, Write,
    io.Copy and Flush — no panic): full strength, no exclusion.
    Domain note: the model does not carry Content-Length (the statement excludes it from the comparison, `Base.resp` drops
    it). A handler that declares a WRONG Content-Length is outside the domain: the bare writer then truncates or reports
    ErrContentLength, which the model does not see. HEAD requests are correspondence only. -/
theorem transparent (sn : Sniff) (cfg : Cfg) (path ae : Bytes) (h0 : Hdrs) (ops : List Op)
    (hv : ∀ o ∈ ops, OpValid o) (hnp : ops.any isPanicOp = false) :
    Transparent (active cfg path ae h0) (runWith sn cfg path ae h0 ops) (runPlain sn h0 ops) := by
  apply transparent_partial sn cfg path ae h0 ops hv
  clear hv
  induction ops with
  | nil => rfl
  | cons o os ih =>
    simp only [List.any_cons, Bool.or_eq_false_iff] at hnp
    cases o with
    | setH k vs => simpa [panicMidstream] using ih hnp.2
    | delH k => simpa [panicMidstream] using ih hnp.2
    | writeHeader c => simpa [panicMidstream] using ih hnp.2
    | panic => simp [isPanicOp] at hnp
    | write d => simpa [panicMidstream] using hnp.2
    | copy cs => simpa [panicMidstream] using hnp.2
    | flush => simpa [panicMidstream] using hnp.2

/-- the hypotheses of `transparent` are met by a program that writes without a status, crosses a
    threshold with its second write and flushes in between (and the conclusion is not trivial: the
    middleware is active and compresses) -/
example :
    let ops := [Op.setH kCT ["text/plain".toList], .write "aaaa".toList, .flush, .write "bbbbbbbbbb".toList,
                .writeHeader 404, .copy ["cc".toList, "d".toList]]
    (∀ o ∈ ops, OpValid o) ∧ ops.any isPanicOp = false ∧
    active ⟨10, true, true, [], [], []⟩ "/p".toList "gzip".toList [] = "gzip".toList := by
  refine ⟨?_, by decide, ?_⟩
  · intro o ho
    simp only [List.mem_cons, List.not_mem_nil, or_false] at ho
    rcases ho with rfl | rfl | rfl | rfl | rfl | rfl <;> first | trivial | (constructor <;> decide)
  · simp [active, hasSuffix, isPrefix, chooseEncoding, scanAE, cut, parseCoding, paramsQ, eqFold, trimTS, lowerA,
      Compress.lowerC, parseQValue, brB, gzipB, qGe, isTabSp, hfirst, hget]

/-- …and by a program that panics before any body output (the K15f scenario), which only
    `transparent_partial` covers -/
example :
    let ops := [Op.writeHeader 202, .panic, .setH kCT ["application/json".toList], .writeHeader 500, .write "{}".toList]
    (∀ o ∈ ops, OpValid o) ∧ panicMidstream ops = false ∧ ops.any isPanicOp = true := by
  refine ⟨?_, by decide, by decide⟩
  intro o ho
  simp only [List.mem_cons, List.not_mem_nil, or_false] at ho
  rcases ho with rfl | rfl | rfl | rfl | rfl <;> first | trivial | (constructor <;> decide)

/-! ### consequences, one per clause of the statement -/

/-- the middleware never makes the exchange panic (K15b: it used to, on a Write without WriteHeader) -/
theorem no_panic (sn : Sniff) (cfg : Cfg) (path ae : Bytes) (h0 : Hdrs) (ops : List Op)
    (hv : ∀ o ∈ ops, OpValid o) (hD : panicMidstream ops = false) :
    (runWith sn cfg path ae h0 ops).panicked = false := by
  rw [(transparent_partial sn cfg path ae h0 ops hv hD).noPanic]
  exact lemma_plain_no_panic sn h0 ops hv

/-- **io.Writer contract**: every Write through the middleware returns `(len p, nil)` or an error
    with `n ≤ len p`, every io.Copy copies everything or reports an error — stated with the
    oracle's own `writeContract` on the results as the harness records them -/
theorem write_contract (sn : Sniff) (cfg : Cfg) (path ae : Bytes) (h0 : Hdrs) (ops : List Op)
    (hv : ∀ o ∈ ops, OpValid o) (hD : panicMidstream ops = false) :
    writeContract (writeLens ops) ((runWith sn cfg path ae h0 ops).outs.map toObs) = true := by
  rw [(transparent_partial sn cfg path ae h0 ops hv hD).outs]
  unfold runPlain
  exact lemma_plain_contract sn ops { live := h0 }

/-- a streaming codec: what the wire carries for a sequence of encoder events (`some d` a Write,
    `none` a Flush) followed by Close, and the decoder; the contract is the concatenation law the
    harness checks on the real gzip / brotli codecs by decoding every response -/
structure Codec where
  enc : List (Option Bytes) → Bytes
  dec : Bytes → Option Bytes
  law : ∀ evs, dec (enc evs) = some (plainOf evs)

/-- the body on the wire under codec `c` -/
def wireBody (c : Codec) (sn : Sniff) (cfg : Cfg) (path ae : Bytes) (h0 : Hdrs) (ops : List Op) : Option Bytes :=
  let enc := active cfg path ae h0
  if enc.isEmpty then some (runPlain sn h0 ops).1.resp.body
  else
    let w := (finalCW sn cfg enc h0 ops).1
    let b := w.base.finish sn
    if w.compress && w.hasWriter then
      (if w.closed && b.body.isEmpty then some (c.enc w.evs) else none)
    else some b.resp.body

/-- whether the response is encoded (by the middleware) -/
def encoded (sn : Sniff) (cfg : Cfg) (path ae : Bytes) (h0 : Hdrs) (ops : List Op) : Bool :=
  let enc := active cfg path ae h0
  !enc.isEmpty && (finalCW sn cfg enc h0 ops).1.compress && (finalCW sn cfg enc h0 ops).1.hasWriter

/-- **Decoding yields the handler's bytes**, for every codec that satisfies the streaming contract -/
theorem transparent_wire (c : Codec) (sn : Sniff) (cfg : Cfg) (path ae : Bytes) (h0 : Hdrs) (ops : List Op)
    (hv : ∀ o ∈ ops, OpValid o) (hD : panicMidstream ops = false) :
    ∃ wire, wireBody c sn cfg path ae h0 ops = some wire ∧
      (if encoded sn cfg path ae h0 ops then c.dec wire else some wire) = some (runPlain sn h0 ops).1.resp.body := by
  have hb := (transparent_partial sn cfg path ae h0 ops hv hD).body
  unfold runWith at hb
  unfold wireBody encoded
  simp only at hb ⊢
  by_cases ha : (active cfg path ae h0).isEmpty = true
  · simp only [ha, if_true, Bool.not_true, Bool.false_and, Bool.false_eq_true, if_false]
    exact ⟨_, rfl, rfl⟩
  · have ha' : (active cfg path ae h0).isEmpty = false := by simpa using ha
    simp only [ha', Bool.false_eq_true, if_false, Bool.not_false, Bool.true_and] at hb ⊢
    by_cases hc : ((finalCW sn cfg (active cfg path ae h0) h0 ops).1.compress &&
        (finalCW sn cfg (active cfg path ae h0) h0 ops).1.hasWriter) = true
    · simp only [hc, if_true] at hb ⊢
      by_cases hcl : ((finalCW sn cfg (active cfg path ae h0) h0 ops).1.closed &&
          ((finalCW sn cfg (active cfg path ae h0) h0 ops).1.base.finish sn).body.isEmpty) = true
      · simp only [hcl, if_true] at hb ⊢
        refine ⟨_, rfl, ?_⟩
        rw [c.law]
        exact hb
      · simp only [hcl] at hb
        exact absurd hb (by simp)
    · simp only [hc] at hb ⊢
      exact ⟨_, rfl, hb⟩

theorem lemma_choose_cases (ae : Bytes) (cfg : Cfg) :
    (chooseEncoding ae cfg = brB ∧ ∃ b, (scanAE ae none none).1 = some b ∧ b > 0) ∨
    (chooseEncoding ae cfg = gzipB ∧ ∃ g, (scanAE ae none none).2 = some g ∧ g > 0) ∨
    chooseEncoding ae cfg = [] := by
  unfold chooseEncoding
  generalize scanAE ae none none = r
  obtain ⟨rb, rg⟩ := r
  cases rb with
  | some b =>
    by_cases hbr : (cfg.br && decide (b > 0) && qGe b rg) = true
    · left
      simp only [Bool.and_eq_true, decide_eq_true_eq] at hbr
      simp [hbr.1.1, hbr.1.2, hbr.2]
    · right
      have hbr' : (cfg.br && decide (b > 0) && qGe b rg) = false := by simpa using hbr
      cases rg with
      | some g =>
        by_cases hgz : (cfg.gzip && decide (g > 0)) = true
        · left
          simp only [Bool.and_eq_true, decide_eq_true_eq] at hgz
          simp only [hbr', Bool.false_eq_true, if_false, hgz.1, hgz.2, decide_true, Bool.and_self, if_true,
            true_and, Option.some.injEq, exists_eq_left']
        · right
          have hgz' : (cfg.gzip && decide (g > 0)) = false := by simpa using hgz
          simp only [hbr', hgz', Bool.false_eq_true, if_false]
      | none => right; simp only [hbr', Bool.false_eq_true, if_false]
  | none =>
    right
    cases rg with
    | some g =>
      by_cases hgz : (cfg.gzip && decide (g > 0)) = true
      · left
        simp only [Bool.and_eq_true, decide_eq_true_eq] at hgz
        simp only [Bool.false_eq_true, if_false, hgz.1, hgz.2, decide_true, Bool.and_self, if_true,
          true_and, Option.some.injEq, exists_eq_left']
      · right
        have hgz' : (cfg.gzip && decide (g > 0)) = false := by simpa using hgz
        simp only [hgz', Bool.false_eq_true, if_false]
    | none => right; simp only [Bool.false_eq_true, if_false]

/-- **Encoding only if listed.**  Whatever `chooseEncoding` picks is named by an element of the
    client's Accept-Encoding list whose weight is not a valid zero — for every header string
    (odd spacing, unknown tokens, malformed weights, repeated elements) and every configuration. -/
theorem encoding_only_if_listed (ae : Bytes) (cfg : Cfg) (h : chooseEncoding ae cfg ≠ []) :
    listed (chooseEncoding ae cfg) ae = true := by
  obtain ⟨sb, sg⟩ := lemma_scanAE ae none none
  rcases lemma_choose_cases ae cfg with ⟨he, b, hb, hq⟩ | ⟨he, g, hg, hq⟩ | he
  · rw [he]
    rw [hb] at sb
    rcases sb with sb | ⟨el, hel, h1, h2⟩
    · exact absurd sb (by simp)
    · simp only [Option.some.injEq] at h2
      exact lemma_listed_of_elem brB ae el hel h1 (by decide) (by rw [← h2]; exact hq)
  · rw [he]
    rw [hg] at sg
    rcases sg with sg | ⟨el, hel, h1, h2⟩
    · exact absurd sg (by simp)
    · simp only [Option.some.injEq] at h2
      exact lemma_listed_of_elem gzipB ae el hel h1 (by decide) (by rw [← h2]; exact hq)
  · exact absurd he h

/-- **An encoding is used only if the client lists it with non-zero quality**: the response's
    Content-Encoding is the one of the plain run, or it is the coding `chooseEncoding` picked and
    that coding is listed (token level) in the request's Accept-Encoding -/
theorem encoding_used_only_if_listed (sn : Sniff) (cfg : Cfg) (path ae : Bytes) (h0 : Hdrs) (ops : List Op)
    (hv : ∀ o ∈ ops, OpValid o) (hD : panicMidstream ops = false) :
    hget (runWith sn cfg path ae h0 ops).resp.hdrs kCE = hget (runPlain sn h0 ops).1.resp.hdrs kCE ∨
    ∃ e, hget (runWith sn cfg path ae h0 ops).resp.hdrs kCE = some [e] ∧ listed e ae = true := by
  rcases (transparent_partial sn cfg path ae h0 ops hv hD).coding with h | h
  · exact Or.inl h
  · by_cases ha : active cfg path ae h0 = []
    · -- the middleware is not installed: the exchange is the plain one
      left
      rw [lemma_runWith_eq]
      simp [ha]
    · right
      refine ⟨active cfg path ae h0, h, ?_⟩
      unfold active at ha ⊢
      split at ha
      · exact absurd rfl ha
      · split at ha
        · exact absurd rfl ha
        · split at ha
          · exact absurd rfl ha
          · rename_i h1 h2 h3
            simp only [h1, h2, h3, Bool.false_eq_true, if_false]
            exact encoding_only_if_listed ae cfg ha

/-- `encoding_only_if_listed` is not vacuous: odd spacing, a look-alike token and a refused coding -/
example : chooseEncoding "x-gzip, GZip ; Q=0.5 ,br;q=0".toList ⟨0, true, true, [], [], []⟩ = "gzip".toList := by
  simp [chooseEncoding, scanAE, cut, parseCoding, paramsQ, eqFold, trimTS, lowerA, Compress.lowerC, parseQValue,
    brB, gzipB, qGe, isTabSp]

/-! ### trailers -/

/-- the trailers of the run without the middleware -/
def plainTrailers (sn : Sniff) (h0 : Hdrs) (ops : List Op) : Hdrs :=
  (runOps (plainStep sn) { live := h0 } ops).1.trailersAtFinish sn false

theorem lemma_finish_live (sn : Sniff) (b : Base) : (b.finish sn).live = b.live := lemma_flush_live sn b

/-- **Trailers are transparent.**  Every header field the plain server sends after the body arrives with
    the same value through the middleware and vice versa — whatever the encoder's output size (`wireBig`).
    Hypotheses beyond those of `transparent_partial`: the plain response declares no Content-Length (with one,
    net/http sends no trailers at all while the compressed response is chunked), and its trailers are either
    announced in `Trailer` or there is no `http.TrailerPrefix` key (the complement of open finding K15p). -/
theorem trailers_transparent_partial (sn : Sniff) (cfg : Cfg) (path ae : Bytes) (h0 : Hdrs) (ops : List Op)
    (hv : ∀ o ∈ ops, OpValid o) (hD : panicMidstream ops = false)
    (hA : hhas (runPlain sn h0 ops).1.snap kCL = false)
    (hB : announced (runPlain sn h0 ops).1.snap ≠ [] ∨
          ∀ kv ∈ (runPlain sn h0 ops).1.live, startsWith trailerPrefix kv.1 = false)
    (wireBig : Bool) (k : Bytes) :
    hget (withTrailers sn cfg path ae h0 ops wireBig) k = hget (plainTrailers sn h0 ops) k := by
  unfold withTrailers plainTrailers
  simp only
  by_cases hact : (active cfg path ae h0).isEmpty = true
  · simp only [hact, if_true]
  · have hact' : (active cfg path ae h0).isEmpty = false := by simpa using hact
    simp only [hact', Bool.false_eq_true, if_false]
    have henc : active cfg path ae h0 ≠ [] := by
      intro e; rw [e] at hact; exact hact rfl
    have hs := lemma_safe_of_not_midstream ops hD
    obtain ⟨seen', hinv, hag⟩ := lemma_fold_ag sn ops false _ _ hv hs (lemma_init sn cfg _ h0 henc)
      (lemma_ag_of_eq _ _ rfl)
    unfold runPlain at hA hB
    simp only at hA hB
    unfold finalCW
    simp only
    generalize hw : (runOps (CW.step sn) ({ base := { live := h0 }, thr := cfg.minSize, enc := active cfg path ae h0, exclCT := cfg.exclCT } : CW) ops).1 = w at hinv hag ⊢
    generalize hp : (runOps (plainStep sn) ({ live := h0 } : Base) ops).1 = p at hinv hag hA hB ⊢
    rw [lemma_finish_live] at hB
    -- the agreement survives Close
    have hagW : Ag (if w.restored then w else w.close sn) p := by
      rcases hinv with ⟨hl, _⟩ | hr
      · rw [lemma_live_restored sn w p hl]
        simp only [Bool.false_eq_true, if_false]
        exact lemma_ag_close sn w p hl hag
      · simp only [hr.r, if_true]; exact hag
    have hst := lemma_close_state sn seen' w p hinv
    generalize (if w.restored then w else w.close sn) = W at hagW hst ⊢
    rw [lemma_hget_trailers, lemma_hget_trailers]
    rcases hst with ⟨hc, hpr⟩ | ⟨w', core, hW⟩
    · -- not compressing: the two base writers agree on everything but dead parts of the live map
      simp only [hc, Bool.false_and]
      by_cases hpw : p.wrote = false
      · have := lemma_pass_eq_of_unwritten W.base p hpr hpw
        rw [this]
      · have hpw' : p.wrote = true := by simpa using hpw
        have hww : W.base.wrote = true := by rw [lemma_pass_wrote W.base p hpr]; exact hpw'
        obtain ⟨h1, _⟩ := hpr
        have e1 : W.base.status = p.status := by rw [h1]
        have e2 : W.base.snap = p.snap := by rw [h1]
        have e3 : W.base.sent = p.sent := by rw [h1]
        rw [lemma_chunked_wrote sn W.base false hww, lemma_chunked_wrote sn p false hpw', e1, e2, e3]
        obtain ⟨_, _, f3, _⟩ := lemma_base_flush_cases sn p hpw'
        obtain ⟨_, _, g3, _⟩ := lemma_base_flush_cases sn W.base hww
        have fs : (p.finish sn).snap = p.snap := f3
        have gs : (W.base.finish sn).snap = p.snap := by rw [← e2]; exact g3
        rw [fs, gs, lemma_finish_live, lemma_finish_live]
        split
        · exact lemma_tlook_agree p.snap _ _ hagW k
        · rfl
    · -- compressing
      have hWb : W.base = w'.base := by rw [hW]
      have hWc : (W.compress && W.hasWriter) = true := by rw [hW]; simp [core.c, core.hw]
      obtain ⟨hd, hc, hwr, nr, hs', cl, encne, bw, bst, pw, nb, bb, bct, bpn, pp, pl, T, hsnap, hT⟩ := core
      have hww : W.base.wrote = true := by rw [hWb]; exact bw
      obtain ⟨_, _, f3, _⟩ := lemma_base_flush_cases sn p pw
      obtain ⟨_, _, g3, _⟩ := lemma_base_flush_cases sn W.base hww
      have fs : (p.finish sn).snap = p.snap := f3
      have gs : (W.base.finish sn).snap = cmpSnap p.snap T w'.enc := by
        have : (W.base.finish sn).snap = W.base.snap := g3
        rw [this, hWb, hsnap]
      rw [fs] at hA hB
      rw [lemma_chunked_wrote sn W.base _ hww, lemma_chunked_wrote sn p false pw, fs, gs, lemma_finish_live,
        lemma_finish_live, hWb, hsnap, bst, lemma_announced_cmpSnap, lemma_hhas_cmpSnap_CL, hA, nb]
      rw [lemma_tlook_announced (cmpSnap p.snap T w'.enc) p.snap _ k (lemma_announced_cmpSnap _ _ _)]
      have hag' : ∀ κ, isTrailerKey p.snap κ = true → hget w'.base.live κ = hget p.live κ := by
        intro κ hk; rw [← hWb]; exact hagW κ hk
      rcases hB with hB | hB
      · have hne : (announced p.snap).isEmpty = false := by
          cases hh : announced p.snap with
          | nil => exact absurd hh hB
          | cons x xs => rfl
        simp only [hne, Bool.not_false, Bool.true_or, Bool.or_true, Bool.and_true, if_true]
        exact lemma_tlook_agree p.snap _ _ hag' k
      · have hnone : ∀ l : Hdrs, (∀ κ, isTrailerKey p.snap κ = true → hget l κ = hget p.live κ) →
            announced p.snap = [] → tlook p.snap l k = none := by
          intro l hl he
          have h1 : hget l (trailerPrefix ++ k) = none := by
            rw [hl _ (by simp [isTrailerKey, lemma_startsWith_append])]
            exact lemma_hget_noprefix p.live k hB
          unfold tlook
          rw [he, h1]
          simp
        by_cases he : announced p.snap = []
        · rw [hnone _ hag' he, hnone p.live (fun _ _ => rfl) he]
          simp
        · have hne : (announced p.snap).isEmpty = false := by
            cases hh : announced p.snap with
            | nil => exact absurd hh he
            | cons x xs => rfl
          simp only [hne, Bool.not_false, Bool.true_or, Bool.or_true, Bool.and_true, if_true]
          exact lemma_tlook_agree p.snap _ _ hag' k

/-! ### the code as it was shipped (witnesses of the repaired findings), and the open finding -/

/-- a stand-in for http.DetectContentType in the witnesses -/
def sn0 : Sniff := fun _ => "text/sniffed".toList
def cfg0 (minSize : Nat) : Cfg := ⟨minSize, true, true, [], [], []⟩
def pth : Bytes := "/p".toList
def gz : Bytes := "gzip".toList
def tp : Op := .setH kCT ["text/plain".toList]

/-- K15a as shipped: `c.Status(201)` alone came out as 200 -/
theorem asis_status_only_lost :
    (runWithAsIs sn0 (cfg0 0) pth gz [.writeHeader 201]).resp.status = 200 ∧
    (runPlain sn0 [] [.writeHeader 201]).1.resp.status = 201 := by decide

/-- K15b as shipped: a Write without WriteHeader panicked (status 0) -/
theorem asis_bare_write_panics :
    (runWithAsIs sn0 (cfg0 0) pth gz [tp, .write "hello".toList]).panicked = true ∧
    (runWithAsIs sn0 (cfg0 10) pth gz [tp, .write "tiny".toList]).panicked = true ∧
    (runPlain sn0 [] [tp, .write "hello".toList]).1.panicked = false := by decide

/-- K15c as shipped: minimum size 10, writes of 4 then 10 bytes: the second Write returned 14 -/
theorem asis_write_returns_too_much :
    (runWithAsIs sn0 (cfg0 10) pth gz [tp, .writeHeader 200, .write "aaaa".toList, .write "bbbbbbbbbb".toList]).outs
      = [⟨4, .ok⟩, ⟨14, .ok⟩] := by decide

/-- K15d as shipped: the compressed response had no Content-Type, the plain one a sniffed one -/
theorem asis_no_sniffed_type :
    hget (runWithAsIs sn0 (cfg0 0) pth gz [.writeHeader 200, .write "<html>".toList]).resp.hdrs kCT = none ∧
    hget (runPlain sn0 [] [.writeHeader 200, .write "<html>".toList]).1.resp.hdrs kCT = some ["text/sniffed".toList] := by
  decide

/-- K15e as shipped: `x-gzip` selected gzip although the client does not list gzip -/
theorem asis_substring_match :
    chooseEncodingAsIs "x-gzip".toList (cfg0 0) = gz ∧ listed gz "x-gzip".toList = false ∧
    chooseEncodingAsIs "brotli".toList (cfg0 0) = "br".toList ∧ listed "br".toList "brotli".toList = false := by
  decide

/-- K15g as shipped: a later WriteHeader replaced the recorded status -/
theorem asis_second_writeHeader_wins :
    (runWithAsIs sn0 (cfg0 0) pth gz [tp, .writeHeader 201, .writeHeader 200, .write "x".toList]).resp.status = 200 ∧
    (runPlain sn0 [] [tp, .writeHeader 201, .writeHeader 200, .write "x".toList]).1.resp.status = 201 := by decide

/-- K15h as shipped: the handler could not Flush, so `Flush; WriteHeader(404)` answered 404, not 200 -/
theorem asis_flush_hidden :
    (runWithAsIs sn0 (cfg0 0) pth gz [tp, .flush, .writeHeader 404, .write "x".toList]).resp.status = 404 ∧
    (runPlain sn0 [] [tp, .flush, .writeHeader 404, .write "x".toList]).1.resp.status = 200 := by decide

/-- K15k as shipped: a header set after WriteHeader leaked into the response -/
theorem asis_late_header_leaks :
    hget (runWithAsIs sn0 (cfg0 0) pth gz [tp, .writeHeader 200, .setH "X-Late".toList ["v".toList], .write "x".toList]).resp.hdrs
      "X-Late".toList = some ["v".toList] ∧
    hget (runPlain sn0 [] [tp, .writeHeader 200, .setH "X-Late".toList ["v".toList], .write "x".toList]).1.resp.hdrs
      "X-Late".toList = none := by decide

/-- K15f as shipped: a handler panic behind recovery left an unfinished stream (undecodable body) -/
theorem asis_panic_truncates :
    (runWithAsIs sn0 (cfg0 0) pth gz [.panic, .setH kCT ["application/json".toList], .writeHeader 500, .write "{}".toList]).decoded
      = none := by decide

/-- K15j as shipped: a response the handler encoded itself was encoded again and relabelled -/
theorem asis_double_encoding :
    hget (runWithAsIs sn0 (cfg0 0) pth gz [.setH kCE ["x-own".toList], tp, .write "data".toList]).resp.hdrs kCE
      = some [gz] ∧
    hget (runPlain sn0 [] [.setH kCE ["x-own".toList], tp, .write "data".toList]).1.resp.hdrs kCE
      = some ["x-own".toList] := by decide

/-- K15m, open: the code as it is now, handler writes then panics behind recovery — the body no
    longer decodes (the plain run delivers `partial{}`); the program is in the class `panicMidstream` -/
theorem open_panic_midstream_witness :
    let ops := [tp, .write "partial".toList, .panic, .setH kCT ["application/json".toList], .writeHeader 500,
                .write "{}".toList]
    (respOf sn0 (finalCW sn0 (cfg0 0) gz [] ops).1 (finalCW sn0 (cfg0 0) gz [] ops).2).decoded = none ∧
    (runPlain sn0 [] ops).1.resp.body = "partial{}".toList ∧ panicMidstream ops = true := by decide

/-- the hypotheses of `trailers_transparent_partial` are met by a program that announces a trailer, writes a body
    that is held back and sets the trailer afterwards (and the trailer does arrive: the statement is not about
    empty lists) -/
example :
    let ops := [Op.setH kTrailer ["X-T".toList], .write "body".toList, .setH "X-T".toList ["late".toList]]
    hhas (runPlain sn0 [] ops).1.snap kCL = false ∧ announced (runPlain sn0 [] ops).1.snap ≠ [] ∧
    hget (plainTrailers sn0 [] ops) "X-T".toList = some ["late".toList] := by decide


/-! ### option handling (`defaultConfig`, the `With…` options, `New`'s fold) -/

theorem lemma_fold_brotli (opts : List Opt) (c : Config) (h : 0 ≤ c.brotliLevel ∧ c.brotliLevel ≤ 11) :
    0 ≤ (opts.foldl applyOpt c).brotliLevel ∧ (opts.foldl applyOpt c).brotliLevel ≤ 11 := by
  induction opts generalizing c with
  | nil => exact h
  | cons o os ih =>
    apply ih
    cases o <;> simp only [applyOpt] <;> first | exact h | omega

/-- whatever options are given, in whatever order, the brotli encoder pool is asked for a level the encoder
    accepts (`WithBrotliLevel` clamps, the default is 4) -/
theorem options_brotli_level_valid (opts : List Opt) :
    0 ≤ (config opts).brotliLevel ∧ (config opts).brotliLevel ≤ 11 :=
  lemma_fold_brotli opts defaultConfig (by decide)

theorem lemma_fold_gzip (opts : List Opt) (c : Config) :
    (opts.foldl applyOpt c).enableGzip = (c.enableGzip && !opts.contains .gzipDisabled) := by
  induction opts generalizing c with
  | nil => simp
  | cons o os ih =>
    rw [List.foldl_cons, ih]
    cases o <;> simp [applyOpt, List.contains_cons] <;> cases c.enableGzip <;> simp

theorem lemma_fold_br (opts : List Opt) (c : Config) :
    (opts.foldl applyOpt c).enableBrotli = (c.enableBrotli && !opts.contains .brotliDisabled) := by
  induction opts generalizing c with
  | nil => simp
  | cons o os ih =>
    rw [List.foldl_cons, ih]
    cases o <;> simp [applyOpt, List.contains_cons] <;> cases c.enableBrotli <;> simp

/-- a coding is enabled iff its `With…Disabled` option does not occur — no option switches a coding back on,
    and no other option touches the flags (position and repetition do not matter) -/
theorem options_codings (opts : List Opt) :
    (config opts).enableGzip = !opts.contains .gzipDisabled ∧
    (config opts).enableBrotli = !opts.contains .brotliDisabled := by
  constructor
  · simpa [config, defaultConfig] using lemma_fold_gzip opts defaultConfig
  · simpa [config, defaultConfig] using lemma_fold_br opts defaultConfig

theorem lemma_fold_paths (opts : List Opt) (c : Config) (p : Bytes) :
    p ∈ (opts.foldl applyOpt c).exclPaths ↔ p ∈ c.exclPaths ∨ ∃ l, Opt.exclPaths l ∈ opts ∧ p ∈ l := by
  induction opts generalizing c with
  | nil => simp
  | cons o os ih =>
    rw [List.foldl_cons, ih]
    cases o <;> simp [applyOpt, or_assoc]

/-- the excluded paths are exactly the union of all `WithExcludePaths` arguments -/
theorem options_excluded_paths (opts : List Opt) (p : Bytes) :
    p ∈ (config opts).exclPaths ↔ ∃ l, Opt.exclPaths l ∈ opts ∧ p ∈ l := by
  simpa [config, defaultConfig] using lemma_fold_paths opts defaultConfig p

theorem lemma_choose_no_br (ae : Bytes) (cfg : Cfg) (h : cfg.br = false) : chooseEncoding ae cfg ≠ brB := by
  unfold chooseEncoding
  generalize scanAE ae none none = r
  obtain ⟨rb, rg⟩ := r
  cases rb <;> cases rg <;> simp [h, brB, gzipB] <;> split <;> simp

theorem lemma_choose_no_gzip (ae : Bytes) (cfg : Cfg) (h : cfg.gzip = false) : chooseEncoding ae cfg ≠ gzipB := by
  unfold chooseEncoding
  generalize scanAE ae none none = r
  obtain ⟨rb, rg⟩ := r
  cases rb <;> cases rg <;> simp [h, brB, gzipB] <;> split <;> simp

/-- a disabled coding is never chosen, whatever the client sends and whatever else is configured -/
theorem options_disabled_never_used (opts : List Opt) (ae : Bytes) :
    (opts.contains .brotliDisabled = true → chooseEncoding ae (config opts).toCfg ≠ brB) ∧
    (opts.contains .gzipDisabled = true → chooseEncoding ae (config opts).toCfg ≠ gzipB) := by
  have hc := options_codings opts
  constructor
  · intro h
    exact lemma_choose_no_br ae _ (by simp only [Config.toCfg, hc.2, h]; rfl)
  · intro h
    exact lemma_choose_no_gzip ae _ (by simp only [Config.toCfg, hc.1, h]; rfl)

/-- **transparency for every list of options**, in the order `New` applies them: `transparent` instantiated
    with the configuration the fold produces -/
theorem transparent_for_options (sn : Sniff) (opts : List Opt) (path ae : Bytes) (h0 : Hdrs) (ops : List Op)
    (hv : ∀ o ∈ ops, OpValid o) (hnp : ops.any isPanicOp = false) :
    Transparent (active (config opts).toCfg path ae h0) (runWith sn (config opts).toCfg path ae h0 ops)
      (runPlain sn h0 ops) :=
  transparent sn (config opts).toCfg path ae h0 ops hv hnp

/-- non-vacuity: repeated, overridden and clamped options; the last threshold wins, a negative one is no threshold -/
example :
    config [.minSize 100, .brotliLevel 15, .exclPaths ["/a".toList], .gzipDisabled, .minSize (-5), .exclPaths ["/b".toList], .logger]
      = { gzipLevel := -1, brotliLevel := 11, minSize := -5, enableGzip := false, enableBrotli := true,
          exclPaths := ["/a".toList, "/b".toList], exclExts := [], exclCT := [] } ∧
    (config [.minSize 100, .minSize (-5)]).toCfg.minSize = 0 ∧
    (config [.gzipDisabled, .brotliLevel 3]).toCfg.gzip = false := by decide


/-! ### a middleware in front that uses the writer first (open finding K15r) -/

theorem runWithFrom_nil (sn : Sniff) (cfg : Cfg) (path ae : Bytes) (h0 : Hdrs) (ops : List Op) :
    runWithFrom sn cfg path ae h0 [] ops = runWith sn cfg path ae h0 ops := rfl

theorem lemma_preBase (sn : Sniff) (h0 : Hdrs) (pre : List Op) (hp : preCommits pre = false) :
    ∃ h, preBase sn h0 pre = { live := h } := by
  unfold preBase
  generalize hb : ({ live := h0 } : Base) = b
  have hb' : ∃ h, b = { live := h } := ⟨h0, hb.symm⟩
  clear hb
  induction pre generalizing b with
  | nil => simpa [runOps] using hb'
  | cons o os ih =>
    obtain ⟨h, rfl⟩ := hb'
    simp only [preCommits, List.any_cons, Bool.or_eq_false_iff] at hp
    have hos : preCommits os = false := by simpa [preCommits] using hp.2
    simp only [runOps]
    cases o with
    | setH k vs => exact ih hos _ ⟨_, rfl⟩
    | delH k => exact ih hos _ ⟨_, rfl⟩
    | writeHeader c =>
      have hi : informational c = true := by simpa using hp.1
      have hvc : validCode c = true := by
        simp only [informational, validCode, Bool.and_eq_true, decide_eq_true_eq] at hi ⊢
        omega
      apply ih hos
      exact ⟨h, by simp [plainStep, Base.writeHeader, hi, hvc]⟩
    | write d => simp at hp
    | flush => simp at hp
    | copy cs => simp at hp
    | panic => simp at hp

/-- **C15 behind a middleware that only prepares headers / sends informational responses**: as long as the middleware in
    front has not committed the response (`preCommits pre = false`), the exchange is transparent — `transparent` on the
    header map that middleware leaves behind. Partial: excludes the class of the open finding K15r. -/
theorem transparent_after_prelude_partial (sn : Sniff) (cfg : Cfg) (path ae : Bytes) (h0 : Hdrs) (pre ops : List Op)
    (hp : preCommits pre = false) (hv : ∀ o ∈ ops, OpValid o) (hnp : ops.any isPanicOp = false) :
    ∃ h, preBase sn h0 pre = { live := h } ∧
      runWithFrom sn cfg path ae h0 pre ops = runWith sn cfg path ae h ops ∧
      Transparent (active cfg path ae h) (runWith sn cfg path ae h ops) (runPlain sn h ops) := by
  obtain ⟨h, hh⟩ := lemma_preBase sn h0 pre hp
  refine ⟨h, hh, ?_, transparent sn cfg path ae h ops hv hnp⟩
  unfold runWithFrom runPlainFrom finalCWFrom
  simp only [hh]
  rfl

/-- K15r, open: a middleware in front sets the status before the chain goes on (`c.Status(201)`); the handler then writes
    text; the middleware compresses it — and the header block, committed before Content-Encoding was set, does not
    announce the coding. The prelude is in the class `preCommits`. -/
theorem open_pre_committed_witness :
    let pre := [Op.writeHeader 201]
    let ops := [tp, .write "hello hello hello".toList]
    let w := (finalCWFrom sn0 (cfg0 0) gz (preBase sn0 [] pre) ops).1
    w.unlabelled sn0 = true ∧ hget (w.base.finish sn0).resp.hdrs kCE = none ∧ (w.base.finish sn0).resp.status = 201 ∧
    w.plain = "hello hello hello".toList ∧
    (runPlainFrom sn0 [] pre ops).1.resp.body = "hello hello hello".toList ∧ preCommits pre = true := by decide

/-- non-vacuity of `transparent_after_prelude_partial`: headers and an Early Hints response in front -/
example : preCommits [Op.setH "Link".toList ["</s.css>; rel=preload".toList], .writeHeader 103, .delH "X-Tmp".toList] = false := by
  decide


end Rivaas.C15
