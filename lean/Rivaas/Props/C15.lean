import Rivaas.Lemmas.C15Final
/-
C15 — Response compression is transparent.

Model: `Model/HttpBase` (net/http's response writer), `Model/Compress` (the middleware as it is
now), `Model/CompressAsIs` (as it was shipped).  Oracle: `Spec/Compress`.  The coupling relation
and its preservation lemmas are in `Lemmas/C15*.lean`; this file holds the property theorems.

All statements quantify over every sniffing function `sn` (http.DetectContentType is a parameter),
every configuration, request path, Accept-Encoding string and handler program.
-/
namespace Rivaas.C15
open Rivaas.Http Rivaas.Compress Rivaas.CompressSpec

theorem lemma_runWith_eq (sn : Sniff) (cfg : Cfg) (path ae : Bytes) (ops : List Op) :
    runWith sn cfg path ae ops =
      if (active cfg path ae).isEmpty then
        { panicked := (runPlain sn ops).1.panicked, resp := (runPlain sn ops).1.resp,
          decoded := some (runPlain sn ops).1.resp.body, outs := (runPlain sn ops).2 }
      else respOf sn (finalCW sn cfg (active cfg path ae) ops).1 (finalCW sn cfg (active cfg path ae) ops).2 := by
  unfold runWith respOf
  rfl

theorem lemma_safe_true (os : List Op) (h : os.any isPanicOp = false) : Safe true os := by
  induction os with
  | nil => trivial
  | cons o os ih =>
    simp only [List.any_cons, Bool.or_eq_false_iff] at h
    refine ⟨fun e => ?_, ?_⟩
    · rw [e] at h; simp [isPanicOp] at h
    · simpa using ih h.2

theorem lemma_safe_of_not_midstream (ops : List Op) (h : panicMidstream ops = false) : Safe false ops := by
  induction ops with
  | nil => trivial
  | cons o os ih =>
    cases o with
    | setH k vs => exact ⟨fun _ => rfl, by simpa [isBodyOp, panicMidstream] using ih (by simpa [panicMidstream] using h)⟩
    | delH k => exact ⟨fun _ => rfl, by simpa [isBodyOp, panicMidstream] using ih (by simpa [panicMidstream] using h)⟩
    | writeHeader c => exact ⟨fun _ => rfl, by simpa [isBodyOp, panicMidstream] using ih (by simpa [panicMidstream] using h)⟩
    | panic => exact ⟨fun _ => rfl, by simpa [isBodyOp, panicMidstream] using ih (by simpa [panicMidstream] using h)⟩
    | write d =>
      refine ⟨fun e => Op.noConfusion e, ?_⟩
      simp only [panicMidstream] at h
      simpa [isBodyOp] using lemma_safe_true os h
    | copy cs =>
      refine ⟨fun e => Op.noConfusion e, ?_⟩
      simp only [panicMidstream] at h
      simpa [isBodyOp] using lemma_safe_true os h
    | flush =>
      refine ⟨fun e => Op.noConfusion e, ?_⟩
      simp only [panicMidstream] at h
      simpa [isBodyOp] using lemma_safe_true os h

/-- **C15, with the one recorded exclusion.**  For every sniffing function, configuration, path,
    Accept-Encoding and handler program with acceptable status codes in which no panic follows a
    body operation: the exchange with the middleware is transparent. -/
theorem transparent_partial (sn : Sniff) (cfg : Cfg) (path ae : Bytes) (ops : List Op)
    (hv : ∀ o ∈ ops, OpValid o) (hD : panicMidstream ops = false) :
    Transparent (runWith sn cfg path ae ops) (runPlain sn ops) := by
  rw [lemma_runWith_eq]
  by_cases ha : (active cfg path ae).isEmpty = true
  · simp only [ha, if_true]
    exact ⟨rfl, rfl, fun _ _ _ _ => rfl, rfl, rfl⟩
  · simp only [ha]
    have henc : active cfg path ae ≠ [] := by
      intro e; rw [e] at ha; exact ha rfl
    have hs := lemma_safe_of_not_midstream ops hD
    obtain ⟨⟨seen', hinv⟩, houts⟩ := lemma_fold sn ops false _ _ hv hs (lemma_init sn cfg _ henc)
    unfold finalCW runPlain
    simp only
    rw [houts]
    exact lemma_close_transparent sn seen' _ _ _ hinv

/-- **C15 on the statement's own domain** (programs of header operations, WriteHeader, Write,
    io.Copy and Flush — no panic): full strength, no exclusion. -/
theorem transparent (sn : Sniff) (cfg : Cfg) (path ae : Bytes) (ops : List Op)
    (hv : ∀ o ∈ ops, OpValid o) (hnp : ops.any isPanicOp = false) :
    Transparent (runWith sn cfg path ae ops) (runPlain sn ops) := by
  apply transparent_partial sn cfg path ae ops hv
  clear hv
  induction ops with
  | nil => rfl
  | cons o os ih =>
    simp only [List.any_cons, Bool.or_eq_false_iff] at hnp
    cases o with
    | setH k vs => simpa [panicMidstream] using ih hnp.2
    | delH k => simpa [panicMidstream] using ih hnp.2
    | writeHeader c => simpa [panicMidstream] using ih hnp.2
    | panic => simp [isPanicOp] at hnp
    | write d => simpa [panicMidstream] using hnp.2
    | copy cs => simpa [panicMidstream] using hnp.2
    | flush => simpa [panicMidstream] using hnp.2

end Rivaas.C15
