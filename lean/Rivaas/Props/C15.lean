import Rivaas.Lemmas.C15Misc
import Rivaas.Lemmas.C15Accept
/-
C15 — Response compression is transparent.

Model: `Model/HttpBase` (net/http's response writer), `Model/Compress` (the middleware as it is
now), `Model/CompressAsIs` (as it was shipped).  Oracle: `Spec/Compress`.  The coupling relation
and its preservation lemmas are in `Lemmas/C15*.lean`; this file holds the property theorems,
each with an example showing that its hypotheses are met by a non-trivial input.

All statements quantify over every sniffing function `sn` (http.DetectContentType is a parameter),
every configuration, request path, Accept-Encoding string and handler program.
-/
namespace Rivaas.C15
open Rivaas.Http Rivaas.Compress Rivaas.CompressSpec

/-! ### the main theorem -/

theorem lemma_runWith_eq (sn : Sniff) (cfg : Cfg) (path ae : Bytes) (h0 : Hdrs) (ops : List Op) :
    runWith sn cfg path ae h0 ops =
      if (active cfg path ae h0).isEmpty then
        { panicked := (runPlain sn h0 ops).1.panicked, resp := (runPlain sn h0 ops).1.resp,
          decoded := some (runPlain sn h0 ops).1.resp.body, outs := (runPlain sn h0 ops).2 }
      else respOf sn (finalCW sn cfg (active cfg path ae h0) h0 ops).1 (finalCW sn cfg (active cfg path ae h0) h0 ops).2 := by
  unfold runWith respOf
  rfl

theorem lemma_safe_true (os : List Op) (h : os.any isPanicOp = false) : Safe true os := by
  induction os with
  | nil => trivial
  | cons o os ih =>
    simp only [List.any_cons, Bool.or_eq_false_iff] at h
    refine ⟨fun e => ?_, ?_⟩
    · rw [e] at h; simp [isPanicOp] at h
    · simpa using ih h.2

theorem lemma_safe_of_not_midstream (ops : List Op) (h : panicMidstream ops = false) : Safe false ops := by
  induction ops with
  | nil => trivial
  | cons o os ih =>
    cases o with
    | setH k vs => exact ⟨fun _ => rfl, by simpa [isBodyOp, panicMidstream] using ih (by simpa [panicMidstream] using h)⟩
    | delH k => exact ⟨fun _ => rfl, by simpa [isBodyOp, panicMidstream] using ih (by simpa [panicMidstream] using h)⟩
    | writeHeader c => exact ⟨fun _ => rfl, by simpa [isBodyOp, panicMidstream] using ih (by simpa [panicMidstream] using h)⟩
    | panic => exact ⟨fun _ => rfl, by simpa [isBodyOp, panicMidstream] using ih (by simpa [panicMidstream] using h)⟩
    | write d =>
      refine ⟨fun e => Op.noConfusion e, ?_⟩
      simp only [panicMidstream] at h
      simpa [isBodyOp] using lemma_safe_true os h
    | copy cs =>
      refine ⟨fun e => Op.noConfusion e, ?_⟩
      simp only [panicMidstream] at h
      simpa [isBodyOp] using lemma_safe_true os h
    | flush =>
      refine ⟨fun e => Op.noConfusion e, ?_⟩
      simp only [panicMidstream] at h
      simpa [isBodyOp] using lemma_safe_true os h

/-- **C15, with the one recorded exclusion (K15m).**  For every sniffing function, configuration,
    path, Accept-Encoding and handler program with acceptable status codes in which no panic
    follows a body operation, the exchange with the middleware is transparent: no panic, same
    status, same headers apart from Content-Encoding / Content-Length / Vary, the body decodes to
    the plain body, every Write / io.Copy returns what the bare writer returns, and the
    Content-Encoding is the plain one or the encoding chosen for the request. -/
theorem transparent_partial (sn : Sniff) (cfg : Cfg) (path ae : Bytes) (h0 : Hdrs) (ops : List Op)
    (hv : ∀ o ∈ ops, OpValid o) (hD : panicMidstream ops = false) :
    Transparent (active cfg path ae h0) (runWith sn cfg path ae h0 ops) (runPlain sn h0 ops) := by
  rw [lemma_runWith_eq]
  by_cases ha : (active cfg path ae h0).isEmpty = true
  · simp only [ha, if_true]
    exact ⟨rfl, rfl, fun _ _ _ _ => rfl, rfl, rfl, Or.inl rfl⟩
  · simp only [ha]
    have henc : active cfg path ae h0 ≠ [] := by
      intro e; rw [e] at ha; exact ha rfl
    have hs := lemma_safe_of_not_midstream ops hD
    obtain ⟨⟨seen', hinv⟩, houts⟩ := lemma_fold sn ops false _ _ hv hs (lemma_init sn cfg _ h0 henc)
    have he := lemma_runOps_enc sn ops ({ base := { live := h0 }, thr := cfg.minSize, enc := active cfg path ae h0, exclCT := cfg.exclCT } : CW)
    have := lemma_close_transparent sn seen' _ _ (runOps (plainStep sn) { live := h0 } ops).2 hinv
    rw [he] at this
    unfold finalCW runPlain
    simp only
    rw [houts]
    exact this

/-- **C15 on the statement's own domain** (programs of header operations, WriteHeader, Write,
    io.Copy and Flush — no panic): full strength, no exclusion. -/
theorem transparent (sn : Sniff) (cfg : Cfg) (path ae : Bytes) (h0 : Hdrs) (ops : List Op)
    (hv : ∀ o ∈ ops, OpValid o) (hnp : ops.any isPanicOp = false) :
    Transparent (active cfg path ae h0) (runWith sn cfg path ae h0 ops) (runPlain sn h0 ops) := by
  apply transparent_partial sn cfg path ae h0 ops hv
  clear hv
  induction ops with
  | nil => rfl
  | cons o os ih =>
    simp only [List.any_cons, Bool.or_eq_false_iff] at hnp
    cases o with
    | setH k vs => simpa [panicMidstream] using ih hnp.2
    | delH k => simpa [panicMidstream] using ih hnp.2
    | writeHeader c => simpa [panicMidstream] using ih hnp.2
    | panic => simp [isPanicOp] at hnp
    | write d => simpa [panicMidstream] using hnp.2
    | copy cs => simpa [panicMidstream] using hnp.2
    | flush => simpa [panicMidstream] using hnp.2

/-- the hypotheses of `transparent` are met by a program that writes without a status, crosses a
    threshold with its second write and flushes in between (and the conclusion is not trivial: the
    middleware is active and compresses) -/
example :
    let ops := [Op.setH kCT ["text/plain".toList], .write "aaaa".toList, .flush, .write "bbbbbbbbbb".toList,
                .writeHeader 404, .copy ["cc".toList, "d".toList]]
    (∀ o ∈ ops, OpValid o) ∧ ops.any isPanicOp = false ∧
    active ⟨10, true, true, [], [], []⟩ "/p".toList "gzip".toList [] = "gzip".toList := by
  refine ⟨?_, by decide, ?_⟩
  · intro o ho
    simp only [List.mem_cons, List.not_mem_nil, or_false] at ho
    rcases ho with rfl | rfl | rfl | rfl | rfl | rfl <;> first | trivial | (constructor <;> decide)
  · simp [active, hasSuffix, isPrefix, chooseEncoding, scanAE, cut, parseCoding, paramsQ, eqFold, trimTS, lowerA,
      Compress.lowerC, parseQValue, brB, gzipB, qGe, isTabSp, hfirst, hget]

/-- …and by a program that panics before any body output (the K15f scenario), which only
    `transparent_partial` covers -/
example :
    let ops := [Op.writeHeader 202, .panic, .setH kCT ["application/json".toList], .writeHeader 500, .write "{}".toList]
    (∀ o ∈ ops, OpValid o) ∧ panicMidstream ops = false ∧ ops.any isPanicOp = true := by
  refine ⟨?_, by decide, by decide⟩
  intro o ho
  simp only [List.mem_cons, List.not_mem_nil, or_false] at ho
  rcases ho with rfl | rfl | rfl | rfl | rfl <;> first | trivial | (constructor <;> decide)

/-! ### consequences, one per clause of the statement -/

/-- the middleware never makes the exchange panic (K15b: it used to, on a Write without WriteHeader) -/
theorem no_panic (sn : Sniff) (cfg : Cfg) (path ae : Bytes) (h0 : Hdrs) (ops : List Op)
    (hv : ∀ o ∈ ops, OpValid o) (hD : panicMidstream ops = false) :
    (runWith sn cfg path ae h0 ops).panicked = false := by
  rw [(transparent_partial sn cfg path ae h0 ops hv hD).noPanic]
  exact lemma_plain_no_panic sn h0 ops hv

/-- **io.Writer contract**: every Write through the middleware returns `(len p, nil)` or an error
    with `n ≤ len p`, every io.Copy copies everything or reports an error — stated with the
    oracle's own `writeContract` on the results as the harness records them -/
theorem write_contract (sn : Sniff) (cfg : Cfg) (path ae : Bytes) (h0 : Hdrs) (ops : List Op)
    (hv : ∀ o ∈ ops, OpValid o) (hD : panicMidstream ops = false) :
    writeContract (writeLens ops) ((runWith sn cfg path ae h0 ops).outs.map toObs) = true := by
  rw [(transparent_partial sn cfg path ae h0 ops hv hD).outs]
  unfold runPlain
  exact lemma_plain_contract sn ops { live := h0 }

/-- a streaming codec: what the wire carries for a sequence of encoder events (`some d` a Write,
    `none` a Flush) followed by Close, and the decoder; the contract is the concatenation law the
    harness checks on the real gzip / brotli codecs by decoding every response -/
structure Codec where
  enc : List (Option Bytes) → Bytes
  dec : Bytes → Option Bytes
  law : ∀ evs, dec (enc evs) = some (plainOf evs)

/-- the body on the wire under codec `c` -/
def wireBody (c : Codec) (sn : Sniff) (cfg : Cfg) (path ae : Bytes) (h0 : Hdrs) (ops : List Op) : Option Bytes :=
  let enc := active cfg path ae h0
  if enc.isEmpty then some (runPlain sn h0 ops).1.resp.body
  else
    let w := (finalCW sn cfg enc h0 ops).1
    let b := w.base.finish sn
    if w.compress && w.hasWriter then
      (if w.closed && b.body.isEmpty then some (c.enc w.evs) else none)
    else some b.resp.body

/-- whether the response is encoded (by the middleware) -/
def encoded (sn : Sniff) (cfg : Cfg) (path ae : Bytes) (h0 : Hdrs) (ops : List Op) : Bool :=
  let enc := active cfg path ae h0
  !enc.isEmpty && (finalCW sn cfg enc h0 ops).1.compress && (finalCW sn cfg enc h0 ops).1.hasWriter

/-- **Decoding yields the handler's bytes**, for every codec that satisfies the streaming contract -/
theorem transparent_wire (c : Codec) (sn : Sniff) (cfg : Cfg) (path ae : Bytes) (h0 : Hdrs) (ops : List Op)
    (hv : ∀ o ∈ ops, OpValid o) (hD : panicMidstream ops = false) :
    ∃ wire, wireBody c sn cfg path ae h0 ops = some wire ∧
      (if encoded sn cfg path ae h0 ops then c.dec wire else some wire) = some (runPlain sn h0 ops).1.resp.body := by
  have hb := (transparent_partial sn cfg path ae h0 ops hv hD).body
  unfold runWith at hb
  unfold wireBody encoded
  simp only at hb ⊢
  by_cases ha : (active cfg path ae h0).isEmpty = true
  · simp only [ha, if_true, Bool.not_true, Bool.false_and, Bool.false_eq_true, if_false]
    exact ⟨_, rfl, rfl⟩
  · have ha' : (active cfg path ae h0).isEmpty = false := by simpa using ha
    simp only [ha', Bool.false_eq_true, if_false, Bool.not_false, Bool.true_and] at hb ⊢
    by_cases hc : ((finalCW sn cfg (active cfg path ae h0) h0 ops).1.compress &&
        (finalCW sn cfg (active cfg path ae h0) h0 ops).1.hasWriter) = true
    · simp only [hc, if_true] at hb ⊢
      by_cases hcl : ((finalCW sn cfg (active cfg path ae h0) h0 ops).1.closed &&
          ((finalCW sn cfg (active cfg path ae h0) h0 ops).1.base.finish sn).body.isEmpty) = true
      · simp only [hcl, if_true] at hb ⊢
        refine ⟨_, rfl, ?_⟩
        rw [c.law]
        exact hb
      · simp only [hcl] at hb
        exact absurd hb (by simp)
    · simp only [hc] at hb ⊢
      exact ⟨_, rfl, hb⟩

theorem lemma_choose_cases (ae : Bytes) (cfg : Cfg) :
    (chooseEncoding ae cfg = brB ∧ ∃ b, (scanAE ae none none).1 = some b ∧ b > 0) ∨
    (chooseEncoding ae cfg = gzipB ∧ ∃ g, (scanAE ae none none).2 = some g ∧ g > 0) ∨
    chooseEncoding ae cfg = [] := by
  unfold chooseEncoding
  generalize scanAE ae none none = r
  obtain ⟨rb, rg⟩ := r
  cases rb with
  | some b =>
    by_cases hbr : (cfg.br && decide (b > 0) && qGe b rg) = true
    · left
      simp only [Bool.and_eq_true, decide_eq_true_eq] at hbr
      simp [hbr.1.1, hbr.1.2, hbr.2]
    · right
      have hbr' : (cfg.br && decide (b > 0) && qGe b rg) = false := by simpa using hbr
      cases rg with
      | some g =>
        by_cases hgz : (cfg.gzip && decide (g > 0)) = true
        · left
          simp only [Bool.and_eq_true, decide_eq_true_eq] at hgz
          simp only [hbr', Bool.false_eq_true, if_false, hgz.1, hgz.2, decide_true, Bool.and_self, if_true,
            true_and, Option.some.injEq, exists_eq_left']
        · right
          have hgz' : (cfg.gzip && decide (g > 0)) = false := by simpa using hgz
          simp only [hbr', hgz', Bool.false_eq_true, if_false]
      | none => right; simp only [hbr', Bool.false_eq_true, if_false]
  | none =>
    right
    cases rg with
    | some g =>
      by_cases hgz : (cfg.gzip && decide (g > 0)) = true
      · left
        simp only [Bool.and_eq_true, decide_eq_true_eq] at hgz
        simp only [Bool.false_eq_true, if_false, hgz.1, hgz.2, decide_true, Bool.and_self, if_true,
          true_and, Option.some.injEq, exists_eq_left']
      · right
        have hgz' : (cfg.gzip && decide (g > 0)) = false := by simpa using hgz
        simp only [hgz', Bool.false_eq_true, if_false]
    | none => right; simp only [Bool.false_eq_true, if_false]

/-- **Encoding only if listed.**  Whatever `chooseEncoding` picks is named by an element of the
    client's Accept-Encoding list whose weight is not a valid zero — for every header string
    (odd spacing, unknown tokens, malformed weights, repeated elements) and every configuration. -/
theorem encoding_only_if_listed (ae : Bytes) (cfg : Cfg) (h : chooseEncoding ae cfg ≠ []) :
    listed (chooseEncoding ae cfg) ae = true := by
  obtain ⟨sb, sg⟩ := lemma_scanAE ae none none
  rcases lemma_choose_cases ae cfg with ⟨he, b, hb, hq⟩ | ⟨he, g, hg, hq⟩ | he
  · rw [he]
    rw [hb] at sb
    rcases sb with sb | ⟨el, hel, h1, h2⟩
    · exact absurd sb (by simp)
    · simp only [Option.some.injEq] at h2
      exact lemma_listed_of_elem brB ae el hel h1 (by decide) (by rw [← h2]; exact hq)
  · rw [he]
    rw [hg] at sg
    rcases sg with sg | ⟨el, hel, h1, h2⟩
    · exact absurd sg (by simp)
    · simp only [Option.some.injEq] at h2
      exact lemma_listed_of_elem gzipB ae el hel h1 (by decide) (by rw [← h2]; exact hq)
  · exact absurd he h

/-- **An encoding is used only if the client lists it with non-zero quality**: the response's
    Content-Encoding is the one of the plain run, or it is the coding `chooseEncoding` picked and
    that coding is listed (token level) in the request's Accept-Encoding -/
theorem encoding_used_only_if_listed (sn : Sniff) (cfg : Cfg) (path ae : Bytes) (h0 : Hdrs) (ops : List Op)
    (hv : ∀ o ∈ ops, OpValid o) (hD : panicMidstream ops = false) :
    hget (runWith sn cfg path ae h0 ops).resp.hdrs kCE = hget (runPlain sn h0 ops).1.resp.hdrs kCE ∨
    ∃ e, hget (runWith sn cfg path ae h0 ops).resp.hdrs kCE = some [e] ∧ listed e ae = true := by
  rcases (transparent_partial sn cfg path ae h0 ops hv hD).coding with h | h
  · exact Or.inl h
  · by_cases ha : active cfg path ae h0 = []
    · -- the middleware is not installed: the exchange is the plain one
      left
      rw [lemma_runWith_eq]
      simp [ha]
    · right
      refine ⟨active cfg path ae h0, h, ?_⟩
      unfold active at ha ⊢
      split at ha
      · exact absurd rfl ha
      · split at ha
        · exact absurd rfl ha
        · split at ha
          · exact absurd rfl ha
          · rename_i h1 h2 h3
            simp only [h1, h2, h3, Bool.false_eq_true, if_false]
            exact encoding_only_if_listed ae cfg ha

/-- `encoding_only_if_listed` is not vacuous: odd spacing, a look-alike token and a refused coding -/
example : chooseEncoding "x-gzip, GZip ; Q=0.5 ,br;q=0".toList ⟨0, true, true, [], [], []⟩ = "gzip".toList := by
  simp [chooseEncoding, scanAE, cut, parseCoding, paramsQ, eqFold, trimTS, lowerA, Compress.lowerC, parseQValue,
    brB, gzipB, qGe, isTabSp]

/-! ### the code as it was shipped (witnesses of the repaired findings), and the open finding -/

/-- a stand-in for http.DetectContentType in the witnesses -/
def sn0 : Sniff := fun _ => "text/sniffed".toList
def cfg0 (minSize : Nat) : Cfg := ⟨minSize, true, true, [], [], []⟩
def pth : Bytes := "/p".toList
def gz : Bytes := "gzip".toList
def tp : Op := .setH kCT ["text/plain".toList]

/-- K15a as shipped: `c.Status(201)` alone came out as 200 -/
theorem asis_status_only_lost :
    (runWithAsIs sn0 (cfg0 0) pth gz [.writeHeader 201]).resp.status = 200 ∧
    (runPlain sn0 [] [.writeHeader 201]).1.resp.status = 201 := by decide

/-- K15b as shipped: a Write without WriteHeader panicked (status 0) -/
theorem asis_bare_write_panics :
    (runWithAsIs sn0 (cfg0 0) pth gz [tp, .write "hello".toList]).panicked = true ∧
    (runWithAsIs sn0 (cfg0 10) pth gz [tp, .write "tiny".toList]).panicked = true ∧
    (runPlain sn0 [] [tp, .write "hello".toList]).1.panicked = false := by decide

/-- K15c as shipped: minimum size 10, writes of 4 then 10 bytes: the second Write returned 14 -/
theorem asis_write_returns_too_much :
    (runWithAsIs sn0 (cfg0 10) pth gz [tp, .writeHeader 200, .write "aaaa".toList, .write "bbbbbbbbbb".toList]).outs
      = [⟨4, .ok⟩, ⟨14, .ok⟩] := by decide

/-- K15d as shipped: the compressed response had no Content-Type, the plain one a sniffed one -/
theorem asis_no_sniffed_type :
    hget (runWithAsIs sn0 (cfg0 0) pth gz [.writeHeader 200, .write "<html>".toList]).resp.hdrs kCT = none ∧
    hget (runPlain sn0 [] [.writeHeader 200, .write "<html>".toList]).1.resp.hdrs kCT = some ["text/sniffed".toList] := by
  decide

/-- K15e as shipped: `x-gzip` selected gzip although the client does not list gzip -/
theorem asis_substring_match :
    chooseEncodingAsIs "x-gzip".toList (cfg0 0) = gz ∧ listed gz "x-gzip".toList = false ∧
    chooseEncodingAsIs "brotli".toList (cfg0 0) = "br".toList ∧ listed "br".toList "brotli".toList = false := by
  decide

/-- K15g as shipped: a later WriteHeader replaced the recorded status -/
theorem asis_second_writeHeader_wins :
    (runWithAsIs sn0 (cfg0 0) pth gz [tp, .writeHeader 201, .writeHeader 200, .write "x".toList]).resp.status = 200 ∧
    (runPlain sn0 [] [tp, .writeHeader 201, .writeHeader 200, .write "x".toList]).1.resp.status = 201 := by decide

/-- K15h as shipped: the handler could not Flush, so `Flush; WriteHeader(404)` answered 404, not 200 -/
theorem asis_flush_hidden :
    (runWithAsIs sn0 (cfg0 0) pth gz [tp, .flush, .writeHeader 404, .write "x".toList]).resp.status = 404 ∧
    (runPlain sn0 [] [tp, .flush, .writeHeader 404, .write "x".toList]).1.resp.status = 200 := by decide

/-- K15k as shipped: a header set after WriteHeader leaked into the response -/
theorem asis_late_header_leaks :
    hget (runWithAsIs sn0 (cfg0 0) pth gz [tp, .writeHeader 200, .setH "X-Late".toList ["v".toList], .write "x".toList]).resp.hdrs
      "X-Late".toList = some ["v".toList] ∧
    hget (runPlain sn0 [] [tp, .writeHeader 200, .setH "X-Late".toList ["v".toList], .write "x".toList]).1.resp.hdrs
      "X-Late".toList = none := by decide

/-- K15f as shipped: a handler panic behind recovery left an unfinished stream (undecodable body) -/
theorem asis_panic_truncates :
    (runWithAsIs sn0 (cfg0 0) pth gz [.panic, .setH kCT ["application/json".toList], .writeHeader 500, .write "{}".toList]).decoded
      = none := by decide

/-- K15j as shipped: a response the handler encoded itself was encoded again and relabelled -/
theorem asis_double_encoding :
    hget (runWithAsIs sn0 (cfg0 0) pth gz [.setH kCE ["x-own".toList], tp, .write "data".toList]).resp.hdrs kCE
      = some [gz] ∧
    hget (runPlain sn0 [] [.setH kCE ["x-own".toList], tp, .write "data".toList]).1.resp.hdrs kCE
      = some ["x-own".toList] := by decide

/-- K15m, open: the code as it is now, handler writes then panics behind recovery — the body no
    longer decodes (the plain run delivers `partial{}`); the program is in the class `panicMidstream` -/
theorem open_panic_midstream_witness :
    let ops := [tp, .write "partial".toList, .panic, .setH kCT ["application/json".toList], .writeHeader 500,
                .write "{}".toList]
    (respOf sn0 (finalCW sn0 (cfg0 0) gz [] ops).1 (finalCW sn0 (cfg0 0) gz [] ops).2).decoded = none ∧
    (runPlain sn0 [] ops).1.resp.body = "partial{}".toList ∧ panicMidstream ops = true := by decide

end Rivaas.C15
