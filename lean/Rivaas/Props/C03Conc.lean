import Rivaas.Model.Pool
/-
C03, schedules: ownership of pooled contexts under arbitrary interleavings.

`Tie.C03.ownership` / `get_release_exactly_once` / `panic_paths_ownership` establish, on every path of the regenerated
skeleton, the LOCAL discipline of one borrow: `get`, then mentions, then at most one `release`, nothing afterwards.
This file proves what that discipline buys globally: for EVERY interleaving of any number of borrows (requests on any
number of goroutines; a request may borrow several contexts — each borrow has its own id) and WHATEVER object sync.Pool
decides to hand out (any pooled object, or a brand-new one; it may also drop pooled objects), an object is never held
by two borrows at once, never sits in the pool while it is held, and every access goes to an object the accessing
borrow holds alone. Exclusive ownership is what excludes data races on the fields of a pooled context; the Go memory
model statement itself (sync.Pool's Put/Get happens-before edge) is outside Lean.
-/
namespace Rivaas.C03

inductive BEv
  | get (pick : Option Nat)   -- sync.Pool.Get: the `pick`-th pooled object, or a new one
  | touch                     -- any read or write of the borrowed context
  | release                   -- reset + sync.Pool.Put
  | drop                      -- the borrow ends without handing the object back (panic exit without a deferred release)
  deriving DecidableEq, Repr

structure Act where
  b : Nat        -- borrow id
  ev : BEv
  deriving DecidableEq, Repr

/-- phase of a borrow: 0 not started, 1 holding, 2 finished -/
structure Sys where
  free : List Nat := []                 -- objects in the pool
  held : List (Nat × Nat) := []         -- (borrow, object)
  fresh : Nat := 0                      -- next brand-new object
  phase : Nat → Nat := fun _ => 0
  log : List (Nat × Nat × List Nat) := []   -- every touch: borrow, object, all borrows that held that object then

def holderOf (held : List (Nat × Nat)) (b : Nat) : Option Nat := (held.find? (·.1 == b)).map (·.2)

/-- one action; `none` when the borrow breaks its own (local) discipline get · touch* · (release | drop) -/
def Sys.step (s : Sys) (a : Act) : Option Sys :=
  match a.ev with
  | .get pick =>
    if s.phase a.b != 0 then none else
    let (o, free', fresh') :=
      match pick.bind (fun i => s.free[i]?.map fun o => (o, i)) with
      | some (o, i) => (o, s.free.eraseIdx i, s.fresh)
      | none => (s.fresh, s.free, s.fresh + 1)
    some { s with free := free', fresh := fresh', held := (a.b, o) :: s.held,
                  phase := fun x => if x = a.b then 1 else s.phase x }
  | .touch =>
    if s.phase a.b != 1 then none else
    match holderOf s.held a.b with
    | none => none
    | some o => some { s with log := (a.b, o, (s.held.filter (·.2 == o)).map (·.1)) :: s.log }
  | .release =>
    if s.phase a.b != 1 then none else
    match holderOf s.held a.b with
    | none => none
    | some o => some { s with free := o :: s.free, held := s.held.filter (·.1 != a.b),
                              phase := fun x => if x = a.b then 2 else s.phase x }
  | .drop =>
    if s.phase a.b != 1 then none else
    some { s with held := s.held.filter (·.1 != a.b), phase := fun x => if x = a.b then 2 else s.phase x }

/-- sync.Pool may forget pooled objects at any time -/
def Sys.gc (s : Sys) (i : Nat) : Sys := { s with free := s.free.eraseIdx i }

def Sys.run (s : Sys) : List Act → Option Sys
  | [] => some s
  | a :: rest => (s.step a).bind fun s' => s'.run rest

structure OwnInv (s : Sys) : Prop where
  heldB : (s.held.map (·.1)).Nodup                      -- a borrow holds at most one object
  heldO : (s.held.map (·.2)).Nodup                      -- an object is held by at most one borrow
  freeN : s.free.Nodup                                  -- the pool holds an object at most once
  disj : ∀ o ∈ s.free, o ∉ s.held.map (·.2)             -- a held object is not in the pool
  bound : (∀ o ∈ s.free, o < s.fresh) ∧ ∀ p ∈ s.held, p.2 < s.fresh
  phase1 : ∀ b, s.phase b = 1 ↔ b ∈ s.held.map (·.1)    -- exactly the borrows in their holding phase hold something
  logOK : ∀ e ∈ s.log, e.2.2 = [e.1]                    -- every touch so far: the toucher was the only holder

theorem lemma_inv_init : OwnInv {} := by
  refine ⟨by simp, by simp, by simp, by simp, by simp, ?_, by simp⟩
  intro b; simp

theorem lemma_holderOf {held : List (Nat × Nat)} {b o : Nat} (h : holderOf held b = some o) : (b, o) ∈ held := by
  unfold holderOf at h
  cases hf : held.find? (·.1 == b) with
  | none => simp [hf] at h
  | some p =>
    simp only [hf, Option.map_some, Option.some.injEq] at h
    have hm := List.mem_of_find?_eq_some hf
    have hb := List.find?_some hf
    simp only [beq_iff_eq] at hb
    cases p with
    | mk pb po => simp only at hb h; subst hb; subst h; exact hm

theorem lemma_nodup_filter_map {α β} (l : List α) (f : α → β) (p : α → Bool) (h : (l.map f).Nodup) :
    ((l.filter p).map f).Nodup := by
  induction l with
  | nil => simp
  | cons x r ih =>
    simp only [List.map_cons, List.nodup_cons] at h
    by_cases hp : p x = true
    · simp only [List.filter_cons, hp, if_true, List.map_cons, List.nodup_cons]
      refine ⟨?_, ih h.2⟩
      intro hm
      apply h.1
      simp only [List.mem_map, List.mem_filter] at hm ⊢
      obtain ⟨y, ⟨hy, _⟩, hfy⟩ := hm
      exact ⟨y, hy, hfy⟩
    · simp only [List.filter_cons, hp, Bool.false_eq_true, if_false]
      exact ih h.2

theorem lemma_only_holder {held : List (Nat × Nat)} {b o : Nat} (hm : (b, o) ∈ held) (hO : (held.map (·.2)).Nodup) :
    (held.filter (·.2 == o)).map (·.1) = [b] := by
  induction held with
  | nil => simp at hm
  | cons x r ih =>
    simp only [List.map_cons, List.nodup_cons] at hO
    simp only [List.mem_cons] at hm
    rcases hm with rfl | hr
    · have hno : r.filter (·.2 == o) = [] := by
        simp only [List.filter_eq_nil_iff, beq_iff_eq]
        intro y hy he
        exact hO.1 (by simp only [List.mem_map]; exact ⟨y, hy, he⟩)
      simp [hno]
    · have hx : x.2 ≠ o := by
        intro he
        apply hO.1
        simp only [List.mem_map]
        exact ⟨(b, o), hr, he.symm⟩
      simp only [List.filter_cons, beq_iff_eq, hx, if_false]
      exact ih hr hO.2

theorem lemma_not_mem_eraseIdx (l : List Nat) : ∀ (i o : Nat), l.Nodup → l[i]? = some o → o ∉ l.eraseIdx i := by
  induction l with
  | nil => intro i o _ h; simp at h
  | cons x r ih =>
    intro i o hn h
    simp only [List.nodup_cons] at hn
    cases i with
    | zero =>
      simp only [List.getElem?_cons_zero, Option.some.injEq] at h
      subst h
      simpa using hn.1
    | succ j =>
      simp only [List.getElem?_cons_succ] at h
      simp only [List.eraseIdx_cons_succ, List.mem_cons, not_or]
      refine ⟨?_, ih j o hn.2 h⟩
      intro he
      subst he
      exact hn.1 (List.mem_of_getElem? h)

theorem lemma_pair_eq (held : List (Nat × Nat)) (hO : (held.map (·.2)).Nodup) (p q : Nat × Nat)
    (hp : p ∈ held) (hq : q ∈ held) (he : p.2 = q.2) : p = q := by
  induction held with
  | nil => simp at hp
  | cons x r ih =>
    simp only [List.map_cons, List.nodup_cons] at hO
    simp only [List.mem_cons] at hp hq
    rcases hp with rfl | hp <;> rcases hq with rfl | hq
    · rfl
    · exact absurd (by simp only [List.mem_map]; exact ⟨q, hq, he.symm⟩) hO.1
    · exact absurd (by simp only [List.mem_map]; exact ⟨p, hp, he⟩) hO.1
    · exact ih hO.2 hp hq

/-- the invariant is kept by every action that respects the borrow's own discipline -/
theorem inv_step (s s' : Sys) (a : Act) (h : OwnInv s) (hs : s.step a = some s') : OwnInv s' := by
  unfold Sys.step at hs
  cases hev : a.ev with
  | get pick =>
    simp only [hev] at hs
    split at hs
    · cases hs
    · rename_i hph
      have hph0 : s.phase a.b = 0 := by simpa using hph
      have hnb : a.b ∉ s.held.map (·.1) := by
        intro hm; have := (h.phase1 a.b).mpr hm; omega
      simp only [Option.some.injEq] at hs
      cases hp : pick.bind (fun i => s.free[i]?.map fun o => (o, i)) with
      | none =>
        simp only [hp] at hs
        subst hs
        refine ⟨?_, ?_, h.freeN, ?_, ?_, ?_, h.logOK⟩
        · simp only [List.map_cons, List.nodup_cons]; exact ⟨hnb, h.heldB⟩
        · simp only [List.map_cons, List.nodup_cons]
          refine ⟨?_, h.heldO⟩
          intro hm
          simp only [List.mem_map] at hm
          obtain ⟨p, hp1, hp2⟩ := hm
          have := h.bound.2 p hp1
          omega
        · intro o ho hm
          simp only [List.map_cons, List.mem_cons] at hm
          rcases hm with rfl | hm
          · have := h.bound.1 _ ho; omega
          · exact h.disj o ho hm
        · refine ⟨fun o ho => Nat.lt_succ_of_lt (h.bound.1 o ho), ?_⟩
          intro p hp1
          simp only [List.mem_cons] at hp1
          rcases hp1 with rfl | hp1
          · simp
          · exact Nat.lt_succ_of_lt (h.bound.2 p hp1)
        · intro b
          simp only [List.map_cons, List.mem_cons]
          by_cases hb : b = a.b
          · simp [hb]
          · simp only [hb, if_false, false_or]; exact h.phase1 b
      | some oi =>
        obtain ⟨o, i⟩ := oi
        simp only [hp] at hs
        subst hs
        -- o = s.free[i]
        have hoi : s.free[i]? = some o := by
          cases pick with
          | none => simp at hp
          | some j =>
            simp only [Option.bind_some, Option.map_eq_some_iff, Prod.mk.injEq] at hp
            obtain ⟨o', ho', rfl, rfl⟩ := hp
            exact ho'
        have hmem : o ∈ s.free := List.mem_of_getElem? hoi
        have hsub : ∀ x ∈ s.free.eraseIdx i, x ∈ s.free := fun x hx => List.mem_of_mem_eraseIdx hx
        have hnot : o ∉ s.free.eraseIdx i := lemma_not_mem_eraseIdx s.free i o h.freeN hoi
        refine ⟨?_, ?_, List.Nodup.sublist (List.eraseIdx_sublist _ _) h.freeN, ?_, ?_, ?_, h.logOK⟩
        · simp only [List.map_cons, List.nodup_cons]; exact ⟨hnb, h.heldB⟩
        · simp only [List.map_cons, List.nodup_cons]
          exact ⟨h.disj o hmem, h.heldO⟩
        · intro x hx hm
          simp only [List.map_cons, List.mem_cons] at hm
          rcases hm with rfl | hm
          · exact hnot hx
          · exact h.disj x (hsub x hx) hm
        · refine ⟨fun x hx => h.bound.1 x (hsub x hx), ?_⟩
          intro p hp1
          simp only [List.mem_cons] at hp1
          rcases hp1 with rfl | hp1
          · exact h.bound.1 o hmem
          · exact h.bound.2 p hp1
        · intro b
          simp only [List.map_cons, List.mem_cons]
          by_cases hb : b = a.b
          · simp [hb]
          · simp only [hb, if_false, false_or]; exact h.phase1 b
  | touch =>
    simp only [hev] at hs
    split at hs
    · cases hs
    · cases hh : holderOf s.held a.b with
      | none => simp [hh] at hs
      | some o =>
        simp only [hh, Option.some.injEq] at hs
        subst hs
        refine ⟨h.heldB, h.heldO, h.freeN, h.disj, h.bound, h.phase1, ?_⟩
        intro e he
        simp only [List.mem_cons] at he
        rcases he with rfl | he
        · exact lemma_only_holder (lemma_holderOf hh) h.heldO
        · exact h.logOK e he
  | release =>
    simp only [hev] at hs
    split at hs
    · cases hs
    · cases hh : holderOf s.held a.b with
      | none => simp [hh] at hs
      | some o =>
        simp only [hh, Option.some.injEq] at hs
        subst hs
        have hm := lemma_holderOf hh
        have hofree : o ∉ s.free := fun hf => h.disj o hf (by simp only [List.mem_map]; exact ⟨(a.b, o), hm, rfl⟩)
        have honot : o ∉ (s.held.filter (·.1 != a.b)).map (·.2) := by
          intro hx
          simp only [List.mem_map, List.mem_filter, bne_iff_ne, ne_eq] at hx
          obtain ⟨p, ⟨hp1, hp2⟩, hp3⟩ := hx
          -- p and (a.b, o) hold the same object: by heldO they are the same pair
          have := lemma_pair_eq s.held h.heldO p (a.b, o) hp1 hm hp3
          exact hp2 (by rw [this])
        refine ⟨lemma_nodup_filter_map _ _ _ h.heldB, lemma_nodup_filter_map _ _ _ h.heldO, ?_, ?_, ?_, ?_, h.logOK⟩
        · simp only [List.nodup_cons]; exact ⟨hofree, h.freeN⟩
        · intro x hx hmx
          simp only [List.mem_cons] at hx
          rcases hx with rfl | hx
          · exact honot hmx
          · apply h.disj x hx
            simp only [List.mem_map, List.mem_filter] at hmx ⊢
            obtain ⟨p, ⟨hp1, _⟩, hp3⟩ := hmx
            exact ⟨p, hp1, hp3⟩
        · refine ⟨?_, fun p hp => h.bound.2 p (List.mem_filter.mp hp).1⟩
          intro x hx
          simp only [List.mem_cons] at hx
          rcases hx with rfl | hx
          · exact h.bound.2 _ hm
          · exact h.bound.1 x hx
        · intro b
          by_cases hb : b = a.b
          · subst hb
            simp only [if_true]
            constructor
            · intro h2; cases h2
            · intro hx
              simp only [List.mem_map, List.mem_filter, bne_iff_ne, ne_eq] at hx
              obtain ⟨p, ⟨_, hp2⟩, hp3⟩ := hx
              exact absurd hp3 hp2
          · simp only [hb, if_false]
            rw [h.phase1 b]
            simp only [List.mem_map, List.mem_filter, bne_iff_ne, ne_eq]
            constructor
            · rintro ⟨p, hp1, hp2⟩; exact ⟨p, ⟨hp1, by rw [hp2]; exact hb⟩, hp2⟩
            · rintro ⟨p, ⟨hp1, _⟩, hp2⟩; exact ⟨p, hp1, hp2⟩
  | drop =>
    simp only [hev] at hs
    split at hs
    · cases hs
    · simp only [Option.some.injEq] at hs
      subst hs
      refine ⟨lemma_nodup_filter_map _ _ _ h.heldB, lemma_nodup_filter_map _ _ _ h.heldO, h.freeN, ?_, ?_, ?_, h.logOK⟩
      · intro x hx hmx
        apply h.disj x hx
        simp only [List.mem_map, List.mem_filter] at hmx ⊢
        obtain ⟨p, ⟨hp1, _⟩, hp3⟩ := hmx
        exact ⟨p, hp1, hp3⟩
      · exact ⟨h.bound.1, fun p hp => h.bound.2 p (List.mem_filter.mp hp).1⟩
      · intro b
        by_cases hb : b = a.b
        · subst hb
          simp only [if_true]
          constructor
          · intro h2; cases h2
          · intro hx
            simp only [List.mem_map, List.mem_filter, bne_iff_ne, ne_eq] at hx
            obtain ⟨p, ⟨_, hp2⟩, hp3⟩ := hx
            exact absurd hp3 hp2
        · simp only [hb, if_false]
          rw [h.phase1 b]
          simp only [List.mem_map, List.mem_filter, bne_iff_ne, ne_eq]
          constructor
          · rintro ⟨p, hp1, hp2⟩; exact ⟨p, ⟨hp1, by rw [hp2]; exact hb⟩, hp2⟩
          · rintro ⟨p, ⟨hp1, _⟩, hp2⟩; exact ⟨p, hp1, hp2⟩

theorem inv_gc (s : Sys) (i : Nat) (h : OwnInv s) : OwnInv (s.gc i) := by
  have hsub : ∀ x ∈ s.free.eraseIdx i, x ∈ s.free := fun x hx => List.mem_of_mem_eraseIdx hx
  exact ⟨h.heldB, h.heldO, List.Nodup.sublist (List.eraseIdx_sublist _ _) h.freeN,
    fun o ho => h.disj o (hsub o ho), ⟨fun o ho => h.bound.1 o (hsub o ho), h.bound.2⟩, h.phase1, h.logOK⟩

theorem inv_run (acts : List Act) : ∀ (s s' : Sys), OwnInv s → s.run acts = some s' → OwnInv s' := by
  induction acts with
  | nil => intro s s' h hr; simp only [Sys.run, Option.some.injEq] at hr; subst hr; exact h
  | cons a rest ih =>
    intro s s' h hr
    simp only [Sys.run] at hr
    cases hs : s.step a with
    | none => simp [hs] at hr
    | some s1 =>
      simp only [hs, Option.bind_some] at hr
      exact ih s1 s' (inv_step s s1 a h hs) hr

theorem lemma_holderOf_some {held : List (Nat × Nat)} {b : Nat} (h : b ∈ held.map (·.1)) : ∃ o, holderOf held b = some o := by
  simp only [List.mem_map] at h
  obtain ⟨p, hp, hb⟩ := h
  unfold holderOf
  cases hf : held.find? (·.1 == b) with
  | none =>
    have := List.find?_eq_none.mp hf p hp
    simp [hb] at this
  | some q => exact ⟨q.2, rfl⟩

/-- an action is rejected only for a reason that is LOCAL to its borrow: the borrow's own earlier events are not
    `get · touch*` (for touch / release / drop) or not empty (for get) — which is exactly the per-context shape the Tie
    obligations establish on every path of the skeleton. Nothing another borrow does can make an action fail. -/
theorem step_defined_iff_phase (s : Sys) (a : Act) (h : OwnInv s) :
    (s.step a).isSome = (match a.ev with | .get _ => s.phase a.b == 0 | _ => s.phase a.b == 1) := by
  unfold Sys.step
  cases hev : a.ev with
  | get pick =>
    simp only
    by_cases hp : s.phase a.b = 0
    · simp [hp]
    · simp [hp]
  | touch =>
    simp only
    by_cases hp : s.phase a.b = 1
    · obtain ⟨o, ho⟩ := lemma_holderOf_some ((h.phase1 a.b).mp hp)
      simp [hp, ho]
    · simp [hp]
  | release =>
    simp only
    by_cases hp : s.phase a.b = 1
    · obtain ⟨o, ho⟩ := lemma_holderOf_some ((h.phase1 a.b).mp hp)
      simp [hp, ho]
    · simp [hp]
  | drop =>
    simp only
    by_cases hp : s.phase a.b = 1
    · simp [hp]
    · simp [hp]

/-! ### the shape the Tie obligations establish is accepted, whatever the others do

`Tie.C03.ownership` / `panic_paths_ownership` say: the events of one pooled context on every path of the skeleton are
`get`, then mentions, then one `release` (normal exit) or nothing more (panic exit without a deferred release). The
next lemmas show that each action of such a borrow is accepted in ANY reachable state in which the borrow is in the
corresponding phase — so a schedule built from borrows of that shape is a run (`Sys.run … = some _`) however they are
interleaved; the hypothesis of `interleaving_exclusive` is exactly the Tie obligation, nothing more. -/

theorem get_accepted (s : Sys) (b : Nat) (pick : Option Nat) (h : OwnInv s) (hp : s.phase b = 0) :
    ∃ s', s.step ⟨b, .get pick⟩ = some s' ∧ s'.phase b = 1 ∧ ∀ x, x ≠ b → s'.phase x = s.phase x := by
  have hd := step_defined_iff_phase s ⟨b, .get pick⟩ h
  simp only [hp, beq_self_eq_true] at hd
  obtain ⟨s', hs⟩ := Option.isSome_iff_exists.mp hd
  refine ⟨s', hs, ?_, ?_⟩
  · unfold Sys.step at hs
    simp only [hp, bne_self_eq_false, Bool.false_eq_true, if_false, Option.some.injEq] at hs
    subst hs; simp
  · intro x hx
    unfold Sys.step at hs
    simp only [hp, bne_self_eq_false, Bool.false_eq_true, if_false, Option.some.injEq] at hs
    subst hs; simp [hx]

theorem touch_accepted (s : Sys) (b : Nat) (h : OwnInv s) (hp : s.phase b = 1) :
    ∃ s', s.step ⟨b, .touch⟩ = some s' ∧ ∀ x, s'.phase x = s.phase x := by
  have hd := step_defined_iff_phase s ⟨b, .touch⟩ h
  simp only [hp, beq_self_eq_true] at hd
  obtain ⟨s', hs⟩ := Option.isSome_iff_exists.mp hd
  refine ⟨s', hs, ?_⟩
  intro x
  unfold Sys.step at hs
  simp only [hp, bne_self_eq_false, Bool.false_eq_true, if_false] at hs
  cases hh : holderOf s.held b with
  | none => simp [hh] at hs
  | some o => simp only [hh, Option.some.injEq] at hs; subst hs; rfl

theorem release_accepted (s : Sys) (b : Nat) (h : OwnInv s) (hp : s.phase b = 1) :
    ∃ s', s.step ⟨b, .release⟩ = some s' ∧ s'.phase b = 2 := by
  have hd := step_defined_iff_phase s ⟨b, .release⟩ h
  simp only [hp, beq_self_eq_true] at hd
  obtain ⟨s', hs⟩ := Option.isSome_iff_exists.mp hd
  refine ⟨s', hs, ?_⟩
  unfold Sys.step at hs
  simp only [hp, bne_self_eq_false, Bool.false_eq_true, if_false] at hs
  cases hh : holderOf s.held b with
  | none => simp [hh] at hs
  | some o => simp only [hh, Option.some.injEq] at hs; subst hs; simp

/-- **exclusive ownership under every interleaving**: for every schedule of borrows that each follow
    get · touch* · (release | drop) — in any interleaving, with any choice of pooled or new objects by sync.Pool — every
    access went to an object that the accessing borrow held alone, no object is held twice, and no held object is in
    the pool (so the next Get cannot hand it to someone else). -/
theorem interleaving_exclusive (acts : List Act) (s : Sys) (h : Sys.run {} acts = some s) :
    (∀ e ∈ s.log, e.2.2 = [e.1]) ∧ (s.held.map (·.2)).Nodup ∧ (∀ o ∈ s.free, o ∉ s.held.map (·.2)) ∧ s.free.Nodup := by
  have hi := inv_run acts {} s lemma_inv_init h
  exact ⟨hi.logOK, hi.heldO, hi.disj, hi.freeN⟩

/-- non-vacuity: two requests interleaved on two goroutines, the second reuses the object the first released while a
    third still holds another one -/
example : ∃ s, Sys.run {} [⟨1, .get none⟩, ⟨2, .get none⟩, ⟨1, .touch⟩, ⟨2, .touch⟩, ⟨1, .release⟩, ⟨3, .get (some 0)⟩,
    ⟨3, .touch⟩, ⟨2, .touch⟩, ⟨2, .release⟩, ⟨3, .drop⟩] = some s ∧ s.log.length = 4 ∧ s.free = [1] := by
  refine ⟨_, rfl, ?_, ?_⟩ <;> rfl

/-- what the discipline excludes: a double release would put the object into the pool twice and the next two borrows
    would share it — such a schedule is not a run (the second release is rejected: the borrow is finished) -/
example : Sys.run {} [⟨1, .get none⟩, ⟨1, .release⟩, ⟨1, .release⟩] = none := by rfl

end Rivaas.C03
