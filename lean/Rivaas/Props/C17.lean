/- C17 — property theorems (stub: not built yet) -/
