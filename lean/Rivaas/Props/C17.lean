import Rivaas.Spec.Gates
/-
C17 — Request-gating and redirect middleware enforce their policy exactly.
One theorem group per gate; every statement quantifies over all inputs of the gate's model
(`Model/Gates.lean`); `…_meets_spec` theorems say that the model's observation satisfies the oracle
the driver evaluates on the real code (`Spec/Gates.lean`).
-/
namespace Rivaas.C17
open Rivaas.Gates

/-! ## bodylimit -/
section body
open Body

theorem lemma_wb_tail (s : List Step) (h : wellBehaved s = true) : wellBehaved s.tail = true := by
  cases s with
  | nil => simp [wellBehaved]
  | cons a t => simp [wellBehaved] at h ⊢; exact h.2

theorem lemma_chunkOf_bounds (u : Under) (cap : Nat) (hc : 1 ≤ cap) :
    1 ≤ chunkOf u cap ∧ chunkOf u cap ≤ cap := by
  unfold chunkOf; split <;> omega

/-- on a well-behaved script a read of a non-exhausted body is a data read -/
theorem lemma_read_wb (u : Under) (cap : Nat) (hwb : wellBehaved u.script = true) (hr : u.rem ≠ []) :
    u.read cap =
      (u.rem.take (min (chunkOf u cap) u.rem.length),
       (if u.rem.drop (min (chunkOf u cap) u.rem.length) = [] ∧ u.eofWithLast = true then Err.eof else Err.none),
       { u with rem := u.rem.drop (min (chunkOf u cap) u.rem.length), script := u.script.tail }) := by
  unfold Under.read
  simp only [hr, if_false]
  cases hs : u.script with
  | nil => rfl
  | cons a t =>
    cases a with
    | data k => rfl
    | zero => simp [hs, wellBehaved] at hwb
    | fail => simp [hs, wellBehaved] at hwb

theorem lemma_read_empty (u : Under) (cap : Nat) (hr : u.rem = []) :
    (u.read cap).1 = [] ∧ (u.read cap).2.1 = .eof := by
  simp [Under.read, hr]

theorem lemma_read_fst_ne_nil (u : Under) (cap : Nat) (hc : 1 ≤ cap) (hwb : wellBehaved u.script = true)
    (hr : u.rem ≠ []) : (u.read cap).1 ≠ [] := by
  obtain ⟨hk1, _⟩ := lemma_chunkOf_bounds u cap hc
  have hlen : 1 ≤ u.rem.length := by
    cases h : u.rem with
    | nil => exact absurd h hr
    | cons a as => simp
  rw [lemma_read_wb u cap hwb hr]
  intro hcon
  have h2 : (u.rem.take (min (chunkOf u cap) u.rem.length)).length = 0 := by
    simp only at hcon; rw [hcon]; rfl
  rw [List.length_take] at h2
  omega

/-- over a well-behaved transport the look-ahead is a single read -/
theorem lemma_lookAhead_wb (u : Under) (hwb : wellBehaved u.script = true) :
    lookAhead maxEmptyReads u = u.read 1 := by
  show lookAhead (99 + 1) u = u.read 1
  unfold lookAhead
  by_cases hr : u.rem = []
  · have := lemma_read_empty u 1 hr
    simp [this.2]
  · have := lemma_read_fst_ne_nil u 1 (Nat.le_refl 1) hwb hr
    simp [this]

/-- state after an ordinary read of `n` bytes -/
def adv (l : LR) (n : Nat) : LR :=
  { l with under := { l.under with rem := l.under.rem.drop n, script := l.under.script.tail }, read := l.read + n }

/-- the five outcomes of one `limitedReader.Read` on a non-exhausted body over a well-behaved transport -/
theorem lemma_read1_cases (l : LR) (cap : Nat) (hc : 1 ≤ cap) (hlim : l.read < l.limit)
    (hwb : wellBehaved l.under.script = true) (hr : l.under.rem ≠ []) :
    ∃ n, 1 ≤ n ∧ n ≤ l.limit - l.read ∧ n ≤ l.under.rem.length ∧
      ((l.under.rem.drop n = [] ∧ ((l.read1 cap).1 = l.under.rem.take n) ∧
          (((l.read1 cap).2.1 = .eof) ∨
           ((l.read1 cap).2.1 = .none ∧ l.read + n < l.limit ∧ (l.read1 cap).2.2 = adv l n))) ∨
       (l.under.rem.drop n ≠ [] ∧ (l.read1 cap).1 = l.under.rem.take n ∧
          ((l.read + n = l.limit ∧ (l.read1 cap).2.1 = .limit) ∨
           (l.read + n < l.limit ∧ (l.read1 cap).2.1 = .none ∧ (l.read1 cap).2.2 = adv l n)))) := by
  have hge : ¬ (l.read ≥ l.limit) := by omega
  have hcap' : 1 ≤ min cap (l.limit - l.read) := by omega
  obtain ⟨hk1, hk2⟩ := lemma_chunkOf_bounds l.under (min cap (l.limit - l.read)) hcap'
  have hlen : 1 ≤ l.under.rem.length := by
    cases h : l.under.rem with
    | nil => exact absurd h hr
    | cons a as => simp
  refine ⟨min (chunkOf l.under (min cap (l.limit - l.read))) l.under.rem.length, by omega, by omega, by omega, ?_⟩
  have hread := lemma_read_wb l.under (min cap (l.limit - l.read)) hwb hr
  generalize hn : min (chunkOf l.under (min cap (l.limit - l.read))) l.under.rem.length = n at hread ⊢
  have hn1 : 1 ≤ n := by omega
  have hn3 : n ≤ l.under.rem.length := by omega
  have hn2 : n ≤ l.limit - l.read := by omega
  have htl : (l.under.rem.take n).length = n := by simp; omega
  have hwb' : wellBehaved ({ l.under with rem := l.under.rem.drop n, script := l.under.script.tail } : Under).script = true :=
    lemma_wb_tail _ hwb
  have hla := lemma_lookAhead_wb
    ({ l.under with rem := l.under.rem.drop n, script := l.under.script.tail } : Under) hwb'
  by_cases hd : l.under.rem.drop n = []
  · left
    refine ⟨hd, ?_, ?_⟩
    · unfold LR.read1; simp only [hge, if_false, hread, hla]
    · by_cases he : l.under.eofWithLast = true
      · left; unfold LR.read1; simp [hge, hread, hd, he]
      · by_cases hat : l.read + n ≥ l.limit
        · left; unfold LR.read1
          simp only [hge, if_false, hread, hla]
          simp [hd, he, htl, hat]
          simp [Under.read]
        · right
          refine ⟨?_, by omega, ?_⟩
          · unfold LR.read1; simp [hge, hread, hd, he, htl, hat]
          · unfold LR.read1; simp [hge, hread, hd, he, htl, hat, adv]
  · right
    refine ⟨hd, ?_, ?_⟩
    · unfold LR.read1; simp only [hge, if_false, hread, hla]
    · by_cases hat : l.read + n ≥ l.limit
      · left
        refine ⟨by omega, ?_⟩
        have hx := lemma_read_fst_ne_nil
          ({ l.under with rem := l.under.rem.drop n, script := l.under.script.tail } : Under) 1 (Nat.le_refl 1) hwb' hd
        unfold LR.read1; simp [hge, hread, hla, hd, htl, hat, hx]
      · right
        refine ⟨by omega, ?_, ?_⟩
        · unfold LR.read1; simp [hge, hread, hd, htl, hat]
        · unfold LR.read1; simp [hge, hread, hd, htl, hat, adv]

/-- **Exactness of the limited reader** for every chunking of a well-behaved transport, every
    sequence of buffer sizes, either EOF style and every limit: a body within the limit is delivered
    unchanged and ends with io.EOF; a longer body makes the read fail with ErrBodyLimitExceeded after
    exactly `limit` bytes — never a silently truncated body. -/
theorem bodylimit_exact (dflt : Nat) (fuel : Nat) (caps : List Nat) (l : LR) (acc : Bytes)
    (hlim : l.read < l.limit) (hwb : wellBehaved l.under.script = true)
    (hfuel : l.under.rem.length + 2 ≤ fuel) :
    readAll dflt fuel caps l acc =
      if l.read + l.under.rem.length ≤ l.limit then (acc ++ l.under.rem, .eof)
      else (acc ++ l.under.rem.take (l.limit - l.read), .limit) := by
  induction fuel generalizing l acc caps with
  | zero => omega
  | succ fuel ih =>
    have hge : ¬ (l.read ≥ l.limit) := by omega
    have hc : 1 ≤ max 1 (caps.headD dflt) := by omega
    simp only [readAll]
    generalize max 1 (caps.headD dflt) = cap at hc ⊢
    by_cases hr : l.under.rem = []
    · simp [LR.read1, hge, Under.read, hr]; omega
    · obtain ⟨n, hn1, hn2, hn3, hcase⟩ := lemma_read1_cases l cap hc hlim hwb hr
      have hdl : (l.under.rem.drop n).length = l.under.rem.length - n := by simp
      have hsplit : l.under.rem.take n ++ l.under.rem.drop n = l.under.rem := List.take_append_drop n _
      have hwb' : wellBehaved (adv l n).under.script = true := by
        simpa [adv] using lemma_wb_tail _ hwb
      rcases hcase with ⟨hd, hdata, hres⟩ | ⟨hd, hdata, hres⟩
      · have hnlen : n = l.under.rem.length := by
          have := hdl; rw [hd] at this; simp at this; omega
        have htake : l.under.rem.take n = l.under.rem := by rw [hnlen]; simp
        have hwithin : l.read + l.under.rem.length ≤ l.limit := by omega
        rcases hres with he | ⟨he, hlt, hst⟩
        · simp [he, hdata, htake, hwithin]
        · have hnext := ih caps.tail (adv l n) (acc ++ l.under.rem) (by simp [adv]; omega) hwb'
            (by simp [adv, hd]; omega)
          simp only [he, if_true, hdata, htake, hst, hnext]
          simp [adv, hd, hwithin]
          omega
      · have hmore : n < l.under.rem.length := by
          have : 1 ≤ (l.under.rem.drop n).length := by
            cases h : l.under.rem.drop n with
            | nil => exact absurd h hd
            | cons a as => simp
          omega
        rcases hres with ⟨heq, he⟩ | ⟨hlt, he, hst⟩
        · have hover : ¬ (l.read + l.under.rem.length ≤ l.limit) := by omega
          have hneq : l.limit - l.read = n := by omega
          simp [he, hdata, hover, hneq]
        · have hnext := ih caps.tail (adv l n) (acc ++ l.under.rem.take n) (by simp [adv]; omega) hwb'
            (by simp [adv]; omega)
          simp only [he, if_true, hdata, hst, hnext]
          simp only [adv, hdl]
          by_cases hw : l.read + l.under.rem.length ≤ l.limit
          · have hw' : l.read + n + (l.under.rem.length - n) ≤ l.limit := by omega
            simp [hw, hw', List.append_assoc, hsplit]
          · have hw' : ¬ (l.read + n + (l.under.rem.length - n) ≤ l.limit) := by omega
            simp only [hw, hw', if_false, List.append_assoc]
            have hsum : l.limit - l.read = n + (l.limit - (l.read + n)) := by omega
            rw [hsum, List.take_add]

/-! ### every transport, well-behaved or not -/

/-- one `Read` of any underlying reader hands out a prefix of what remains, never reports
    ErrBodyLimitExceeded, and reports io.EOF only when nothing remains -/
theorem lemma_read_gen (u : Under) (cap : Nat) :
    ∃ n, n ≤ cap ∧ n ≤ u.rem.length ∧ (u.read cap).1 = u.rem.take n ∧ (u.read cap).2.2.rem = u.rem.drop n ∧
      ((u.read cap).2.1 = .eof → u.rem.drop n = []) ∧ (u.read cap).2.1 ≠ .limit := by
  by_cases hr : u.rem = []
  · exact ⟨0, by omega, by omega, by simp [Under.read, hr], by simp [Under.read, hr], by simp [hr], by simp [Under.read, hr]⟩
  · have hdata : ∀ s : List Step, (∀ t, s ≠ Step.zero :: t) → (∀ t, s ≠ Step.fail :: t) → u.script = s →
        u.read cap = (u.rem.take (min (chunkOf u cap) u.rem.length),
          (if u.rem.drop (min (chunkOf u cap) u.rem.length) = [] ∧ u.eofWithLast = true then Err.eof else Err.none),
          { u with rem := u.rem.drop (min (chunkOf u cap) u.rem.length), script := u.script.tail }) := by
      intro s h1 h2 hs
      unfold Under.read
      simp only [hr, if_false]
      split
      · next rest heq => exact absurd (hs ▸ heq) (h1 rest)
      · next rest heq => exact absurd (hs ▸ heq) (h2 rest)
      · rfl
    have hck : chunkOf u cap ≤ cap := by unfold chunkOf; split <;> omega
    cases hs : u.script with
    | nil =>
      rw [hdata [] (by simp) (by simp) hs]
      refine ⟨min (chunkOf u cap) u.rem.length, by omega, by omega, rfl, rfl, ?_, ?_⟩
      · intro h; by_cases hc : u.rem.drop (min (chunkOf u cap) u.rem.length) = [] ∧ u.eofWithLast = true
        · exact hc.1
        · simp only [if_neg hc] at h; cases h
      · simp only; split <;> simp
    | cons a t =>
      cases a with
      | data k =>
        rw [hdata (Step.data k :: t) (by simp) (by simp) hs]
        refine ⟨min (chunkOf u cap) u.rem.length, by omega, by omega, rfl, rfl, ?_, ?_⟩
        · intro h; by_cases hc : u.rem.drop (min (chunkOf u cap) u.rem.length) = [] ∧ u.eofWithLast = true
          · exact hc.1
          · simp only [if_neg hc] at h; cases h
        · simp only; split <;> simp
      | zero => exact ⟨0, by omega, by omega, by simp [Under.read, hr, hs], by simp [Under.read, hr, hs], by simp [Under.read, hr, hs], by simp [Under.read, hr, hs]⟩
      | fail => exact ⟨0, by omega, by omega, by simp [Under.read, hr, hs], by simp [Under.read, hr, hs], by simp [Under.read, hr, hs], by simp [Under.read, hr, hs]⟩

/-- the look-ahead never answers "no byte, no error"; it consumes at most one byte; io.EOF only
    when nothing remains -/
theorem lemma_lookAhead_gen (k : Nat) (u : Under) :
    ((lookAhead k u).1 ≠ [] ∨ (lookAhead k u).2.1 ≠ .none) ∧ (lookAhead k u).2.1 ≠ .limit ∧
    (((lookAhead k u).1 ≠ [] ∧ u.rem ≠ []) ∨
     ((lookAhead k u).1 = [] ∧ ((lookAhead k u).2.1 = .eof → u.rem = []))) := by
  induction k generalizing u with
  | zero => simp [lookAhead]
  | succ k ih =>
    unfold lookAhead
    obtain ⟨n, hn1, hn2, hd, hrem, heof, hnl⟩ := lemma_read_gen u 1
    by_cases hc : (u.read 1).1 ≠ [] ∨ (u.read 1).2.1 ≠ .none
    · rw [if_pos hc]
      refine ⟨hc, hnl, ?_⟩
      by_cases hne : (u.read 1).1 = []
      · right
        refine ⟨hne, fun he => ?_⟩
        have h0 : n = 0 := by
          rw [hd, List.take_eq_nil_iff] at hne
          rcases hne with h | h
          · exact h
          · rw [h] at hn2; simpa using hn2
        have := heof he
        simpa [h0] using this
      · left
        refine ⟨hne, fun h => ?_⟩
        rw [hd, h] at hne; simp at hne
    · rw [if_neg hc]
      have hc' : (u.read 1).1 = [] ∧ (u.read 1).2.1 = .none := by
        constructor
        · exact Classical.byContradiction fun h => hc (Or.inl h)
        · exact Classical.byContradiction fun h => hc (Or.inr h)
      have h0 : n = 0 := by
        have hne := hc'.1
        rw [hd, List.take_eq_nil_iff] at hne
        rcases hne with h | h
        · exact h
        · rw [h] at hn2; simpa using hn2
      have hrem' : (u.read 1).2.2.rem = u.rem := by simpa [h0] using hrem
      have := ih (u.read 1).2.2
      rw [hrem'] at this
      exact this

/-- one `limitedReader.Read` below the limit, over any transport -/
theorem lemma_read1_gen (l : LR) (cap : Nat) (hlim : l.read < l.limit) :
    ∃ n, n ≤ l.limit - l.read ∧ n ≤ l.under.rem.length ∧ (l.read1 cap).1 = l.under.rem.take n ∧
      (l.read1 cap).2.2.limit = l.limit ∧
      ((l.read1 cap).2.1 = .none → (l.read1 cap).2.2.read = l.read + n ∧ l.read + n < l.limit ∧
          (l.read1 cap).2.2.under.rem = l.under.rem.drop n) ∧
      ((l.read1 cap).2.1 = .eof → l.under.rem.drop n = []) ∧
      ((l.read1 cap).2.1 = .limit → l.read + n = l.limit ∧ l.under.rem.drop n ≠ []) := by
  have hge : ¬ (l.read ≥ l.limit) := by omega
  obtain ⟨n, hn1, hn2, hd, hrem, heof, hnl⟩ := lemma_read_gen l.under (min cap (l.limit - l.read))
  obtain ⟨hla1, hla2, hla3⟩ := lemma_lookAhead_gen maxEmptyReads (l.under.read (min cap (l.limit - l.read))).2.2
  rw [hrem] at hla3
  have hlen : (l.under.read (min cap (l.limit - l.read))).1.length = n := by rw [hd]; simp; omega
  have hr1 : l.read1 cap =
      ((l.under.read (min cap (l.limit - l.read))).1,
       (if (decide (l.read + n ≥ l.limit) && decide ((l.under.read (min cap (l.limit - l.read))).2.1 = Err.none)) = true then
          (if (lookAhead maxEmptyReads (l.under.read (min cap (l.limit - l.read))).2.2).1 ≠ [] then Err.limit
           else (lookAhead maxEmptyReads (l.under.read (min cap (l.limit - l.read))).2.2).2.1)
        else (l.under.read (min cap (l.limit - l.read))).2.1),
       { l with under := (if (decide (l.read + n ≥ l.limit) && decide ((l.under.read (min cap (l.limit - l.read))).2.1 = Err.none)) = true then
                            (lookAhead maxEmptyReads (l.under.read (min cap (l.limit - l.read))).2.2).2.2
                          else (l.under.read (min cap (l.limit - l.read))).2.2),
                read := l.read + n }) := by
    unfold LR.read1; simp only [hge, if_false, hlen]
  rw [hr1]
  generalize l.under.read (min cap (l.limit - l.read)) = r at *
  generalize lookAhead maxEmptyReads r.2.2 = x at *
  refine ⟨n, by omega, hn2, hd, rfl, ?_, ?_, ?_⟩
  · by_cases hlook : (decide (l.read + n ≥ l.limit) && decide (r.2.1 = Err.none)) = true
    · simp only [if_pos hlook]
      intro h
      exfalso
      by_cases hx : x.1 ≠ []
      · rw [if_pos hx] at h; cases h
      · rw [if_neg hx] at h
        rcases hla1 with h1 | h1
        · exact hx h1
        · exact h1 h
    · simp only [if_neg hlook]
      intro h
      refine ⟨trivial, ?_, hrem⟩
      simp [h] at hlook; omega
  · by_cases hlook : (decide (l.read + n ≥ l.limit) && decide (r.2.1 = Err.none)) = true
    · simp only [if_pos hlook]
      intro h
      by_cases hx : x.1 ≠ []
      · rw [if_pos hx] at h; cases h
      · rw [if_neg hx] at h
        rcases hla3 with ⟨hne, _⟩ | ⟨_, hee⟩
        · exact absurd hne hx
        · exact hee h
    · simp only [if_neg hlook]
      exact heof
  · by_cases hlook : (decide (l.read + n ≥ l.limit) && decide (r.2.1 = Err.none)) = true
    · simp only [if_pos hlook]
      have hat : l.read + n ≥ l.limit := by simp at hlook; exact hlook.1
      intro h
      by_cases hx : x.1 ≠ []
      · rcases hla3 with ⟨_, hne⟩ | ⟨he, _⟩
        · exact ⟨by omega, hne⟩
        · exact absurd he hx
      · rw [if_neg hx] at h
        exact absurd h hla2
    · simp only [if_neg hlook]
      intro h
      exact absurd h hnl

/-- the read loop over any transport: what has been collected is a prefix of the body no longer
    than the limit allows; a clean end means the whole body, ErrBodyLimitExceeded means exactly
    `limit` bytes with more behind them -/
theorem lemma_readAll_gen (dflt : Nat) (fuel : Nat) (caps : List Nat) (l : LR) (acc : Bytes)
    (hlim : l.read < l.limit) :
    ∃ m, m ≤ l.limit - l.read ∧ m ≤ l.under.rem.length ∧
      (readAll dflt fuel caps l acc).1 = acc ++ l.under.rem.take m ∧
      ((readAll dflt fuel caps l acc).2 = .eof → l.under.rem.drop m = []) ∧
      ((readAll dflt fuel caps l acc).2 = .limit → l.read + m = l.limit ∧ l.under.rem.drop m ≠ []) := by
  induction fuel generalizing l acc caps with
  | zero => exact ⟨0, by omega, by omega, by simp [readAll], by simp [readAll], by simp [readAll]⟩
  | succ fuel ih =>
    simp only [readAll]
    generalize max 1 (caps.headD dflt) = cap
    obtain ⟨n, hn1, hn2, hd, hl, hnone, heof, hlimit⟩ := lemma_read1_gen l cap hlim
    by_cases he : (l.read1 cap).2.1 = .none
    · simp only [he, if_true]
      obtain ⟨hr1, hr2, hr3⟩ := hnone he
      obtain ⟨m, hm1, hm2, hmd, hme, hml⟩ := ih caps.tail (l.read1 cap).2.2 (acc ++ (l.read1 cap).1) (by omega)
      rw [hr3] at hm2 hmd hme hml
      rw [hl, hr1] at hm1 hml
      have hm2' : m ≤ l.under.rem.length - n := by simpa using hm2
      refine ⟨n + m, by omega, by omega, ?_, ?_, ?_⟩
      · rw [hmd, hd, List.append_assoc, List.take_add]
      · intro h; have := hme h; rwa [List.drop_drop] at this
      · intro h; have := hml h
        refine ⟨by omega, ?_⟩
        have h2 := this.2; rwa [List.drop_drop] at h2
    · simp only [he, if_false]
      exact ⟨n, hn1, hn2, by rw [hd], heof, hlimit⟩

/-- **No silent truncation, whatever the transport does** (arbitrary chunk sizes, `(0, nil)` reads,
    transport errors, either EOF style, any buffer sizes): if the handler's read loop ends with
    io.EOF it has received the whole body and the body is within the limit. -/
theorem bodylimit_never_truncates (dflt fuel : Nat) (caps : List Nat) (l : LR) (acc : Bytes)
    (hlim : l.read < l.limit) (h : (readAll dflt fuel caps l acc).2 = .eof) :
    (readAll dflt fuel caps l acc).1 = acc ++ l.under.rem ∧ l.read + l.under.rem.length ≤ l.limit := by
  obtain ⟨m, hm1, hm2, hmd, hme, _⟩ := lemma_readAll_gen dflt fuel caps l acc hlim
  have hlen : l.under.rem.length ≤ m := by
    have := hme h
    have h2 : (l.under.rem.drop m).length = 0 := by rw [this]; rfl
    simp at h2; omega
  have hm : m = l.under.rem.length := by omega
  refine ⟨?_, by omega⟩
  rw [hmd, hm, List.take_length]

/-- the handler never receives more than `limit` bytes, and what it receives is a prefix of the body -/
theorem bodylimit_prefix_within_limit (dflt fuel : Nat) (caps : List Nat) (l : LR) (hlim : l.read < l.limit) :
    ∃ m, m ≤ l.limit - l.read ∧ (readAll dflt fuel caps l []).1 = l.under.rem.take m := by
  obtain ⟨m, hm1, _, hmd, _, _⟩ := lemma_readAll_gen dflt fuel caps l [] hlim
  exact ⟨m, hm1, by simpa using hmd⟩

/-! ### skipped paths: the handler reads the transport itself -/

theorem lemma_readPlain_gen (dflt fuel : Nat) (caps : List Nat) (u : Under) (acc : Bytes) :
    ∃ m, m ≤ u.rem.length ∧ (readPlain dflt fuel caps u acc).1 = acc ++ u.rem.take m ∧
      ((readPlain dflt fuel caps u acc).2 = .eof → u.rem.drop m = []) := by
  induction fuel generalizing u acc caps with
  | zero => exact ⟨0, by omega, by simp [readPlain], by simp [readPlain]⟩
  | succ fuel ih =>
    simp only [readPlain]
    generalize max 1 (caps.headD dflt) = cap
    obtain ⟨n, _, hn2, hd, hrem, heof, _⟩ := lemma_read_gen u cap
    by_cases he : (u.read cap).2.1 = .none
    · simp only [he, if_true]
      obtain ⟨m, hm2, hmd, hme⟩ := ih caps.tail (u.read cap).2.2 (acc ++ (u.read cap).1)
      rw [hrem] at hm2 hmd hme
      have hm2' : m ≤ u.rem.length - n := by simpa using hm2
      refine ⟨n + m, by omega, ?_, ?_⟩
      · rw [hmd, hd, List.append_assoc, List.take_add]
      · intro h; have := hme h; rwa [List.drop_drop] at this
    · simp only [he, if_false]
      exact ⟨n, hn2, by rw [hd], heof⟩

theorem lemma_readPlain_wb (dflt fuel : Nat) (caps : List Nat) (u : Under) (acc : Bytes)
    (hwb : wellBehaved u.script = true) (hfuel : u.rem.length + 2 ≤ fuel) :
    readPlain dflt fuel caps u acc = (acc ++ u.rem, .eof) := by
  induction fuel generalizing u acc caps with
  | zero => omega
  | succ fuel ih =>
    simp only [readPlain]
    have hc : 1 ≤ max 1 (caps.headD dflt) := by omega
    generalize max 1 (caps.headD dflt) = cap at hc ⊢
    by_cases hr : u.rem = []
    · simp [Under.read, hr]
    · obtain ⟨hk1, _⟩ := lemma_chunkOf_bounds u cap hc
      have hlen : 1 ≤ u.rem.length := by
        cases h : u.rem with
        | nil => exact absurd h hr
        | cons a as => simp
      rw [lemma_read_wb u cap hwb hr]
      generalize hn : min (chunkOf u cap) u.rem.length = n
      have hn1 : 1 ≤ n := by omega
      have hsplit : u.rem.take n ++ u.rem.drop n = u.rem := List.take_append_drop n _
      by_cases hc2 : u.rem.drop n = [] ∧ u.eofWithLast = true
      · simp only [if_pos hc2]
        have : u.rem.take n = u.rem := by
          have := hsplit; rw [hc2.1, List.append_nil] at this; exact this
        simp [this]
      · simp only [if_neg hc2, if_true]
        rw [ih caps.tail _ _ (lemma_wb_tail _ hwb) (by simp; omega)]
        simp [List.append_assoc, hsplit]

/-- **The body-limit gate meets its oracle** for every request: every limit ≥ 1, every body, every
    transport script (ill-behaved ones included), either EOF style, every sequence of handler buffer
    sizes, absent / truthful / lying / malformed Content-Length, skipped path or not. -/
theorem bodylimit_meets_spec (r : Req) (hl : 1 ≤ r.limit) : specOK r (serve r) = true := by
  unfold specOK serve
  by_cases hs : r.skip = true
  · simp only [hs, if_true]
    obtain ⟨m, hm2, hmd, hme⟩ := lemma_readPlain_gen r.dflt (fuelFor r) r.caps
      { rem := r.body, script := r.script, eofWithLast := r.eofWithLast } []
    have hB := fun hwb => lemma_readPlain_wb r.dflt (fuelFor r) r.caps
      { rem := r.body, script := r.script, eofWithLast := r.eofWithLast } [] hwb (by simp [fuelFor]; omega)
    generalize readPlain r.dflt (fuelFor r) r.caps { rem := r.body, script := r.script, eofWithLast := r.eofWithLast } [] = res at *
    have hA : res.2 = .eof → res.1 = r.body := by
      intro h
      have hd := hme h
      have hlen : r.body.length ≤ m := by
        have h2 : (r.body.drop m).length = 0 := by simp only at hd; rw [hd]; rfl
        simp at h2; omega
      simp only [List.nil_append] at hmd
      rw [hmd, List.take_of_length_le hlen]
    obtain ⟨d, e⟩ := res
    cases e <;> cases hw : wellBehaved r.script <;> simp_all
  · have hs' : r.skip = false := by simpa using hs
    simp only [hs', Bool.false_eq_true, if_false]
    have hsame : over r = declaredOver r := by unfold over declaredOver; cases r.cl <;> rfl
    by_cases hov : over r = true
    · simp only [hov, if_true]
      simp [← hsame, hov]
    · simp only [hov, Bool.false_eq_true, if_false]
      simp only [Bool.not_true, Bool.false_eq_true, if_false]
      have hlim : (0 : Nat) < r.limit := by omega
      have hA := bodylimit_never_truncates r.dflt (fuelFor r) r.caps
        { under := { rem := r.body, script := r.script, eofWithLast := r.eofWithLast }, limit := r.limit } [] hlim
      have hB := fun hwb => bodylimit_exact r.dflt (fuelFor r) r.caps
        { under := { rem := r.body, script := r.script, eofWithLast := r.eofWithLast }, limit := r.limit } [] hlim hwb
        (by simp [fuelFor]; omega)
      generalize readAll r.dflt (fuelFor r) r.caps
        { under := { rem := r.body, script := r.script, eofWithLast := r.eofWithLast }, limit := r.limit } [] = res at *
      simp only [List.nil_append, Nat.zero_add] at hA hB
      obtain ⟨d, e⟩ := res
      cases e <;> cases hw : wellBehaved r.script <;> by_cases hle : r.body.length ≤ r.limit <;> simp_all

/-! ### non-vacuity and the reader as shipped before the repair -/

/-- a six-byte body against a limit of five, chunked 2-1-4 with io.EOF on the last chunk -/
example : readAll 3 20 [] { under := { rem := "123456".toList, script := [.data 2, .data 1, .data 4], eofWithLast := true }, limit := 5 } []
    = ("12345".toList, .limit) := by decide
/-- exactly at the limit, look-ahead in its own read -/
example : readAll 8 20 [1, 64] { under := { rem := "12345".toList, script := [.data 5], eofWithLast := false }, limit := 5 } []
    = ("12345".toList, .eof) := by decide

/-- K17c, `(0, nil)` at the look-ahead: the reader as shipped hands the handler five of six bytes
    and a clean io.EOF -/
theorem bodylimit_asis_zero_witness :
    readAllAsIs 8 20 [] { under := { rem := "123456".toList, script := [.data 5, .zero], eofWithLast := false }, limit := 5 } []
      = ("12345".toList, .eof) := by decide

/-- K17c, transport error at the look-ahead: swallowed by the reader as shipped -/
theorem bodylimit_asis_fail_witness :
    readAllAsIs 8 20 [] { under := { rem := "123456".toList, script := [.data 5, .fail], eofWithLast := false }, limit := 5 } []
      = ("12345".toList, .eof) := by decide

/-- the repaired reader on the same two transports: the limit error, resp. the transport's error -/
theorem bodylimit_fixed_on_witnesses :
    readAll 8 20 [] { under := { rem := "123456".toList, script := [.data 5, .zero], eofWithLast := false }, limit := 5 } []
      = ("12345".toList, .limit) ∧
    readAll 8 20 [] { under := { rem := "123456".toList, script := [.data 5, .fail], eofWithLast := false }, limit := 5 } []
      = ("12345".toList, .other) := by decide

end body

end Rivaas.C17
