import Rivaas.Spec.Gates
/-
C17 — Request-gating and redirect middleware enforce their policy exactly.
One theorem group per gate; every statement quantifies over all inputs of the gate's model
(`Model/Gates.lean`); `…_meets_spec` theorems say that the model's observation satisfies the oracle
the driver evaluates on the real code (`Spec/Gates.lean`).
-/
namespace Rivaas.C17
open Rivaas.Gates

/-! ## bodylimit -/
section body
open Body

theorem lemma_wb_tail (s : List Step) (h : wellBehaved s = true) : wellBehaved s.tail = true := by
  cases s with
  | nil => simp [wellBehaved]
  | cons a t => simp [wellBehaved] at h ⊢; exact h.2

theorem lemma_chunkOf_bounds (u : Under) (cap : Nat) (hc : 1 ≤ cap) :
    1 ≤ chunkOf u cap ∧ chunkOf u cap ≤ cap := by
  unfold chunkOf; split <;> omega

/-- on a well-behaved script a read of a non-exhausted body is a data read -/
theorem lemma_read_wb (u : Under) (cap : Nat) (hwb : wellBehaved u.script = true) (hr : u.rem ≠ []) :
    u.read cap =
      (u.rem.take (min (chunkOf u cap) u.rem.length),
       (if u.rem.drop (min (chunkOf u cap) u.rem.length) = [] ∧ u.eofWithLast = true then Err.eof else Err.none),
       { u with rem := u.rem.drop (min (chunkOf u cap) u.rem.length), script := u.script.tail }) := by
  unfold Under.read
  simp only [hr, if_false]
  cases hs : u.script with
  | nil => rfl
  | cons a t =>
    cases a with
    | data k => rfl
    | zero => simp [hs, wellBehaved] at hwb
    | fail => simp [hs, wellBehaved] at hwb
    | dataFail k => simp [hs, wellBehaved] at hwb

theorem lemma_read_empty (u : Under) (cap : Nat) (hr : u.rem = []) :
    (u.read cap).1 = [] ∧ (u.read cap).2.1 = .eof := by
  simp [Under.read, hr]

theorem lemma_read_fst_ne_nil (u : Under) (cap : Nat) (hc : 1 ≤ cap) (hwb : wellBehaved u.script = true)
    (hr : u.rem ≠ []) : (u.read cap).1 ≠ [] := by
  obtain ⟨hk1, _⟩ := lemma_chunkOf_bounds u cap hc
  have hlen : 1 ≤ u.rem.length := by
    cases h : u.rem with
    | nil => exact absurd h hr
    | cons a as => simp
  rw [lemma_read_wb u cap hwb hr]
  intro hcon
  have h2 : (u.rem.take (min (chunkOf u cap) u.rem.length)).length = 0 := by
    simp only at hcon; rw [hcon]; rfl
  rw [List.length_take] at h2
  omega

/-- over a well-behaved transport the look-ahead is a single read -/
theorem lemma_lookAhead_wb (u : Under) (hwb : wellBehaved u.script = true) :
    lookAhead maxEmptyReads u = u.read 1 := by
  show lookAhead (99 + 1) u = u.read 1
  unfold lookAhead
  by_cases hr : u.rem = []
  · have := lemma_read_empty u 1 hr
    simp [this.2]
  · have := lemma_read_fst_ne_nil u 1 (Nat.le_refl 1) hwb hr
    simp [this]

/-- state after an ordinary read of `n` bytes -/
def adv (l : LR) (n : Nat) : LR :=
  { l with under := { l.under with rem := l.under.rem.drop n, script := l.under.script.tail }, read := l.read + n }

/-- the five outcomes of one `limitedReader.Read` on a non-exhausted body over a well-behaved transport -/
theorem lemma_read1_cases (l : LR) (cap : Nat) (hc : 1 ≤ cap) (hlim : l.read < l.limit)
    (hwb : wellBehaved l.under.script = true) (hr : l.under.rem ≠ []) :
    ∃ n, 1 ≤ n ∧ n ≤ l.limit - l.read ∧ n ≤ l.under.rem.length ∧
      ((l.under.rem.drop n = [] ∧ ((l.read1 cap).1 = l.under.rem.take n) ∧
          (((l.read1 cap).2.1 = .eof) ∨
           ((l.read1 cap).2.1 = .none ∧ l.read + n < l.limit ∧ (l.read1 cap).2.2 = adv l n))) ∨
       (l.under.rem.drop n ≠ [] ∧ (l.read1 cap).1 = l.under.rem.take n ∧
          ((l.read + n = l.limit ∧ (l.read1 cap).2.1 = .limit) ∨
           (l.read + n < l.limit ∧ (l.read1 cap).2.1 = .none ∧ (l.read1 cap).2.2 = adv l n)))) := by
  have hge : ¬ (l.read ≥ l.limit) := by omega
  have hcap' : 1 ≤ min cap (l.limit - l.read) := by omega
  obtain ⟨hk1, hk2⟩ := lemma_chunkOf_bounds l.under (min cap (l.limit - l.read)) hcap'
  have hlen : 1 ≤ l.under.rem.length := by
    cases h : l.under.rem with
    | nil => exact absurd h hr
    | cons a as => simp
  refine ⟨min (chunkOf l.under (min cap (l.limit - l.read))) l.under.rem.length, by omega, by omega, by omega, ?_⟩
  have hread := lemma_read_wb l.under (min cap (l.limit - l.read)) hwb hr
  generalize hn : min (chunkOf l.under (min cap (l.limit - l.read))) l.under.rem.length = n at hread ⊢
  have hn1 : 1 ≤ n := by omega
  have hn3 : n ≤ l.under.rem.length := by omega
  have hn2 : n ≤ l.limit - l.read := by omega
  have htl : (l.under.rem.take n).length = n := by simp; omega
  have hwb' : wellBehaved ({ l.under with rem := l.under.rem.drop n, script := l.under.script.tail } : Under).script = true :=
    lemma_wb_tail _ hwb
  have hla := lemma_lookAhead_wb
    ({ l.under with rem := l.under.rem.drop n, script := l.under.script.tail } : Under) hwb'
  by_cases hd : l.under.rem.drop n = []
  · left
    refine ⟨hd, ?_, ?_⟩
    · unfold LR.read1; simp only [hge, if_false, hread, hla]
    · by_cases he : l.under.eofWithLast = true
      · left; unfold LR.read1; simp [hge, hread, hd, he]
      · by_cases hat : l.read + n ≥ l.limit
        · left; unfold LR.read1
          simp only [hge, if_false, hread, hla]
          simp [hd, he, htl, hat]
          simp [Under.read]
        · right
          refine ⟨?_, by omega, ?_⟩
          · unfold LR.read1; simp [hge, hread, hd, he, htl, hat]
          · unfold LR.read1; simp [hge, hread, hd, he, htl, hat, adv]
  · right
    refine ⟨hd, ?_, ?_⟩
    · unfold LR.read1; simp only [hge, if_false, hread, hla]
    · by_cases hat : l.read + n ≥ l.limit
      · left
        refine ⟨by omega, ?_⟩
        have hx := lemma_read_fst_ne_nil
          ({ l.under with rem := l.under.rem.drop n, script := l.under.script.tail } : Under) 1 (Nat.le_refl 1) hwb' hd
        unfold LR.read1; simp [hge, hread, hla, hd, htl, hat, hx]
      · right
        refine ⟨by omega, ?_, ?_⟩
        · unfold LR.read1; simp [hge, hread, hd, htl, hat]
        · unfold LR.read1; simp [hge, hread, hd, htl, hat, adv]

/-- **Exactness of the limited reader** for every chunking of a well-behaved transport, every
    sequence of buffer sizes, either EOF style and every limit: a body within the limit is delivered
    unchanged and ends with io.EOF; a longer body makes the read fail with ErrBodyLimitExceeded after
    exactly `limit` bytes — never a silently truncated body. -/
theorem bodylimit_exact (dflt : Nat) (fuel : Nat) (caps : List Nat) (l : LR) (acc : Bytes)
    (hlim : l.read < l.limit) (hwb : wellBehaved l.under.script = true)
    (hfuel : l.under.rem.length + 2 ≤ fuel) :
    readAll dflt fuel caps l acc =
      if l.read + l.under.rem.length ≤ l.limit then (acc ++ l.under.rem, .eof)
      else (acc ++ l.under.rem.take (l.limit - l.read), .limit) := by
  induction fuel generalizing l acc caps with
  | zero => omega
  | succ fuel ih =>
    have hge : ¬ (l.read ≥ l.limit) := by omega
    have hc : 1 ≤ max 1 (caps.headD dflt) := by omega
    simp only [readAll]
    generalize max 1 (caps.headD dflt) = cap at hc ⊢
    by_cases hr : l.under.rem = []
    · simp [LR.read1, hge, Under.read, hr]; omega
    · obtain ⟨n, hn1, hn2, hn3, hcase⟩ := lemma_read1_cases l cap hc hlim hwb hr
      have hdl : (l.under.rem.drop n).length = l.under.rem.length - n := by simp
      have hsplit : l.under.rem.take n ++ l.under.rem.drop n = l.under.rem := List.take_append_drop n _
      have hwb' : wellBehaved (adv l n).under.script = true := by
        simpa [adv] using lemma_wb_tail _ hwb
      rcases hcase with ⟨hd, hdata, hres⟩ | ⟨hd, hdata, hres⟩
      · have hnlen : n = l.under.rem.length := by
          have := hdl; rw [hd] at this; simp at this; omega
        have htake : l.under.rem.take n = l.under.rem := by rw [hnlen]; simp
        have hwithin : l.read + l.under.rem.length ≤ l.limit := by omega
        rcases hres with he | ⟨he, hlt, hst⟩
        · simp [he, hdata, htake, hwithin]
        · have hnext := ih caps.tail (adv l n) (acc ++ l.under.rem) (by simp [adv]; omega) hwb'
            (by simp [adv, hd]; omega)
          simp only [he, if_true, hdata, htake, hst, hnext]
          simp [adv, hd, hwithin]
          omega
      · have hmore : n < l.under.rem.length := by
          have : 1 ≤ (l.under.rem.drop n).length := by
            cases h : l.under.rem.drop n with
            | nil => exact absurd h hd
            | cons a as => simp
          omega
        rcases hres with ⟨heq, he⟩ | ⟨hlt, he, hst⟩
        · have hover : ¬ (l.read + l.under.rem.length ≤ l.limit) := by omega
          have hneq : l.limit - l.read = n := by omega
          simp [he, hdata, hover, hneq]
        · have hnext := ih caps.tail (adv l n) (acc ++ l.under.rem.take n) (by simp [adv]; omega) hwb'
            (by simp [adv]; omega)
          simp only [he, if_true, hdata, hst, hnext]
          simp only [adv, hdl]
          by_cases hw : l.read + l.under.rem.length ≤ l.limit
          · have hw' : l.read + n + (l.under.rem.length - n) ≤ l.limit := by omega
            simp [hw, hw', List.append_assoc, hsplit]
          · have hw' : ¬ (l.read + n + (l.under.rem.length - n) ≤ l.limit) := by omega
            simp only [hw, hw', if_false, List.append_assoc]
            have hsum : l.limit - l.read = n + (l.limit - (l.read + n)) := by omega
            rw [hsum, List.take_add]

/-! ### every transport, well-behaved or not -/

/-- one `Read` of any underlying reader hands out a prefix of what remains, never reports
    ErrBodyLimitExceeded, and reports io.EOF only when nothing remains -/
theorem lemma_read_gen (u : Under) (cap : Nat) :
    ∃ n, n ≤ cap ∧ n ≤ u.rem.length ∧ (u.read cap).1 = u.rem.take n ∧ (u.read cap).2.2.rem = u.rem.drop n ∧
      ((u.read cap).2.1 = .eof → u.rem.drop n = []) ∧ (u.read cap).2.1 ≠ .limit := by
  by_cases hr : u.rem = []
  · exact ⟨0, by omega, by omega, by simp [Under.read, hr], by simp [Under.read, hr], by simp [hr], by simp [Under.read, hr]⟩
  · have hdata : ∀ s : List Step, (∀ t, s ≠ Step.zero :: t) → (∀ t, s ≠ Step.fail :: t) → (∀ k t, s ≠ Step.dataFail k :: t) → u.script = s →
        u.read cap = (u.rem.take (min (chunkOf u cap) u.rem.length),
          (if u.rem.drop (min (chunkOf u cap) u.rem.length) = [] ∧ u.eofWithLast = true then Err.eof else Err.none),
          { u with rem := u.rem.drop (min (chunkOf u cap) u.rem.length), script := u.script.tail }) := by
      intro s h1 h2 h3 hs
      unfold Under.read
      simp only [hr, if_false]
      split
      · next rest heq => exact absurd (hs ▸ heq) (h1 rest)
      · next rest heq => exact absurd (hs ▸ heq) (h2 rest)
      · next k rest heq => exact absurd (hs ▸ heq) (h3 k rest)
      · rfl
    have hck : chunkOf u cap ≤ cap := by unfold chunkOf; split <;> omega
    cases hs : u.script with
    | nil =>
      rw [hdata [] (by simp) (by simp) (by simp) hs]
      refine ⟨min (chunkOf u cap) u.rem.length, by omega, by omega, rfl, rfl, ?_, ?_⟩
      · intro h; by_cases hc : u.rem.drop (min (chunkOf u cap) u.rem.length) = [] ∧ u.eofWithLast = true
        · exact hc.1
        · simp only [if_neg hc] at h; cases h
      · simp only; split <;> simp
    | cons a t =>
      cases a with
      | data k =>
        rw [hdata (Step.data k :: t) (by simp) (by simp) (by simp) hs]
        refine ⟨min (chunkOf u cap) u.rem.length, by omega, by omega, rfl, rfl, ?_, ?_⟩
        · intro h; by_cases hc : u.rem.drop (min (chunkOf u cap) u.rem.length) = [] ∧ u.eofWithLast = true
          · exact hc.1
          · simp only [if_neg hc] at h; cases h
        · simp only; split <;> simp
      | zero => exact ⟨0, by omega, by omega, by simp [Under.read, hr, hs], by simp [Under.read, hr, hs], by simp [Under.read, hr, hs], by simp [Under.read, hr, hs]⟩
      | fail => exact ⟨0, by omega, by omega, by simp [Under.read, hr, hs], by simp [Under.read, hr, hs], by simp [Under.read, hr, hs], by simp [Under.read, hr, hs]⟩
      | dataFail k =>
        exact ⟨min (min cap (max k 1)) u.rem.length, by omega, by omega, by simp [Under.read, hr, hs], by simp [Under.read, hr, hs],
          by simp [Under.read, hr, hs], by simp [Under.read, hr, hs]⟩

/-- the look-ahead never answers "no byte, no error"; it consumes at most one byte; io.EOF only
    when nothing remains -/
theorem lemma_lookAhead_gen (k : Nat) (u : Under) :
    ((lookAhead k u).1 ≠ [] ∨ (lookAhead k u).2.1 ≠ .none) ∧ (lookAhead k u).2.1 ≠ .limit ∧
    (((lookAhead k u).1 ≠ [] ∧ u.rem ≠ []) ∨
     ((lookAhead k u).1 = [] ∧ ((lookAhead k u).2.1 = .eof → u.rem = []))) := by
  induction k generalizing u with
  | zero => simp [lookAhead]
  | succ k ih =>
    unfold lookAhead
    obtain ⟨n, hn1, hn2, hd, hrem, heof, hnl⟩ := lemma_read_gen u 1
    by_cases hc : (u.read 1).1 ≠ [] ∨ (u.read 1).2.1 ≠ .none
    · rw [if_pos hc]
      refine ⟨hc, hnl, ?_⟩
      by_cases hne : (u.read 1).1 = []
      · right
        refine ⟨hne, fun he => ?_⟩
        have h0 : n = 0 := by
          rw [hd, List.take_eq_nil_iff] at hne
          rcases hne with h | h
          · exact h
          · rw [h] at hn2; simpa using hn2
        have := heof he
        simpa [h0] using this
      · left
        refine ⟨hne, fun h => ?_⟩
        rw [hd, h] at hne; simp at hne
    · rw [if_neg hc]
      have hc' : (u.read 1).1 = [] ∧ (u.read 1).2.1 = .none := by
        constructor
        · exact Classical.byContradiction fun h => hc (Or.inl h)
        · exact Classical.byContradiction fun h => hc (Or.inr h)
      have h0 : n = 0 := by
        have hne := hc'.1
        rw [hd, List.take_eq_nil_iff] at hne
        rcases hne with h | h
        · exact h
        · rw [h] at hn2; simpa using hn2
      have hrem' : (u.read 1).2.2.rem = u.rem := by simpa [h0] using hrem
      have := ih (u.read 1).2.2
      rw [hrem'] at this
      exact this

/-- one `limitedReader.Read` below the limit, over any transport -/
theorem lemma_read1_gen (l : LR) (cap : Nat) (hlim : l.read < l.limit) :
    ∃ n, n ≤ l.limit - l.read ∧ n ≤ l.under.rem.length ∧ (l.read1 cap).1 = l.under.rem.take n ∧
      (l.read1 cap).2.2.limit = l.limit ∧
      ((l.read1 cap).2.1 = .none → (l.read1 cap).2.2.read = l.read + n ∧ l.read + n < l.limit ∧
          (l.read1 cap).2.2.under.rem = l.under.rem.drop n) ∧
      ((l.read1 cap).2.1 = .eof → l.under.rem.drop n = []) ∧
      ((l.read1 cap).2.1 = .limit → l.read + n = l.limit ∧ l.under.rem.drop n ≠ []) := by
  have hge : ¬ (l.read ≥ l.limit) := by omega
  obtain ⟨n, hn1, hn2, hd, hrem, heof, hnl⟩ := lemma_read_gen l.under (min cap (l.limit - l.read))
  obtain ⟨hla1, hla2, hla3⟩ := lemma_lookAhead_gen maxEmptyReads (l.under.read (min cap (l.limit - l.read))).2.2
  rw [hrem] at hla3
  have hlen : (l.under.read (min cap (l.limit - l.read))).1.length = n := by rw [hd]; simp; omega
  have hr1 : l.read1 cap =
      ((l.under.read (min cap (l.limit - l.read))).1,
       (if (decide (l.read + n ≥ l.limit) && decide ((l.under.read (min cap (l.limit - l.read))).2.1 = Err.none)) = true then
          (if (lookAhead maxEmptyReads (l.under.read (min cap (l.limit - l.read))).2.2).1 ≠ [] then Err.limit
           else (lookAhead maxEmptyReads (l.under.read (min cap (l.limit - l.read))).2.2).2.1)
        else (l.under.read (min cap (l.limit - l.read))).2.1),
       { l with under := (if (decide (l.read + n ≥ l.limit) && decide ((l.under.read (min cap (l.limit - l.read))).2.1 = Err.none)) = true then
                            (lookAhead maxEmptyReads (l.under.read (min cap (l.limit - l.read))).2.2).2.2
                          else (l.under.read (min cap (l.limit - l.read))).2.2),
                read := l.read + n }) := by
    unfold LR.read1; simp only [hge, if_false, hlen]
  rw [hr1]
  generalize l.under.read (min cap (l.limit - l.read)) = r at *
  generalize lookAhead maxEmptyReads r.2.2 = x at *
  refine ⟨n, by omega, hn2, hd, rfl, ?_, ?_, ?_⟩
  · by_cases hlook : (decide (l.read + n ≥ l.limit) && decide (r.2.1 = Err.none)) = true
    · simp only [if_pos hlook]
      intro h
      exfalso
      by_cases hx : x.1 ≠ []
      · rw [if_pos hx] at h; cases h
      · rw [if_neg hx] at h
        rcases hla1 with h1 | h1
        · exact hx h1
        · exact h1 h
    · simp only [if_neg hlook]
      intro h
      refine ⟨trivial, ?_, hrem⟩
      simp [h] at hlook; omega
  · by_cases hlook : (decide (l.read + n ≥ l.limit) && decide (r.2.1 = Err.none)) = true
    · simp only [if_pos hlook]
      intro h
      by_cases hx : x.1 ≠ []
      · rw [if_pos hx] at h; cases h
      · rw [if_neg hx] at h
        rcases hla3 with ⟨hne, _⟩ | ⟨_, hee⟩
        · exact absurd hne hx
        · exact hee h
    · simp only [if_neg hlook]
      exact heof
  · by_cases hlook : (decide (l.read + n ≥ l.limit) && decide (r.2.1 = Err.none)) = true
    · simp only [if_pos hlook]
      have hat : l.read + n ≥ l.limit := by simp at hlook; exact hlook.1
      intro h
      by_cases hx : x.1 ≠ []
      · rcases hla3 with ⟨_, hne⟩ | ⟨he, _⟩
        · exact ⟨by omega, hne⟩
        · exact absurd he hx
      · rw [if_neg hx] at h
        exact absurd h hla2
    · simp only [if_neg hlook]
      intro h
      exact absurd h hnl

/-- the read loop over any transport: what has been collected is a prefix of the body no longer
    than the limit allows; a clean end means the whole body, ErrBodyLimitExceeded means exactly
    `limit` bytes with more behind them -/
theorem lemma_readAll_gen (dflt : Nat) (fuel : Nat) (caps : List Nat) (l : LR) (acc : Bytes)
    (hlim : l.read < l.limit) :
    ∃ m, m ≤ l.limit - l.read ∧ m ≤ l.under.rem.length ∧
      (readAll dflt fuel caps l acc).1 = acc ++ l.under.rem.take m ∧
      ((readAll dflt fuel caps l acc).2 = .eof → l.under.rem.drop m = []) ∧
      ((readAll dflt fuel caps l acc).2 = .limit → l.read + m = l.limit ∧ l.under.rem.drop m ≠ []) := by
  induction fuel generalizing l acc caps with
  | zero => exact ⟨0, by omega, by omega, by simp [readAll], by simp [readAll], by simp [readAll]⟩
  | succ fuel ih =>
    simp only [readAll]
    generalize max 1 (caps.headD dflt) = cap
    obtain ⟨n, hn1, hn2, hd, hl, hnone, heof, hlimit⟩ := lemma_read1_gen l cap hlim
    by_cases he : (l.read1 cap).2.1 = .none
    · simp only [he, if_true]
      obtain ⟨hr1, hr2, hr3⟩ := hnone he
      obtain ⟨m, hm1, hm2, hmd, hme, hml⟩ := ih caps.tail (l.read1 cap).2.2 (acc ++ (l.read1 cap).1) (by omega)
      rw [hr3] at hm2 hmd hme hml
      rw [hl, hr1] at hm1 hml
      have hm2' : m ≤ l.under.rem.length - n := by simpa using hm2
      refine ⟨n + m, by omega, by omega, ?_, ?_, ?_⟩
      · rw [hmd, hd, List.append_assoc, List.take_add]
      · intro h; have := hme h; rwa [List.drop_drop] at this
      · intro h; have := hml h
        refine ⟨by omega, ?_⟩
        have h2 := this.2; rwa [List.drop_drop] at h2
    · simp only [he, if_false]
      exact ⟨n, hn1, hn2, by rw [hd], heof, hlimit⟩

/-- **No silent truncation, whatever the transport does** (arbitrary chunk sizes, `(0, nil)` reads,
    transport errors, either EOF style, any buffer sizes): if the handler's read loop ends with
    io.EOF it has received the whole body and the body is within the limit. -/
theorem bodylimit_never_truncates (dflt fuel : Nat) (caps : List Nat) (l : LR) (acc : Bytes)
    (hlim : l.read < l.limit) (h : (readAll dflt fuel caps l acc).2 = .eof) :
    (readAll dflt fuel caps l acc).1 = acc ++ l.under.rem ∧ l.read + l.under.rem.length ≤ l.limit := by
  obtain ⟨m, hm1, hm2, hmd, hme, _⟩ := lemma_readAll_gen dflt fuel caps l acc hlim
  have hlen : l.under.rem.length ≤ m := by
    have := hme h
    have h2 : (l.under.rem.drop m).length = 0 := by rw [this]; rfl
    simp at h2; omega
  have hm : m = l.under.rem.length := by omega
  refine ⟨?_, by omega⟩
  rw [hmd, hm, List.take_length]

/-- the handler never receives more than `limit` bytes, and what it receives is a prefix of the body -/
theorem bodylimit_prefix_within_limit (dflt fuel : Nat) (caps : List Nat) (l : LR) (hlim : l.read < l.limit) :
    ∃ m, m ≤ l.limit - l.read ∧ (readAll dflt fuel caps l []).1 = l.under.rem.take m := by
  obtain ⟨m, hm1, _, hmd, _, _⟩ := lemma_readAll_gen dflt fuel caps l [] hlim
  exact ⟨m, hm1, by simpa using hmd⟩

/-! ### skipped paths: the handler reads the transport itself -/

theorem lemma_readPlain_gen (dflt fuel : Nat) (caps : List Nat) (u : Under) (acc : Bytes) :
    ∃ m, m ≤ u.rem.length ∧ (readPlain dflt fuel caps u acc).1 = acc ++ u.rem.take m ∧
      ((readPlain dflt fuel caps u acc).2 = .eof → u.rem.drop m = []) := by
  induction fuel generalizing u acc caps with
  | zero => exact ⟨0, by omega, by simp [readPlain], by simp [readPlain]⟩
  | succ fuel ih =>
    simp only [readPlain]
    generalize max 1 (caps.headD dflt) = cap
    obtain ⟨n, _, hn2, hd, hrem, heof, _⟩ := lemma_read_gen u cap
    by_cases he : (u.read cap).2.1 = .none
    · simp only [he, if_true]
      obtain ⟨m, hm2, hmd, hme⟩ := ih caps.tail (u.read cap).2.2 (acc ++ (u.read cap).1)
      rw [hrem] at hm2 hmd hme
      have hm2' : m ≤ u.rem.length - n := by simpa using hm2
      refine ⟨n + m, by omega, ?_, ?_⟩
      · rw [hmd, hd, List.append_assoc, List.take_add]
      · intro h; have := hme h; rwa [List.drop_drop] at this
    · simp only [he, if_false]
      exact ⟨n, hn2, by rw [hd], heof⟩

theorem lemma_readPlain_wb (dflt fuel : Nat) (caps : List Nat) (u : Under) (acc : Bytes)
    (hwb : wellBehaved u.script = true) (hfuel : u.rem.length + 2 ≤ fuel) :
    readPlain dflt fuel caps u acc = (acc ++ u.rem, .eof) := by
  induction fuel generalizing u acc caps with
  | zero => omega
  | succ fuel ih =>
    simp only [readPlain]
    have hc : 1 ≤ max 1 (caps.headD dflt) := by omega
    generalize max 1 (caps.headD dflt) = cap at hc ⊢
    by_cases hr : u.rem = []
    · simp [Under.read, hr]
    · obtain ⟨hk1, _⟩ := lemma_chunkOf_bounds u cap hc
      have hlen : 1 ≤ u.rem.length := by
        cases h : u.rem with
        | nil => exact absurd h hr
        | cons a as => simp
      rw [lemma_read_wb u cap hwb hr]
      generalize hn : min (chunkOf u cap) u.rem.length = n
      have hn1 : 1 ≤ n := by omega
      have hsplit : u.rem.take n ++ u.rem.drop n = u.rem := List.take_append_drop n _
      by_cases hc2 : u.rem.drop n = [] ∧ u.eofWithLast = true
      · simp only [if_pos hc2]
        have : u.rem.take n = u.rem := by
          have := hsplit; rw [hc2.1, List.append_nil] at this; exact this
        simp [this]
      · simp only [if_neg hc2, if_true]
        rw [ih caps.tail _ _ (lemma_wb_tail _ hwb) (by simp; omega)]
        simp [List.append_assoc, hsplit]

/-- **The body-limit gate meets its oracle** for every request: every limit ≥ 1, every body, every
    transport script (ill-behaved ones included), either EOF style, every sequence of handler buffer
    sizes, absent / truthful / lying / malformed Content-Length, skipped path or not. -/
theorem bodylimit_meets_spec (r : Req) (hl : 1 ≤ r.limit) : specOK r (serve r) = true := by
  unfold specOK serve
  by_cases hs : r.skip = true
  · simp only [hs, if_true]
    obtain ⟨m, hm2, hmd, hme⟩ := lemma_readPlain_gen r.dflt (fuelFor r) r.caps
      { rem := r.body, script := r.script, eofWithLast := r.eofWithLast } []
    have hB := fun hwb => lemma_readPlain_wb r.dflt (fuelFor r) r.caps
      { rem := r.body, script := r.script, eofWithLast := r.eofWithLast } [] hwb (by simp [fuelFor]; omega)
    generalize readPlain r.dflt (fuelFor r) r.caps { rem := r.body, script := r.script, eofWithLast := r.eofWithLast } [] = res at *
    have hA : res.2 = .eof → res.1 = r.body := by
      intro h
      have hd := hme h
      have hlen : r.body.length ≤ m := by
        have h2 : (r.body.drop m).length = 0 := by simp only at hd; rw [hd]; rfl
        simp at h2; omega
      simp only [List.nil_append] at hmd
      rw [hmd, List.take_of_length_le hlen]
    obtain ⟨d, e⟩ := res
    cases e <;> cases hw : wellBehaved r.script <;> simp_all
  · have hs' : r.skip = false := by simpa using hs
    simp only [hs', Bool.false_eq_true, if_false]
    have hsame : over r = declaredOver r := by unfold over declaredOver; cases r.cl <;> rfl
    by_cases hov : over r = true
    · simp only [hov, if_true]
      simp [← hsame, hov]
    · simp only [hov, Bool.false_eq_true, if_false]
      simp only [Bool.not_true, Bool.false_eq_true, if_false]
      have hlim : (0 : Nat) < r.limit := by omega
      have hA := bodylimit_never_truncates r.dflt (fuelFor r) r.caps
        { under := { rem := r.body, script := r.script, eofWithLast := r.eofWithLast }, limit := r.limit } [] hlim
      have hB := fun hwb => bodylimit_exact r.dflt (fuelFor r) r.caps
        { under := { rem := r.body, script := r.script, eofWithLast := r.eofWithLast }, limit := r.limit } [] hlim hwb
        (by simp [fuelFor]; omega)
      have hC := lemma_readAll_gen r.dflt (fuelFor r) r.caps
        { under := { rem := r.body, script := r.script, eofWithLast := r.eofWithLast }, limit := r.limit } [] hlim
      generalize readAll r.dflt (fuelFor r) r.caps
        { under := { rem := r.body, script := r.script, eofWithLast := r.eofWithLast }, limit := r.limit } [] = res at *
      simp only [List.nil_append, Nat.zero_add] at hA hB hC
      obtain ⟨d, e⟩ := res
      have hX : d.isPrefixOf r.body = true ∧ d.length ≤ r.limit ∧
          (e = .limit → r.body.length > r.limit ∧ d.length = r.limit) := by
        obtain ⟨m, hm1, hm2, hmd, _, hml⟩ := hC
        simp only at hmd hml hm1 hm2
        subst hmd
        refine ⟨by rw [List.isPrefixOf_iff_prefix]; exact List.take_prefix _ _, by rw [List.length_take]; omega, ?_⟩
        intro he
        obtain ⟨h1, h2⟩ := hml he
        have h3 : m < r.body.length := by
          rcases Nat.lt_or_ge m r.body.length with h | h
          · exact h
          · exact absurd (List.drop_eq_nil_of_le h) h2
        exact ⟨by omega, by rw [List.length_take]; omega⟩
      obtain ⟨hX1, hX2, hX3⟩ := hX
      cases e <;> cases hw : wellBehaved r.script <;> by_cases hle : r.body.length ≤ r.limit <;> simp_all

/-! ### non-vacuity and the reader as shipped before the repair -/

/-- a six-byte body against a limit of five, chunked 2-1-4 with io.EOF on the last chunk -/
example : readAll 3 20 [] { under := { rem := "123456".toList, script := [.data 2, .data 1, .data 4], eofWithLast := true }, limit := 5 } []
    = ("12345".toList, .limit) := by decide
/-- exactly at the limit, look-ahead in its own read -/
example : readAll 8 20 [1, 64] { under := { rem := "12345".toList, script := [.data 5], eofWithLast := false }, limit := 5 } []
    = ("12345".toList, .eof) := by decide

/-- K17c, `(0, nil)` at the look-ahead: the reader as shipped hands the handler five of six bytes
    and a clean io.EOF -/
theorem bodylimit_asis_zero_witness :
    readAllAsIs 8 20 [] { under := { rem := "123456".toList, script := [.data 5, .zero], eofWithLast := false }, limit := 5 } []
      = ("12345".toList, .eof) := by decide

/-- K17c, transport error at the look-ahead: swallowed by the reader as shipped -/
theorem bodylimit_asis_fail_witness :
    readAllAsIs 8 20 [] { under := { rem := "123456".toList, script := [.data 5, .fail], eofWithLast := false }, limit := 5 } []
      = ("12345".toList, .eof) := by decide

/-- the repaired reader on the same two transports: the limit error, resp. the transport's error -/
theorem bodylimit_fixed_on_witnesses :
    readAll 8 20 [] { under := { rem := "123456".toList, script := [.data 5, .zero], eofWithLast := false }, limit := 5 } []
      = ("12345".toList, .limit) ∧
    readAll 8 20 [] { under := { rem := "123456".toList, script := [.data 5, .fail], eofWithLast := false }, limit := 5 } []
      = ("12345".toList, .other) := by decide

end body

/-! ## basicauth -/
section auth
open Auth

/-- `strings.Cut` splits at the first separator -/
theorem lemma_cut_some (sep : Char) (s a b : Bytes) :
    cut sep s = some (a, b) ↔ s = a ++ sep :: b ∧ sep ∉ a := by
  induction s generalizing a b with
  | nil => simp [cut]
  | cons c rest ih =>
    unfold cut
    by_cases hc : c = sep
    · subst hc
      simp only [if_true]
      constructor
      · intro h
        simp only [Option.some.injEq, Prod.mk.injEq] at h
        obtain ⟨rfl, rfl⟩ := h
        simp
      · rintro ⟨h1, h2⟩
        cases a with
        | nil => simp at h1; simp [h1]
        | cons x a' =>
          simp only [List.cons_append, List.cons.injEq] at h1
          exact absurd (by simp [h1.1]) h2
    · simp only [hc, if_false]
      cases hr : cut sep rest with
      | none =>
        simp only
        constructor
        · intro h; cases h
        · rintro ⟨h1, h2⟩
          cases a with
          | nil => simp at h1; exact absurd h1.1 hc
          | cons x a' =>
            simp only [List.cons_append, List.cons.injEq] at h1
            have := (ih a' b).mpr ⟨h1.2, fun h => h2 (List.mem_cons_of_mem _ h)⟩
            rw [hr] at this; cases this
      | some p =>
        obtain ⟨a0, b0⟩ := p
        simp only [Option.some.injEq, Prod.mk.injEq]
        have h0 := (ih a0 b0).mp hr
        constructor
        · rintro ⟨rfl, rfl⟩
          refine ⟨by rw [h0.1]; simp, ?_⟩
          intro h
          rcases List.mem_cons.mp h with h | h
          · exact hc h.symm
          · exact h0.2 h
        · rintro ⟨h1, h2⟩
          cases a with
          | nil => simp at h1; exact absurd h1.1 hc
          | cons x a' =>
            simp only [List.cons_append, List.cons.injEq] at h1
            have := (ih a' b).mpr ⟨h1.2, fun h => h2 (List.mem_cons_of_mem _ h)⟩
            rw [hr] at this
            simp only [Option.some.injEq, Prod.mk.injEq] at this
            exact ⟨by rw [h1.1, this.1], this.2⟩

theorem lemma_lookup_mem (l : List (Bytes × Bytes)) (u p : Bytes) (h : l.lookup u = some p) : (u, p) ∈ l := by
  induction l with
  | nil => simp at h
  | cons x rest ih =>
    obtain ⟨k, v⟩ := x
    simp only [List.lookup_cons] at h
    by_cases hk : u == k
    · simp only [hk] at h
      have : u = k := by simpa using hk
      simp at h
      simp [this, h]
    · simp only [hk] at h
      exact List.mem_cons_of_mem _ (ih h)

theorem lemma_mem_lookup (l : List (Bytes × Bytes)) (u p : Bytes) (hnd : (l.map (·.1)).Nodup)
    (h : (u, p) ∈ l) : l.lookup u = some p := by
  induction l with
  | nil => simp at h
  | cons x rest ih =>
    obtain ⟨k, v⟩ := x
    simp only [List.map_cons, List.nodup_cons] at hnd
    simp only [List.lookup_cons]
    rcases List.mem_cons.mp h with h' | h'
    · simp only [Prod.mk.injEq] at h'
      simp [h'.1, h'.2]
    · have hne : ¬ (u == k) = true := by
        intro hk
        have hk' : u = k := by simpa using hk
        exact hnd.1 (List.mem_map.mpr ⟨(u, p), h', by simp [hk']⟩)
      simp only [hne]
      exact ih hnd.2 h'

/-- the two outcomes of the middleware -/
theorem lemma_auth_cases (r : Req) :
    serve r = reject r ∨
    ∃ u p, prefixBasic.isPrefixOf r.auth = true ∧ r.dec = some (u ++ ':' :: p) ∧ ':' ∉ u ∧
      authenticated r u p = true ∧ serve r = { ran := true, status := 200, www := none, user := u } := by
  unfold serve
  by_cases h1 : r.auth = []
  · simp [h1]
  · simp only [h1, if_false]
    by_cases h2 : prefixBasic.isPrefixOf r.auth = true
    · simp only [h2, not_true_eq_false, if_false]
      cases hd : r.dec with
      | none => simp
      | some cred =>
        simp only
        cases hc : cut ':' cred with
        | none => simp
        | some up =>
          obtain ⟨u0, p0⟩ := up
          have h0 := (lemma_cut_some ':' cred u0 p0).mp hc
          simp only
          by_cases ha : authenticated r u0 p0 = true
          · right
            exact ⟨u0, p0, trivial, by rw [h0.1], h0.2, ha, by simp [ha]⟩
          · simp [ha]
    · simp [h2]

/-- **The handler runs iff** the header is `Basic ` followed by text whose base64 decoding is `u:p`
    (`u` without colon: everything after the *first* colon is the password) and the configuration
    authenticates that pair — the user table, or the configured validator. Every Authorization string. -/
theorem auth_runs_iff' (r : Req) :
    (serve r).ran = true ↔
      prefixBasic.isPrefixOf r.auth = true ∧
      ∃ u p, r.dec = some (u ++ ':' :: p) ∧ ':' ∉ u ∧ authenticated r u p = true := by
  constructor
  · intro h
    rcases lemma_auth_cases r with h1 | ⟨u, p, hp, hd, hu, ha, _⟩
    · rw [h1] at h; cases h
    · exact ⟨hp, u, p, hd, hu, ha⟩
  · rintro ⟨hp, u, p, hd, hu, ha⟩
    unfold serve
    have h1 : r.auth ≠ [] := by
      intro he; rw [he] at hp; simp [prefixBasic] at hp
    have hc := (lemma_cut_some ':' (u ++ ':' :: p) u p).mpr ⟨rfl, hu⟩
    simp [h1, hp, hd, hc, ha]

/-- with a user table (no validator) "authenticates" means: a configured pair -/
theorem lemma_authenticated_users (r : Req) (hv : r.validator = none) (hnd : (r.users.map (·.1)).Nodup) (u p : Bytes) :
    authenticated r u p = true ↔ (u, p) ∈ r.users := by
  unfold authenticated
  rw [hv]
  simp only
  constructor
  · intro h
    cases hl : r.users.lookup u with
    | none => simp [hl] at h
    | some p' =>
      simp only [hl, decide_eq_true_eq] at h
      rw [h]; exact lemma_lookup_mem _ _ _ hl
  · intro h
    rw [lemma_mem_lookup _ _ _ hnd h]; simp

/-- … for a configured user table: every Authorization string, every table -/
theorem auth_runs_iff (r : Req) (hv : r.validator = none) (hnd : (r.users.map (·.1)).Nodup) :
    (serve r).ran = true ↔
      prefixBasic.isPrefixOf r.auth = true ∧
      ∃ u p, r.dec = some (u ++ ':' :: p) ∧ ':' ∉ u ∧ (u, p) ∈ r.users := by
  rw [auth_runs_iff']
  constructor
  · rintro ⟨hp, u, p, hd, hu, ha⟩
    exact ⟨hp, u, p, hd, hu, (lemma_authenticated_users r hv hnd u p).mp ha⟩
  · rintro ⟨hp, u, p, hd, hu, hm⟩
    exact ⟨hp, u, p, hd, hu, (lemma_authenticated_users r hv hnd u p).mpr hm⟩

/-- a refused request is answered 401 with the configured challenge, and the handler does not run -/
theorem auth_reject_401 (r : Req) (h : (serve r).ran = false) :
    (serve r).status = 401 ∧ (serve r).www = some ("Basic realm=\"".toList ++ r.realm ++ "\"".toList) := by
  rcases lemma_auth_cases r with h1 | ⟨u, p, _, _, _, _, h1⟩
  · rw [h1]; exact ⟨rfl, rfl⟩
  · rw [h1] at h; cases h

/-- an accepted request reaches the handler with the authenticated user name and no challenge -/
theorem auth_accept_user (r : Req) (h : (serve r).ran = true) :
    ∃ u p, r.dec = some (u ++ ':' :: p) ∧ ':' ∉ u ∧ authenticated r u p = true ∧
      (serve r).user = u ∧ (serve r).www = none := by
  rcases lemma_auth_cases r with h1 | ⟨u, p, _, hd, hu, ha, h1⟩
  · rw [h1] at h; cases h
  · exact ⟨u, p, hd, hu, ha, by rw [h1], by rw [h1]⟩

theorem lemma_prefixBasic : prefixBasic = ['B', 'a', 's', 'i', 'c', ' '] := by decide

theorem lemma_takeWhile_colon (u p : Bytes) (hu : ':' ∉ u) : (u ++ ':' :: p).takeWhile (· != ':') = u := by
  induction u with
  | nil => simp
  | cons a u ih =>
    have ha : a ≠ ':' := fun h => hu (by simp [h])
    have hu' : ':' ∉ u := fun h => hu (List.mem_cons_of_mem _ h)
    simp [ha, ih hu']

/-- the oracle's "accepted credential" is the model's "authenticated pair" -/
theorem lemma_accepts (r : Req) (hnd : (r.users.map (·.1)).Nodup) (u p : Bytes) (hu : ':' ∉ u) :
    accepts r (u ++ ':' :: p) u = authenticated r u p := by
  unfold accepts authenticated
  cases hv : r.validator with
  | some v => simp [lemma_takeWhile_colon u p hu]
  | none =>
    simp only
    cases hl : r.users.lookup u with
    | none =>
      simp only
      rw [Bool.eq_false_iff]
      intro h
      simp only [List.any_eq_true, Bool.and_eq_true, beq_iff_eq] at h
      obtain ⟨⟨u', p'⟩, hm, hpm, hu'⟩ := h
      simp only at hu'
      subst hu'
      have := lemma_mem_lookup _ _ _ hnd hm
      rw [hl] at this; cases this
    | some p' =>
      simp only
      by_cases hp : p = p'
      · subst hp
        simp only [decide_true]
        simp only [List.any_eq_true, Bool.and_eq_true, beq_iff_eq]
        exact ⟨(u, p), lemma_lookup_mem _ _ _ hl, by simp [pairMatches, hu], rfl⟩
      · simp only [hp, decide_false]
        rw [Bool.eq_false_iff]
        intro h
        simp only [List.any_eq_true, Bool.and_eq_true, beq_iff_eq] at h
        obtain ⟨⟨u', p''⟩, hm, hpm, hu'⟩ := h
        simp only at hu'
        subst hu'
        have hl2 := lemma_mem_lookup _ _ _ hnd hm
        rw [hl] at hl2
        simp only [Option.some.injEq] at hl2
        simp only [pairMatches, Bool.and_eq_true, Bool.not_eq_true', beq_iff_eq] at hpm
        have := hpm.2
        simp at this
        exact hp (by rw [this, hl2])

/-- **The basic-auth gate meets its oracle** for every Authorization string, user table and validator verdict -/
theorem auth_meets_spec (r : Req) (hnd : (r.users.map (·.1)).Nodup) : specOK r (serve r) = true := by
  rcases lemma_auth_cases r with h1 | ⟨u, p, hpre, hd, hu, ha, h1⟩
  · have hran : (serve r).ran = false := by rw [h1]; rfl
    have hnv : wellFormedValid r = false := by
      cases hv : wellFormedValid r with
      | false => rfl
      | true =>
        exfalso
        unfold wellFormedValid at hv
        simp only [Bool.and_eq_true] at hv
        obtain ⟨hp, hv2⟩ := hv
        cases hdec : r.dec with
        | none => simp [hdec] at hv2
        | some cred =>
          simp only [hdec] at hv2
          have hex : ∃ u p, cred = u ++ ':' :: p ∧ ':' ∉ u ∧ authenticated r u p = true := by
            cases hval : r.validator with
            | some v =>
              simp only [hval, Bool.and_eq_true] at hv2
              -- split at the first colon
              have hmem : ':' ∈ cred := by simpa using hv2.2
              cases hc : cut ':' cred with
              | none =>
                exfalso
                have : ∀ (s : Bytes), ':' ∈ s → cut ':' s ≠ none := by
                  intro s
                  induction s with
                  | nil => simp
                  | cons a s ih =>
                    intro hm
                    unfold cut
                    by_cases ha : a = ':'
                    · simp [ha]
                    · simp only [ha, if_false]
                      have : ':' ∈ s := by
                        rcases List.mem_cons.mp hm with h | h
                        · exact absurd h.symm ha
                        · exact h
                      cases hcs : cut ':' s with
                      | none => exact absurd hcs (ih this)
                      | some q => simp
                exact this cred hmem hc
              | some up =>
                obtain ⟨u, p⟩ := up
                have h0 := (lemma_cut_some ':' cred u p).mp hc
                exact ⟨u, p, h0.1, h0.2, by unfold authenticated; rw [hval]; exact hv2.1⟩
            | none =>
              simp only [hval, List.any_eq_true] at hv2
              obtain ⟨⟨u, p⟩, hm, hpm⟩ := hv2
              simp only [pairMatches, Bool.and_eq_true, Bool.not_eq_true', beq_iff_eq] at hpm
              exact ⟨u, p, hpm.2, by simpa using hpm.1,
                (lemma_authenticated_users r hval hnd u p).mpr hm⟩
          obtain ⟨u, p, hc, hu, ha⟩ := hex
          have : (serve r).ran = true := (auth_runs_iff' r).mpr ⟨hp, u, p, by rw [hdec, hc], hu, ha⟩
          rw [hran] at this; cases this
    rw [h1]
    simp [specOK, reject, hnv]
  · rw [h1]
    have hs : schemeBasic r.auth = true := by
      obtain ⟨t, ht⟩ := List.isPrefixOf_iff_prefix.mp hpre
      rw [← ht, lemma_prefixBasic]
      simp only [schemeBasic, List.cons_append, List.take_succ_cons, List.take_zero, List.map_cons, List.map_nil]
      decide
    simp only [specOK, if_true, hs, Bool.true_and, hd]
    rw [lemma_accepts r hnd u p hu]
    exact ha

/-- **…and with skip paths**: only a request whose path is literally a configured skip path is exempt -/
theorem auth_gate_meets_spec (skip : Bool) (r : Req) (hnd : (r.users.map (·.1)).Nodup) :
    gateSpecOK skip r (gate skip r) = true := by
  unfold gateSpecOK gate
  cases skip
  · simpa using auth_meets_spec r hnd
  · rfl

/-- non-vacuity: a password with colons is accepted, a lower-case scheme is refused with 401 -/
example : (serve { users := [("colon".toList, "a:b:c".toList)], realm := "R".toList,
                   auth := "Basic Y29sb246YTpiOmM=".toList, dec := some "colon:a:b:c".toList }).ran = true := by decide
example : (serve { users := [("admin".toList, "secret".toList)], realm := "R".toList,
                   auth := "basic YWRtaW46c2VjcmV0".toList, dec := some "admin:secret".toList })
          = { ran := false, status := 401, www := some "Basic realm=\"R\"".toList, user := [] } := by decide

end auth

/-! ## cors -/
section cors
open Cors

/-- what the middleware emits as `Access-Control-Allow-Origin`, if anything -/
theorem lemma_cors_acao (r : Req) (v : Bytes) (h : (serve r).acao = some v) :
    r.origin ≠ [] ∧ allowedOrigin (config r.opts) r.origin r.funcSays ≠ [] ∧
    v = (if ((config r.opts).allowCredentials && allowedOrigin (config r.opts) r.origin r.funcSays == star) = true
         then r.origin else allowedOrigin (config r.opts) r.origin r.funcSays) := by
  unfold serve serveWith at h
  by_cases h1 : r.origin = []
  · simp [h1, pass] at h
  · simp only [h1, if_false] at h
    by_cases h2 : allowedOrigin (config r.opts) r.origin r.funcSays = []
    · simp [h2, pass] at h
    · simp only [h2, if_false] at h
      refine ⟨h1, h2, ?_⟩
      by_cases h3 : r.isOptions = true
      · simp only [h3, if_true, Option.some.injEq] at h
        exact h.symm
      · simp only [h3, Bool.false_eq_true, if_false, Option.some.injEq] at h
        exact h.symm

/-- the origin decision only ever yields the request's origin or `*`, the latter only under
    allow-all, and nothing at all for an origin the configuration does not allow -/
theorem lemma_allowedOrigin (cfg : Cfg) (origin : Bytes) (fs : Bool)
    (h : allowedOrigin cfg origin fs ≠ []) :
    configAllows cfg origin fs = true ∧ ¬ (cfg.allowCredentials = true ∧ origin = star) ∧
    ((allowedOrigin cfg origin fs = star ∧ cfg.allowAll = true) ∨
     (allowedOrigin cfg origin fs = origin ∧ cfg.allowAll = false)) := by
  unfold allowedOrigin at h ⊢
  unfold configAllows
  by_cases hc : (cfg.allowCredentials && origin == star) = true
  · simp [hc] at h
  · simp only [hc, Bool.false_eq_true, if_false] at h ⊢
    have hc' : ¬ (cfg.allowCredentials = true ∧ origin = star) := by
      intro ⟨h1, h2⟩; simp [h1, h2] at hc
    by_cases ha : cfg.allowAll = true
    · simp [ha, hc']
    · have ha' : cfg.allowAll = false := by simpa using ha
      simp only [ha', Bool.false_eq_true, if_false, Bool.false_or] at h ⊢
      by_cases hf : cfg.hasFunc = true
      · simp only [hf, if_true] at h ⊢
        by_cases hs : fs = true
        · simp [hs, hc']
        · simp [hs] at h
      · have hf' : cfg.hasFunc = false := by simpa using hf
        simp only [hf', Bool.false_eq_true, if_false] at h ⊢
        by_cases hm : origin ∈ cfg.allowedOrigins
        · simp [hm, hc']
        · simp [hm] at h

/-- **`Access-Control-Allow-Origin` only for allowed origins**: whenever the header is emitted, the
    request carried an origin the configuration allows, and the value is that origin — or `*`, and
    then only under allow-all without credentials. Every option list, every origin. -/
theorem acao_only_allowed (r : Req) (v : Bytes) (h : (serve r).acao = some v) :
    r.origin ≠ [] ∧ configAllows (config r.opts) r.origin r.funcSays = true ∧
    (v = r.origin ∨ (v = star ∧ (config r.opts).allowAll = true ∧ (config r.opts).allowCredentials = false)) := by
  obtain ⟨h1, h2, hv⟩ := lemma_cors_acao r v h
  obtain ⟨hA, hB, hC⟩ := lemma_allowedOrigin _ _ _ h2
  refine ⟨h1, hA, ?_⟩
  rcases hC with ⟨hs, hall⟩ | ⟨ho, _⟩
  · by_cases hcr : (config r.opts).allowCredentials = true
    · left; rw [hv]; simp [hcr, hs]
    · right
      have hcr' : (config r.opts).allowCredentials = false := by simpa using hcr
      refine ⟨?_, hall, hcr'⟩
      rw [hv]; simp [hcr', hs]
  · left
    rw [hv, ho]
    split <;> rfl

/-- **never `*` together with credentials** -/
theorem never_star_with_credentials (r : Req) :
    ¬ ((serve r).acao = some star ∧ (serve r).acac = some strue) := by
  rintro ⟨h1, h2⟩
  obtain ⟨ho, ha, hv⟩ := lemma_cors_acao r star h1
  obtain ⟨_, hB, hC⟩ := lemma_allowedOrigin _ _ _ ha
  have hcred : (config r.opts).allowCredentials = true := by
    unfold serve serveWith at h2
    simp only [ho, if_false, ha] at h2
    by_cases hcr : (config r.opts).allowCredentials = true
    · exact hcr
    · exfalso
      have hcr' : (config r.opts).allowCredentials = false := by simpa using hcr
      by_cases h3 : r.isOptions = true
      · simp [h3, hcr'] at h2
      · simp [h3, hcr'] at h2
  have hne : r.origin ≠ star := fun h => hB ⟨hcred, h⟩
  rcases hC with ⟨hs, _⟩ | ⟨hoo, _⟩
  · simp [hcred, hs] at hv
    exact hne hv.symm
  · rw [hoo] at hv
    have : star = r.origin := by rw [hv]; split <;> rfl
    exact hne this.symm

/-- **The CORS gate meets its oracle** for every option list and request -/
theorem cors_meets_spec (r : Req) : specOK (config r.opts) r (serve r) = true := by
  unfold specOK
  have h2 := never_star_with_credentials r
  have h3 : (!((serve r).acao == some star && (serve r).acac == some strue)) = true := by
    simp only [Bool.not_eq_true', Bool.and_eq_false_iff, beq_eq_false_iff_ne, ne_eq]
    by_cases h : (serve r).acao = some star
    · right; exact fun h' => h2 ⟨h, h'⟩
    · left; exact h
  rw [h3, Bool.and_true]
  cases ha : (serve r).acao with
  | none => rfl
  | some v =>
    obtain ⟨hA, hB, hC⟩ := acao_only_allowed r v ha
    simp only [hB, Bool.and_true, Bool.and_eq_true, bne_iff_ne, ne_eq, Bool.or_eq_true, beq_iff_eq]
    refine ⟨hA, ?_⟩
    rcases hC with h | ⟨h, h', _⟩
    · left; exact h
    · right; exact ⟨h, h'⟩

/-- K17b: as shipped, allow-all + credentials reflected the literal request header `Origin: *` -/
theorem cors_asis_witness :
    (serveAsIs { opts := [.allowAll true, .credentials true], origin := star, funcSays := false, isOptions := false }).acao = some star ∧
    (serveAsIs { opts := [.allowAll true, .credentials true], origin := star, funcSays := false, isOptions := false }).acac = some strue ∧
    specOK (config [.allowAll true, .credentials true])
      { opts := [.allowAll true, .credentials true], origin := star, funcSays := false, isOptions := false }
      (serveAsIs { opts := [.allowAll true, .credentials true], origin := star, funcSays := false, isOptions := false }) = false := by
  decide

/-- non-vacuity: a listed origin is reflected with credentials; allow-all without credentials says `*`;
    `WithAllowedOrigins` after `WithAllowAllOrigins(true)` switches allow-all off again -/
example : (serve { opts := [.origins ["https://a.example".toList], .credentials true], origin := "https://a.example".toList,
                   funcSays := false, isOptions := false }).acao = some "https://a.example".toList := by decide
example : (serve { opts := [.allowAll true], origin := "https://a.example".toList, funcSays := false, isOptions := true }).acao
          = some star := by decide
example : (serve { opts := [.allowAll true, .origins []], origin := "https://a.example".toList, funcSays := false,
                   isOptions := false }).acao = none := by decide

end cors

/-! ## methodoverride -/
section method
open Method

/-- the conditions under which the method is rewritten: the request method is an allowed source,
    the CSRF requirement (if configured) is met, an override is requested (header first, else the
    query parameter), its normalised value is an allowed target, and the body requirement holds -/
def Overrides (r : Req) : Prop :=
  (((config r.opts).onlyOn.map (app r.upper)).contains (app r.upper r.method) = true) ∧
  ¬ ((config r.opts).requireCSRF = true ∧ ¬ r.csrfVerified = true) ∧
  requested (config r.opts) r ≠ [] ∧
  (((config r.opts).allow.map (app r.upper)).contains (app r.norm (requested (config r.opts) r)) = true) ∧
  ¬ ((config r.opts).respectBody = true ∧ r.clZero = true)

/-- **The method is rewritten iff** `Overrides` holds, and then to the normalised requested value;
    otherwise the handler sees the request's own method. Every option list, every request. -/
theorem override_iff (r : Req) :
    (Overrides r → serve r = { ran := true, seen := app r.norm (requested (config r.opts) r), original := r.method }) ∧
    (¬ Overrides r → serve r = { ran := true, seen := r.method,
                                  original := if r.ctxOrig = [] then r.method else r.ctxOrig }) := by
  unfold Overrides serve
  simp only []
  generalize ((config r.opts).onlyOn.map (app r.upper)).contains (app r.upper r.method) = A
  generalize ((config r.opts).allow.map (app r.upper)).contains (app r.norm (requested (config r.opts) r)) = B
  generalize (config r.opts).requireCSRF = C
  generalize (config r.opts).respectBody = D
  generalize r.csrfVerified = E
  generalize r.clZero = F
  by_cases h3 : requested (config r.opts) r = [] <;>
    cases A <;> cases B <;> cases C <;> cases D <;> cases E <;> cases F <;> simp [h3]

/-- **only from an allowed source to an allowed target**: if the handler sees another method than the
    request's, the request method is in `onlyOn` and the method seen is in `allow` (upper-cased) -/
theorem override_only_allowed (r : Req) (h : (serve r).seen ≠ r.method) :
    ((config r.opts).onlyOn.map (app r.upper)).contains (app r.upper r.method) = true ∧
    ((config r.opts).allow.map (app r.upper)).contains (serve r).seen = true ∧
    (serve r).seen = app r.norm (requested (config r.opts) r) ∧ (serve r).original = r.method := by
  by_cases ho : Overrides r
  · rw [(override_iff r).1 ho]
    exact ⟨ho.1, ho.2.2.2.1, rfl, rfl⟩
  · rw [(override_iff r).2 ho] at h
    exact absurd rfl h

/-- the handler always runs, and `OriginalMethod` reports the request's own method -/
theorem override_keeps_original (r : Req) (hc : r.ctxOrig = []) :
    (serve r).ran = true ∧ (serve r).original = r.method := by
  by_cases ho : Overrides r
  · rw [(override_iff r).1 ho]; exact ⟨rfl, rfl⟩
  · rw [(override_iff r).2 ho]; simp [hc]

/-- the handler always runs -/
theorem override_runs (r : Req) : (serve r).ran = true := by
  by_cases ho : Overrides r
  · rw [(override_iff r).1 ho]
  · rw [(override_iff r).2 ho]

/-- **The method-override gate meets its oracle** -/
theorem method_meets_spec (r : Req) : specOK (config r.opts) r (serve r) = true := by
  unfold specOK
  have h1 := override_runs r
  by_cases h : (serve r).seen = r.method
  · simp [h1, h]
  · obtain ⟨ha, hb, hc, _⟩ := override_only_allowed r h
    have hask : asked (config r.opts) r = requested (config r.opts) r := by
      unfold asked requested
      by_cases h1 : get r.hdr (config r.opts).header = [] <;> by_cases h2 : (config r.opts).queryParam = [] <;> simp [h1, h2]
    have hne : requested (config r.opts) r ≠ [] := by
      intro he
      by_cases ho : Overrides r
      · exact ho.2.2.1 he
      · rw [(override_iff r).2 ho] at h; exact h rfl
    simp only [h1, Bool.true_and, Bool.or_eq_true, beq_iff_eq, Bool.and_eq_true, hask, bne_iff_ne, ne_eq]
    right; exact ⟨⟨⟨ha, hb⟩, hne⟩, hc⟩

/-- non-vacuity: default configuration, POST with `X-HTTP-Method-Override: delete ` is rewritten to
    DELETE; the same header on a GET is ignored; TRACE is not an allowed target -/
example : serve { opts := [], method := "POST".toList, csrfVerified := false, clZero := true,
                  hdr := [("X-HTTP-Method-Override".toList, "delete ".toList)], qry := [], upper := [],
                  norm := [("delete ".toList, "DELETE".toList)] }
          = { ran := true, seen := "DELETE".toList, original := "POST".toList } := by decide
example : (serve { opts := [], method := "GET".toList, csrfVerified := false, clZero := true,
                   hdr := [("X-HTTP-Method-Override".toList, "DELETE".toList)], qry := [], upper := [], norm := [] }).seen
          = "GET".toList := by decide
example : (serve { opts := [], method := "POST".toList, csrfVerified := false, clZero := true,
                   hdr := [("X-HTTP-Method-Override".toList, "TRACE".toList)], qry := [], upper := [], norm := [] }).seen
          = "POST".toList := by decide

end method

/-! ## trailingslash -/
section slash
open Slash

/-- a byte that `net/url` leaves unescaped in a path is printable, and none of `% ? # \\` -/
theorem lemma_unescaped (c : Char) (h : shouldEscapePath c = false) :
    32 < c.toNat ∧ c.toNat ≠ 127 ∧ c.toNat ≠ 92 ∧ c.toNat ≠ 37 ∧ c.toNat ≠ 63 ∧ c.toNat ≠ 35 ∧ c.toNat ≠ 42 := by
  unfold shouldEscapePath isAlnum at h
  simp only [Bool.or_eq_true, Bool.and_eq_true, decide_eq_true_eq] at h
  split at h
  · omega
  · split at h
    · omega
    · split at h
      · omega
      · cases h

theorem lemma_toNat_ne {c d : Char} (h : c.toNat ≠ d.toNat) : c ≠ d := fun e => h (e ▸ rfl)

theorem lemma_escapePath_cons (c : Char) (r : Bytes) :
    escapePath (c :: r) =
      if shouldEscapePath c = true then '%' :: upperhex (c.toNat / 16) :: upperhex (c.toNat % 16) :: escapePath r
      else c :: escapePath r := by
  rw [escapePath]

theorem lemma_pctDecode_plain (c : Char) (rest : Bytes) (h : c ≠ '%') :
    pctDecode (c :: rest) = (pctDecode rest).map (c :: ·) := by
  cases rest with
  | nil => simp [pctDecode, h]
  | cons a t =>
    cases t with
    | nil => simp [pctDecode, h]
    | cons b u => simp [pctDecode, h]

theorem lemma_pctDecode_pct (a b : Char) (rest r : Bytes) (x y : Nat)
    (ha : hexVal a = some x) (hb : hexVal b = some y) (hr : pctDecode rest = some r) :
    pctDecode ('%' :: a :: b :: rest) = some (Char.ofNat (16 * x + y) :: r) := by
  rw [pctDecode]; simp [ha, hb, hr]

theorem lemma_hex (n : Nat) (h : n < 16) : hexVal (upperhex n) = some n := by
  revert n; decide

theorem lemma_hex_good (n : Nat) (h : n < 16) :
    32 < (upperhex n).toNat ∧ (upperhex n).toNat ≠ 127 ∧ (upperhex n).toNat ≠ 92 ∧ (upperhex n).toNat ≠ 63 := by
  revert n; decide

/-- characters that no client strips, rewrites or reads as a delimiter before the query -/
def Good (c : Char) : Prop := 32 < c.toNat ∧ c.toNat ≠ 127 ∧ c.toNat ≠ 92 ∧ c.toNat ≠ 63

theorem lemma_escape_good (p : Bytes) (hb : ∀ c ∈ p, c.toNat < 256) : ∀ c ∈ escapePath p, Good c := by
  induction p with
  | nil => simp [escapePath]
  | cons a r ih =>
    have hr : ∀ c ∈ r, c.toNat < 256 := fun c hc => hb c (List.mem_cons_of_mem _ hc)
    have ha : a.toNat < 256 := hb a (List.mem_cons_self ..)
    rw [lemma_escapePath_cons]
    by_cases hs : shouldEscapePath a = true
    · simp only [hs, if_true]
      intro c hc
      simp only [List.mem_cons] at hc
      rcases hc with rfl | rfl | rfl | hc
      · exact ⟨by decide, by decide, by decide, by decide⟩
      · exact lemma_hex_good _ (by omega)
      · exact lemma_hex_good _ (by omega)
      · exact ih hr c hc
    · have hs' : shouldEscapePath a = false := by simpa using hs
      simp only [hs', Bool.false_eq_true, if_false]
      intro c hc
      simp only [List.mem_cons] at hc
      rcases hc with rfl | hc
      · obtain ⟨h1, h2, h3, _, h5, _⟩ := lemma_unescaped c hs'
        exact ⟨h1, h2, h3, h5⟩
      · exact ih hr c hc

/-- **escaping is invertible**: percent-decoding what `net/url` prints gives the path back -/
theorem lemma_decode_escape (p : Bytes) (hb : ∀ c ∈ p, c.toNat < 256) : pctDecode (escapePath p) = some p := by
  induction p with
  | nil => simp [escapePath, pctDecode]
  | cons a r ih =>
    have hr : ∀ c ∈ r, c.toNat < 256 := fun c hc => hb c (List.mem_cons_of_mem _ hc)
    have ha : a.toNat < 256 := hb a (List.mem_cons_self ..)
    rw [lemma_escapePath_cons]
    by_cases hs : shouldEscapePath a = true
    · simp only [hs, if_true]
      rw [lemma_pctDecode_pct _ _ _ _ _ _ (lemma_hex _ (show a.toNat / 16 < 16 by omega))
        (lemma_hex _ (Nat.mod_lt _ (by omega))) (ih hr)]
      have : 16 * (a.toNat / 16) + a.toNat % 16 = a.toNat := Nat.div_add_mod _ _
      simp only [this, Char.ofNat_toNat]
    · have hs' : shouldEscapePath a = false := by simpa using hs
      simp only [hs', Bool.false_eq_true, if_false]
      have hne : a ≠ '%' := lemma_toNat_ne (lemma_unescaped a hs').2.2.2.1
      rw [lemma_pctDecode_plain _ _ hne, ih hr]
      rfl

theorem lemma_decode_plain_append (x y : Bytes) (hx : ∀ c ∈ x, c ≠ '%') :
    pctDecode (x ++ y) = (pctDecode y).map (x ++ ·) := by
  induction x with
  | nil => simp
  | cons a r ih =>
    have ha : a ≠ '%' := hx a (List.mem_cons_self ..)
    have hr : ∀ c ∈ r, c ≠ '%' := fun c hc => hx c (List.mem_cons_of_mem _ hc)
    rw [List.cons_append, lemma_pctDecode_plain _ _ ha, ih hr]
    cases pctDecode y <;> simp

theorem lemma_pathPart (x q : Bytes) (hx : ∀ c ∈ x, c ≠ '?') (hq : q = [] ∨ ∃ t, q = '?' :: t) :
    pathPart (x ++ q) = x := by
  unfold pathPart
  induction x with
  | nil =>
    rcases hq with rfl | ⟨t, rfl⟩
    · rfl
    · simp
  | cons a r ih =>
    have ha : a ≠ '?' := hx a (List.mem_cons_self ..)
    have hr : ∀ c ∈ r, c ≠ '?' := fun c hc => hx c (List.mem_cons_of_mem _ hc)
    rw [List.cons_append, List.takeWhile_cons_of_pos (by simpa using ha), ih hr]

theorem lemma_query_shape (rq : Bytes) (fq : Bool) : queryFor rq fq = [] ∨ ∃ t, queryFor rq fq = '?' :: t := by
  unfold queryFor; split
  · right; exact ⟨rq, rfl⟩
  · left; rfl

theorem lemma_good_ne {c : Char} (h : Good c) : c ≠ '?' ∧ c ≠ '\\' ∧ 32 < c.toNat ∧ c.toNat ≠ 127 :=
  ⟨lemma_toNat_ne h.2.2.2, lemma_toNat_ne h.2.2.1, h.1, h.2.1⟩

theorem lemma_escaped_good (p : Bytes) (hb : ∀ c ∈ p, c.toNat < 256) : ∀ c ∈ escapedPath p, Good c := by
  unfold escapedPath
  split
  · intro c hc; simp at hc; subst hc; exact ⟨by decide, by decide, by decide, by decide⟩
  · exact lemma_escape_good p hb

theorem lemma_decode_escaped (p : Bytes) (hb : ∀ c ∈ p, c.toNat < 256) : pctDecode (escapedPath p) = some p := by
  unfold escapedPath
  split
  · next h => rw [h]; decide
  · exact lemma_decode_escape p hb

theorem lemma_escaped_slash (t : Bytes) : escapedPath ('/' :: t) = '/' :: escapePath t := by
  unfold escapedPath
  have : ('/' :: t) ≠ ['*'] := by intro h; simp at h
  simp only [this, if_false]
  rw [lemma_escapePath_cons]
  have : shouldEscapePath '/' = false := by decide
  simp [this]

/-- the first character of an escaped path is `/` exactly when the path's is -/
theorem lemma_escaped_head (p : Bytes) :
    (∃ t, p = '/' :: t) ∨ (∀ t, p ≠ '/' :: t) ∧ (∀ t, escapedPath p ≠ '/' :: t) := by
  cases p with
  | nil => right; simp [escapedPath, escapePath]
  | cons a r =>
    by_cases ha : a = '/'
    · left; exact ⟨r, by rw [ha]⟩
    · right
      refine ⟨fun t h => ha (by simp at h; exact h.1), ?_⟩
      intro t
      unfold escapedPath
      split
      · intro h; simp at h
      · rw [lemma_escapePath_cons]
        by_cases hs : shouldEscapePath a = true
        · simp only [hs, if_true]; intro h; simp at h
        · simp only [hs]; intro h; simp at h; exact ha h.1

/-- the printed reference starts with two slashes exactly when the path does -/
theorem lemma_two_slashes (np q : Bytes) (hq : q = [] ∨ ∃ t, q = '?' :: t) :
    ['/', '/'].isPrefixOf (escapedPath np ++ q) = true ↔ ∃ t, np = '/' :: '/' :: t := by
  constructor
  · intro h
    rcases lemma_escaped_head np with ⟨t, rfl⟩ | ⟨_, hne⟩
    · rw [lemma_escaped_slash] at h
      cases t with
      | nil =>
        rcases hq with rfl | ⟨u, rfl⟩
        · simp [escapePath, List.isPrefixOf] at h
        · simp [escapePath, List.isPrefixOf] at h
      | cons b u =>
        by_cases hb : b = '/'
        · exact ⟨u, by rw [hb]⟩
        · exfalso
          rw [lemma_escapePath_cons] at h
          by_cases hs : shouldEscapePath b = true
          · simp [hs, List.isPrefixOf] at h
          · simp [hs, List.isPrefixOf] at h
            exact hb h.symm
    · exfalso
      cases he : escapedPath np with
      | nil =>
        rw [he] at h
        rcases hq with rfl | ⟨u, rfl⟩
        · simp at h
        · simp [List.isPrefixOf] at h
      | cons a r =>
        rw [he] at h
        simp [List.isPrefixOf] at h
        exact hne r (by rw [he, h.1])
  · rintro ⟨t, rfl⟩
    rw [lemma_escaped_slash, lemma_escapePath_cons]
    have : shouldEscapePath '/' = false := by decide
    simp [this, List.isPrefixOf]

/-- the request records on which the redirect of the K17 repair (before K17d) was already right: `Path` is a byte string;
    `pre` (what is printed before the path) is empty exactly when there is no host — which excludes a request target with a
    scheme but no host —; and a URL with a host has
    an empty or rooted path (RFC 3986 §3.3) -/
structure WellFormedK17 (r : Req) : Prop where
  bytes : ∀ c ∈ r.path, c.toNat < 256
  origin : r.pre = [] → r.hostSet = false
  absolute : r.pre ≠ [] → r.hostSet = true
  rooted : r.hostSet = true → r.path = [] ∨ ∃ t, r.path = '/' :: t

theorem lemma_dropLast (l : Bytes) (a : Char) (h : l.getLast? = some a) : l.dropLast ++ [a] = l := by
  have hne : l ≠ [] := by intro e; subst e; simp at h
  rw [List.getLast?_eq_some_getLast hne] at h
  simp only [Option.some.injEq] at h
  rw [← h]
  exact List.dropLast_concat_getLast hne

/-- the redirect target is the path with the final slash added or removed -/
theorem lemma_target (policy : Nat) (path np : Bytes) (h : target policy path = some np) :
    path ≠ ['/'] ∧ (np = path ++ ['/'] ∨ np ++ ['/'] = path) := by
  unfold target at h
  by_cases h0 : path = ['/']
  · simp [h0] at h
  · refine ⟨h0, ?_⟩
    simp only [h0, if_false] at h
    by_cases hp0 : policy = 0
    · simp only [hp0, if_true] at h
      by_cases hs : hasSlash path = true
      · simp only [hs, if_true, Option.some.injEq] at h
        right
        rw [← h]
        unfold hasSlash at hs
        exact lemma_dropLast _ _ (by simpa using hs)
      · simp [hs] at h
    · simp only [hp0, if_false] at h
      by_cases hp1 : policy = 1
      · simp only [hp1, if_true] at h
        by_cases hs : hasSlash path = true
        · simp [hs] at h
        · simp only [hs, Bool.false_eq_true, if_false, Option.some.injEq] at h
          left; exact h.symm
      · simp [hp1] at h

theorem lemma_target_props (r : Req) (hwf : WellFormedK17 r) (np : Bytes) (h : target r.policy r.path = some np) :
    (∀ c ∈ np, c.toNat < 256) ∧ (r.hostSet = true → ∃ t, np = '/' :: t) := by
  obtain ⟨hne, hm⟩ := lemma_target _ _ _ h
  constructor
  · intro c hc
    rcases hm with rfl | hm
    · rcases List.mem_append.mp hc with h1 | h1
      · exact hwf.bytes c h1
      · simp at h1; subst h1; decide
    · exact hwf.bytes c (by rw [← hm]; exact List.mem_append_left _ hc)
  · intro hh
    rcases hwf.rooted hh with hp | ⟨t, hp⟩
    · rcases hm with rfl | hm
      · exact ⟨[], by rw [hp]; rfl⟩
      · rw [hp] at hm; simp at hm
    · rcases hm with rfl | hm
      · exact ⟨t ++ ['/'], by rw [hp]; rfl⟩
      · cases np with
        | nil =>
          exfalso; apply hne
          rw [hp] at hm ⊢
          simp at hm
          rw [← hm]
        | cons a u =>
          rw [hp] at hm
          simp only [List.cons_append, List.cons.injEq] at hm
          exact ⟨u, by rw [hm.1]⟩

theorem lemma_schemeLike_false (ep q : Bytes) (hc : firstSegHasColon ep = false)
    (hq : q = [] ∨ ∃ t, q = '?' :: t) : schemeLike (ep ++ q) = false := by
  induction ep with
  | nil =>
    rcases hq with rfl | ⟨t, rfl⟩
    · rfl
    · simp [schemeLike]
  | cons a r ih =>
    unfold firstSegHasColon at hc
    simp only [List.cons_append]
    unfold schemeLike
    by_cases h1 : a = '/'
    · simp [h1]
    · simp only [h1, if_false] at hc
      by_cases h2 : a = ':'
      · simp [h2] at hc
      · simp only [h2, if_false] at hc
        simp [h1, h2, ih hc]

theorem lemma_good_all (l : Bytes) (h : ∀ c ∈ l, Good c) : cleanPath l = true := by
  unfold cleanPath
  simp only [List.all_eq_true, Bool.and_eq_true, decide_eq_true_eq, bne_iff_ne, ne_eq]
  intro c hc
  obtain ⟨h1, h2, h3, _⟩ := h c hc
  exact ⟨⟨h1, lemma_toNat_ne h3⟩, h2⟩

/-- the shape of the `Location` value: `pre ++ body ++ query` where `body` consists of characters
    clients leave alone, percent-decodes to the target path (possibly behind `./`), and begins in a
    way no client reads as a host -/
theorem lemma_location (r : Req) (hwf : WellFormedK17 r) (np : Bytes) (hb : ∀ c ∈ np, c.toNat < 256)
    (hroot : r.hostSet = true → ∃ t, np = '/' :: t) :
    ∃ d body, (d = [] ∨ d = ['.', '/']) ∧
      locationK17 r np = r.pre ++ (body ++ queryFor r.rawQuery r.forceQuery) ∧
      (∀ c ∈ body, Good c) ∧ pctDecode body = some (d ++ np) ∧
      startOK r.pre (body ++ queryFor r.rawQuery r.forceQuery) = true := by
  have hq := lemma_query_shape r.rawQuery r.forceQuery
  have hgood := lemma_escaped_good np hb
  have hdec := lemma_decode_escaped np hb
  -- no slash is inserted before the path
  have hsl : slashFor r.hostSet (escapedPath np) = [] := by
    unfold slashFor
    by_cases hh : r.hostSet = true
    · obtain ⟨t, rfl⟩ := hroot hh
      rw [lemma_escaped_slash]; simp
    · split
      · simp [hh]
      · rfl
  by_cases hpre : r.pre = []
  · -- origin form
    have hhost := hwf.origin hpre
    have hasis : locationAsIs r np =
        dotFor [] [] (escapedPath np) ++ (escapedPath np ++ queryFor r.rawQuery r.forceQuery) := by
      unfold locationAsIs urlString
      simp [hsl, hpre]
    by_cases h2 : ∃ t, np = '/' :: '/' :: t
    · -- the repaired case: the path starts with two slashes
      obtain ⟨t, rfl⟩ := h2
      have hbt : ∀ c ∈ t, c.toNat < 256 := fun c hc => hb c (by simp [hc])
      have hep : escapedPath ('/' :: '/' :: t) = '/' :: '/' :: escapePath t := by
        rw [lemma_escaped_slash, lemma_escapePath_cons]
        have : shouldEscapePath '/' = false := by decide
        simp [this]
      have hdot : dotFor [] [] (escapedPath ('/' :: '/' :: t)) = [] := by
        unfold dotFor; rw [hep]; simp [firstSegHasColon]
      refine ⟨[], ['/', '%', '2', 'F'] ++ escapePath t, Or.inl rfl, ?_, ?_, ?_, ?_⟩
      · unfold locationK17
        rw [hasis, hdot, hep, hpre]
        simp [hhost, List.isPrefixOf]
      · intro c hc
        simp only [List.cons_append, List.nil_append, List.mem_cons] at hc
        rcases hc with rfl | rfl | rfl | rfl | hc
        · exact ⟨by decide, by decide, by decide, by decide⟩
        · exact ⟨by decide, by decide, by decide, by decide⟩
        · exact ⟨by decide, by decide, by decide, by decide⟩
        · exact ⟨by decide, by decide, by decide, by decide⟩
        · exact lemma_escape_good t hbt c hc
      · have h1 := lemma_pctDecode_pct '2' 'F' (escapePath t) t 2 15 (by decide) (by decide) (lemma_decode_escape t hbt)
        simp only [List.cons_append, List.nil_append]
        rw [lemma_pctDecode_plain _ _ (by decide), h1]
        rfl
      · rw [hpre]; simp [startOK, safeRef]
    · -- every other path: the value is `newURL.String()` unchanged
      have hnot : ['/', '/'].isPrefixOf (locationAsIs r np) = false := by
        rw [hasis]
        unfold dotFor
        by_cases hc : firstSegHasColon (escapedPath np) = true
        · simp [hc, List.isPrefixOf]
        · have hc' : firstSegHasColon (escapedPath np) = false := by simpa using hc
          simp only [hc', Bool.false_eq_true, and_false, if_false, List.nil_append]
          cases hp : ['/', '/'].isPrefixOf (escapedPath np ++ queryFor r.rawQuery r.forceQuery) with
          | false => rfl
          | true => exact absurd ((lemma_two_slashes np _ hq).mp hp) h2
      have hloc : locationK17 r np = locationAsIs r np := by
        unfold locationK17; simp [hnot]
      refine ⟨dotFor [] [] (escapedPath np), dotFor [] [] (escapedPath np) ++ escapedPath np, ?_, ?_, ?_, ?_, ?_⟩
      · unfold dotFor; split
        · right; rfl
        · left; rfl
      · rw [hloc, hasis, hpre]; simp
      · intro c hc
        rcases List.mem_append.mp hc with h1 | h1
        · unfold dotFor at h1
          split at h1
          · simp at h1; rcases h1 with rfl | rfl <;> exact ⟨by decide, by decide, by decide, by decide⟩
          · simp at h1
        · exact hgood c h1
      · rw [lemma_decode_plain_append _ _ (by
          intro c hc; unfold dotFor at hc; split at hc
          · simp at hc; rcases hc with rfl | rfl <;> decide
          · simp at hc), hdec]
        rfl
      · rw [hpre]
        simp only [startOK, if_true]
        unfold dotFor
        by_cases hc : firstSegHasColon (escapedPath np) = true
        · simp [hc, safeRef, schemeLike]
        · have hc' : firstSegHasColon (escapedPath np) = false := by simpa using hc
          simp only [hc', Bool.false_eq_true, and_false, if_false, List.nil_append]
          have hsch := lemma_schemeLike_false (escapedPath np) _ hc' hq
          cases hep : escapedPath np with
          | nil =>
            rcases hq with hq | ⟨t, hq⟩
            · rw [hq]; rfl
            · rw [hq]; simp [safeRef, schemeLike]
          | cons a rest =>
            have ha := hgood a (by rw [hep]; exact List.mem_cons_self ..)
            have hane : a ≠ '\\' := lemma_toNat_ne ha.2.2.1
            rw [hep] at hsch
            by_cases ha2 : a = '/'
            · subst ha2
              cases hrest : rest ++ queryFor r.rawQuery r.forceQuery with
              | nil => simp [safeRef, hrest]
              | cons b u =>
                have hb1 : b ≠ '/' := by
                  intro hb1; subst hb1
                  apply h2
                  apply (lemma_two_slashes np _ hq).mp
                  rw [hep, List.cons_append, hrest]; rfl
                have hb2 : b ≠ '\\' := by
                  cases rest with
                  | nil =>
                    simp only [List.nil_append] at hrest
                    rcases hq with hq | ⟨t, hq⟩
                    · rw [hq] at hrest; cases hrest
                    · rw [hq] at hrest; simp only [List.cons.injEq] at hrest; rw [← hrest.1]; decide
                  | cons b' u' =>
                    simp only [List.cons_append, List.cons.injEq] at hrest
                    have := hgood b' (by rw [hep]; simp)
                    rw [← hrest.1]; exact lemma_toNat_ne this.2.2.1
                simp [safeRef, hrest, hb1, hb2]
            · simp only [safeRef, List.cons_append, hane, if_false, ha2]
              simp only [List.cons_append] at hsch
              simp [hsch]
  · -- absolute form: `scheme://host` is printed first, the path follows unchanged
    have hhost := hwf.absolute hpre
    obtain ⟨t, rfl⟩ := hroot hhost
    have hdot : dotFor r.pre [] (escapedPath ('/' :: t)) = [] := by unfold dotFor; simp [hpre]
    have hasis : locationAsIs r ('/' :: t) = r.pre ++ (escapedPath ('/' :: t) ++ queryFor r.rawQuery r.forceQuery) := by
      unfold locationAsIs urlString
      simp [hsl, hdot]
    refine ⟨[], escapedPath ('/' :: t), Or.inl rfl, ?_, hgood, by simpa using hdec, ?_⟩
    · unfold locationK17; simp [hpre, hasis]
    · rw [lemma_escaped_slash]
      simp [startOK, hpre]

/-- when the middleware answers, and with what -/
theorem lemma_slash_serve (r : Req) :
    (target r.policy r.path = none ∧ serveK17 r = { ran := true, status := 200, loc := none }) ∨
    (∃ np, target r.policy r.path = some np ∧ serveK17 r = { ran := false, status := 308, loc := some (locationK17 r np) }) := by
  unfold serveK17 serveWith
  cases h : target r.policy r.path with
  | none => left; exact ⟨rfl, rfl⟩
  | some np => right; exact ⟨np, rfl, rfl⟩

/-- **A redirect goes to the request's own path with the final slash added or removed**: the
    `Location` is the request's own `scheme://host` (nothing for an origin-form request) followed by
    a path part that percent-decodes to that path (as `p` or the equivalent `./p`). Every path,
    every policy, query or not. -/
theorem redirect_same_path_modulo_slash_K17 (r : Req) (hwf : WellFormedK17 r) (loc : Bytes)
    (h : (serveK17 r).loc = some loc) :
    ∃ np rest, (np = r.path ++ ['/'] ∨ np ++ ['/'] = r.path) ∧ loc = r.pre ++ rest ∧
      (pctDecode (pathPart rest) = some np ∨ pctDecode (pathPart rest) = some ('.' :: '/' :: np)) ∧
      (serveK17 r).status = 308 ∧ (serveK17 r).ran = false := by
  rcases lemma_slash_serve r with ⟨_, hs⟩ | ⟨np, ht, hs⟩
  · rw [hs] at h; cases h
  · rw [hs] at h ⊢
    simp only [Option.some.injEq] at h
    obtain ⟨hb, hroot⟩ := lemma_target_props r hwf np ht
    obtain ⟨d, body, hd, hloc, hgood, hdec, _⟩ := lemma_location r hwf np hb hroot
    refine ⟨np, body ++ queryFor r.rawQuery r.forceQuery, (lemma_target _ _ _ ht).2, by rw [← h, hloc], ?_, rfl, rfl⟩
    rw [lemma_pathPart body _ (fun c hc => (lemma_good_ne (hgood c hc)).1) (lemma_query_shape _ _), hdec]
    rcases hd with rfl | rfl
    · left; rfl
    · right; rfl

/-- **The `Location` cannot be read as another host**: for an origin-form request it is a reference
    without scheme and authority — it never begins with `//`, `/\` or `\`, and if it is not
    path-absolute it has no `scheme:` prefix; for an absolute-form request what follows the request's
    own `scheme://host` starts a path or query. Its path part contains no control character, space,
    DEL or backslash that a client would strip or rewrite. -/
theorem location_is_path_absolute_K17 (r : Req) (hwf : WellFormedK17 r) (loc : Bytes)
    (h : (serveK17 r).loc = some loc) :
    ∃ rest, loc = r.pre ++ rest ∧ startOK r.pre rest = true ∧ cleanPath (pathPart rest) = true := by
  rcases lemma_slash_serve r with ⟨_, hs⟩ | ⟨np, ht, hs⟩
  · rw [hs] at h; cases h
  · rw [hs] at h
    simp only [Option.some.injEq] at h
    obtain ⟨hb, hroot⟩ := lemma_target_props r hwf np ht
    obtain ⟨d, body, hd, hloc, hgood, hdec, hstart⟩ := lemma_location r hwf np hb hroot
    refine ⟨body ++ queryFor r.rawQuery r.forceQuery, by rw [← h, hloc], hstart, ?_⟩
    rw [lemma_pathPart body _ (fun c hc => (lemma_good_ne (hgood c hc)).1) (lemma_query_shape _ _)]
    exact lemma_good_all body hgood

/-- **The trailing-slash gate meets its oracle** for every request URL `net/http` can hand it -/
theorem slash_meets_spec_K17 (r : Req) (hwf : WellFormedK17 r) : specOKWith r.pre r (serveK17 r) = true := by
  rcases lemma_slash_serve r with ⟨_, hs⟩ | ⟨np, ht, hs⟩
  · rw [hs]; rfl
  · obtain ⟨np', rest, hm, hloc, hdec, _, _⟩ := redirect_same_path_modulo_slash_K17 r hwf (locationK17 r np) (by rw [hs])
    obtain ⟨rest', hloc', hstart, hclean⟩ := location_is_path_absolute_K17 r hwf (locationK17 r np) (by rw [hs])
    have hrr : rest' = rest := List.append_cancel_left (hloc'.symm.trans hloc)
    subst hrr
    rw [hs]
    have hdrop : (locationK17 r np).drop r.pre.length = rest' := by rw [hloc]; simp
    have hpre : r.pre.isPrefixOf (locationK17 r np) = true := by
      rw [List.isPrefixOf_iff_prefix, hloc]; exact List.prefix_append _ _
    have hdt : decodesTo r.path (pathPart rest') = true := by
      unfold decodesTo moduloSlash
      rcases hdec with hd | hd
      · rw [hd]
        rcases hm with hm | hm
        · simp [hm]
        · simp [hm]
      · rw [hd]
        rcases hm with hm | hm
        · simp [hm, List.isPrefixOf]
        · simp [hm, List.isPrefixOf]
    simp [specOKWith, locOKWith, hdrop, hpre, hstart, hclean, hdt]

/-- what holds of every URL `net/http` parses from a request line (Opaque / User forms aside): `Path` is a byte string; a
    URL with a host prints a non-empty `scheme://host` and has an empty or rooted path (RFC 3986 §3.3). A scheme WITHOUT a
    host (`http:///evil.com/x/`) is allowed: no hypothesis relates `pre` to the absence of a host any more. -/
structure WellFormed (r : Req) : Prop where
  bytes : ∀ c ∈ r.path, c.toNat < 256
  origin : r.pre = [] → r.hostSet = false
  rooted : r.hostSet = true → r.path = [] ∨ ∃ t, r.path = '/' :: t

theorem lemma_wf_noHostPrefix (r : Req) (hwf : WellFormed r) : WellFormedK17 (noHostPrefix r) := by
  refine ⟨hwf.bytes, ?_, ?_, hwf.rooted⟩
  · intro h
    by_cases hh : r.hostSet = true
    · simp only [noHostPrefix, hh, if_true] at h
      exact absurd hh (by rw [hwf.origin h]; decide)
    · simpa [noHostPrefix] using hh
  · intro h
    by_cases hh : r.hostSet = true
    · simpa [noHostPrefix] using hh
    · simp [noHostPrefix, hh] at h

theorem lemma_serve_noHostPrefix (r : Req) : serve r = serveK17 (noHostPrefix r) := rfl

theorem lemma_ownPrefix (r : Req) : (noHostPrefix r).pre = ownPrefix r := rfl

/-- **A redirect goes to the request's own path with the final slash added or removed** — every request target net/http
    accepts, a scheme without a host included: the `Location` is the request's own `scheme://host` when it has a host and
    nothing otherwise, followed by a path part that percent-decodes to that path (as `p` or the equivalent `./p`). -/
theorem redirect_same_path_modulo_slash (r : Req) (hwf : WellFormed r) (loc : Bytes)
    (h : (serve r).loc = some loc) :
    ∃ np rest, (np = r.path ++ ['/'] ∨ np ++ ['/'] = r.path) ∧ loc = ownPrefix r ++ rest ∧
      (pctDecode (pathPart rest) = some np ∨ pctDecode (pathPart rest) = some ('.' :: '/' :: np)) ∧
      (serve r).status = 308 ∧ (serve r).ran = false :=
  redirect_same_path_modulo_slash_K17 (noHostPrefix r) (lemma_wf_noHostPrefix r hwf) loc h

/-- **The `Location` cannot be read as another host**: without a host in the request target it is a reference without
    scheme and authority — it never begins with `//`, `/\` or `\`, and if it is not path-absolute it has no `scheme:`
    prefix; with a host, what follows the request's own `scheme://host` starts a path or query. Its path part contains no
    control character, space, DEL or backslash that a client would strip or rewrite. -/
theorem location_is_path_absolute (r : Req) (hwf : WellFormed r) (loc : Bytes)
    (h : (serve r).loc = some loc) :
    ∃ rest, loc = ownPrefix r ++ rest ∧ startOK (ownPrefix r) rest = true ∧ cleanPath (pathPart rest) = true :=
  location_is_path_absolute_K17 (noHostPrefix r) (lemma_wf_noHostPrefix r hwf) loc h

/-- **The trailing-slash gate meets its oracle** for every request URL `net/http` can hand it -/
theorem slash_meets_spec (r : Req) (hwf : WellFormed r) : specOK r (serve r) = true :=
  slash_meets_spec_K17 (noHostPrefix r) (lemma_wf_noHostPrefix r hwf)

/-- K17d: before the repair, `GET http:///evil.com/x/` under PolicyRemove was redirected to `Location:
    http:///evil.com/x` (every client reads that as the host evil.com); the oracle refuses it -/
theorem slash_k17d_witness :
    (serveK17 { policy := 0, path := "/evil.com/x/".toList, pre := "http://".toList, hostSet := false, rawQuery := [], forceQuery := false }).loc
      = some "http:///evil.com/x".toList ∧
    specOK { policy := 0, path := "/evil.com/x/".toList, pre := "http://".toList, hostSet := false, rawQuery := [], forceQuery := false }
      (serveK17 { policy := 0, path := "/evil.com/x/".toList, pre := "http://".toList, hostSet := false, rawQuery := [], forceQuery := false }) = false ∧
    (serve { policy := 0, path := "/evil.com/x/".toList, pre := "http://".toList, hostSet := false, rawQuery := [], forceQuery := false }).loc
      = some "/evil.com/x".toList := by
  decide

/-- K17: as shipped, `//evil.com/` under PolicyRemove was redirected to `Location: //evil.com` -/
theorem slash_asis_witness :
    (serveAsIs { policy := 0, path := "//evil.com/".toList, pre := [], hostSet := false, rawQuery := [], forceQuery := false }).loc
      = some "//evil.com".toList ∧
    specOK { policy := 0, path := "//evil.com/".toList, pre := [], hostSet := false, rawQuery := [], forceQuery := false }
      (serveAsIs { policy := 0, path := "//evil.com/".toList, pre := [], hostSet := false, rawQuery := [], forceQuery := false }) = false := by
  decide

/-- the repaired redirect for the same request, and ordinary requests (non-vacuity) -/
example : (serve { policy := 0, path := "//evil.com/".toList, pre := [], hostSet := false, rawQuery := [], forceQuery := false }).loc
    = some "/%2Fevil.com".toList := by decide
example : (serve { policy := 0, path := "/users/".toList, pre := [], hostSet := false, rawQuery := "page=2".toList, forceQuery := false }).loc
    = some "/users?page=2".toList := by decide
example : (serve { policy := 1, path := "/a b".toList, pre := "http://h".toList, hostSet := true, rawQuery := [], forceQuery := false }).loc
    = some "http://h/a%20b/".toList := by decide
example : WellFormed { policy := 0, path := "//evil.com/".toList, pre := [], hostSet := false, rawQuery := [], forceQuery := false } :=
  ⟨by decide, by decide, fun h => by cases h⟩
example : WellFormed { policy := 0, path := "/evil.com/x/".toList, pre := "http://".toList, hostSet := false, rawQuery := [], forceQuery := false } :=
  ⟨by decide, by decide, fun h => by cases h⟩

end slash

/-! ### the default rejections on the wire (`defaultErrorHandler` / `formatSize`, `defaultUnauthorizedHandler`) -/

/-- `formatSize` rounds correctly: the advertised size, in tenths of the unit, is within half a tenth of the limit
    (`%.1f` of an exact quotient), for every byte count and every unit -/
theorem formatSize_rounds_to_nearest_tenth (bytes unit : Nat) (hu : 0 < unit) :
    2 * (bytes * 10) ≤ 2 * (Body.roundTenths bytes unit * unit) + unit ∧
    2 * (Body.roundTenths bytes unit * unit) ≤ 2 * (bytes * 10) + unit := by
  have hd := Nat.div_add_mod (bytes * 10) unit
  have hm := Nat.mod_lt (bytes * 10) hu
  have hmul : (bytes * 10 / unit) * unit = unit * (bytes * 10 / unit) := Nat.mul_comm _ _
  have hsucc : (bytes * 10 / unit + 1) * unit = unit * (bytes * 10 / unit) + unit := by
    rw [Nat.add_mul, Nat.one_mul, Nat.mul_comm]
  unfold Body.roundTenths
  simp only
  split
  · rw [hmul]; omega
  · split
    · rw [hsucc]; omega
    · split
      · rw [hmul]; omega
      · rw [hsucc]; omega

/-- ties go to the even tenth (1280 bytes = 1.25 KB is shown as 1.2KB, 1792 bytes = 1.75 KB as 1.8KB); sizes below 1 KB are
    shown in bytes, the default limit as 2.0MB -/
theorem formatSize_witnesses :
    Body.formatSize 1280 = "1.2KB".toList ∧ Body.formatSize 1792 = "1.8KB".toList ∧ Body.formatSize 1023 = "1023B".toList ∧
    Body.formatSize (2 * 1024 * 1024) = "2.0MB".toList ∧ Body.formatSize 1048575 = "1024.0KB".toList := by decide

/-- both default rejections say what the statement asks of them: 413, resp. 401 with `WWW-Authenticate` -/
theorem rejections_meet_spec (limit : Nat) (realm : Bytes) :
    Body.errSpecOK (Body.errorResponse limit) = true ∧ Auth.errSpecOK (Auth.errorResponse realm) = true := by
  constructor <;> rfl


end Rivaas.C17
